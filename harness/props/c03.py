"""C03: ray propagation is passive, delays by the time of flight, polarization transverse.

gen   : tools/gen_prop.py translates the propagation formulas of pyrex/ray_tracing.py and
        pyrex/custom/layered_ice/ray_tracing.py to coq/Gen/Gen_prop.v (fail-closed); Gen_ice.v too
prove : coq/Props/C03.v
corr  : the generated definitions + the pinned hand model (Model/PropagationModel.v and the
        Python-side replicas of the loop plumbing below) run as OCaml floats against real paths of
        all four tracers: theta, fresnel, attenuation(f) (arrays, negative f), polarization basis,
        propagate with and without attenuation interpolation (the model filters with its own
        O(N^2) DFT written in OCaml)
probe : the property itself on the implementation: output grid = input + tof, linearity in signal
        and polarization, energy, attenuation in (0,1] / even / non-increasing in |f|, |fresnel| <= 1,
        polarization vectors unit / orthogonal / transverse, for every solution of every tracer
"""
import importlib
import json
import logging
import math
import os
import random
import sys

import numpy as np

from harness import common, realextract as rx
from harness.common import REPO, ROOT

sys.path.insert(0, os.path.join(ROOT, "tools"))
logging.getLogger("pyrex").setLevel(logging.ERROR)

EPS = 2.0 ** -52
PIN_FILE = os.path.join(ROOT, "harness", "pins", "C03.json")
PINNED = [("pyrex/ray_tracing.py", "SpecializedRayTracePath.z_integral"),
          ("pyrex/ray_tracing.py", "SpecializedRayTracePath._z_int_uniform_correction"),
          ("pyrex/ray_tracing.py", "BasicRayTracePath.propagate"),
          ("pyrex/ray_tracing.py", "UniformRayTracePath.fresnel"),
          ("pyrex/ray_tracing.py", "UniformRayTracePath.attenuation"),
          ("pyrex/custom/layered_ice/ray_tracing.py", "LayeredRayTracePath.fresnel"),
          ("pyrex/custom/layered_ice/ray_tracing.py", "LayeredRayTracePath.attenuation")]
K_VERTICAL = "vertical-ray-polarization-vectors-not-unit"
K_LAYERED_T = "layered-transmission-amplitude-exceeds-1:n1.78->1.40:(0,0,-600)->(200,50,-100)"


def gen_files(scratch):
    import gen_ice
    import gen_antenna
    import gen_prop
    importlib.reload(gen_ice)
    importlib.reload(gen_antenna)
    importlib.reload(gen_prop)
    ice_text, ice_hashes = gen_ice.generate(REPO)
    text, hashes, shape = gen_prop.generate(REPO)
    return {"Gen_ice": ice_text, "Gen_prop": text}, {"hashes": hashes, "shape": shape}


def current_pins():
    from py2coq import ast_pin
    return {q: ast_pin(REPO, src, q) for src, q in PINNED}


# ---------------------------------------------------------------------------- python-side plumbing replicas
def spec_segments(path):
    """Depth grids of SpecializedRayTracePath.z_integral(..., numerical=True) -> [(zs, deep)]
    (replica of z_integral + _z_int_uniform_correction, numerical branch; pinned)."""
    def corr(z0, z1):
        zu, dz = path.z_uniform, path.dz
        if (z0 < zu) == (z1 < zu):
            n = max(int(np.abs(z1 - z0) / dz), 10)
            return [(np.linspace(z0, z1, n + 1), bool(z0 < zu))]
        n1 = max(int(np.abs(zu - z0) / dz), 10)
        n2 = max(int(np.abs(z1 - zu) / dz), 10)
        return [(np.linspace(z0, zu, n1 + 1), bool(z0 < zu)), (np.linspace(zu, z1, n2 + 1), bool(z1 < zu))]
    if path.direct:
        return corr(path.z0, path.z1)
    return corr(path.z0, path.z_turn) + corr(path.z1, path.z_turn)


def basic_freq_grid(times, interpolation):
    """frequency grid BasicRayTracePath.propagate evaluates the attenuation on (replica; pinned)"""
    import scipy.fft
    dt = times[1] - times[0]
    freqs = scipy.fft.fftfreq(2 * len(times), d=dt)
    if interpolation is None:
        return np.unique(np.concatenate((freqs, -freqs)))
    logf_min = np.log10(np.min(freqs[freqs > 0]))
    logf_max = np.log10(np.max(np.abs(freqs)))
    n_steps = int((logf_max - logf_min) / interpolation)
    if (logf_max - logf_min) % interpolation:
        n_steps += 1
    logf = np.logspace(logf_min, logf_max, n_steps + 1)
    return np.concatenate((-np.flipud(logf), [0], logf))


def layered_crossings(path):
    """boundary crossings of a LayeredRayTracePath: (kind, n_1, n_2, rz1, next sub-path's fresnel)
    (replica of the loop plumbing of LayeredRayTracePath.fresnel; pinned)"""
    out = []
    ice = path.ice
    for p1, p2 in zip(path.paths[:-1], path.paths[1:]):
        n_1 = float(p1.ice.index(p1.to_point[2]))
        rz1 = float(p1.received_direction[2])
        if np.sign(p1.received_direction[2]) != np.sign(p2.emitted_direction[2]):
            try:
                i = ice.boundaries.index(p1.to_point[2])
            except ValueError:
                for i, bound in enumerate(ice.boundaries):
                    if np.isclose(p1.to_point[2], bound, rtol=0):
                        break
                else:
                    raise
            if p1.received_direction[2] > 0:
                n_2 = ice.index_above if i == 0 else ice.layers[i - 1].index(p2.from_point[2])
            else:
                n_2 = ice.index_below if i == len(ice.layers) else ice.layers[i].index(p2.from_point[2])
            kind = "Reflects"
        else:
            n_2 = p2.ice.index(p2.from_point[2])
            kind = "Transmits"
        out.append((kind, n_1, float(n_2), rz1, p2.fresnel))
    return out


def transmission_power_weight(path):
    """product over the transmissions of a layered path of sqrt(n2 cos2 / (n1 cos1)); None for other paths"""
    if not hasattr(path, "paths"):
        return None
    w = 1.0
    for kind, n1, n2, rz1, _ in layered_crossings(path):
        if kind != "Transmits":
            continue
        c1 = abs(rz1)
        s2 = n1 / n2 * math.sqrt(max(0.0, 1 - c1 * c1))
        if s2 >= 1 or c1 == 0:
            return None
        w *= math.sqrt(n2 * math.sqrt(1 - s2 * s2) / (n1 * c1))
    return w


def fresnel_mag(n1, n2, c1, transmit=False):
    """textbook Fresnel amplitude magnitudes (|s|, |p|) for incidence cosine c1 from n1 onto n2"""
    s1 = math.sqrt(max(0.0, 1 - c1 * c1))
    s2 = n1 / n2 * s1
    c2 = complex(math.sqrt(1 - s2 * s2), 0) if s2 <= 1 else complex(0, math.sqrt(s2 * s2 - 1))
    if transmit:
        return abs(2 * n1 * c1 / (n1 * c1 + n2 * c2)), abs(2 * n1 * c1 / (n2 * c1 + n1 * c2))
    return abs((n1 * c1 - n2 * c2) / (n1 * c1 + n2 * c2)), abs((n2 * c1 - n1 * c2) / (n2 * c1 + n1 * c2))


def fresnel_magnitude_oracle(path):
    """|f_s|, |f_p| from the geometry of the path and the textbook formulas (independent of the code's expressions)"""
    from pyrex.ray_tracing import BasicRayTracePath, UniformRayTracePath
    if isinstance(path, BasicRayTracePath):
        top = path.ice.valid_range[1]
        n_top = float(path.ice.index(top))
        beta = float(path.n0 * np.sin(path.theta0))
        if path.direct or not (beta < n_top):      # turns below the surface
            return 1.0, 1.0
        return fresnel_mag(n_top, float(path.ice.index_above), math.sqrt(1 - (beta / n_top) ** 2))
    if isinstance(path, UniformRayTracePath):
        ms = mp = 1.0
        pts = [np.asarray(q, float) for q in path._points]
        for p1, p2 in zip(pts[:-2], pts[1:-1]):
            d = p2 - p1
            c1 = abs(d[2]) / float(np.linalg.norm(d))
            n2 = path.ice.index_above if d[2] > 0 else path.ice.index_below
            a, b = fresnel_mag(float(path.n0), float(n2), c1)
            ms, mp = ms * a, mp * b
        return ms, mp
    ms, mp = fresnel_magnitude_oracle(path.paths[0])
    for (kind, n1, n2, rz1, _), q in zip(layered_crossings(path), path.paths[1:]):
        a, b = fresnel_mag(n1, n2, abs(rz1), transmit=(kind == "Transmits"))
        qa, qb = fresnel_magnitude_oracle(q)
        ms, mp = ms * a * qa, mp * b * qb
    return ms, mp


def ray_integral_oracle(path, weight, beta=None):
    """integral of weight(ice, z) ds along the ray by adaptive quadrature of the ray equation
    (sin(theta) n(z) = const along a path in stratified ice), independent of the code's grids and antiderivatives"""
    import scipy.integrate
    from pyrex.ray_tracing import BasicRayTracePath, UniformRayTracePath
    if isinstance(path, UniformRayTracePath):
        tot = 0.0
        pts = [np.asarray(q, float) for q in path._points]
        for p1, p2 in zip(pts[:-1], pts[1:]):
            L = float(np.linalg.norm(p2 - p1))
            if p1[2] == p2[2]:
                tot += L * float(weight(path.ice, 0.5 * (path.ice.valid_range[0] + path.ice.valid_range[1])))
            else:
                v, _ = scipy.integrate.quad(lambda z: float(weight(path.ice, z)), min(p1[2], p2[2]), max(p1[2], p2[2]), limit=200)
                tot += v * L / abs(p2[2] - p1[2])
        return tot
    if not isinstance(path, BasicRayTracePath):
        return sum(ray_integral_oracle(q, weight) for q in path.paths)
    ice = path.ice
    if beta is None:
        beta = connecting_beta(path)[0]

    def leg(za, zb, turning):
        lo, hi = min(za, zb), max(za, zb)
        if hi == lo:
            return 0.0
        if not turning:
            g = lambda z: float(ice.index(z)) / math.sqrt(max(float(ice.index(z)) ** 2 - beta ** 2, 1e-300)) * float(weight(ice, z))
            return scipy.integrate.quad(g, lo, hi, limit=400)[0]
        # z = hi - u^2 removes the inverse-square-root singularity at the turning depth hi
        def h(u):
            z = hi - u * u
            n = float(ice.index(z))
            return n / math.sqrt(max(n * n - beta * beta, 1e-300)) * float(weight(ice, z)) * 2 * u
        return scipy.integrate.quad(h, 0.0, math.sqrt(hi - lo), limit=400)[0]
    if path.direct:
        return leg(path.z0, path.z1, False)
    top = ice.valid_range[1]
    if beta < float(ice.index(top)):                       # reaches the surface
        return leg(path.z0, top, False) + leg(path.z1, top, False)
    zt = math.log((ice.n0 - beta) / ice.k) / ice.a          # n(zt) = beta
    return leg(path.z0, zt, True) + leg(path.z1, zt, True)


_BETA_CACHE = {}


def connecting_beta(path):
    """Snell constant beta* of the ray that really JOINS the path's endpoints in the ice's own index profile, found by
    secant steps on the quadrature of the horizontal distance R(beta) = int tan(theta) dz, starting from the launch angle the
    tracer reports.  Returns (beta*, rho - R(beta*), dR/dbeta).
    Why: along the z-parametrised ray the time of flight int n^2 / sqrt(n^2 - beta^2) dz / c is ill-conditioned in beta for
    nearly horizontal rays (d ln T / d ln beta = tan^2 theta ~ 1e3); the tracer's launch angle is exact only for ITS model
    of the ice (uniform index below z_uniform, beta = 0 forms below the beta tolerance), so the ray launched at the reported
    angle in the true profile ends a few decimetres from the receiver and its travel time is not that of the path between
    the endpoints.  The time of flight between two POINTS is stationary (Fermat / Hamilton: dT/dbeta = beta dR/dbeta / c),
    so T(beta) + beta (rho - R(beta)) / c is correct to second order in the miss distance; the secant steps make the miss
    negligible and tof_oracle adds the remaining second-order term (rho - R)^2 / (c dR/dbeta) to its allowance."""
    from pyrex.ray_tracing import BasicRayTracePath
    key = id(path)
    state = (float(path.theta0), tuple(np.asarray(path.from_point, float)), tuple(np.asarray(path.to_point, float)))
    if key in _BETA_CACHE and _BETA_CACHE[key][0] == state:
        return _BETA_CACHE[key][1]
    b0 = float(path.n0 * np.sin(path.theta0))
    rho = float(path.rho)

    def R(b):
        return ray_integral_oracle(path, lambda ice, z: b / float(ice.index(z)), beta=b)
    best = (b0, float("nan"), float("nan"))
    try:
        with np.errstate(all="ignore"):
            b, r = b0, R(b0)
            dR = float("nan")
            for _ in range(4):
                h = max(abs(b) * 1e-7, 1e-10)
                nmin = min(float(path.ice.index(path.z0)), float(path.ice.index(path.z1)))
                if not path.direct:
                    h = -h                                 # stay on the side where both endpoints are still reached
                elif b + h >= nmin:
                    h = -h
                r2 = R(b + h)
                dR = (r2 - r) / h
                best = (b, rho - r, dR)
                if not np.isfinite(dR) or dR == 0 or abs(rho - r) <= 1e-9 * max(rho, 1.0):
                    break
                b_new = b + (rho - r) / dR
                if not (0 <= b_new < float(path.ice.n0)) or not np.isfinite(b_new):
                    break
                r_new = R(b_new)
                if not np.isfinite(r_new) or abs(rho - r_new) >= abs(rho - r):
                    break
                b, r = b_new, r_new
                best = (b, rho - r, dR)
    except Exception:
        pass
    if len(_BETA_CACHE) > 2000:
        _BETA_CACHE.clear()
    _BETA_CACHE[key] = (state, best)
    return best


def attenuation_exponent_oracle(path, f, latt=None):
    """integral of ds / L(z, f) along the ray; latt(ice, z) replaces ice.attenuation_length(z, f) when the attenuation
    length is to be read from the ice's current public data rather than from the method under test"""
    if latt is not None:
        return ray_integral_oracle(path, lambda ice, z: 1.0 / float(latt(ice, z)))
    return ray_integral_oracle(path, lambda ice, z: 1.0 / float(ice.attenuation_length(z, f)))


def arasim_table_length(ice, z):
    """ArasimIce's attenuation length as documented: linear interpolation of its CURRENT public table
    (atten_depths, atten_lengths) at depth -z, the end segments continued linearly outside the table"""
    xs, ys = np.asarray(ice.atten_depths, float), np.asarray(ice.atten_lengths, float)
    d = -float(z)
    i = int(np.clip(np.searchsorted(xs, d) - 1, 0, len(xs) - 2))
    return ys[i] + (ys[i + 1] - ys[i]) * (d - xs[i]) / (xs[i + 1] - xs[i])


def tof_oracle(path):
    """time of flight between the path's endpoints = integral of n ds / c along the ray joining them; for the refracted
    paths evaluated at the connecting Snell constant with the first-order (Fermat) miss correction"""
    from pyrex.ray_tracing import BasicRayTracePath
    T = ray_integral_oracle(path, lambda ice, z: float(ice.index(z)) / 299792458.0)
    if isinstance(path, BasicRayTracePath):
        b, miss, dR = connecting_beta(path)
        if np.isfinite(miss):
            T += b * miss / 299792458.0
    return T


def tof_second_order(path):
    """remaining second-order term of the Fermat correction: (rho - R)^2 / (c |dR/dbeta|) (twice the Taylor remainder)"""
    from pyrex.ray_tracing import BasicRayTracePath
    if not isinstance(path, BasicRayTracePath):
        return 0.0
    b, miss, dR = connecting_beta(path)
    if not (np.isfinite(miss) and np.isfinite(dR)) or dR == 0:
        return float("inf") if not np.isfinite(miss) else 0.0
    return miss * miss / (299792458.0 * abs(dR))


K_LOG1_TOF = "specialized-tof-log1-cancellation(C01:specialized-log1-cancellation)"


def log1_tof_bound(path):
    """Worst-case effect on tof of the open C01 finding `specialized-log1-cancellation` (SpecializedRayTracePath._int_terms
    subtracts nearly equal numbers in log_term_1 for small beta near z_uniform).  Same error model as harness/props/c01.py
    (log1_delta / log1_bound, from C01's theorem log1_stable): |error of log_term_1| <= (2.5 + 1.5 (n0^2/alpha + n_z^2/gamma))
    ulp(n0 n_z), propagated through ln(.)/a and the prefactor n0^2 / (c sqrt(alpha)), at every segment endpoint at or above
    z_uniform and at z_uniform when a segment crosses it.  0 for beta <= beta_tolerance (the logarithms are not evaluated)."""
    ice = path.ice
    n0, k, a = float(ice.n0), float(ice.k), float(ice.a)
    beta = float(path.n0 * np.sin(path.theta0))
    if beta <= 0.005 * (1 - 1e-6) or beta >= n0:
        return 0.0
    zu = float(path.z_uniform)

    def delta(z):
        n = n0 - k * math.exp(a * z)
        al, g = n0 * n0 - beta * beta, n * n - beta * beta
        if al <= 0 or g <= 1e-9 * n * n:
            return 0.0
        log1 = (beta * k * math.exp(a * z)) ** 2 / (n0 * n - beta * beta + math.sqrt(al * g))
        err = math.ulp(n0 * n) * (2.5 + 1.5 * (n0 * n0 / al + n * n / g))
        r = err / log1 if log1 > 0 else float("inf")
        return float("inf") if r >= 1 else -math.log1p(-r)
    legs = [(path.z0, path.z1, False)] if path.direct else [(path.z0, path.z_turn, True), (path.z1, path.z_turn, True)]
    tot = 0.0
    for za, zb, cut in legs:
        lo, hi = min(za, zb), max(za, zb)
        pts = [z for z in (za, zb) if z >= zu and not (cut and z == zb)]
        if lo < zu <= hi:
            pts.append(zu)
        tot += sum(delta(z) for z in pts)
    return tot / a * n0 * n0 / (math.sqrt(n0 * n0 - beta * beta) * 299792458.0)


def tof_allowance(path, T_or):
    """allowed |path.tof - quadrature|: the analytic classes (Specialized: antiderivatives, uniform-index approximation
    below z_uniform where n is within 1e-5 of n0; Uniform / Layered: n L / c) agree to rounding -> 1e-4 relative;
    BasicRayTracePath integrates on a 1 m trapezoid and stops dz/10 short of a turning point (same arc term as for
    the attenuation)"""
    from pyrex.ray_tracing import BasicRayTracePath, SpecializedRayTracePath
    if isinstance(path, BasicRayTracePath) and not isinstance(path, SpecializedRayTracePath):
        tol = 0.05 * T_or
        ice = path.ice
        beta = float(path.n0 * np.sin(path.theta0))
        if not path.direct and not beta < float(ice.index(ice.valid_range[1])):
            zt = math.log((ice.n0 - beta) / ice.k) / ice.a
            R = beta / (ice.k * ice.a * math.exp(ice.a * zt))
            tol += 4 * math.sqrt(2 * R * path.dz) * beta / 299792458.0
        return tol + tof_second_order(path)
    return 1e-4 * T_or + tof_second_order(path)


def attenuation_allowance(path, f, I_or):
    """allowed |code - quadrature| of the attenuation exponent: the code integrates on ~1 m grids (measured
    deviations: <= 0.1 % analytic-grid paths, <= 2 % BasicRayTracePath); BasicRayTracePath additionally stops
    dz/10 short of a turning point and uses a trapezoid on an inverse-square-root singular integrand there:
    both errors are bounded by a few arc lengths sqrt(2 R dz), R = n / |dn/dz| the ray's radius of curvature"""
    from pyrex.ray_tracing import BasicRayTracePath, SpecializedRayTracePath
    if isinstance(path, BasicRayTracePath) and not isinstance(path, SpecializedRayTracePath):
        tol = 0.10 * I_or + 0.005
        ice = path.ice
        beta = float(path.n0 * np.sin(path.theta0))
        if not path.direct and not beta < float(ice.index(ice.valid_range[1])):
            zt = math.log((ice.n0 - beta) / ice.k) / ice.a
            R = beta / (ice.k * ice.a * math.exp(ice.a * zt))
            tol += 4 * math.sqrt(2 * R * path.dz) / float(ice.attenuation_length(zt, f))
        return tol
    return 0.01 * I_or + 0.002


def oracle_filter(times, values, H, force_real):
    n = len(values)
    m = 2 * n
    dt = times[1] - times[0]
    k = np.arange(m)
    f = np.where(k <= (m - 1) // 2, k, k - m) / (m * dt)
    if force_real:
        resp = np.asarray(H(np.abs(f)), dtype=complex)
        resp = np.where(f < 0, np.conj(resp), resp)
    else:
        resp = np.asarray(H(f), dtype=complex)
    x = np.concatenate([values, np.zeros(n)])
    W = np.exp(-2j * np.pi * np.outer(k, np.arange(m)) / m)
    X = W @ x
    y = (np.conj(W) @ (resp * X)) / m
    return np.real(y[:n])


def filter_tol(values, scale):
    n = len(values)
    return ((2 * n) ** 2 * 8 * EPS * float(np.max(np.abs(values))) + 1e-300) * abs(scale) * 8 + 1e-300


# ---------------------------------------------------------------------------- geometry / tracers
def rand_signal(rng, n=None):
    n = n or rng.choice([2, 3, 4, 8, 16, 33, 64])
    dt = rng.choice([1e-9, 0.5e-9, 2e-9, 1e-10])
    t0 = rng.choice([0.0, 1e-7, -3e-8])
    times = t0 + dt * np.arange(n)
    vals = np.array([rng.gauss(0, 1) for _ in range(n)]) * 10 ** rng.uniform(-3, 2)
    if rng.random() < 0.2:
        vals = np.zeros(n)
        vals[rng.randrange(n)] = 1.0
    return times, vals


def rand_pol(rng):
    v = np.array([rng.gauss(0, 1) for _ in range(3)])
    k = rng.random()
    if k < 0.15:
        v = np.array([0.0, 0.0, 1.0])
    elif k < 0.3:
        v[2] = 0.0
    return v * rng.choice([1.0, 1.0, 2.5, 0.1])


def tracer_cases(rng, n_each):
    """(tag, description, tracer) triples for all four tracers"""
    from pyrex.ray_tracing import SpecializedRayTracer, BasicRayTracer, UniformRayTracer
    from pyrex.ice_model import UniformIce, AntarcticIce
    from pyrex.custom.layered_ice import LayeredIce, LayeredRayTracer
    out = []

    def pts(zlo=-1500.0, zhi=-1.0, rmax=1500.0):
        r = rng.choice([rng.uniform(1.0, rmax), rng.uniform(1.0, 100.0)])
        ph = rng.uniform(-math.pi, math.pi)
        a = [rng.choice([0.0, rng.uniform(-200, 200)]), rng.choice([0.0, rng.uniform(-200, 200)]), rng.uniform(zlo, zhi)]
        b = [a[0] + r * math.cos(ph), a[1] + r * math.sin(ph), rng.uniform(zlo, zhi)]
        return a, b
    for _ in range(n_each):
        a, b = pts()
        out.append(("specialized", {"tracer": "SpecializedRayTracer", "from": a, "to": b}, SpecializedRayTracer(a, b)))
    for _ in range(max(1, n_each // 2)):
        a, b = pts(-800.0, -20.0, 600.0)
        out.append(("basic", {"tracer": "BasicRayTracer", "from": a, "to": b}, BasicRayTracer(a, b)))
    for _ in range(n_each):
        lo = rng.choice([-1000.0, -500.0, -2850.0])
        n = rng.uniform(1.3, 1.8)
        above, below = rng.choice([1.0, 1.0, 1.2]), rng.choice([None, 1.9, 1.2, 3.0])
        a, b = pts(lo + 1, -1.0, 800.0)
        a[0], a[1] = 0.0, 0.0       # the stored points of reflected paths are relative to the launch x,y (design finding F2, not C03's)
        desc = {"tracer": "UniformRayTracer", "from": a, "to": b, "n": n, "range": [lo, 0.0], "above": above, "below": below}
        rt = UniformRayTracer(a, b, UniformIce(n, valid_range=(lo, 0.0), index_above=above, index_below=below))
        rt.max_reflections = rng.choice([1, 2, 3])
        desc["max_reflections"] = rt.max_reflections
        out.append(("uniform", desc, rt))
    for _ in range(n_each):
        nl = rng.choice([2, 2, 3])
        bounds = sorted({0.0} | {-float(rng.randrange(50, 900)) for _ in range(nl)} | {-1000.0}, reverse=True)
        ns = [round(rng.uniform(1.3, 1.8), 3) for _ in range(len(bounds) - 1)]
        layers = [UniformIce(nn, valid_range=(lo, hi)) for nn, hi, lo in zip(ns, bounds[:-1], bounds[1:])]
        a, b = pts(-990.0, -5.0, 500.0)
        desc = {"tracer": "LayeredRayTracer", "from": a, "to": b, "bounds": bounds, "indices": ns}
        out.append(("layered", desc, LayeredRayTracer(a, b, LayeredIce(layers, index_above=1.0, index_below=None))))
    return out


def fixed_cases():
    """configurations every run looks at: the two design-time findings and exactly horizontal / vertical geometry"""
    from pyrex.ray_tracing import SpecializedRayTracer, BasicRayTracer, UniformRayTracer
    from pyrex.ice_model import UniformIce
    from pyrex.custom.layered_ice import LayeredIce, LayeredRayTracer
    out = []
    out.append(("specialized", {"tracer": "SpecializedRayTracer", "from": [0.0, 0.0, -300.0], "to": [0.0, 0.0, -100.0], "vertical": True},
                SpecializedRayTracer([0.0, 0.0, -300.0], [0.0, 0.0, -100.0])))
    out.append(("basic", {"tracer": "BasicRayTracer", "from": [5.0, 5.0, -100.0], "to": [5.0, 5.0, -250.0], "vertical": True},
                BasicRayTracer([5.0, 5.0, -100.0], [5.0, 5.0, -250.0])))
    ui = UniformIce(1.5, valid_range=(-1000.0, 0.0), index_above=1.0, index_below=1.9)
    rt = UniformRayTracer([0.0, 0.0, -300.0], [0.0, 0.0, -100.0], ui)
    rt.max_reflections = 1
    out.append(("uniform", {"tracer": "UniformRayTracer", "from": [0.0, 0.0, -300.0], "to": [0.0, 0.0, -100.0], "n": 1.5, "range": [-1000.0, 0.0],
                            "above": 1.0, "below": 1.9, "max_reflections": 1, "vertical": True}, rt))
    # nearly horizontal refracted ray whose first depth grid has a single node (linspace(..., 1): step = nan)
    a, b = [0.0, 0.0, -132.43983887845013], [-28.45448658053962, 90.75169159342167, -134.05176547190752]
    out.append(("basic", {"tracer": "BasicRayTracer", "from": a, "to": b}, BasicRayTracer(a, b)))
    # both endpoints deep below z_uniform, ray nearly horizontal (secant of the ray angle ~ 170)
    a, b = [-70.27029484231639, 0.0, -881.3825847866376], [-452.3974861826025, -582.1458153110348, -877.230682432775]
    out.append(("specialized", {"tracer": "SpecializedRayTracer", "from": a, "to": b, "near_z_uniform": "deep-horizontal"}, SpecializedRayTracer(a, b)))
    # nearly vertical (beta below the tracer's beta tolerance) across z_uniform
    a, b = [0.0, 0.0, -900.0], [1.5, 0.5, -150.0]
    out.append(("specialized", {"tracer": "SpecializedRayTracer", "from": a, "to": b}, SpecializedRayTracer(a, b)))
    # endpoints within 10 dz of z_uniform, the other far across it (segment-wise minimum-step clamps)
    for name, off in (("AntarcticIce", -5.43), ("AntarcticIce", 0.0), ("GreenlandIce", -2.7)):
        ice_ = ice_by_name(name)
        zu = float(SpecializedRayTracer([0.0, 0.0, -1.0], [1.0, 0.0, -2.0], ice_).z_uniform)
        a, b = [0.0, 0.0, zu + off], [300.0, 0.0, -100.0]
        d_ = {"tracer": "SpecializedRayTracer", "from": a, "to": b, "ice": name, "near_z_uniform": off}
        if name != "AntarcticIce":
            d_["probe_only"] = True
        out.append(("specialized", d_, SpecializedRayTracer(a, b, ice_)))
    # surface reflections: total internal (far, shallow) and partial (steep)
    for a, b in (([0.0, 0.0, -50.0], [150.0, 0.0, -60.0]), ([10.0, -5.0, -300.0], [60.0, 20.0, -200.0])):
        out.append(("specialized", {"tracer": "SpecializedRayTracer", "from": a, "to": b}, SpecializedRayTracer(a, b)))
        out.append(("basic", {"tracer": "BasicRayTracer", "from": a, "to": b}, BasicRayTracer(a, b)))
    for a, b, below in (([0.0, 0.0, -100.0], [800.0, 0.0, -150.0], 1.2), ([0.0, 0.0, -400.0], [90.0, 30.0, -300.0], 1.9)):
        rt = UniformRayTracer(a, b, UniformIce(1.5, valid_range=(-1000.0, 0.0), index_above=1.0, index_below=below))
        rt.max_reflections = 2
        out.append(("uniform", {"tracer": "UniformRayTracer", "from": a, "to": b, "n": 1.5, "range": [-1000.0, 0.0], "above": 1.0, "below": below,
                                "max_reflections": 2}, rt))
    # endpoints exactly ON the bounds of the valid range (the ice's own index applies there), indices above / below differ
    for a, b in (([0.0, 0.0, -1000.0], [300.0, 40.0, -200.0]), ([0.0, 0.0, -350.0], [120.0, -60.0, 0.0]), ([0.0, 0.0, -1000.0], [500.0, 0.0, 0.0])):
        rt = UniformRayTracer(a, b, UniformIce(1.5, valid_range=(-1000.0, 0.0), index_above=1.0, index_below=2.7))
        out.append(("uniform", {"tracer": "UniformRayTracer", "from": a, "to": b, "n": 1.5, "range": [-1000.0, 0.0], "above": 1.0, "below": 2.7,
                                "max_reflections": 0}, rt))
    li = LayeredIce([UniformIce(1.4, valid_range=(-200.0, 0.0)), UniformIce(1.78, valid_range=(-1000.0, -200.0))], index_above=1.0, index_below=None)
    out.append(("layered", {"tracer": "LayeredRayTracer", "from": [0.0, 0.0, -600.0], "to": [200.0, 50.0, -100.0], "bounds": [0.0, -200.0, -1000.0],
                            "indices": [1.4, 1.78], "design_finding": "F12b"}, LayeredRayTracer([0.0, 0.0, -600.0], [200.0, 50.0, -100.0], li)))
    return out


ICE_CLASSES = ["AntarcticIce", "GreenlandIce", "ArasimIce"]


def ice_by_name(name):
    import pyrex.ice_model as im
    return getattr(im, name)()


def z_uniform_cases(rng, count):
    """SpecializedRayTracer geometries with one endpoint just below / exactly at / just above z_uniform (read from the
    tracer for each ice model) and the other endpoint far across it"""
    from pyrex.ray_tracing import SpecializedRayTracer
    out = []
    for _ in range(count):
        name = rng.choice(ICE_CLASSES)
        ice = ice_by_name(name)
        zu = float(SpecializedRayTracer([0.0, 0.0, -1.0], [1.0, 0.0, -2.0], ice).z_uniform)
        off = rng.choice([0.0, -0.3, 0.4, -2.7, 3.1, -5.43, -8.6, 9.2, -12.5, rng.uniform(-15, 15)])
        far = rng.choice([rng.uniform(-300.0, -20.0), zu - rng.uniform(300.0, 900.0)])
        r = rng.choice([0.0, rng.uniform(20.0, 800.0)])
        ph = rng.uniform(-math.pi, math.pi)
        a, b = [0.0, 0.0, zu + off], [r * math.cos(ph), r * math.sin(ph), far]
        if rng.random() < 0.5:
            a, b = b, a
        desc = {"tracer": "SpecializedRayTracer", "from": a, "to": b, "ice": name, "near_z_uniform": off}
        if name != "AntarcticIce":
            desc["probe_only"] = True            # the translated model is instantiated for AntarcticIce
        out.append(("specialized", desc, SpecializedRayTracer(a, b, ice)))
    return out


def rebuild(desc):
    from pyrex.ray_tracing import SpecializedRayTracer, BasicRayTracer, UniformRayTracer
    from pyrex.ice_model import UniformIce
    from pyrex.custom.layered_ice import LayeredIce, LayeredRayTracer
    t = desc["tracer"]
    if t == "SpecializedRayTracer":
        if desc.get("ice"):
            return SpecializedRayTracer(desc["from"], desc["to"], ice_by_name(desc["ice"]))
        return SpecializedRayTracer(desc["from"], desc["to"])
    if t == "BasicRayTracer":
        return BasicRayTracer(desc["from"], desc["to"])
    if t == "UniformRayTracer":
        rt = UniformRayTracer(desc["from"], desc["to"], UniformIce(desc["n"], valid_range=tuple(desc["range"]), index_above=desc["above"], index_below=desc["below"]))
        rt.max_reflections = desc.get("max_reflections", 0)
        return rt
    b = desc["bounds"]
    layers = [UniformIce(nn, valid_range=(lo, hi)) for nn, hi, lo in zip(desc["indices"], b[:-1], b[1:])]
    return LayeredRayTracer(desc["from"], desc["to"], LayeredIce(layers, index_above=1.0, index_below=None))


def solutions_of(rt):
    try:
        with np.errstate(all="ignore"):
            return list(rt.solutions) if rt.exists else []
    except Exception:
        return None


def call_propagate(path, signal, pol, interp):
    """F3 (C10's): only the Basic/Specialized paths accept attenuation_interpolation"""
    from pyrex.ray_tracing import BasicRayTracePath
    with np.errstate(all="ignore"):
        if isinstance(path, BasicRayTracePath):
            return path.propagate(signal=signal, polarization=pol, attenuation_interpolation=interp)
        return path.propagate(signal=signal, polarization=pol)


# ---------------------------------------------------------------------------- OCaml literals
def ov(v):
    return "((%s, %s), %s)" % (rx.ocf(v[0]), rx.ocf(v[1]), rx.ocf(v[2]))


def oc(z):
    z = complex(z)
    return "(%s, %s)" % (rx.ocf(z.real), rx.ocf(z.imag))


def olist(xs):
    return "[" + "; ".join(rx.ocf(x) for x in xs) + "]"


def oopt(v):
    return "None" if v is None else "(Some %s)" % rx.ocf(v)


def oice(ice):
    return "{M.ice_n0=%s; M.ice_k=%s; M.ice_a=%s; M.ice_valid_range=(%s,%s); M.ice_index_above=%s; M.ice_index_below=%s}" % (
        rx.ocf(ice.n0), rx.ocf(ice.k), rx.ocf(ice.a), rx.ocf(ice.valid_range[0]), rx.ocf(ice.valid_range[1]),
        oopt(ice._index_above), oopt(ice._index_below))


def ouice(ice):
    return "{M.uIce_n=%s; M.uIce_valid_range=(%s,%s); M.uIce_index_above=%s; M.uIce_index_below=%s}" % (
        rx.ocf(ice.n), rx.ocf(ice.valid_range[0]), rx.ocf(ice.valid_range[1]), oopt(ice._index_above), oopt(ice._index_below))


def opath(p):
    return ("{M.path_theta0=%s; M.path_phi=%s; M.path_n0=%s; M.path_z0=%s; M.path_z1=%s; M.path_dz=%s; M.path_direct=%s; M.path_z_turn=%s; "
            "M.path_z_turn_proximity=%s; M.path_tof=%s; M.path_ice=%s; M.path_emitted_direction=%s; M.path_received_direction=%s}") % (
        rx.ocf(p.theta0), rx.ocf(p.phi), rx.ocf(p.n0), rx.ocf(p.z0), rx.ocf(p.z1), rx.ocf(p.dz), "true" if p.direct else "false", rx.ocf(p.z_turn),
        rx.ocf(p.z_turn_proximity), rx.ocf(p.tof), oice(p.ice), ov(p.emitted_direction), ov(p.received_direction))


def oupath(p, pref="uPath", ice=None):
    ice = ice if ice is not None else p.ice
    from pyrex.ice_model import UniformIce
    ice_lit = ouice(ice) if isinstance(ice, UniformIce) and hasattr(ice, "n") else ouice(_dummy_uice())
    return "{M.%s_n0=%s; M.%s_phi=%s; M.%s_tof=%s; M.%s_ice=%s; M.%s_emitted_direction=%s; M.%s_received_direction=%s}" % (
        pref, rx.ocf(p.n0), pref, rx.ocf(p.phi), pref, rx.ocf(p.tof), pref, ice_lit, pref, ov(p.emitted_direction), pref, ov(p.received_direction))


def _dummy_uice():
    from pyrex.ice_model import UniformIce
    return UniformIce(1.5, valid_range=(-1.0, 0.0))


def opoints(p):
    return "[" + "; ".join(ov(q) for q in p._points) + "]"


OCAML_EXTRA = r'''
let prc2 ((a, b), (c, d)) = Printf.printf "%h %h %h %h\n" a b c d
let pro2 = function None -> print_string "None\n" | Some x -> prc2 x
let prbasis ((((((a1,a2),a3), ((b1,b2),b3)), ((c1,c2),c3)), ps), pp) =
  Printf.printf "%h %h %h %h %h %h %h %h %h %h %h\n" a1 a2 a3 b1 b2 b3 c1 c2 c3 ps pp
let dft_filter g fr s =
  let xs = Array.of_list s.M.sg_values in
  let ts = Array.of_list s.M.sg_times in
  let n = Array.length xs in let m = 2 * n in
  let dt = ts.(1) -. ts.(0) in
  let pi = 4.0 *. atan 1.0 in
  let freq k = if k <= (m - 1) / 2 then float_of_int k /. (float_of_int m *. dt) else -. (float_of_int (m - k)) /. (float_of_int m *. dt) in
  let resp k = let f = freq k in
    if fr then (let (a, b) = g (abs_float f) in if f < 0.0 then (a, -. b) else (a, b)) else g f in
  let yr = Array.make m 0.0 and yi = Array.make m 0.0 in
  for k = 0 to m - 1 do
    let xr = ref 0.0 and xi = ref 0.0 in
    for j = 0 to n - 1 do
      let ang = -. 2.0 *. pi *. float_of_int ((k * j) mod m) /. float_of_int m in
      xr := !xr +. xs.(j) *. cos ang; xi := !xi +. xs.(j) *. sin ang
    done;
    let (hr, hi) = resp k in
    yr.(k) <- hr *. !xr -. hi *. !xi; yi.(k) <- hr *. !xi +. hi *. !xr
  done;
  let out = Array.make n 0.0 in
  for j = 0 to n - 1 do
    let acc = ref 0.0 in
    for k = 0 to m - 1 do
      let ang = 2.0 *. pi *. float_of_int ((k * j) mod m) /. float_of_int m in
      acc := !acc +. (yr.(k) *. cos ang -. yi.(k) *. sin ang)
    done;
    out.(j) <- !acc /. float_of_int m
  done;
  {s with M.sg_values = Array.to_list out}
let prprop ((os, op), (us, up)) =
  List.iter (Printf.printf "%h ") os.M.sg_values; List.iter (Printf.printf "%h ") op.M.sg_values;
  List.iter (Printf.printf "%h ") os.M.sg_times; List.iter (Printf.printf "%h ") op.M.sg_times;
  let ((a,b),c) = us in let ((d,e),f) = up in Printf.printf "%h %h %h %h %h %h\n" a b c d e f
'''

FUNCS = ["BasicRayTracePath_theta", "BasicRayTracePath_fresnel", "BasicRayTracePath_attenuation", "specialized_attenuation",
         "uniform_fresnel", "uniform_attenuation", "layered_fresnel", "layered_attenuation",
         "BasicRayTracePath_pol_basis", "UniformRayTracePath_pol_basis", "LayeredRayTracePath_pol_basis",
         "BasicRayTracePath_propagate_both", "UniformRayTracePath_propagate_both", "LayeredRayTracePath_propagate_both"]


def osig(times, vals, vt=2):
    z = {0: "M.Z0", 1: "(M.Zpos M.XH)", 2: "(M.Zpos (M.XO M.XH))", 3: "(M.Zpos (M.XI M.XH))"}[vt]
    return "{M.sg_times=%s; M.sg_values=%s; M.sg_type=%s}" % (olist(times), olist(vals), z)


def layered_model_parts(path):
    """OCaml expressions for the layered path's Fresnel factors and attenuation (uniform sub-paths only)"""
    from pyrex.ray_tracing import UniformRayTracePath
    if not all(isinstance(q, UniformRayTracePath) for q in path.paths):
        return None
    first = "(match M.uniform_fresnel %s %s with Some x -> x | None -> failwith \"fresnel\")" % (oupath(path.paths[0]), opoints(path.paths[0]))
    cs = []
    for (kind, n1, n2, rz1, nxt), q in zip(layered_crossings(path), path.paths[1:]):
        cs.append("{M.cr_kind=M.%s; M.cr_n1=%s; M.cr_n2=%s; M.cr_rz1=%s; M.cr_next=(match M.uniform_fresnel %s %s with Some x -> x | None -> failwith \"fresnel\")}" % (
            kind, rx.ocf(n1), rx.ocf(n2), rx.ocf(rz1), oupath(q), opoints(q)))
    fres = "(M.layered_fresnel %s [%s])" % (first, "; ".join(cs))
    att = "(fun f -> M.layered_attenuation [%s])" % "; ".join("M.uniform_attenuation %s f 1.0 %s" % (oupath(q), opoints(q)) for q in path.paths)
    return fres, att


# ---------------------------------------------------------------------------- correspondence
def correspondence(ctx, cases_in):
    from pyrex.ray_tracing import BasicRayTracePath, SpecializedRayTracePath, UniformRayTracePath
    import pyrex
    rng = ctx.rng
    cases, checks = [], []
    dist = {"paths": {}, "fresnel": 0, "attenuation": 0, "theta": 0, "pol_basis": 0, "propagate": {}, "tir": 0, "reflected": 0}
    freqs_fixed = [1e6, 5e7, 1e8, 3e8, 999e6, 1e9, 1.0001e9, 3e9, -2e8, -1e9]
    for tag, desc, rt in cases_in:
        if desc.get("probe_only"):
            continue
        sols = solutions_of(rt)
        if not sols:
            continue
        for si, path in enumerate(sols):
            kind = type(path).__name__
            dist["paths"][kind] = dist["paths"].get(kind, 0) + 1
            meta = {"geometry": desc, "solution": si, "class": kind}
            fs = [float(f) for f in rng.sample(freqs_fixed, 3)] + [float(10 ** rng.uniform(6, 9.5))]
            with np.errstate(all="ignore"):
                fres = path.fresnel
                att = [float(a) for a in np.atleast_1d(path.attenuation(np.array(fs)))]
            is_basic_only = isinstance(path, BasicRayTracePath) and not isinstance(path, SpecializedRayTracePath)
            model_fres = model_att = None
            if isinstance(path, BasicRayTracePath):
                # the fresnel property and theta are BasicRayTracePath's for both classes
                cases.append("prc2 (M.basicRayTracePath_fresnel %s)" % opath(path))
                checks.append(("fresnel", meta, (complex(fres[0]), complex(fres[1]))))
                model_fres = "(M.basicRayTracePath_fresnel %s)" % opath(path)
                z = float(rng.uniform(min(path.z0, path.z1), max(path.z0, path.z1)))
                cases.append("pr (M.basicRayTracePath_theta %s %s)" % (opath(path), rx.ocf(z)))
                with np.errstate(all="ignore"):
                    checks.append(("theta", dict(meta, z=z), (float(path.theta(z)),)))
                dist["theta"] += 1
                if not path.direct:
                    dist["reflected"] += 1
                    if abs(abs(complex(fres[0])) - 1) < 1e-12 and complex(fres[0]).imag != 0:
                        dist["tir"] += 1
                if is_basic_only:
                    cases.append("(let p = %s in List.iter (fun f -> Printf.printf \"%%h \" (M.basicRayTracePath_attenuation p f)) %s; print_newline ())" % (opath(path), olist(fs)))
                else:
                    segs = "[" + "; ".join("(%s, %s)" % (olist(zs), "true" if deep else "false") for zs, deep in spec_segments(path)) + "]"
                    cases.append("(let segs = %s in List.iter (fun f -> Printf.printf \"%%h \" (M.specialized_attenuation f %s %s segs)) %s; print_newline ())" % (
                        segs, rx.ocf(path.beta), oice(path.ice), olist(fs)))
                checks.append(("attenuation", dict(meta, f=fs), tuple(att)))
                basis_fn, prop_fn, rec = "M.basicRayTracePath_pol_basis", "M.basicRayTracePath_propagate_both", opath(path)
            elif isinstance(path, UniformRayTracePath):
                cases.append("pro2 (M.uniform_fresnel %s %s)" % (oupath(path), opoints(path)))
                checks.append(("fresnel", meta, (complex(fres[0]), complex(fres[1]))))
                if len(path._points) > 2:
                    dist["reflected"] += 1
                    if complex(fres[0]).imag != 0:
                        dist["tir"] += 1
                cases.append("(List.iter (fun f -> Printf.printf \"%%h \" (M.uniform_attenuation %s f 1.0 %s)) %s; print_newline ())" % (oupath(path), opoints(path), olist(fs)))
                checks.append(("attenuation", dict(meta, f=fs), tuple(att)))
                model_fres = "(match M.uniform_fresnel %s %s with Some x -> x | None -> failwith \"fresnel\")" % (oupath(path), opoints(path))
                model_att = "(fun f -> M.uniform_attenuation %s f 1.0 %s)" % (oupath(path), opoints(path))
                basis_fn, prop_fn, rec = "M.uniformRayTracePath_pol_basis", "M.uniformRayTracePath_propagate_both", oupath(path)
            else:
                parts = layered_model_parts(path)
                if parts is None:
                    continue
                model_fres, model_att = parts
                cases.append("prc2 %s" % model_fres)
                checks.append(("fresnel", meta, (complex(fres[0]), complex(fres[1]))))
                cases.append("(let att = %s in List.iter (fun f -> Printf.printf \"%%h \" (att f)) %s; print_newline ())" % (model_att, olist(fs)))
                checks.append(("attenuation", dict(meta, f=fs), tuple(att)))
                basis_fn, prop_fn, rec = "M.layeredRayTracePath_pol_basis", "M.layeredRayTracePath_propagate_both", oupath(path, "lPath", ice=_dummy_uice())
            dist["fresnel"] += 1
            dist["attenuation"] += len(fs)
            # polarization basis + propagate on one short signal
            pol = rand_pol(rng)
            times, vals = rand_signal(rng, rng.choice([2, 3, 4, 8, 16]))
            interp = rng.choice([None, None, 0.01, 0.1, 0.3, 1.0]) if isinstance(path, BasicRayTracePath) else None
            sig = pyrex.Signal(times, vals, value_type=pyrex.Signal.Type.field)
            try:
                (ss, sp), (us, up) = call_propagate(path, sig, pol, interp)
            except Exception as e:
                ctx.oblige("corr:propagate-call", False, "propagate raised %r for %s" % (e, json.dumps(meta, default=str)))
                continue
            cases.append("prbasis (%s %s %s)" % (basis_fn, rec, ov(pol)))
            checks.append(("basis", dict(meta, polarization=[float(v) for v in pol]), (us, up)))
            dist["pol_basis"] += 1
            if isinstance(path, BasicRayTracePath):
                grid = basic_freq_grid(times, interp)
                with np.errstate(all="ignore"):
                    av = np.asarray(path.attenuation(grid), float)
                call = "%s dft_filter %s %s %s %s %s %s" % (prop_fn, rec, osig(times, vals), ov(pol), model_fres, olist(grid), olist(av))
            else:
                call = "%s dft_filter %s %s %s %s %s" % (prop_fn, rec, osig(times, vals), ov(pol), model_fres, model_att)
            cases.append("prprop (%s)" % call)
            scale = float(np.linalg.norm(pol)) * max(1.0, abs(complex(fres[0])), abs(complex(fres[1])))
            checks.append(("propagate", dict(meta, polarization=[float(v) for v in pol], times=[float(t) for t in times], values=[float(v) for v in vals],
                                             attenuation_interpolation=interp, tol=filter_tol(vals, scale)),
                           (np.concatenate([ss.values, sp.values]), np.concatenate([ss.times, sp.times]), us, up)))
            kk = "%s:%s" % (kind, "interp=%s" % interp)
            dist["propagate"][kk] = dist["propagate"].get(kk, 0) + 1
    old = rx.OCAML_PRELUDE
    rx.OCAML_PRELUDE = old + OCAML_EXTRA
    try:
        # batches keep the generated OCaml compilation units small (long depth-grid literals)
        res, batch, size = [], [], 0
        batches = []
        for c_ in cases:
            if batch and (len(batch) >= 400 or size + len(c_) > 3_000_000):
                batches.append(batch)
                batch, size = [], 0
            batch.append(c_)
            size += len(c_)
        if batch:
            batches.append(batch)
        for bi, b_ in enumerate(batches):
            res += rx.run(ctx, "From PyrexGen Require Import Gen_ice Gen_prop.\nFrom PyrexModel Require Import PropagationModel.", FUNCS, b_, name="prop%d" % bi)
    finally:
        rx.OCAML_PRELUDE = old
    bad = {}

    def disagree(kind, meta, model, impl):
        bad[kind] = bad.get(kind, 0) + 1
        if bad[kind] <= 3:
            ctx.oblige("corr:%s" % kind, False, "model and implementation disagree: model=%s impl=%s at %s" % (
                str(model)[:300], str(impl)[:300], json.dumps(meta, default=str)[:900]))
    for (kind, meta, exp), r in zip(checks, res):
        ctx.case(key=(kind, json.dumps(meta, sort_keys=True, default=str)), sample={"kind": kind, "case": meta, "model": str(r)[:200], "impl": str(exp)[:200]})
        if r in ("EXC", "None"):
            disagree(kind, meta, r, exp)
            continue
        if kind == "fresnel":
            m = (complex(r[0], r[1]), complex(r[2], r[3]))
            if not all(abs(a - b) <= 1e-9 * max(1.0, abs(b)) for a, b in zip(m, exp)):
                disagree(kind, meta, m, exp)
        elif kind == "theta":
            ok = (math.isnan(r[0]) and math.isnan(exp[0])) or abs(r[0] - exp[0]) <= 1e-12 + 64 * EPS / max(abs(math.cos(exp[0])), 1e-8)
            if not ok:
                disagree(kind, meta, r, exp)
        elif kind == "attenuation":
            # exp(-I): relative error of the result = absolute error of I ~ (nodes * eps * I) <= 1e-9 (1 + I)
            okA = len(r) == len(exp)
            for rv, ev in zip(r, exp):
                I = -math.log(ev) if ev > 0 else 750.0
                okA = okA and abs(rv - ev) <= 1e-9 * (1 + I) * max(ev, 1e-300) + 1e-300
            if not okA:
                disagree(kind, meta, r, exp)
        elif kind == "basis":
            us, up = exp
            m_us, m_p1 = np.array(r[0:3]), np.array(r[6:9])
            if not (np.allclose(m_us, us, atol=1e-12, rtol=0) and np.allclose(m_p1, up, atol=1e-12, rtol=0)):
                disagree(kind, meta, r, exp)
        elif kind == "propagate":
            vals_i, times_i, us, up = exp
            n = len(meta["values"])
            mv, mt = np.array(r[:2 * n]), np.array(r[2 * n:4 * n])
            ok = len(r) == 4 * n + 6 and np.all(np.abs(mv - vals_i) <= meta["tol"]) and np.array_equal(mt, times_i) \
                and np.allclose(np.array(r[4 * n:4 * n + 3]), us, atol=1e-12, rtol=0) and np.allclose(np.array(r[4 * n + 3:]), up, atol=1e-12, rtol=0)
            if not ok:
                disagree(kind, meta, r, (list(vals_i), list(times_i)))
    for k in ("fresnel", "theta", "attenuation", "basis", "propagate"):
        ctx.oblige("corr:%s(%d cases)" % (k, sum(1 for c in checks if c[0] == k)), bad.get(k, 0) == 0, "%d disagreements" % bad.get(k, 0))
    ctx.extra["correspondence_distribution"] = dist
    ctx.extra["correspondence_tolerance"] = ("fresnel 1e-9; theta 64 eps / cos; attenuation 1e-9 (1 + I) relative; basis 1e-12; "
                                             "propagate values (2N)^2 8 eps max|x| |pol| max(1,|fresnel|) x8, times exact")
    return not bad


# ---------------------------------------------------------------------------- probes
def probes(ctx, cases_in):
    import pyrex
    from pyrex.ray_tracing import BasicRayTracePath
    rng = ctx.rng
    stats = {"paths": 0, "grid": 0, "linearity": 0, "energy": 0, "attenuation": 0, "fresnel": 0, "pol_vectors": 0, "factor": 0,
             "no_solution_geometries": 0, "tracer_errors": 0}
    ladder = np.array([1e5, 1e6, 1e7, 5e7, 1e8, 2e8, 3e8, 5e8, 7e8, 9e8, 9.99e8, 1e9, 1.001e9, 1.5e9, 3e9, 1e10])
    for tag, desc, rt in cases_in:
        sols = solutions_of(rt)
        if sols is None:
            stats["tracer_errors"] += 1
            continue
        if not sols:
            stats["no_solution_geometries"] += 1
            continue
        for si, path in enumerate(sols):
            stats["paths"] += 1
            kind = type(path).__name__
            base = {"geometry": desc, "solution": si, "class": kind}
            ctx.case(key=("probe", json.dumps(base, sort_keys=True, default=str)))
            with np.errstate(all="ignore"):
                tof = float(path.tof)
                e, r = np.asarray(path.emitted_direction, float), np.asarray(path.received_direction, float)
                fres = tuple(complex(z) for z in path.fresnel)
                a_up = np.asarray(path.attenuation(ladder), float)
                a_dn = np.asarray(path.attenuation(-ladder), float)
                a0 = np.asarray(path.attenuation(np.array([0.0, 3e8])), float)
            # attenuation in (0,1], even, non-increasing
            stats["attenuation"] += 1
            okA = np.all(a_up >= 0) and np.all(a_up <= 1) and np.all(np.isfinite(a_up))
            for j in np.where(a_up == 0)[0]:
                # exp(-I) underflows to 0.0 in binary64 for I > 745: only then is a zero acceptable
                try:
                    okA = okA and attenuation_exponent_oracle(path, float(ladder[j])) > 700
                except Exception:
                    okA = False
            if not okA:
                ctx.fail("attenuation-range:%s:%d" % (tag, si), "%s attenuation outside (0,1]: %s" % (kind, a_up.tolist()), {"kind": "attenuation", **base})
            if not np.all(np.abs(a_up - a_dn) <= 4 * EPS * a_up):
                ctx.fail("attenuation-even:%s:%d" % (tag, si), "%s attenuation(f) != attenuation(-f)" % kind, {"kind": "attenuation", **base})
            I = -np.log(np.maximum(a_up, 1e-300))
            if not np.all(a_up[1:] <= a_up[:-1] * (1 + 1e-9 * (1 + I[:-1]))):
                j = int(np.argmax(a_up[1:] > a_up[:-1] * (1 + 1e-9 * (1 + I[:-1]))))
                ctx.fail("attenuation-monotone:%s:%d" % (tag, si), "%s attenuation grows with |f|: a(%g)=%r < a(%g)=%r" % (kind, ladder[j], a_up[j], ladder[j + 1], a_up[j + 1]),
                         {"kind": "attenuation", **base})
            if not (0 < a0[0] <= 1 and a0[0] >= a0[1] * (1 - 1e-12)):
                ctx.fail("attenuation-dc:%s:%d" % (tag, si), "%s attenuation(0)=%r" % (kind, a0[0]), {"kind": "attenuation", **base})
            # towards f = 0: for the ice models whose attenuation length is exp(-(a + b ln f)) with b > 0 (AntarcticIce,
            # UniformIce, and layers of them) L -> infinity, so the DC component is not attenuated at all: factor exactly 1,
            # and the factor can only fall from there as f grows (also for very small f)
            with np.errstate(all="ignore"):
                tiny = np.asarray(path.attenuation(np.array([0.0, 1e-6, 1e-3, 1.0, 1e3, 1e5])), float)
            ices = [q.ice for q in path.paths] if hasattr(path, "paths") else [path.ice]
            if all(type(i_).__name__ in ("AntarcticIce", "UniformIce") for i_ in ices):
                stats["dc_exact"] = stats.get("dc_exact", 0) + 1
                if not tiny[0] == 1.0:
                    ctx.fail("attenuation-dc-not-1:%s:%d" % (tag, si), "%s attenuation(f = 0) = %r, but the attenuation length diverges as f -> 0, so the zero-frequency component must pass unchanged (factor exactly 1)" % (kind, float(tiny[0])),
                             {"kind": "attenuation", **base, "f": 0.0})
            if not (np.all(tiny[1:] <= tiny[:-1] * (1 + 1e-12)) and np.all(tiny > 0) and np.all(tiny <= 1)):
                ctx.fail("attenuation-tiny-f:%s:%d" % (tag, si), "%s attenuation at f = 0, 1e-6, 1e-3, 1, 1e3, 1e5 Hz is %s: not in (0,1] / not non-increasing in f" % (kind, tiny.tolist()),
                         {"kind": "attenuation", **base})
            # |fresnel| <= 1
            stats["fresnel"] += 1
            mx = max(abs(fres[0]), abs(fres[1]))
            known_t = False
            if not mx <= 1 + 1e-12:
                key = "fresnel-gt-1:%s:%s" % (tag, json.dumps(desc, sort_keys=True, default=str)[:160])
                # the open finding F12b as a class: the excess is entirely due to transmission AMPLITUDES into a
                # lower index, i.e. with each transmission weighted by sqrt(n2 cos2 / (n1 cos1)) (power) the
                # product is within the unit disc
                pw = transmission_power_weight(path)
                if pw is not None and mx * pw <= 1 + 1e-9:
                    key, known_t = K_LAYERED_T, True
                ctx.fail(key, "%s Fresnel coefficient of magnitude %.6g > 1 (s: %r, p: %r)" % (kind, mx, fres[0], fres[1]), {"kind": "fresnel", **base})
            else:
                try:
                    os_, op_ = fresnel_magnitude_oracle(path)
                    if not (abs(abs(fres[0]) - os_) <= 1e-7 * max(1.0, os_) and abs(abs(fres[1]) - op_) <= 1e-7 * max(1.0, op_)):
                        ctx.fail("fresnel-magnitude:%s:%d:%s" % (tag, si, json.dumps(desc, sort_keys=True, default=str)[:120]),
                                 "%s Fresnel magnitudes (%.9g, %.9g) differ from the textbook coefficients for this geometry (%.9g, %.9g)" % (
                                     kind, abs(fres[0]), abs(fres[1]), os_, op_), {"kind": "fresnel", **base})
                except Exception as ex:
                    stats["oracle_errors"] = stats.get("oracle_errors", 0) + 1
            # attenuation exponent against an independent quadrature of the ray equation (allowance for the code's
            # 1 m trapezoid / Riemann grids and its cut-off near the turning point: 10 % + 0.005)
            if stats["paths"] % max(1, ctx.n(2, 1)) == 0 or desc.get("near_z_uniform") is not None:
                try:
                    fq = float(rng.choice([1e8, 3e8, 7e8, 2e9]))
                    with np.errstate(all="ignore"):
                        I_code = -math.log(float(np.atleast_1d(path.attenuation(np.array([fq])))[0]))
                        I_or = attenuation_exponent_oracle(path, fq)
                    stats["attenuation_oracle"] = stats.get("attenuation_oracle", 0) + 1
                    if not abs(I_code - I_or) <= attenuation_allowance(path, fq, I_or):
                        ctx.fail("attenuation-value:%s:%d:%s" % (tag, si, json.dumps(desc, sort_keys=True, default=str)[:120]),
                                 "%s attenuation exponent at %g Hz is %.6g, quadrature of ds/L along the ray gives %.6g" % (kind, fq, I_code, I_or),
                                 {"kind": "attenuation", **base, "f": fq})
                except Exception as ex:
                    stats["oracle_errors"] = stats.get("oracle_errors", 0) + 1
            # the delay that propagate() applies is judged against an independent time of flight: quadrature of n ds / c
            try:
                with np.errstate(all="ignore"):
                    T_or = tof_oracle(path)
                stats["tof_oracle"] = stats.get("tof_oracle", 0) + 1
                if not abs(tof - T_or) <= tof_allowance(path, T_or):
                    key = "tof-value:%s:%d:%s" % (tag, si, json.dumps(desc, sort_keys=True, default=str)[:120])
                    from pyrex.ray_tracing import SpecializedRayTracePath
                    if isinstance(path, SpecializedRayTracePath) and abs(tof - T_or) <= tof_allowance(path, T_or) + log1_tof_bound(path):
                        key = K_LOG1_TOF          # C01's open finding, within its derived worst-case bound
                        stats["tof_within_log1_bound"] = stats.get("tof_within_log1_bound", 0) + 1
                    ctx.fail(key,
                             "%s: the delay propagate() applies (path.tof = %.9g s) is not the time of flight, integral of n ds / c along the ray = %.9g s (relative difference %.3g)" % (
                                 kind, tof, T_or, abs(tof - T_or) / T_or), {"kind": "tof", **base})
            except Exception as ex:
                stats["oracle_errors"] = stats.get("oracle_errors", 0) + 1
                stats.setdefault("oracle_error_sample", repr(ex)[:300])
            # polarization vectors
            pol = rand_pol(rng)
            with np.errstate(all="ignore"):
                us, up = path.propagate(polarization=pol)
            us, up = np.asarray(us, float), np.asarray(up, float)
            stats["pol_vectors"] += 1
            defects = []
            if not abs(np.dot(us, us) - 1) <= 1e-9:
                defects.append("|u_s|^2=%r" % float(np.dot(us, us)))
            if not abs(np.dot(up, up) - 1) <= 1e-9:
                defects.append("|u_p|^2=%r" % float(np.dot(up, up)))
            if not abs(np.dot(us, up)) <= 1e-9:
                defects.append("u_s.u_p=%r" % float(np.dot(us, up)))
            if not abs(np.dot(us, r)) <= 1e-9 or not abs(np.dot(up, r)) <= 1e-9:
                defects.append("u_s.r=%r u_p.r=%r" % (float(np.dot(us, r)), float(np.dot(up, r))))
            if defects:
                vertical = abs(e[0]) + abs(e[1]) == 0.0
                key = K_VERTICAL if vertical else "pol-vectors:%s:%d:%s" % (tag, si, json.dumps(desc, sort_keys=True, default=str)[:160])
                ctx.fail(key, "%s polarization vectors are not unit / orthogonal / transverse (%s); emitted direction %s" % (kind, ", ".join(defects), e.tolist()),
                         {"kind": "pol_vectors", **base, "polarization": [float(v) for v in pol]})
            # propagate: grid, linearity, energy, factor
            times, x = rand_signal(rng)
            _, y = rand_signal(rng, len(x))
            a, b = rng.choice([1.0, -1.0, 2.0, rng.uniform(-3, 3)]), rng.choice([1.0, 0.0, rng.uniform(-3, 3)])
            q = rand_pol(rng)
            interp = rng.choice([None, 0.01, 0.03, 0.1, 0.3, 1.0, 2.5]) if isinstance(path, BasicRayTracePath) else None
            rep = {"kind": "propagate", **base, "times": [float(t) for t in times], "x": [float(v) for v in x], "y": [float(v) for v in y], "a": a, "b": b,
                   "polarization": [float(v) for v in pol], "polarization2": [float(v) for v in q], "attenuation_interpolation": interp}

            def run(vals, p):
                s = pyrex.Signal(times, vals, value_type=pyrex.Signal.Type.field)
                (ss, sp), _ = call_propagate(path, s, p, interp)
                return ss, sp, s
            try:
                xs, xp, sx = run(x, pol)
                ys, yp, _ = run(y, pol)
                cs, cp, _ = run(a * x + b * y, pol)
                qs, qp, _ = run(x, q)
                ms, mp, _ = run(x, a * pol + b * q)
            except Exception as ex:
                ctx.fail("propagate-raises:%s:%d" % (tag, si), "%s.propagate raised %r" % (kind, ex), rep)
                continue
            stats["grid"] += 1
            want_t = times + tof
            if not (np.array_equal(xs.times, want_t) and np.array_equal(xp.times, want_t) and len(xs.values) == len(x) == len(xp.values)
                    and np.array_equal(sx.times, times) and np.array_equal(sx.values, x)):
                ctx.fail("grid:%s:%d" % (tag, si), "%s.propagate output times are not input times + tof (or the input was modified): first output time %r, expected %r" % (
                    kind, float(xs.times[0]), float(want_t[0])), rep)
            stats["linearity"] += 1
            sc = (abs(a) * (np.max(np.abs(xs.values)) + np.max(np.abs(xp.values))) + abs(b) * (np.max(np.abs(ys.values)) + np.max(np.abs(yp.values))))
            tol = 1e-9 * sc + filter_tol(x, abs(a) * np.linalg.norm(pol)) + filter_tol(y, abs(b) * np.linalg.norm(pol))
            err = max(np.max(np.abs(cs.values - (a * xs.values + b * ys.values))), np.max(np.abs(cp.values - (a * xp.values + b * yp.values))))
            if not err <= tol:
                ctx.fail("linear-signal:%s:%d" % (tag, si), "%s.propagate is not linear in the signal: error %.3g > %.3g" % (kind, err, tol), rep)
            sc = abs(a) * (np.max(np.abs(xs.values)) + np.max(np.abs(xp.values))) + abs(b) * (np.max(np.abs(qs.values)) + np.max(np.abs(qp.values)))
            tol = 1e-9 * sc + filter_tol(x, abs(a) * np.linalg.norm(pol) + abs(b) * np.linalg.norm(q))
            err = max(np.max(np.abs(ms.values - (a * xs.values + b * qs.values))), np.max(np.abs(mp.values - (a * xp.values + b * qp.values))))
            if not err <= tol:
                ctx.fail("linear-polarization:%s:%d" % (tag, si), "%s.propagate is not linear in the polarization vector: error %.3g > %.3g" % (kind, err, tol), rep)
            stats["energy"] += 1
            e_out = float(np.sum(xs.values ** 2) + np.sum(xp.values ** 2))
            e_in = float(np.dot(pol, pol) * np.sum(x ** 2))
            if not e_out <= e_in * (1 + 1e-9) + 1e-300:
                key = "energy:%s:%d:%s" % (tag, si, json.dumps(desc, sort_keys=True, default=str)[:160])
                if known_t and e_out <= e_in * mx * mx * (1 + 1e-9):
                    key = K_LAYERED_T
                ctx.fail(key, "%s.propagate output carries more energy than the input: %.6g > |pol|^2 * %.6g" % (kind, e_out, float(np.sum(x ** 2))), rep)
            # the factor: s/p split by geometry, response = attenuation(|f|) x fresnel, delay only in the time stamps
            if abs(e[0]) + abs(e[1]) > 1e-6:
                stats["factor"] += 1
                us_o = np.cross(e, [0, 0, 1.0])
                us_o = us_o / np.linalg.norm(us_o)
                up_o = np.cross(us_o, e)
                up_o = up_o / np.linalg.norm(up_o)
                if interp is None or not isinstance(path, BasicRayTracePath):
                    def A(f):
                        with np.errstate(all="ignore"):
                            return np.asarray(path.attenuation(np.asarray(f, float)), float)
                else:
                    grid = basic_freq_grid(times, interp)
                    with np.errstate(all="ignore"):
                        av = np.asarray(path.attenuation(grid), float)

                    def A(f):
                        return np.interp(f, grid, av)
                ws = oracle_filter(times, x * float(np.dot(pol, us_o)), lambda f: A(f) * fres[0], True)
                wp = oracle_filter(times, x * float(np.dot(pol, up_o)), lambda f: A(f) * fres[1], True)
                tol = filter_tol(x, np.linalg.norm(pol) * max(1.0, mx)) + 1e-9 * (np.max(np.abs(ws)) + np.max(np.abs(wp)))
                err = max(np.max(np.abs(xs.values - ws)), np.max(np.abs(xp.values - wp)))
                if not err <= tol:
                    ctx.fail("factor:%s:%d" % (tag, si), "%s.propagate output is not (s/p amplitude) x attenuation(|f|) x Fresnel applied per frequency: error %.3g > %.3g" % (kind, err, tol), rep)
    ctx.extra["probe_counts"] = stats
    ctx.oblige("probe:oracles-ran", stats.get("oracle_errors", 0) == 0, "%d oracle evaluations raised: %s" % (stats.get("oracle_errors", 0), stats.get("oracle_error_sample", "")))


# ---------------------------------------------------------------------------- inputs of every Signal kind
INPUT_KINDS = ["signal", "empty", "signal:int-values", "function:gauss", "function:triangle", "function:buffered", "function:sum", "function:scaled",
               "askaryan", "noise"]


def make_input(kind, rng):
    """An input signal for propagate() together with independently known samples.
    Returns (signal, groups, times) where groups = [(ext_times, sample, n_before)]: for every function group its
    own (buffer-extended) grid and a function sample(t) giving the group's values at the times t, known from the
    analytic function / a twin object, never read from the object that is handed to propagate().  (A lazy signal
    is evaluated at time stamp minus delay, so the expected samples are sample((t + tof) - tof).)"""
    import pyrex
    n = rng.choice([4, 8, 16, 31, 48, 64])
    dt = rng.choice([1e-9, 0.5e-9, 2e-9])
    t0 = rng.choice([0.0, 1e-7, -3e-8])
    times = t0 + dt * np.arange(n)
    tc, w, f0 = t0 + rng.uniform(0.3, 0.7) * n * dt, rng.uniform(1.5, 5) * dt, rng.uniform(0.05, 0.3) / dt
    amp = 10 ** rng.uniform(-2, 2)

    def gauss(t):
        return amp * np.exp(-((t - tc) / w) ** 2) * np.cos(2 * np.pi * f0 * (t - tc))

    def triangle(t):
        return amp * np.maximum(0.0, 1 - np.abs(t - tc) / (3 * w))

    def ext_grid(lead, trail):
        nb = 0 if lead == 0 else int(lead / dt) + 1
        na = 0 if trail == 0 else int(trail / dt) + 1
        return np.concatenate((times[0] - dt * np.arange(nb, 0, -1), times, times[-1] + dt * np.arange(1, na + 1))), nb
    field = pyrex.Signal.Type.field
    if kind == "signal":
        x = np.array([rng.gauss(0, 1) for _ in range(n)]) * amp
        return pyrex.Signal(times, x, value_type=field), [(times, lambda t, x=x: x, 0)], times
    if kind == "empty":
        ty = rng.choice([field, None, pyrex.Signal.Type.voltage])
        return pyrex.EmptySignal(times, value_type=ty), [(times, lambda t: np.zeros(len(t)), 0)], times
    if kind == "signal:int-values":
        # integer-typed values given as a Python list (the time grid stays float: Signal.shift adds the delay in place,
        # which NumPy refuses for an integer array -- a limitation of Signal.shift itself, outside this property)
        xi = [int(rng.randrange(-5, 6)) for _ in range(n)]
        xf = np.array(xi, float)
        return pyrex.Signal(list(times), xi, value_type=field), [(times, lambda t, xf=xf: xf, 0)], times
    if kind in ("function:gauss", "function:triangle"):
        g = gauss if kind.endswith("gauss") else triangle
        return pyrex.FunctionSignal(times, g, value_type=field), [(times, g, 0)], times
    if kind == "function:buffered":
        # buffers that are not multiples of dt: the number of buffer samples does not depend on the rounding of dt
        lead, trail = rng.choice([7.3, 2.6, 0.0]) * dt, rng.choice([4.6, 11.2]) * dt
        sig = pyrex.FunctionSignal(times, gauss, value_type=field)
        sig.set_buffers(leading=lead, trailing=trail)
        ext, nb = ext_grid(lead, trail)
        return sig, [(ext, gauss, nb)], times
    if kind == "function:sum":
        a_, b_ = pyrex.FunctionSignal(times, gauss, value_type=field), pyrex.FunctionSignal(times, triangle, value_type=field)
        lead = rng.choice([0.0, 3.4]) * dt
        if lead:
            b_.set_buffers(leading=lead)
        ext, nb = ext_grid(lead, 0.0)
        return a_ + b_, [(times, gauss, 0), (ext, triangle, nb)], times
    if kind == "function:scaled":
        c1, c2 = rng.choice([2.5, -0.5, 3.0]), rng.choice([0.5, 4.0])
        sig = (pyrex.FunctionSignal(times, gauss, value_type=field) * c1) / c2
        return sig, [(times, lambda t: gauss(t) * c1 / c2, 0)], times
    if kind == "askaryan":
        from pyrex.askaryan import AskaryanSignal
        from pyrex.particle import Particle

        def build():
            part = Particle(particle_id=Particle.Type.electron_neutrino, vertex=(0, 0, -1000), direction=(0, 0, 1), energy=1e8,
                            interaction_type="cc")
            part.interaction.em_frac, part.interaction.had_frac = 1, 0
            return AskaryanSignal(times=times - t0, particle=part, viewing_angle=0.9, viewing_distance=100.0)
        twin = build()

        def sample(t):
            with np.errstate(all="ignore"):
                return np.array(twin.with_times(np.asarray(t, float)).values, float)
        if not np.all(np.isfinite(sample(times - t0))):
            return make_input("function:gauss", rng)
        return build(), [(times - t0, sample, 0)], times - t0
    if kind == "noise":
        seed = rng.randrange(2 ** 31)
        band = (0.05 / dt, 0.3 / dt)
        np.random.seed(seed)
        sig = pyrex.signals.FullThermalNoise(times, f_band=band, f_amplitude=lambda f: 1.0 + 0.5 * np.cos(f * dt * 7), rms_voltage=amp)
        fr, am, ph, rms = np.array(sig.freqs), np.array(sig.amps), np.array(sig.phases), float(sig.rms)
        def sample(t):
            return np.asarray(sum(a * np.cos(2 * np.pi * f * t + p) for f, a, p in zip(fr, am, ph)) * np.sqrt(2 / len(fr)) * rms, float)
        return sig, [(times, sample, 0)], times
    raise ValueError(kind)


def fresh_values(sig):
    """the signal's values as a fresh evaluation would give them (lazy signals cache theirs)"""
    with np.errstate(all="ignore"):
        return np.array(sig.copy().values, float)


def probe_inputs(ctx, cases_in):
    """propagate() fed with every kind of Signal (plain, FunctionSignal with one / several function groups, with
    buffers, scaled, Askaryan pulse, thermal noise), with and without polarization: each output judged on its own
    against the per-frequency factor (attenuation(|f|) x Fresnel x projection, applied once), the input left
    untouched, a second propagate of the same input identical."""
    import pyrex
    from pyrex.ray_tracing import BasicRayTracePath
    rng = ctx.rng
    stats = {"by_kind": {}, "with_polarization": 0, "without_polarization": 0, "repeat": 0, "input_unchanged": 0, "skipped": 0}
    kinds_cycle = 0
    for tag, desc, rt in cases_in:
        sols = solutions_of(rt)
        if not sols:
            continue
        for si, path in enumerate(sols):
            kname = type(path).__name__
            with np.errstate(all="ignore"):
                tof = float(path.tof)
                e = np.asarray(path.emitted_direction, float)
                fres = tuple(complex(z) for z in path.fresnel)
            if abs(e[0]) + abs(e[1]) <= 1e-6:
                us_o = np.array([math.sin(float(path.phi)), -math.cos(float(path.phi)), 0.0])
            else:
                us_o = np.cross(e, [0, 0, 1.0])
                us_o = us_o / np.linalg.norm(us_o)
            up_o = np.cross(us_o, e)
            up_o = up_o / np.linalg.norm(up_o)
            for _ in range(ctx.n(2, 3)):
                kind = INPUT_KINDS[kinds_cycle % len(INPUT_KINDS)]
                kinds_cycle += 1
                sub_seed = rng.randrange(2 ** 31)
                try:
                    sig, groups, times = make_input(kind, random.Random(sub_seed))
                except Exception as ex:
                    stats["skipped"] += 1
                    continue
                stats["by_kind"][kind] = stats["by_kind"].get(kind, 0) + 1
                pol = rand_pol(rng)
                is_basic = isinstance(path, BasicRayTracePath)
                interp = rng.choice([None, None, 0.05, 0.3, 1.0]) if is_basic else None
                rep = {"kind": "inputs", "geometry": desc, "solution": si, "class": kname, "input_kind": kind, "times": [float(t) for t in times],
                       "polarization": [float(v) for v in pol], "attenuation_interpolation": interp, "input_seed": sub_seed}
                ctx.case(key=("inputs", kind, json.dumps(desc, sort_keys=True, default=str), si))
                n = len(times)
                exact_table = (not is_basic) or (interp is None and all(len(g[0]) == n for g in groups))
                if exact_table:
                    def A(f):
                        with np.errstate(all="ignore"):
                            return np.asarray(path.attenuation(np.abs(np.asarray(f, float))), float)
                else:
                    grid = basic_freq_grid(times, interp)
                    with np.errstate(all="ignore"):
                        av = np.asarray(path.attenuation(grid), float)

                    def A(f):
                        return np.interp(f, grid, av)

                def expected(scale, coeff, force_real):
                    out = np.zeros(n)
                    for ext, sample, nb in groups:
                        y = oracle_filter(ext, sample((ext + tof) - tof) * scale, lambda f: A(f) * coeff, force_real)
                        out += y[nb:nb + n]
                    return out
                xmax = max(float(np.max(np.abs(g[1](g[0])))) for g in groups)
                mlen = max(len(g[0]) for g in groups)
                tol = ((2 * mlen) ** 2 * 8 * EPS * xmax * max(1.0, float(np.linalg.norm(pol))) * max(1.0, abs(fres[0]), abs(fres[1])) * 8 * len(groups)
                       + 1e-9 * xmax * max(1.0, float(np.linalg.norm(pol))) + 1e-300)
                in_type = sig.value_type
                try:
                    (s1, p1), _ = call_propagate(path, sig, pol, interp)
                    v_s1, v_p1 = np.array(s1.values, float), np.array(p1.values, float)
                    t_s1, t_p1 = np.array(s1.times, float), np.array(p1.times, float)
                    after_first = fresh_values(sig)
                    (s2, p2), _ = call_propagate(path, sig, pol, interp)
                    v_s2, v_p2 = np.array(s2.values, float), np.array(p2.values, float)
                    with np.errstate(all="ignore"):
                        if is_basic:
                            o1 = path.propagate(signal=sig, attenuation_interpolation=interp)
                        else:
                            o1 = path.propagate(signal=sig)
                    v_o1, t_o1 = np.array(o1.values, float), np.array(o1.times, float)
                    after_all = fresh_values(sig)
                except Exception as ex:
                    ctx.fail("inputs-raises:%s:%s" % (kname, kind), "%s.propagate raised %r for a %s input" % (kname, ex, kind), rep)
                    continue
                want_s = expected(float(np.dot(pol, us_o)), fres[0], True)
                want_p = expected(float(np.dot(pol, up_o)), fres[1], True)
                want_o = expected(1.0, 1.0, False)
                want_in = np.zeros(n)
                for ext, sample, nb in groups:
                    want_in += sample(ext)[nb:nb + n]
                stats["with_polarization"] += 1
                for nm, got, want in (("s", v_s1, want_s), ("p", v_p1, want_p)):
                    err = float(np.max(np.abs(got - want))) if len(got) == n else float("inf")
                    if not err <= tol:
                        ctx.fail("inputs-factor-%s:%s:%s" % (nm, kname, kind),
                                 "%s.propagate(%s input, polarization): the %s output is not the input x projection x attenuation(|f|) x Fresnel applied once per frequency (max error %.3g > %.3g)" % (
                                     kname, kind, nm, err, tol), rep)
                stats["without_polarization"] += 1
                err = float(np.max(np.abs(v_o1 - want_o))) if len(v_o1) == n else float("inf")
                if not err <= tol:
                    ctx.fail("inputs-factor-unpolarized:%s:%s" % (kname, kind),
                             "%s.propagate(%s input) without polarization is not the input x attenuation(|f|) per frequency (max error %.3g > %.3g)" % (kname, kind, err, tol), rep)
                if not (np.array_equal(t_s1, times + tof) and np.array_equal(t_p1, times + tof) and np.array_equal(t_o1, times + tof)):
                    ctx.fail("inputs-grid:%s:%s" % (kname, kind), "%s.propagate(%s input): output times are not input times + tof" % (kname, kind), rep)
                # the outputs and the caller's signal are separate objects that share no array
                arrs = {"input.times": np.asarray(sig.times), "s.times": np.asarray(s1.times), "p.times": np.asarray(p1.times),
                        "unpolarized.times": np.asarray(o1.times), "second s.times": np.asarray(s2.times)}
                names = list(arrs)
                shared = [(a_, b_) for i_, a_ in enumerate(names) for b_ in names[i_ + 1:] if np.shares_memory(arrs[a_], arrs[b_])]
                vals_ = {"input.values": getattr(sig, "_values", None) if not hasattr(sig, "_functions") else None,
                         "s.values": s1.__dict__.get("values"), "p.values": p1.__dict__.get("values")}
                vn = [k_ for k_, v_ in vals_.items() if isinstance(v_, np.ndarray)]
                shared += [(a_, b_) for i_, a_ in enumerate(vn) for b_ in vn[i_ + 1:] if np.shares_memory(vals_[a_], vals_[b_])]
                if shared or s1 is sig or p1 is sig or s1 is p1 or o1 is sig:
                    ctx.fail("inputs-shared-arrays:%s:%s" % (kname, kind),
                             "%s.propagate(%s input): outputs / input are not independent objects (shared arrays: %s)" % (kname, kind, shared), rep)
                stats["repeat"] += 1
                if not (np.array_equal(v_s1, v_s2) and np.array_equal(v_p1, v_p2)):
                    ctx.fail("inputs-repeat:%s:%s" % (kname, kind),
                             "propagating the same %s input twice along the same %s gives different results (max difference %.3g)" % (
                                 kind, kname, float(max(np.max(np.abs(v_s1 - v_s2)), np.max(np.abs(v_p1 - v_p2))))), rep)
                stats["input_unchanged"] += 1
                in_tol = 64 * EPS * xmax * len(groups) + 1e-300
                bad_in = (not np.array_equal(np.asarray(sig.times, float), times)) or sig.value_type != in_type \
                    or float(np.max(np.abs(after_first - want_in))) > in_tol or float(np.max(np.abs(after_all - want_in))) > in_tol \
                    or float(np.max(np.abs(np.asarray(sig.values, float) - want_in))) > in_tol
                if bad_in:
                    ctx.fail("inputs-modified:%s:%s" % (kname, kind),
                             "%s.propagate modified its %s input (values now differ from the input's samples by %.3g)" % (
                                 kname, kind, float(max(np.max(np.abs(after_first - want_in)), np.max(np.abs(after_all - want_in))))), rep)
    ctx.extra["input_probe_counts"] = stats


# ---------------------------------------------------------------------------- histories on ONE path object
def fresh_path_like(path):
    """a new path object of the same class with the attributes the given one has NOW"""
    import types
    from pyrex.ray_tracing import UniformRayTracePath
    stub = types.SimpleNamespace(from_point=np.array(path.from_point, float), to_point=np.array(path.to_point, float), ice=path.ice,
                                 dz=getattr(path, "dz", None))
    if isinstance(path, UniformRayTracePath):
        return type(path)(stub, path.theta0, path._reflections)
    return type(path)(stub, path.theta0, path.direct)


def probe_path_histories(ctx, cases_in):
    """Operation sequences on ONE path object: query (tof / attenuation / propagate fill the lazy caches), change an
    endpoint -- by assignment, by augmented assignment of the stored array (`path.to_point += off`), by in-place change
    followed by re-assignment of the same object -- or dz, query again.  After every change the path must behave like a
    path constructed with its current attributes: same delay, same attenuation, same propagate output."""
    import pyrex
    from pyrex.ray_tracing import BasicRayTracePath, SpecializedRayTracePath, UniformRayTracePath
    rng = ctx.rng
    stats = {"histories": 0, "changes": {}, "queries": 0}
    for tag, desc, rt in cases_in:
        if tag == "layered" or rng.random() > ctx.n(0.6, 1.0):
            continue
        sols = solutions_of(rt)
        if not sols:
            continue
        path = sols[rng.randrange(len(sols))]
        if not isinstance(path, (BasicRayTracePath, UniformRayTracePath)):
            continue
        kind = type(path).__name__
        si = sols.index(path)
        stats["histories"] += 1
        times, x = rand_signal(rng, rng.choice([4, 8, 16]))
        pol = rand_pol(rng)
        freqs = np.array([1e8, 5e8, -2e8])
        ops = []

        def query(p):
            with np.errstate(all="ignore"):
                sig = pyrex.Signal(times, x, value_type=pyrex.Signal.Type.field)
                (ss, sp), (us, up) = call_propagate(p, sig, pol, None)
                return {"tof": float(p.tof), "att": np.asarray(p.attenuation(freqs), float), "s": np.array(ss.values, float), "p": np.array(sp.values, float),
                        "t": np.array(ss.times, float), "us": np.asarray(us, float), "up": np.asarray(up, float)}
        try:
            query(path)
        except Exception:
            continue
        for step in range(rng.randint(1, 3)):
            attr = rng.choice(["to_point", "to_point", "from_point"])
            lo_, hi_ = (path.ice.valid_range[0] + 5.0, path.ice.valid_range[1] - 1.0)
            cur = np.array(getattr(path, attr), float)
            dzv = rng.choice([-40.0, -12.5, 7.25, 25.0])
            if not lo_ < cur[2] + dzv < hi_:
                dzv = -dzv
            if not lo_ < cur[2] + dzv < hi_:
                continue
            off = np.array([0.0, 0.0, dzv])                      # keep the azimuth: the launch angle stays meaningful
            how = rng.choice(["assign", "augmented", "augmented", "inplace+reassign", "dz"])
            if how == "dz" and not (isinstance(path, BasicRayTracePath) and not isinstance(path, SpecializedRayTracePath)):
                how = "augmented"
            if how == "assign":
                setattr(path, attr, cur + off)
            elif how == "augmented":
                if attr == "to_point":
                    path.to_point += off
                else:
                    path.from_point += off
            elif how == "inplace+reassign":
                arr = getattr(path, attr)
                arr[2] += dzv
                setattr(path, attr, arr)
            else:
                path.dz = path.dz * rng.choice([0.5, 2.0])
            ops.append({"op": how, "attribute": attr if how != "dz" else "dz", "offset": [0.0, 0.0, dzv] if how != "dz" else None, "dz": float(getattr(path, "dz", 0) or 0)})
            stats["changes"][how] = stats["changes"].get(how, 0) + 1
            rep = {"kind": "path_history", "geometry": desc, "solution": si, "class": kind, "ops": [dict(o) for o in ops], "times": [float(t) for t in times],
                   "x": [float(v) for v in x], "polarization": [float(v) for v in pol]}
            ctx.case(key=("path_history", json.dumps(desc, sort_keys=True, default=str), si, step))
            try:
                got = query(path)
                ref = query(fresh_path_like(path))
            except Exception as ex:
                break                                            # the changed geometry is not a ray any more (e.g. arcsin > 1): nothing to compare
            stats["queries"] += 1
            if not all(np.all(np.isfinite(np.asarray(v, float))) for v in ref.values()):
                break                                            # not a ray any more (NaN direction / arcsin > 1): nothing to judge
            same = got["tof"] == ref["tof"] and np.array_equal(got["att"], ref["att"]) and np.array_equal(got["s"], ref["s"]) and np.array_equal(got["p"], ref["p"]) \
                and np.array_equal(got["t"], ref["t"]) and np.array_equal(got["us"], ref["us"]) and np.array_equal(got["up"], ref["up"])
            if not same:
                ctx.fail("path-stale:%s:%s" % (kind, how),
                         "%s after `%s` of %s: the path does not behave like a path with its current attributes (delay %.9g s vs %.9g s for a new path; attenuation %s vs %s)" % (
                             kind, how, ops[-1]["attribute"], got["tof"], ref["tof"], got["att"].tolist(), ref["att"].tolist()), rep)
                break
            # (no quadrature check here: after an endpoint is moved the object keeps its launch angle and is no longer a ray
            #  joining its endpoints, so 'the time of flight between the endpoints' is not what it represents)
    ctx.extra["path_history_counts"] = stats


# ---------------------------------------------------------------------------- histories on ONE ice-model object
def fresh_ice_like(ice):
    """a newly constructed ice model with the public attributes the given one has NOW"""
    from pyrex.ice_model import UniformIce
    cls = type(ice)
    if isinstance(ice, UniformIce):
        new = cls(ice.n, valid_range=tuple(float(v) for v in ice.valid_range), index_above=ice._index_above, index_below=ice._index_below)
    else:
        new = cls(n0=ice.n0, k=ice.k, a=ice.a, valid_range=tuple(float(v) for v in ice.valid_range),
                  index_above=ice._index_above, index_below=ice._index_below)
    for tab in ("atten_depths", "atten_lengths"):
        if hasattr(ice, tab):
            setattr(new, tab, [float(v) for v in np.asarray(getattr(ice, tab), float)])
    return new


def probe_ice_histories(ctx):
    """Histories on ONE ice-model object: trace and propagate with it (anything cached is now cached), change its public
    data -- attenuation table, profile parameters, valid range; by assignment, by in-place edit of an array the object holds,
    on a copy.copy of the used object -- and trace again.  Every path traced afterwards must equal the path traced with a
    newly constructed ice model that has the same public attributes, and for the tabulated model the attenuation must be
    the quadrature of ds / L with L read from the object's current table."""
    import copy as _copy
    import pyrex
    import pyrex.ice_model as im
    from pyrex.ray_tracing import SpecializedRayTracer, BasicRayTracer, UniformRayTracer
    rng = ctx.rng
    stats = {"histories": 0, "changes": {}, "paths_compared": 0, "table_oracle": 0, "originals_rechecked": 0}
    freqs = np.array([1e8, 6e8, -3e8])

    def trace(ice, a, b, basic):
        if isinstance(ice, im.UniformIce):
            rt = UniformRayTracer(a, b, ice)
            rt.max_reflections = 1
        else:
            rt = (BasicRayTracer if basic else SpecializedRayTracer)(a, b, ice)
        return solutions_of(rt) or []

    def observe(paths, times, x, pol):
        out = []
        for p_ in paths:
            with np.errstate(all="ignore"):
                (ss, sp), _ = call_propagate(p_, pyrex.Signal(times, x, value_type=pyrex.Signal.Type.field), pol, None)
                out.append((float(p_.tof), np.asarray(p_.attenuation(freqs), float), np.array(ss.values, float), np.array(sp.values, float)))
        return out

    def same(o1, o2):
        return len(o1) == len(o2) and all(a_[0] == b_[0] and np.array_equal(a_[1], b_[1], equal_nan=True) and np.array_equal(a_[2], b_[2], equal_nan=True)
                                          and np.array_equal(a_[3], b_[3], equal_nan=True) for a_, b_ in zip(o1, o2))
    for it in range(ctx.n(10, 120)):
        name = ["ArasimIce", "ArasimIce", "AntarcticIce", "GreenlandIce", "UniformIce"][it % 5]
        if name == "UniformIce":
            ice = im.UniformIce(rng.uniform(1.4, 1.7), valid_range=(-1000.0, 0.0), index_above=1.0, index_below=rng.choice([None, 1.9]))
        else:
            ice = getattr(im, name)()
        basic = name != "UniformIce" and rng.random() < 0.3
        a, b = [0.0, 0.0, rng.uniform(-900.0, -150.0)], [rng.uniform(30.0, 400.0), rng.uniform(-50.0, 50.0), rng.uniform(-400.0, -30.0)]
        times, x = rand_signal(rng, 8)
        pol = rand_pol(rng)
        stats["histories"] += 1
        ops = []
        try:
            first = observe(trace(ice, a, b, basic), times, x, pol)            # first use: whatever is memoised is memoised now
        except Exception:
            continue
        target, original_obs = ice, None
        for step in range(rng.randint(1, 3)):
            routes = ["assign"]
            if name == "ArasimIce":
                what = rng.choice(["atten_lengths", "atten_lengths", "atten_depths"])
                routes += ["inplace", "copy-then-assign"]
            elif name == "UniformIce":
                what = rng.choice(["n", "valid_range"])
                routes += ["copy-then-assign"]
            else:
                what = rng.choice(["k", "a", "n0", "valid_range"])
                routes += ["copy-then-assign"]
            how = rng.choice(routes)
            if how == "copy-then-assign":
                original_obs = (target, observe(trace(target, a, b, basic), times, x, pol))
                target = _copy.copy(target)
            fac = rng.choice([0.5, 0.8, 1.25, 2.0])
            if what in ("atten_lengths", "atten_depths"):
                cur = np.asarray(getattr(target, what), float)
                newv = cur * (fac if what == "atten_lengths" else rng.choice([0.9, 1.1]))
                if how == "inplace":
                    if not isinstance(target.__dict__.get(what), np.ndarray):
                        setattr(target, what, np.array(cur))               # the instance's own array, then edited in place
                        observe(trace(target, a, b, basic), times, x, pol)
                    target.__dict__[what][:] = newv
                else:
                    setattr(target, what, rng.choice([list, np.array])(newv))
            elif what == "valid_range":
                vr = (float(target.valid_range[0]) - rng.choice([0.0, 150.0]), float(target.valid_range[1]))
                target.valid_range = vr
            elif what == "n":
                target.n = float(target.n) * rng.choice([0.95, 1.05])
            elif what == "k":
                target.k = float(target.k) * rng.choice([0.9, 1.05])
            elif what == "a":
                target.a = float(target.a) * rng.choice([0.9, 1.1])
            else:
                target.n0 = float(target.n0) + rng.choice([-0.02, 0.02])
            ops.append({"op": how, "attribute": what, "value": [float(v) for v in np.atleast_1d(np.asarray(getattr(target, what), float))][:80]})
            kk = "%s:%s:%s" % (name, what, how)
            stats["changes"][kk] = stats["changes"].get(kk, 0) + 1
            rep = {"kind": "ice_history", "ice": name, "from": a, "to": b, "basic": basic, "ops": [dict(o) for o in ops], "times": [float(t) for t in times],
                   "x": [float(v) for v in x], "polarization": [float(v) for v in pol]}
            ctx.case(key=("ice_history", it, step))
            try:
                paths = trace(target, a, b, basic)
                got = observe(paths, times, x, pol)
                ref = observe(trace(fresh_ice_like(target), a, b, basic), times, x, pol)
            except Exception:
                break
            stats["paths_compared"] += len(got)
            if not same(got, ref):
                j = next((i_ for i_, (g_, r_) in enumerate(zip(got, ref)) if not same([g_], [r_])), 0)
                ctx.fail("ice-stale:%s:%s:%s" % (name, what, how),
                         "%s after `%s` of %s (the object had been used before): rays traced with it differ from rays traced with a new %s that has the same attributes (attenuation %s vs %s, delay %.9g vs %.9g s)" % (
                             name, how, what, name, got[j][1].tolist() if got else None, ref[j][1].tolist() if ref else None,
                             got[j][0] if got else float("nan"), ref[j][0] if ref else float("nan")), rep)
                break
            if name == "ArasimIce":
                for p_, g_ in zip(paths, got):
                    try:
                        with np.errstate(all="ignore"):
                            I_or = attenuation_exponent_oracle(p_, 6e8, latt=arasim_table_length)
                        I_code = -math.log(float(g_[1][1])) if g_[1][1] > 0 else float("inf")
                        stats["table_oracle"] += 1
                        if np.isfinite(I_or) and I_or > 0 and not abs(I_code - I_or) <= attenuation_allowance(p_, 6e8, I_or):
                            ctx.fail("ice-table:%s:%s" % (what, how),
                                     "ArasimIce after `%s` of %s: attenuation exponent %.6g, but the quadrature of ds / L with L from the object's current table gives %.6g" % (how, what, I_code, I_or), rep)
                            break
                    except Exception as ex:
                        stats["oracle_errors"] = stats.get("oracle_errors", 0) + 1
                        stats.setdefault("oracle_error_sample", repr(ex)[:200])
            if original_obs is not None:
                stats["originals_rechecked"] += 1
                try:
                    again = observe(trace(original_obs[0], a, b, basic), times, x, pol)
                except Exception:
                    again = None
                if again is not None and not same(again, original_obs[1]):
                    ctx.fail("ice-copy-shared:%s:%s" % (name, what), "changing %s on a copy.copy of a used %s changed the rays traced with the original object" % (what, name), rep)
                    break
    ctx.extra["ice_history_counts"] = stats
    ctx.oblige("probe:ice-oracles-ran", stats.get("oracle_errors", 0) == 0, "%d oracle evaluations raised: %s" % (stats.get("oracle_errors", 0), stats.get("oracle_error_sample", "")))


# ---------------------------------------------------------------------------- entry points
def run(ctx):
    ctx.rule = ("geometries: random endpoints for SpecializedRayTracer, BasicRayTracer, UniformRayTracer (1-3 reflections, index above/below varied, total "
                "internal reflection included), LayeredRayTracer (2-3 uniform layers), plus fixed vertical / design-finding configurations; every solution; "
                "signals N<=64; attenuation_interpolation in {None, 0.01..2.5} where accepted; non-trivial = distinct (geometry, solution, input)")
    ctx.trusted += ["Coq 8.16.1 kernel", "tools/py2coq.py + tools/gen_antenna.py + tools/gen_prop.py + tools/gen_ice.py (translator; statement slices cut by shape)",
                    "harness/realextract.py extraction directives (R -> OCaml float) and the OCaml DFT in harness/props/c03.py, correspondence only",
                    "Model/PropagationModel.v and the Python replicas of loop plumbing (spec_segments, basic_freq_grid, layered_crossings) are hand-written: pinned by AST hash, validated by correspondence"]
    ctx.assumptions += ["theorems are over the real numbers; binary64 rounding is covered by the numeric correspondence and probes only",
                        "propagate_grid / propagate_linear / propagate_passive exist for any filter with C05's three properties (hypotheses) and, hypothesis-free, for C05's concrete model of Signal.filter_frequencies (propagate_grid_linear_passive_concrete, via Proofs/FilterBridge.v); what remains assumed is only that FilterModel.v models the NumPy/SciPy FFT pipeline (C05's correspondence)",
                        "attenuation monotonicity needs the ice temperature within [-100 C, +5 C] at the integration nodes (true down to below 2850 m) and f > 0; f = 0 is probed numerically",
                        "for SpecializedRayTracePath the sign condition on the node weights of the changed-variable integrand is a hypothesis (partial)",
                        "the ray tracers' geometry (directions in one vertical plane, unit length) is C01/C02/C18's; pol_basis assumes it"]
    ctx.partial += ["attenuation_antitone_in_absf_specialized_partial", "fresnel_layered_transmission_partial"]
    try:
        files, side = gen_files(ctx.scratch)
        for k, v in files.items():
            ctx.write_gen(k, v)
        ctx.oblige("gen:Gen_prop", True)
        ctx.extra["translated_functions"] = side["hashes"]
    except Exception as e:
        ctx.oblige("gen:Gen_prop", False, "translation failed (fail-closed): %s" % e)
        cases = fixed_cases() + tracer_cases(ctx.rng, ctx.n(3, 100)) + z_uniform_cases(ctx.rng, ctx.n(4, 60))
        probes(ctx, cases)
        probe_inputs(ctx, cases)
        probe_path_histories(ctx, cases)
        probe_ice_histories(ctx)
        return
    ok = ctx.coq_build("C03")
    pins = current_pins()
    recorded = json.load(open(PIN_FILE)) if os.path.exists(PIN_FILE) else {}
    changed = [k for k in pins if recorded.get(k) != pins[k]]
    ctx.extra["pins"] = {"current": pins, "changed_since_validation": changed}
    n_each = ctx.n(3, 100) * (3 if changed else 1)
    cases = fixed_cases() + tracer_cases(ctx.rng, n_each) + z_uniform_cases(ctx.rng, ctx.n(4, 60))
    import time
    t0 = time.time()
    if ok:
        try:
            correspondence(ctx, cases)
        except Exception as e:
            ctx.oblige("corr:propagation", False, repr(e)[-1500:])
    t1 = time.time()
    probes(ctx, cases)
    t2 = time.time()
    probe_inputs(ctx, cases)
    probe_path_histories(ctx, cases)
    probe_ice_histories(ctx)
    ctx.extra["timing_s"] = {"correspondence": round(t1 - t0, 1), "probes": round(t2 - t1, 1), "input_probes": round(time.time() - t2, 1)}


def replay_ice_history(obj):
    import copy as _copy
    import pyrex
    import pyrex.ice_model as im
    from pyrex.ray_tracing import SpecializedRayTracer, BasicRayTracer, UniformRayTracer
    name = obj["ice"]
    ice = im.UniformIce(1.5, valid_range=(-1000.0, 0.0), index_above=1.0) if name == "UniformIce" else getattr(im, name)()

    def att(i_):
        if name == "UniformIce":
            rt = UniformRayTracer(obj["from"], obj["to"], i_)
        else:
            rt = (BasicRayTracer if obj.get("basic") else SpecializedRayTracer)(obj["from"], obj["to"], i_)
        return [np.asarray(p_.attenuation(np.array([1e8, 6e8]))).tolist() for p_ in (solutions_of(rt) or [])]
    print("first use, attenuation(1e8, 6e8) per solution:", att(ice))
    target = ice
    for o_ in obj["ops"]:
        if o_["op"] == "copy-then-assign":
            target = _copy.copy(target)
        val = o_["value"]
        if o_["attribute"] in ("atten_lengths", "atten_depths"):
            if o_["op"] == "inplace":
                setattr(target, o_["attribute"], np.array(np.asarray(getattr(target, o_["attribute"]), float)))
                att(target)
                target.__dict__[o_["attribute"]][:] = np.asarray(val)
            else:
                setattr(target, o_["attribute"], list(val))
        elif o_["attribute"] == "valid_range":
            target.valid_range = tuple(val)
        else:
            setattr(target, o_["attribute"], val[0])
        print("after %s of %s: this object  ->" % (o_["op"], o_["attribute"]), att(target))
        print("                 a new %s with the same attributes ->" % name, att(fresh_ice_like(target)))


def replay(ctx, obj):
    import pyrex
    print(json.dumps(obj, indent=1, default=str)[:3000])
    if obj.get("kind") == "ice_history":
        replay_ice_history(obj)
        return 1
    if "geometry" not in obj:
        return 1
    rt = rebuild(obj["geometry"])
    sols = solutions_of(rt) or []
    print("solutions:", len(sols))
    if obj.get("solution", 0) < len(sols):
        p = sols[obj["solution"]]
        with np.errstate(all="ignore"):
            print("class", type(p).__name__, "tof", p.tof, "fresnel", p.fresnel, "emitted", p.emitted_direction, "received", p.received_direction)
            print("attenuation(1e8, 1e9):", p.attenuation(np.array([1e8, 1e9])))
            try:
                print("independent quadrature along the ray: time of flight %.9g s (path.tof %.9g s); attenuation exponent at %g Hz %.6g (code %.6g)" % (
                    tof_oracle(p), float(p.tof), obj.get("f", 3e8), attenuation_exponent_oracle(p, obj.get("f", 3e8)),
                    -math.log(float(np.atleast_1d(p.attenuation(np.array([obj.get("f", 3e8)])))[0]))))
            except Exception as ex:
                print("quadrature oracle failed:", ex)
            pol = obj.get("polarization", [1.0, 0.0, 0.0])
            print("polarization vectors:", p.propagate(polarization=pol))
            if obj.get("kind") == "path_history":
                times, xv = np.asarray(obj["times"]), np.asarray(obj["x"])
                def q(pp):
                    (ss, sp), _ = call_propagate(pp, pyrex.Signal(times, xv, value_type=pyrex.Signal.Type.field), pol, None)
                    return float(pp.tof), np.asarray(pp.attenuation(np.array([1e8, 5e8]))), np.asarray(ss.values)[:4]
                print("before any change: tof, attenuation, s output:", q(p))
                for o_ in obj["ops"]:
                    if o_["op"] == "assign":
                        setattr(p, o_["attribute"], np.array(getattr(p, o_["attribute"]), float) + np.asarray(o_["offset"]))
                    elif o_["op"] == "augmented":
                        if o_["attribute"] == "to_point":
                            p.to_point += np.asarray(o_["offset"])
                        else:
                            p.from_point += np.asarray(o_["offset"])
                    elif o_["op"] == "inplace+reassign":
                        arr = getattr(p, o_["attribute"]); arr[2] += o_["offset"][2]; setattr(p, o_["attribute"], arr)
                    else:
                        p.dz = o_["dz"]
                    print("after %s of %s: this path  :" % (o_["op"], o_["attribute"]), q(p))
                    print("                      new path with the same attributes:", q(fresh_path_like(p)))
            if "input_kind" in obj:
                sig, groups, times = make_input(obj["input_kind"], random.Random(obj["input_seed"]))
                interp = obj.get("attenuation_interpolation")
                tof = float(p.tof)
                (ss, sp), _ = call_propagate(p, sig, pol, interp)
                print("input kind:", obj["input_kind"], "class", type(sig).__name__, "N =", len(times))
                print("s output:", np.asarray(ss.values)[:6], "\np output:", np.asarray(sp.values)[:6])
                want_in = sum(sample(ext)[nb:nb + len(times)] for ext, sample, nb in groups)
                print("input samples (independently known):", want_in[:6])
                print("input values after propagate (fresh evaluation):", fresh_values(sig)[:6])
                (s2, p2), _ = call_propagate(p, sig, pol, interp)
                print("second propagate of the same input, max |difference| to the first: s %.3g, p %.3g" % (
                    float(np.max(np.abs(np.asarray(s2.values) - np.asarray(ss.values)))), float(np.max(np.abs(np.asarray(p2.values) - np.asarray(sp.values))))))
                A = lambda f: np.asarray(p.attenuation(np.abs(np.asarray(f, float))), float)
                e = np.asarray(p.emitted_direction, float)
                if abs(e[0]) + abs(e[1]) > 1e-6:
                    us_o = np.cross(e, [0, 0, 1.0]); us_o /= np.linalg.norm(us_o)
                    up_o = np.cross(us_o, e); up_o /= np.linalg.norm(up_o)
                    fres = tuple(complex(z) for z in p.fresnel)
                    for nm, amp, co in (("s", float(np.dot(pol, us_o)), fres[0]), ("p", float(np.dot(pol, up_o)), fres[1])):
                        w = sum(oracle_filter(ext, sample((ext + tof) - tof) * amp, lambda f: A(f) * co, True)[nb:nb + len(times)] for ext, sample, nb in groups)
                        print("expected %s output (exact attenuation on the FFT grid, applied once):" % nm, w[:6])
            if "x" in obj:
                s = pyrex.Signal(np.asarray(obj["times"]), np.asarray(obj["x"]), value_type=pyrex.Signal.Type.field)
                (ss, sp), _ = call_propagate(p, s, pol, obj.get("attenuation_interpolation"))
                print("input energy x |pol|^2:", float(np.dot(pol, pol) * np.sum(np.asarray(obj["x"]) ** 2)), "output energy:", float(np.sum(ss.values ** 2) + np.sum(sp.values ** 2)))
                print("output times - input times - tof:", (ss.times - np.asarray(obj["times"]) - p.tof)[:4])
    return 1
