(* C02: ray solution sets respect reciprocity and the symmetries of stratified ice.
   Statements only.  BasicRayTracePath_* / SpecializedRayTracePath_* / BasicRayTracer_* /
   SpecializedRayTracer_* (Gen/Gen_ray2.v) and UniformRayTrace*_* (Gen/Gen_uniform.v) are regenerated from
   pyrex/ray_tracing.py on every run; expected_solutions, tracer_exists, tracer_solutions_g, zint_corr,
   z_integral (Model/GradientTracer.v) and uniform_points / uniform_solutions are pinned hand models.
   shift ox oy / rot c s move a point horizontally / rotate it about the vertical axis. *)
From Coq Require Import Reals List Bool ZArith.
From PyrexLib Require Import RealPrims ListR Atan2.
From PyrexGen Require Import Gen_ice Gen_uniform Gen_ray2.
From PyrexModel Require Import UniformPath UniformTracer GradientTracer.
From PyrexProofs Require Import C02_proofs.
Import ListNotations.
Open Scope R_scope.

(* --- translation: every path quantity depends on the endpoints only through their depths and
   their separation vector; shifting both endpoints changes nothing *)
Theorem translation_invariant : forall ox oy p,
  gpath_observables_spec (shiftP ox oy p) = gpath_observables_spec p /\
  gpath_observables_basic (shiftP ox oy p) = gpath_observables_basic p.
Proof. intros. split; [apply translation_invariant_spec|apply translation_invariant_basic]. Qed.
Print Assumptions translation_invariant.

(* uniform tracer: same (angle, reflections) list, and the reported points move with the endpoints
   (hence lengths, times and directions, which are functions of the point differences, are unchanged).
   False before the repair b971f54 (the reflection points ignored the source's x,y). *)
Theorem translation_invariant_uniform : forall ox oy t m theta k,
  tracer_solution_params (shiftT ox oy t) m = tracer_solution_params t m /\
  path_points (mk_path (shiftT ox oy t) theta k) = option_map (map (shift ox oy)) (path_points (mk_path t theta k)).
Proof. intros. split; [apply uniform_tracer_translation|apply uniform_points_translated]. Qed.
Print Assumptions translation_invariant_uniform.

(* --- rotation about the vertical: lengths, depths, beta unchanged; horizontal direction components
   rotate with the geometry *)
Theorem rotation_covariant : forall c s p, c * c + s * s = 1 -> vx (sepP p) <> 0 \/ vy (sepP p) <> 0 ->
  (SpecializedRayTracePath_rho (rotP c s p) = SpecializedRayTracePath_rho p /\
   SpecializedRayTracePath_z0 (rotP c s p) = SpecializedRayTracePath_z0 p /\
   SpecializedRayTracePath_z1 (rotP c s p) = SpecializedRayTracePath_z1 p /\
   SpecializedRayTracePath_beta (rotP c s p) = SpecializedRayTracePath_beta p /\
   SpecializedRayTracePath_emitted_direction (rotP c s p) = rot c s (SpecializedRayTracePath_emitted_direction p) /\
   SpecializedRayTracePath_received_direction (rotP c s p) = rot c s (SpecializedRayTracePath_received_direction p)) /\
  (BasicRayTracePath_rho (rotP c s p) = BasicRayTracePath_rho p /\
   BasicRayTracePath_z0 (rotP c s p) = BasicRayTracePath_z0 p /\
   BasicRayTracePath_z1 (rotP c s p) = BasicRayTracePath_z1 p /\
   BasicRayTracePath_beta (rotP c s p) = BasicRayTracePath_beta p /\
   BasicRayTracePath_emitted_direction (rotP c s p) = rot c s (BasicRayTracePath_emitted_direction p) /\
   BasicRayTracePath_received_direction (rotP c s p) = rot c s (BasicRayTracePath_received_direction p)).
Proof. intros. split; [apply rotation_covariant_spec|apply rotation_covariant_basic]; assumption. Qed.
Print Assumptions rotation_covariant.

(* --- reciprocity.  The tracer's inputs to the solver are the same for both orientations ... *)
Theorem solver_inputs_symmetric : forall t,
  SpecializedRayTracer_rho (swapT t) = SpecializedRayTracer_rho t /\
  SpecializedRayTracer_z0 (swapT t) = SpecializedRayTracer_z0 t /\
  SpecializedRayTracer_z1 (swapT t) = SpecializedRayTracer_z1 t /\
  SpecializedRayTracer_n0 (swapT t) = SpecializedRayTracer_n0 t /\
  SpecializedRayTracer_max_angle (swapT t) = SpecializedRayTracer_max_angle t /\
  BasicRayTracer_rho (swapT t) = BasicRayTracer_rho t /\
  BasicRayTracer_z0 (swapT t) = BasicRayTracer_z0 t /\
  BasicRayTracer_z1 (swapT t) = BasicRayTracer_z1 t /\
  BasicRayTracer_n0 (swapT t) = BasicRayTracer_n0 t /\
  BasicRayTracer_max_angle (swapT t) = BasicRayTracer_max_angle t.
Proof. exact tracer_inputs_symmetric. Qed.
Print Assumptions solver_inputs_symmetric.

(* ... so with the same solver angle alpha at the lower endpoint A (solver hypothesis: 0 < alpha < pi/2
   and the ray reaches B), the direct solutions A->B and B->A have exchanged and reversed directions
   and the same beta *)
Theorem reciprocity_direct : forall (A B : vec3) (ice : Ice) (alpha : R),
  vz A < vz B -> vx (vsub B A) <> 0 \/ vy (vsub B A) <> 0 ->
  0 < AntarcticIce_index ice (vz A) -> 0 < AntarcticIce_index ice (vz B) ->
  0 < alpha < PI / 2 -> sin alpha * AntarcticIce_index ice (vz A) / AntarcticIce_index ice (vz B) < 1 ->
  let pA := mkGPath A B (direct_launch alpha (mkGTracer A B ice)) ice true in
  let pB := mkGPath B A (direct_launch alpha (mkGTracer B A ice)) ice true in
  SpecializedRayTracePath_emitted_direction pA = vopp (SpecializedRayTracePath_received_direction pB) /\
  SpecializedRayTracePath_received_direction pA = vopp (SpecializedRayTracePath_emitted_direction pB) /\
  SpecializedRayTracePath_beta pA = SpecializedRayTracePath_beta pB.
Proof. intros A B ice alpha H1 H2 H3 H4 H5 H6. exact (reciprocity_direct_lemma A B ice alpha H1 H2 H3 H4 H5 H6). Qed.
Print Assumptions reciprocity_direct.

(* path_length, tof (np.abs of the z-integral) and attenuation (exp(-|.|)) do not depend on which
   endpoint is the source, for the direct and for the indirect composition, with any indefinite
   integral F and any z_uniform *)
Theorem reciprocity_integrals : forall (F : R -> bool -> R) zu zA zB z_turn direct,
  Rabs (z_integral F zu zA zB z_turn direct) = Rabs (z_integral F zu zB zA z_turn direct).
Proof. exact z_integral_reciprocal. Qed.
Print Assumptions reciprocity_integrals.

(* --- exists and the number of solutions *)
Theorem exists_iff_expected_regime : forall cf ct rho drm irm,
  tracer_exists (expected_solutions cf ct rho drm irm) = true <->
  cf = true /\ ct = true /\ (rho < drm \/ rho < irm).
Proof. exact exists_iff_expected. Qed.
Print Assumptions exists_iff_expected_regime.

(* gradient_count / exists_iff_nonempty: when the solver returned an angle for each expected
   solution, a gradient-index tracer reports none or two solutions and exists <-> non-empty *)
Theorem gradient_count : forall cf ct rho drm irm a0 a1 a2,
  let ex := expected_solutions cf ct rho drm irm in
  let sols := tracer_solutions_g [Some a0; Some a1; Some a2] ex in
  (length sols = 0%nat \/ length sols = 2%nat) /\ (tracer_exists ex = true <-> sols <> []).
Proof. exact gradient_count_lemma. Qed.
Print Assumptions gradient_count.

Theorem solver_failure_only_removes_solutions : forall angles i ex,
  (length (solutions_from i angles ex) <= length (filter (fun b => b) ex))%nat.
Proof. exact solutions_le_expected. Qed.
Print Assumptions solver_failure_only_removes_solutions.

Theorem uniform_exists_iff_nonempty : forall t m,
  (UniformRayTracer_exists t = true <-> tracer_solutions t m <> []) /\
  (UniformRayTracer_exists t = true <->
   (t_lo t <= UniformRayTracer_z0 t <= t_hi t /\ t_lo t <= UniformRayTracer_z1 t <= t_hi t)).
Proof. intros. split; [apply uniform_exists_iff_nonempty|apply uniform_exists_iff_in_range]. Qed.
Print Assumptions uniform_exists_iff_nonempty.
