(* C07: ZHS -- exact zero-exit condition, shift identity for every sample (2N-periodic continuation), time-domain peak. *)
From Coq Require Import Reals List Bool ZArith Lra Lia.
From PyrexLib Require Import RealPrims.
From PyrexGen Require Import Gen_askaryan.
From PyrexModel Require Import AskaryanIndex AskaryanModel.
From PyrexProofs Require Import C07_index C07_lists C07_formulas C07_zhs_avz.
Import ListNotations.
Open Scope R_scope.

(* ================================================================== PART A: integer parts *)
Lemma Rfloor_Z_ge : forall x (k : Z), (k <= Rfloor_Z x)%Z <-> IZR k <= x.
Proof.
  intros x k. pose proof (Rfloor_Z_spec x) as S. split; intros H.
  - apply IZR_le in H. lra.
  - assert (H1 : (k < Rfloor_Z x + 1)%Z) by (apply lt_IZR; rewrite plus_IZR; lra).
    lia.
Qed.

Lemma Rtrunc_neg_eq : forall x, x < 0 -> Rtrunc x = (- Rfloor_Z (- x))%Z.
Proof.
  intros x Hx. unfold Rtrunc. destruct (Rltb x 0) eqn:E.
  - reflexivity.
  - apply Rltb_false in E. lra.
Qed.

Lemma Rtrunc_ge_pos : forall x (k : Z), (0 < k)%Z -> ((k <= Rtrunc x)%Z <-> IZR k <= x).
Proof.
  intros x k Hk. assert (Hk1 : 1 <= IZR k) by (apply IZR_le; lia).
  destruct (Rlt_le_dec x 0) as [Hx|Hx].
  - rewrite Rtrunc_neg_eq by assumption.
    assert (H0 : (0 <= Rfloor_Z (- x))%Z) by (apply Rfloor_Z_ge; simpl; lra).
    split; intros H; [lia | lra].
  - rewrite Rtrunc_nonneg_eq by assumption. apply Rfloor_Z_ge.
Qed.

Lemma Rtrunc_le_neg : forall x (k : Z), (k < 0)%Z -> ((Rtrunc x <= k)%Z <-> x <= IZR k).
Proof.
  intros x k Hk. assert (Hk1 : IZR k <= -1) by (apply IZR_le; lia).
  destruct (Rlt_le_dec x 0) as [Hx|Hx].
  - rewrite Rtrunc_neg_eq by assumption.
    pose proof (Rfloor_Z_ge (- x) (- k)) as G. rewrite opp_IZR in G.
    split; intros H.
    + assert (G1 : - IZR k <= - x) by (apply G; lia). lra.
    + assert (G1 : (- k <= Rfloor_Z (- x))%Z) by (apply G; lra). lia.
  - pose proof (Rtrunc_nonneg x Hx) as Hnn. split; intros H; [lia | lra].
Qed.

Lemma Rtrunc_half : forall L : Z, (0 <= L)%Z -> Rtrunc (IZR L / 2) = (L / 2)%Z.
Proof.
  intros L HL. assert (H0 : 0 <= IZR L) by (apply IZR_le; assumption).
  rewrite Rtrunc_nonneg_eq by lra.
  apply Rfloor_Z_unique.
  pose proof (Z.div_mod L 2 ltac:(lia)) as E.
  pose proof (Z.mod_pos_bound L 2 ltac:(lia)) as B.
  assert (E' : IZR L = 2 * IZR (L / 2) + IZR (L mod 2)).
  { rewrite E at 1. rewrite plus_IZR, mult_IZR. reflexivity. }
  assert (B1 : 0 <= IZR (L mod 2)) by (apply IZR_le; lia).
  assert (B2 : IZR (L mod 2) <= 1) by (apply IZR_le; lia).
  lra.
Qed.

(* ================================================================== PART B: the zero exit *)
Lemma zhs_zeroed_iff a b L t0 : (1 <= L)%Z ->
  (ZHS_zeroed a b L t0 = true <->
   (IZR (L + L / 2 + 1) <= (t0 - a) / (b - a) \/ (t0 - a) / (b - a) <= IZR (L / 2 - L - 1))).
Proof.
  intros HL. unfold ZHS_zeroed. cbv zeta.
  rewrite Rtrunc_half by lia.
  set (x := (t0 - a) / (b - a)).
  assert (Hh : (0 <= L / 2 <= L)%Z) by (Z.div_mod_to_equations; lia).
  rewrite Z.gtb_lt.
  rewrite <- (Rtrunc_ge_pos x (L + L / 2 + 1)) by lia.
  rewrite <- (Rtrunc_le_neg x (L / 2 - L - 1)) by lia.
  lia.
Qed.

(* ================================================================== PART C: periodic continuation *)
Lemma zhs_sample_periodic E d psi n N dt tau (j : Z) : (0 < N)%Z ->
  zhs_sample E d psi n N dt tau (j + 2 * N) = zhs_sample E d psi n N dt tau j.
Proof.
  intros HN. unfold zhs_sample. f_equal. f_equal.
  apply rsum_ext. intros k Hk. cbv zeta. f_equal.
  assert (HM : IZR (2 * N) <> 0) by (apply not_0_IZR; lia).
  set (M := (2 * N)%Z) in *.
  match goal with |- _ = cos ?x => rewrite <- (cos_period_Z x (Z.of_nat k)) end.
  f_equal. rewrite !mult_IZR, plus_IZR. field. exact HM.
Qed.

Lemma zhs_values_nth times E d psi n t0 (j : nat) : (j < length times)%nat ->
  nth j (zhs_values times E d psi n t0) 0 =
  if Reqb E 0 then 0 else if ZHS_zeroed (first_time times) (second_time times) (ZL times) t0 then 0
  else zhs_sample E d psi n (ZL times) (second_time times - first_time times) (t0 - first_time times) (Z.of_nat j).
Proof.
  intros Hj. unfold zhs_values. cbv zeta.
  destruct (Reqb E 0); [apply nth_zerosR|].
  destruct (ZHS_zeroed _ _ _ _); [apply nth_zerosR|].
  rewrite (nth_map_seq R) by assumption. reflexivity.
Qed.

Lemma zhs_whole_sample_shift_all times E d psi n t0 (m : Z) (j : nat) :
  second_time times - first_time times <> 0 -> E <> 0 ->
  ZHS_zeroed (first_time times) (second_time times) (ZL times) (t0 + IZR m * (second_time times - first_time times)) = false ->
  (j < length times)%nat ->
  nth j (zhs_values times E d psi n (t0 + IZR m * (second_time times - first_time times))) 0
  = zhs_sample E d psi n (ZL times) (second_time times - first_time times) (t0 - first_time times) (Z.of_nat j - m).
Proof.
  intros Hdt HE Hz Hj.
  rewrite zhs_values_nth by assumption. rewrite Hz.
  destruct (Reqb E 0) eqn:EE; [apply Reqb_true in EE; contradiction|].
  rewrite <- zhs_sample_shift; [| unfold ZL; lia | exact Hdt].
  f_equal. ring.
Qed.

(* ================================================================== PART D: time-domain peak *)
Lemma rsum_Rabs_le : forall n f, Rabs (rsum f n) <= rsum (fun k => Rabs (f k)) n.
Proof.
  induction n as [|n IH]; intros f.
  - rewrite !rsum_0, Rabs_R0. lra.
  - rewrite !rsum_S. eapply Rle_trans; [apply Rabs_triang|].
    specialize (IH f). lra.
Qed.

Lemma rsum_le : forall n f g, (forall k, (k < n)%nat -> f k <= g k) -> rsum f n <= rsum g n.
Proof.
  induction n as [|n IH]; intros f g H.
  - rewrite !rsum_0. lra.
  - rewrite !rsum_S.
    assert (rsum f n <= rsum g n) by (apply IH; intros k Hk; apply H; lia).
    assert (f n <= g n) by (apply H; lia). lra.
Qed.

Lemma rsum_lt : forall n f g (k0 : nat), (forall k, (k < n)%nat -> f k <= g k) ->
  (k0 < n)%nat -> f k0 < g k0 -> rsum f n < rsum g n.
Proof.
  induction n as [|n IH]; intros f g k0 H Hk0 Hlt.
  - lia.
  - rewrite !rsum_S.
    assert (Hn : f n <= g n) by (apply H; lia).
    destruct (Nat.eq_dec k0 n) as [->|Hne].
    + assert (rsum f n <= rsum g n) by (apply rsum_le; intros k Hk; apply H; lia). lra.
    + assert (rsum f n < rsum g n) by (apply (IH f g k0); [intros k Hk; apply H; lia | lia | exact Hlt]). lra.
Qed.

Lemma zhs_e_omega_nonneg E d psi th thc f : 0 <= E -> 0 < d -> 0 <= ZHS_e_omega E d psi th thc f.
Proof.
  intros HE Hd. rewrite zhs_e_omega_form.
  apply Rmult_le_pos; [apply zhs_amp_nonneg; assumption | unfold zhs_gauss; left; apply exp_pos].
Qed.

Lemma zhs_sample_at_origin E d psi n N dt : zhs_sample E d psi n N dt 0 0 =
  rsum (fun k => ZHS_e_omega E d psi (ZHS_theta psi) (ZHS_theta_c n) (fftfreq (2 * N) dt (Z.of_nat k))) (Z.to_nat (2 * N)) / IZR (2 * N) / dt.
Proof.
  unfold zhs_sample. f_equal. f_equal.
  apply rsum_ext. intros k Hk. cbv zeta.
  rewrite Z.mul_0_r.
  match goal with |- _ * cos ?x = _ => replace x with 0 by (unfold Rdiv; ring) end.
  rewrite cos_0. ring.
Qed.

Lemma zhs_sample_bound E d psi n N dt tau (j : Z) : 0 <= E -> 0 < d -> 0 < dt -> (0 < N)%Z ->
  Rabs (zhs_sample E d psi n N dt tau j) <= zhs_sample E d psi n N dt 0 0.
Proof.
  intros HE Hd Hdt HN. rewrite zhs_sample_at_origin. unfold zhs_sample.
  assert (HM : 0 < IZR (2 * N)) by (apply IZR_lt; lia).
  assert (HiM : 0 < / IZR (2 * N)) by (apply Rinv_0_lt_compat; assumption).
  assert (Hidt : 0 < / dt) by (apply Rinv_0_lt_compat; assumption).
  unfold Rdiv. rewrite !Rabs_mult.
  rewrite (Rabs_pos_eq (/ IZR (2 * N))) by lra.
  rewrite (Rabs_pos_eq (/ dt)) by lra.
  apply Rmult_le_compat_r; [lra|]. apply Rmult_le_compat_r; [lra|].
  eapply Rle_trans; [apply rsum_Rabs_le|].
  apply rsum_le. intros k Hk. cbv zeta.
  rewrite Rabs_mult.
  match goal with |- Rabs ?e * Rabs (cos ?x) <= _ =>
    assert (He : 0 <= e) by (apply zhs_e_omega_nonneg; assumption);
    assert (Hc : Rabs (cos x) <= 1) by (apply Rabs_le; pose proof (COS_bound x); lra);
    rewrite (Rabs_pos_eq e He); pose proof (Rabs_pos (cos x)) end.
  nra.
Qed.

Lemma zhs_peak_attained E d psi n N dt (k0 : Z) : (0 < N)%Z -> dt <> 0 ->
  zhs_sample E d psi n N dt (IZR k0 * dt) k0 = zhs_sample E d psi n N dt 0 0.
Proof.
  intros HN Hdt.
  pose proof (zhs_sample_shift E d psi n N dt 0 k0 k0 HN Hdt) as H.
  rewrite Rplus_0_l, Z.sub_diag in H. exact H.
Qed.

Lemma zhs_peak_monotone_in_angle E d psi1 psi2 n N dt : 0 <= E -> 0 < d -> 0 < dt -> (0 < N)%Z ->
  Rabs (Rabs psi1 - ZHS_theta_c n) <= Rabs (Rabs psi2 - ZHS_theta_c n) ->
  zhs_sample E d psi2 n N dt 0 0 <= zhs_sample E d psi1 n N dt 0 0.
Proof.
  intros HE Hd Hdt HN H. rewrite !zhs_sample_at_origin.
  assert (HM : 0 < IZR (2 * N)) by (apply IZR_lt; lia).
  assert (HiM : 0 < / IZR (2 * N)) by (apply Rinv_0_lt_compat; assumption).
  assert (Hidt : 0 < / dt) by (apply Rinv_0_lt_compat; assumption).
  unfold Rdiv.
  apply Rmult_le_compat_r; [lra|]. apply Rmult_le_compat_r; [lra|].
  apply rsum_le. intros k Hk.
  change (ZHS_theta psi1) with (Rabs psi1). change (ZHS_theta psi2) with (Rabs psi2).
  rewrite (zhs_e_omega_signed_angle_irrelevant E d psi2 psi1 (Rabs psi2)).
  apply zhs_cone_factor_monotone; assumption.
Qed.

Lemma fftfreq_1_nonzero N dt : (0 < N)%Z -> dt <> 0 -> fftfreq (2 * N) dt 1 <> 0.
Proof.
  intros HN Hdt. unfold fftfreq.
  assert (HM : IZR (2 * N) <> 0) by (apply not_0_IZR; lia).
  assert (Hq : 1 / (IZR (2 * N) * dt) <> 0).
  { unfold Rdiv. rewrite Rmult_1_l. apply Rinv_neq_0_compat.
    apply Rmult_integral_contrapositive_currified; assumption. }
  apply Rmult_integral_contrapositive_currified; [|exact Hq].
  destruct (1 <? (2 * N - 1) / 2 + 1)%Z; apply not_0_IZR; lia.
Qed.

Lemma zhs_peak_strict_in_angle E d psi1 psi2 n N dt : 0 < E -> 0 < d -> 0 < dt -> (0 < N)%Z ->
  Rabs (Rabs psi1 - ZHS_theta_c n) < Rabs (Rabs psi2 - ZHS_theta_c n) ->
  zhs_sample E d psi2 n N dt 0 0 < zhs_sample E d psi1 n N dt 0 0.
Proof.
  intros HE Hd Hdt HN H. rewrite !zhs_sample_at_origin.
  assert (HM : 0 < IZR (2 * N)) by (apply IZR_lt; lia).
  assert (HiM : 0 < / IZR (2 * N)) by (apply Rinv_0_lt_compat; assumption).
  assert (Hidt : 0 < / dt) by (apply Rinv_0_lt_compat; assumption).
  unfold Rdiv.
  apply Rmult_lt_compat_r; [lra|]. apply Rmult_lt_compat_r; [lra|].
  change (ZHS_theta psi1) with (Rabs psi1). change (ZHS_theta psi2) with (Rabs psi2).
  apply (rsum_lt _ _ _ 1%nat).
  - intros k Hk.
    rewrite (zhs_e_omega_signed_angle_irrelevant E d psi2 psi1 (Rabs psi2)).
    apply zhs_cone_factor_monotone; lra.
  - lia.
  - rewrite (zhs_e_omega_signed_angle_irrelevant E d psi2 psi1 (Rabs psi2)).
    apply zhs_cone_factor_strict; try assumption.
    change (Z.of_nat 1) with 1%Z. apply fftfreq_1_nonzero; [assumption | lra].
Qed.

(* the pulse seen further from the cone never exceeds, at any sample and any shower time,
   the sample at the shower time seen nearer to the cone *)
Theorem zhs_time_domain_peak_largest_on_cone E d psi1 psi2 n N dt tau (j k0 : Z) :
  0 <= E -> 0 < d -> 0 < dt -> (0 < N)%Z ->
  Rabs (Rabs psi1 - ZHS_theta_c n) <= Rabs (Rabs psi2 - ZHS_theta_c n) ->
  Rabs (zhs_sample E d psi2 n N dt tau j) <= zhs_sample E d psi1 n N dt (IZR k0 * dt) k0.
Proof.
  intros HE Hd Hdt HN H.
  rewrite zhs_peak_attained by (assumption || lra).
  eapply Rle_trans; [apply zhs_sample_bound; assumption|].
  apply zhs_peak_monotone_in_angle; assumption.
Qed.
