(* C19: executable model of pyrex/detector.py (Detector, CombinedDetector) and
   pyrex/internal_functions.py (flatten), following the code AS WRITTEN.

   A detector value is a tree.  Python object identity of Detector objects is kept as an
   [oid] in every node; an in-place mutation of an object ([+=] on a CombinedDetector,
   [build_antennas]) is applied to every copy of that object in the environment
   ([subst]), which emulates the Python heap for acyclic object graphs.

   No proofs here (coq/Proofs/C19_proofs.v). *)
From Coq Require Import List ZArith Bool.
Import ListNotations.
Open Scope Z_scope.

(* ---------------------------------------------------------------- data *)

(* an antenna-like leaf: identity and z coordinate of its position *)
Definition ant := (Z * Z)%type.
Definition a_id (a : ant) : Z := fst a.
Definition a_z (a : ant) : Z := snd a.

(* keyword arguments: ordered (key, value) list, keys and values are integer codes *)
Definition kwargs := list (Z * Z).
Definition K_ANTENNA_CLASS : Z := 0.
Definition K_MC : Z := 1.           (* require_mc_truth *)

(* signature of a build_antennas / triggered method, as compared by
   inspect.signature(...) == ... : named parameters with defaults, *args?, **kwargs? *)
Definition sig := (list (Z * Z) * bool * bool)%type.
Definition SIG_DEFAULT_BUILD : sig := ([], true, true).       (* ( *args, **kwargs ) *)
Definition SIG_DEFAULT_TRIG : sig := ([(K_MC, 0)], true, true). (* ( *args, require_mc_truth=False, **kwargs ) *)
Definition sig_named (s : sig) : list (Z * Z) := fst (fst s).
Definition sig_varargs (s : sig) : bool := snd (fst s).
Definition sig_varkw (s : sig) : bool := snd s.

Definition pair_eqb (a b : Z * Z) : bool := (fst a =? fst b) && (snd a =? snd b).
Fixpoint list_eqb {A} (eqb : A -> A -> bool) (l1 l2 : list A) : bool :=
  match l1, l2 with
  | [], [] => true
  | x :: l1', y :: l2' => eqb x y && list_eqb eqb l1' l2'
  | _, _ => false
  end.
Definition sig_eqb (s1 s2 : sig) : bool :=
  list_eqb pair_eqb (sig_named s1) (sig_named s2)
  && Bool.eqb (sig_varargs s1) (sig_varargs s2) && Bool.eqb (sig_varkw s1) (sig_varkw s2).

(* a Detector subclass defined by the harness *)
Record cls := mkcls {
  c_build : option (list (Z * Z));  (* None: inherits Detector.build_antennas;
                                       Some params: override  def build_antennas(self, k1=d1, ...):
                                                      log; Detector.build_antennas(self, k1=k1, ...) *)
  c_trig : option (list (Z * Z) * bool); (* None: inherits Detector.triggered;
                                       Some (params, varkw): override  def triggered(self, k1=d1, ... [, **kw]):
                                                      log; Detector.triggered(self, require_mc_truth=<received or False>) *)
  c_flag : bool                     (* test_antenna_positions *)
}.
Definition cls_table := Z -> cls.

Inductive kind := KDet (c : Z) | KComb.

Inductive det :=
| Ant (a : ant)                       (* antenna-like object (not iterable) *)
| AList (l : list ant)                (* Python list of antenna-like objects *)
| Node (oid : Z) (k : kind) (msig : sig) (pos : list ant) (subs : list det).
(* msig: signature currently shown by the instance's build_antennas attribute (set by
   _mirror_build_function); pos: antenna_positions of a Detector subclass (id, z) *)

Inductive err := EType | EKw (k : Z) | EValue | EIndex | ENotImpl.
Inductive res (A : Type) := Ok (a : A) | Err (e : err).
Arguments Ok {A} a. Arguments Err {A} e.

(* ---------------------------------------------------------------- flatten / iteration *)

(* internal_functions.flatten(self.subsets) -- Detector.__iter__ *)
Fixpoint flatten (t : det) : list ant :=
  match t with
  | Ant a => [a]
  | AList l => l
  | Node _ _ _ _ subs => flat_map flatten subs
  end.

Definition det_len (t : det) : Z := Z.of_nat (length (flatten t)).

(* list(flatten(self.subsets))[key] with Python index semantics *)
Definition py_index {A} (l : list A) (k : Z) : res A :=
  let n := Z.of_nat (length l) in
  let k' := if k <? 0 then k + n else k in
  if (k' <? 0) || (n <=? k') then Err EIndex
  else match nth_error l (Z.to_nat k') with Some x => Ok x | None => Err EIndex end.
Definition det_getitem (t : det) (k : Z) : res ant := py_index (flatten t) k.

(* isinstance(x, Iterable) *)
Definition iterable (t : det) : bool := match t with Ant _ => false | _ => true end.
(* hasattr(x, 'build_antennas') / 'triggered' / '_test_positions' *)
Definition is_node (t : det) : bool := match t with Node _ _ _ _ _ => true | _ => false end.

(* Detector._is_base_subset *)
Definition is_base (subs : list det) : bool := negb (existsb iterable subs).

(* ---------------------------------------------------------------- class lookups *)

Definition own_build_sig (ct : cls_table) (k : kind) : sig :=
  match k with
  | KComb => SIG_DEFAULT_BUILD
  | KDet c => match c_build (ct c) with None => SIG_DEFAULT_BUILD | Some ps => (ps, false, false) end
  end.
Definition overrides_build (ct : cls_table) (k : kind) : bool :=
  match k with KComb => false | KDet c => match c_build (ct c) with None => false | Some _ => true end end.
Definition trig_sig (ct : cls_table) (k : kind) : sig :=
  match k with
  | KComb => SIG_DEFAULT_TRIG
  | KDet c => match c_trig (ct c) with None => SIG_DEFAULT_TRIG | Some (ps, vk) => (ps, false, vk) end
  end.
Definition flag (ct : cls_table) (k : kind) : bool :=
  match k with KComb => true | KDet c => c_flag (ct c) end.

(* ---------------------------------------------------------------- position test *)

(* Detector._test_positions; true = passes, false = ValueError *)
Definition zs_ok (l : list ant) : bool := forallb (fun a => a_z a <=? 0) l.

Fixpoint test_positions (ct : cls_table) (t : det) : bool :=
  match t with
  | Ant a => a_z a <=? 0
  | AList l => zs_ok l
  | Node _ k _ pos subs =>
    if negb (flag ct k) then true
    else if is_base subs then
      (* CombinedDetector.antenna_positions is a property over the subsets *)
      match k with
      | KComb => zs_ok (flat_map flatten subs)
      | KDet _ => zs_ok pos
      end
    else forallb (test_positions ct) subs
  end.

(* ---------------------------------------------------------------- build signatures *)

Definition sub_sigs (subs : list det) : list sig :=
  flat_map (fun s => match s with Node _ _ m _ _ => [m] | _ => [] end) subs.

(* len(set(signatures)) == 1 *)
Definition all_same (l : list sig) : bool :=
  match l with [] => false | s :: r => forallb (sig_eqb s) r end.

(* Detector._subset_builds_match *)
Definition builds_match (subs : list det) : bool := is_base subs || all_same (sub_sigs subs).

(* Detector._mirror_build_function: the signature the instance shows afterwards *)
Definition mirror_sig (ct : cls_table) (k : kind) (subs : list det) : sig :=
  if negb (is_base subs) && negb (overrides_build ct k) && builds_match subs
  then match sub_sigs subs with s :: _ => s | [] => own_build_sig ct k end
  else own_build_sig ct k.

(* ---------------------------------------------------------------- construction *)

(* Detector.__init__ of a harness subclass whose set_positions fills antenna_positions *)
Definition new_base (ct : cls_table) (oid c : Z) (pos : list ant) : res det :=
  let t := Node oid (KDet c) (mirror_sig ct (KDet c) []) pos [] in
  if test_positions ct t then Ok t else Err EValue.

(* Detector.__init__ of a harness subclass whose set_positions fills subsets *)
Definition new_comp (ct : cls_table) (oid c : Z) (subs : list det) : res det :=
  let t := Node oid (KDet c) (mirror_sig ct (KDet c) subs) [] subs in
  if test_positions ct t then Ok t else Err EValue.

(* CombinedDetector.__init__( *detectors ) *)
Definition mkcomb (ct : cls_table) (oid : Z) (subs : list det) : res det :=
  let t := Node oid KComb (mirror_sig ct KComb subs) [] subs in
  if test_positions ct t then Ok t else Err EValue.

Definition subsets (t : det) : list det :=
  match t with Node _ _ _ _ subs => subs | _ => [] end.
Definition is_comb (t : det) : bool :=
  match t with Node _ KComb _ _ _ => true | _ => false end.

(* Detector.__add__ *)
Definition det_add ct oid (self other : det) : res det := mkcomb ct oid [self; other].
(* Detector.__radd__ (other is not 0) *)
Definition det_radd ct oid (self other : det) : res det := mkcomb ct oid [other; self].
(* CombinedDetector.__add__ *)
Definition comb_add ct oid (self other : det) : res det :=
  if is_comb other then mkcomb ct oid (subsets self ++ subsets other)
  else mkcomb ct oid (subsets self ++ [other]).
(* CombinedDetector.__radd__ (other is not 0) *)
Definition comb_radd ct oid (self other : det) : res det :=
  if is_comb other then mkcomb ct oid (subsets other ++ subsets self)
  else mkcomb ct oid (other :: subsets self).
(* CombinedDetector.__iadd__ : same object (oid), subsets extended, re-tested, re-mirrored *)
Definition comb_iadd ct (self other : det) : res det :=
  match self with
  | Node oid KComb _ pos subs =>
    let subs' := if is_comb other then subs ++ subsets other else subs ++ [other] in
    let t := Node oid KComb (mirror_sig ct KComb subs') pos subs' in
    if test_positions ct t then Ok t else Err EValue
  | _ => Err EType
  end.

(* Python's binary + between two values (which special method runs) *)
Definition py_add ct oid (a b : det) : res det :=
  match a with
  | Node _ KComb _ _ _ => comb_add ct oid a b
  | Node _ (KDet _) _ _ _ => det_add ct oid a b
  | _ => match b with
         | Node _ KComb _ _ _ => comb_radd ct oid b a
         | Node _ (KDet _) _ _ _ => det_radd ct oid b a
         | _ => Err EType     (* antenna/list + antenna/list: not a detector operation *)
         end
  end.

(* sum([d1, d2, ...]) = ((0 + d1) + d2) + ... ; 0 + d runs d.__radd__(0) which returns d *)
Fixpoint py_sum_from ct (oid : Z) (acc : det) (l : list det) : res det * Z :=
  match l with
  | [] => (Ok acc, oid)
  | d :: r => match py_add ct oid acc d with
              | Ok t => py_sum_from ct (oid + 1) t r
              | Err e => (Err e, oid + 1)
              end
  end.
Definition py_sum ct oid (l : list det) : res det * Z :=
  match l with
  | [] => (Err EType, oid)      (* sum([]) = 0: not a detector *)
  | d :: r => if is_node d then py_sum_from ct oid d r else (Err EType, oid)
  end.

(* ---------------------------------------------------------------- hit state *)

Definition hits := list (Z * (bool * bool)).   (* antenna id -> (is_hit, is_hit_mc_truth), latest first *)
Fixpoint hit_lookup (h : hits) (a : Z) : bool * bool :=
  match h with
  | [] => (false, false)
  | (b, v) :: r => if a =? b then v else hit_lookup r a
  end.
Definition ant_hit (h : hits) (mc : bool) (a : ant) : bool :=
  if mc then snd (hit_lookup h (a_id a)) else fst (hit_lookup h (a_id a)).

(* Detector.triggered: any antenna of the flattened detector is hit *)
Definition any_hit (h : hits) (mc : bool) (t : det) : bool := existsb (ant_hit h mc) (flatten t).

(* ---------------------------------------------------------------- argument binding *)

Fixpoint index_of (k : Z) (ps : list (Z * Z)) (i : nat) : option nat :=
  match ps with
  | [] => None
  | (k', _) :: r => if k =? k' then Some i else index_of k r (S i)
  end.
Fixpoint kw_lookup (k : Z) (kw : kwargs) : option Z :=
  match kw with
  | [] => None
  | (k', v) :: r => if k =? k' then Some v else kw_lookup k r
  end.

(* CPython binding of a call  f( *args, **kw )  to  def f(self, k1=d1, ..., [**varkw]) :
   keywords are examined in order (unknown -> "unexpected keyword argument", already filled
   positionally -> "multiple values"), then the excess-positional check *)
Fixpoint check_kw (ps : list (Z * Z)) (varkw : bool) (nargs : nat) (kw : kwargs) : option err :=
  match kw with
  | [] => None
  | (k, _) :: r =>
    match index_of k ps 0 with
    | Some i => if Nat.ltb i nargs then Some EType else check_kw ps varkw nargs r
    | None => if varkw then check_kw ps varkw nargs r else Some (EKw k)
    end
  end.
Fixpoint fill (ps : list (Z * Z)) (args : list Z) (kw : kwargs) : kwargs :=
  match ps with
  | [] => []
  | (k, d) :: r =>
    match args with
    | a :: args' => (k, a) :: fill r args' kw
    | [] => (k, match kw_lookup k kw with Some v => v | None => d end) :: fill r [] kw
    end
  end.
(* result: values of the named parameters, extra keywords captured by **varkw *)
Definition bind (ps : list (Z * Z)) (varkw : bool) (args : list Z) (kw : kwargs) : res (kwargs * kwargs) :=
  match check_kw ps varkw (length args) kw with
  | Some e => Err e
  | None => if Nat.ltb (length ps) (length args) then Err EType
            else Ok (fill ps args kw, filter (fun kv => match index_of (fst kv) ps 0 with None => true | Some _ => false end) kw)
  end.

(* ---------------------------------------------------------------- build_antennas *)

Inductive logent :=
| LBuildCall (oid : Z) (kw : kwargs)              (* a harness override of build_antennas ran with these parameter values *)
| LAnt (aid : Z) (acls : Z) (args : list Z) (kw : kwargs)  (* antenna_class( *args, position=p, **kw ) *)
| LTrigCall (oid : Z) (named : kwargs) (extra : kwargs)   (* a harness override of triggered ran *)
| LClear (aid : Z) (reset : Z).                   (* ant.clear(reset_noise=reset) *)

(* keyword routing of Detector.build_antennas when the subset signatures differ:
   a subset whose build_antennas takes **kwargs gets every keyword, otherwise the keywords
   named in its signature *)
Definition accepts_kw (s : sig) (k : Z) : bool :=
  sig_varkw s || match index_of k (sig_named s) 0 with Some _ => true | None => false end.
Definition route_build (s : sig) (kw : kwargs) : kwargs :=
  if sig_varkw s then kw else filter (fun kv => accepts_kw s (fst kv)) kw.

Definition remove_key (k : Z) (kw : kwargs) : kwargs := filter (fun kv => negb (fst kv =? k)) kw.

(* what the call  node.build_antennas( *args, **kw )  does before reaching
   Detector.build_antennas: a harness override binds its parameters, logs, and forwards
   them all as keywords *)
Definition pre_build (ct : cls_table) (oid : Z) (k : kind) (args : list Z) (kw : kwargs)
  : res (list Z * kwargs * list logent) :=
  match k with
  | KComb => Ok (args, kw, [])
  | KDet c =>
    match c_build (ct c) with
    | None => Ok (args, kw, [])
    | Some ps => match bind ps false args kw with
                 | Err e => Err e
                 | Ok (named, _) => Ok ([], named, [LBuildCall oid named])
                 end
    end
  end.

(* the loop  for sub in self.subsets: if hasattr(sub, 'build_antennas'): sub.build_antennas(...)
   of Detector.build_antennas, over the function [f] that builds one subset; stops at the first
   failure leaving the subsets built so far in place *)
Section BuildSubs.
  Variable f : det -> list Z -> kwargs -> det * option err * list logent.
  Variable matching : bool.
  Variable args1 : list Z.
  Variable kw1 : kwargs.
  Fixpoint build_subs (l : list det) : list det * option err * list logent :=
    match l with
    | [] => ([], None, [])
    | s :: r =>
      match s with
      | Node _ _ m _ _ =>
        let '(s', e, lg) := if matching then f s args1 kw1 else f s [] (route_build m kw1) in
        match e with
        | Some _ => (s' :: r, e, lg)
        | None => let '(r', e2, lg2) := build_subs r in (s' :: r', e2, lg ++ lg2)
        end
      | _ => let '(r', e2, lg2) := build_subs r in (s :: r', e2, lg2)
      end
    end.
End BuildSubs.

(* returns the object as mutated so far (a failure deep inside leaves the subsets built
   before it in place), the error if any, and the call log *)
Fixpoint build (ct : cls_table) (t : det) (args : list Z) (kw : kwargs) {struct t}
  : det * option err * list logent :=
  match t with
  | Node oid k msig pos subs =>
    match pre_build ct oid k args kw with
    | Err e => (t, Some e, [])
    | Ok (args1, kw1, log0) =>
      if is_base subs then
        (* base subset: create the antennas.
           self.subsets = [] precedes  for p in self.antenna_positions ; for a
           CombinedDetector antenna_positions is a property over the (now empty) subsets *)
        let positions := match k with KComb => [] | KDet _ => pos end in
        match (match kw_lookup K_ANTENNA_CLASS kw1 with
               | Some ac => Some (ac, args1, remove_key K_ANTENNA_CLASS kw1)
               | None => match args1 with a :: r => Some (a, r, kw1) | [] => None end
               end) with
        | None => (t, Some EType, log0)
        | Some (ac, args2, kw2) =>
          (Node oid k msig pos (map Ant positions), None,
           log0 ++ map (fun p => LAnt (a_id p) ac args2 kw2) positions)
        end
      else
        let matching := builds_match subs in
        if negb matching && negb (Nat.eqb (length args1) 0) then (t, Some EType, log0)
        else
          let '(subs', e, lg) := build_subs (build ct) matching args1 kw1 subs in
          (Node oid k msig pos subs', e, log0 ++ lg)
    end
  | _ => (t, Some EType, [])
  end.

(* ---------------------------------------------------------------- triggered *)

(* the keyword-removal loop of CombinedDetector.triggered for one subset whose call
   outcome is given by [call]; fuel = number of keywords + 1 suffices *)
Fixpoint removal_loop {A} (call : kwargs -> res A * list logent) (fuel : nat) (kw : kwargs)
  : res A * list logent :=
  match fuel with
  | O => (Err EType, [])
  | S f =>
    match call kw with
    | (Ok b, lg) => (Ok b, lg)
    | (Err (EKw bad), lg) =>
      let kw' := remove_key bad kw in
      if list_eqb pair_eqb kw' kw then (Err EType, lg)   (* "Unable to pass keyword arguments down" *)
      else let '(r, lg2) := removal_loop call f kw' in (r, lg ++ lg2)
    | (Err e, lg) => (Err e, lg)
    end
  end.

Definition trig_sigs (ct : cls_table) (subs : list det) : list sig :=
  flat_map (fun s => match s with Node _ k _ _ _ => [trig_sig ct k] | _ => [] end) subs.

Definition to_bool (v : Z) : bool := negb (v =? 0).

(* set kwargs['require_mc_truth'] = v keeping dict order *)
Fixpoint kw_set (k v : Z) (kw : kwargs) : kwargs :=
  match kw with
  | [] => [(k, v)]
  | (k', v') :: r => if k =? k' then (k, v) :: r else (k', v') :: kw_set k v r
  end.

(* x.triggered( *args, **kw ) for any detector node; kw may or may not contain require_mc_truth *)
Fixpoint triggered (ct : cls_table) (h : hits) (t : det) (args : list Z) (kw : kwargs) {struct t}
  : res bool * list logent :=
  match t with
  | Node oid (KDet c) _ _ subs =>
    match c_trig (ct c) with
    | None =>
      (* Detector.triggered(self, *args, require_mc_truth=False, **kwargs) *)
      let mc := match kw_lookup K_MC kw with Some v => to_bool v | None => false end in
      (Ok (any_hit h mc t), [])
    | Some (ps, vk) =>
      match bind ps vk args kw with
      | Err e => (Err e, [])
      | Ok (named, extra) =>
        let mc := match kw_lookup K_MC named with Some v => to_bool v | None => false end in
        (Ok (any_hit h mc t), [LTrigCall oid named extra])
      end
    end
  | Node oid KComb _ _ subs =>
    (* def triggered(self, *args, require_mc_truth=False, **kwargs) *)
    let mcv := match kw_lookup K_MC kw with Some v => v | None => 0 end in
    let mc := to_bool mcv in
    let matching := all_same (trig_sigs ct subs) in
    if negb matching && negb (Nat.eqb (length args) 0) then (Err EType, [])
    else
      (* kwargs['require_mc_truth'] = require_mc_truth : appended last when it was absent
         (a named parameter is never part of **kwargs) *)
      let kw1 := remove_key K_MC kw ++ [(K_MC, mcv)] in
      let fix go (l : list det) : res bool * list logent :=
        match l with
        | [] => (Ok false, [])
        | s :: r =>
          let '(rs, lg) :=
            match s with
            | Node _ k _ _ _ =>
              if matching then
                let kw2 := if accepts_kw (trig_sig ct k) K_MC then kw1 else remove_key K_MC kw1 in
                triggered ct h s args kw2
              else removal_loop (fun kws => triggered ct h s [] kws) (S (length kw1)) kw1
            | AList l => (Ok (existsb (ant_hit h mc) l), [])
            | Ant a => (Ok (ant_hit h mc a), [])
            end in
          match rs with
          | Err e => (Err e, lg)
          | Ok true => (Ok true, lg)
          | Ok false => let '(rr, lg2) := go r in (rr, lg ++ lg2)
          end
        end in
      go subs
  | _ => (Err EType, [])
  end.

(* ---------------------------------------------------------------- clear *)

(* Detector.clear(reset_noise): for ant in self: ant.clear(reset_noise=reset_noise) *)
Definition clear_log (t : det) (reset : Z) : list logent :=
  map (fun a => LClear (a_id a) reset) (flatten t).
Definition clear_hits (h : hits) (t : det) : hits :=
  map (fun a => (a_id a, (false, false))) (flatten t) ++ h.

(* ---------------------------------------------------------------- environment / histories *)

(* replace every copy of the objects listed in m (by oid) *)
Fixpoint lookup_oid (m : list (Z * det)) (o : Z) : option det :=
  match m with
  | [] => None
  | (o', t) :: r => if o =? o' then Some t else lookup_oid r o
  end.
Fixpoint subst (m : list (Z * det)) (t : det) : det :=
  match t with
  | Node oid k ms pos subs =>
    match lookup_oid m oid with
    | Some t' => t'
    | None => Node oid k ms pos (map (subst m) subs)
    end
  | _ => t
  end.
(* all objects of a tree, outermost first *)
Fixpoint collect (t : det) : list (Z * det) :=
  match t with
  | Node oid _ _ _ subs => (oid, t) :: flat_map collect subs
  | _ => []
  end.
Fixpoint occurs (o : Z) (t : det) : bool :=
  match t with
  | Node oid _ _ _ subs => (o =? oid) || existsb (occurs o) subs
  | _ => false
  end.

Inductive op :=
| ONewBase (oid c : Z) (pos : list ant)      (* oid: harness-chosen identity of the new object *)
| ONewComp (oid c : Z) (children : list nat)
| OAnt (a : ant)
| OList (l : list ant)
| OAdd (i j : nat)
| OIadd (i j : nat)
| OSum (l : list nat)
| OBuild (i : nat) (args : list Z) (kw : kwargs)
| OSetHit (aid : Z) (hit mc : bool)
| OObs (i : nat) (idx : list Z)
| OTrig (i : nat) (args : list Z) (kw : kwargs)
| OClear (i : nat) (reset : Z).

Inductive out :=
| OutOk
| OutErr (e : err)
| OutSkip                                   (* operand is not available (an earlier op failed) *)
| OutObs (ids : list Z) (len : Z) (items : list (res Z))
| OutLog (r : res bool) (lg : list logent).

Record st := mkst { env : list (option det); hs : hits; next : Z }.
(* CombinedDetector objects (created inside pyrex) are numbered from 1000000 *)
Definition init : st := mkst [] [] 1000000.

Definition get (s : st) (i : nat) : option det :=
  match nth_error (env s) i with Some (Some t) => Some t | _ => None end.
Fixpoint get_all (s : st) (l : list nat) : option (list det) :=
  match l with
  | [] => Some []
  | i :: r => match get s i, get_all s r with Some t, Some ts => Some (t :: ts) | _, _ => None end
  end.
Definition push (s : st) (v : option det) (nxt : Z) : st := mkst (env s ++ [v]) (hs s) nxt.
Definition push_res (s : st) (r : res det) (nxt : Z) : st * out :=
  match r with
  | Ok t => (push s (Some t) nxt, OutOk)
  | Err e => (push s None nxt, OutErr e)
  end.
Definition subst_env (m : list (Z * det)) (e : list (option det)) : list (option det) :=
  map (fun v => match v with Some t => Some (subst m t) | None => None end) e.
Fixpoint set_nth {A} (l : list A) (i : nat) (v : A) : list A :=
  match l, i with
  | [], _ => []
  | _ :: r, O => v :: r
  | x :: r, S i' => x :: set_nth r i' v
  end.

Definition step (ct : cls_table) (s : st) (o : op) : st * out :=
  match o with
  | ONewBase oid c pos => push_res s (new_base ct oid c pos) (next s)
  | ONewComp oid c ch =>
    match get_all s ch with
    | None => (push s None (next s), OutSkip)
    | Some subs => push_res s (new_comp ct oid c subs) (next s)
    end
  | OAnt a => (push s (Some (Ant a)) (next s), OutOk)
  | OList l => (push s (Some (AList l)) (next s), OutOk)
  | OAdd i j =>
    match get s i, get s j with
    | Some a, Some b => push_res s (py_add ct (next s) a b) (next s + 1)
    | _, _ => (push s None (next s), OutSkip)
    end
  | OSum l =>
    match get_all s l with
    | None => (push s None (next s), OutSkip)
    | Some ds => let '(r, nxt) := py_sum ct (next s) ds in push_res s r nxt
    end
  | OIadd i j =>
    (* v_i += v_j : in place for a CombinedDetector, rebinding v_i = v_i + v_j otherwise *)
    match get s i, get s j with
    | Some a, Some b =>
      if is_comb a then
        match comb_iadd ct a b with
        | Ok t => (mkst (subst_env [(match t with Node o _ _ _ _ => o | _ => 0 end, t)] (env s)) (hs s) (next s), OutOk)
        | Err e =>
          (* the subsets were already extended when _test_positions raised *)
          let subs' := if is_comb b then subsets a ++ subsets b else subsets a ++ [b] in
          let t := match a with Node o k m p _ => Node o k m p subs' | _ => a end in
          (mkst (subst_env [(match a with Node o _ _ _ _ => o | _ => 0 end, t)] (env s)) (hs s) (next s), OutErr e)
        end
      else
        match py_add ct (next s) a b with
        | Ok t => (mkst (set_nth (env s) i (Some t)) (hs s) (next s + 1), OutOk)
        | Err e => (mkst (env s) (hs s) (next s + 1), OutErr e)
        end
    | _, _ => (s, OutSkip)
    end
  | OBuild i args kw =>
    match get s i with
    | None => (s, OutSkip)
    | Some t =>
      let '(t', e, lg) := build ct t args kw in
      let built := flat_map (fun x => match x with LAnt a _ _ _ => [(a, (false, false))] | _ => [] end) lg in
      (mkst (subst_env (collect t') (env s)) (built ++ hs s) (next s),
       OutLog (match e with None => Ok true | Some e' => Err e' end) lg)
    end
  | OSetHit a hit mc => (mkst (env s) ((a, (hit, mc)) :: hs s) (next s), OutOk)
  | OObs i idx =>
    match get s i with
    | None => (s, OutSkip)
    | Some t =>
      (s, OutObs (map a_id (flatten t)) (det_len t)
                 (map (fun k => match det_getitem t k with Ok a => Ok (a_id a) | Err e => Err e end) idx))
    end
  | OTrig i args kw =>
    match get s i with
    | None => (s, OutSkip)
    | Some t => let '(r, lg) := triggered ct (hs s) t args kw in (s, OutLog r lg)
    end
  | OClear i reset =>
    match get s i with
    | None => (s, OutSkip)
    | Some t => (mkst (env s) (clear_hits (hs s) t) (next s), OutLog (Ok true) (clear_log t reset))
    end
  end.

Fixpoint run (ct : cls_table) (s : st) (ops : list op) : list out :=
  match ops with
  | [] => []
  | o :: r => let '(s', x) := step ct s o in x :: run ct s' r
  end.
