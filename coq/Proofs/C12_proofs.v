(* C12: every way of reading or continuing a file yields the same event stream. *)
From Coq Require Import List ZArith Bool Lia.
From PyrexLib Require Import IOLists.
From PyrexModel Require Import IOModel.
From PyrexProofs Require Import IO_writer IO_reader C11_proofs.
Import ListNotations.
Open Scope Z_scope.

(* what a sequential pass of the specification reader sees at event number ev *)
Definition spec_events (st : wstate) (evs : list Z) : list (Z * (per tobs * tobs)) :=
  map (fun ev => (ev, read_all_obs st ev)) evs.

(* the file can be opened for event reading: invariant + particles group with total_thrown *)
Definition readable (st : wstate) : Prop :=
  inv st /\ ana_ok st /\ ex st P = true /\ thrown st <> None /\ 1 <= n_events st.

(* ------------------------------------------------------------------ the range of a slice *)
Lemma zseq_succ : forall m, 0 <= m -> zseq (m + 1) = 0 :: map (fun j => j + 1) (zseq m).
Proof.
  intros m Hm. unfold zseq. replace (Z.to_nat (m + 1)) with (S (Z.to_nat m)) by lia.
  simpl. f_equal. rewrite <- seq_shift. rewrite !map_map. apply map_ext. intro i. lia.
Qed.

Lemma nsel_step : forall a b p, 1 <= p -> a < b -> nsel a b p = nsel (a + p) b p + 1.
Proof.
  intros a b p Hp Hab. unfold nsel.
  replace (b - a + p - 1) with ((b - (a + p) + p - 1) + 1 * p) by lia.
  rewrite Z.div_add by lia. reflexivity.
Qed.

Lemma nsel_nonpos : forall a b p, 1 <= p -> b <= a -> nsel a b p <= 0.
Proof.
  intros a b p Hp Hab. unfold nsel.
  assert ((b - a + p - 1) / p < 1) by (apply Z.div_lt_upper_bound; lia). lia.
Qed.

Lemma nsel_nonneg : forall a b p, 1 <= p -> a <= b -> 0 <= nsel a b p.
Proof. intros. unfold nsel. apply Z.div_pos; lia. Qed.

(* srange is the arithmetic progression a, a+p, ... below b *)
Lemma srange_closed : forall fuel a b p, 1 <= p -> (Z.to_nat (nsel a b p) <= fuel)%nat ->
  srange fuel a b p = map (fun j => a + j * p) (zseq (nsel a b p)).
Proof.
  induction fuel as [|f IH]; intros a b p Hp Hf; simpl.
  - unfold zseq. replace (Z.to_nat (nsel a b p)) with 0%nat by lia. reflexivity.
  - destruct (b <=? a) eqn:E.
    + apply Z.leb_le in E. pose proof (nsel_nonpos a b p Hp E). unfold zseq.
      replace (Z.to_nat (nsel a b p)) with 0%nat by lia. reflexivity.
    + apply Z.leb_gt in E. rewrite (nsel_step a b p Hp E) in *.
      assert (Hn : 0 <= nsel (a + p) b p).
      { destruct (Z_le_gt_dec (a + p) b); [apply nsel_nonneg; lia|].
        unfold nsel. apply Z.div_pos; lia. }
      rewrite zseq_succ by exact Hn. simpl. f_equal; [lia|].
      rewrite IH by (auto; lia). rewrite map_map. apply map_ext. intro j. lia.
Qed.

Lemma srange_all : forall n, 0 <= n -> srange (S (Z.to_nat n)) 0 n 1 = zseq n.
Proof.
  intros n Hn. rewrite srange_closed by (try lia; unfold nsel; rewrite Z.div_1_r; lia).
  unfold nsel. rewrite Z.div_1_r. replace (n - 0 + 1 - 1) with n by lia.
  rewrite <- (map_id (zseq n)) at 2. apply map_ext. intro j. lia.
Qed.

(* ------------------------------------------------------------------ iteration with any chunk size *)
Lemma iter_init_all : forall st, readable st -> iter_init st None None None = inr (0, n_events st, 1).
Proof.
  intros st [I [Hok [HP [HT Hn]]]]. unfold iter_init. unfold ex in HP. rewrite HP.
  destruct (thrown st) eqn:Et; [| congruence]. simpl.
  destruct (n_events st <? 0) eqn:E1; [lia|].
  destruct (n_events st <=? 0) eqn:E2; [lia|]. simpl.
  destruct (n_events st <? n_events st) eqn:E3; [lia|]. reflexivity.
Qed.

Theorem iter_eq_spec_lemma : forall st k, readable st -> (forall k', k = Some k' -> 1 <= k') ->
  reader_iter st k = inr (spec_events st (zseq (n_events st))).
Proof.
  intros st k R Hk. pose proof R as [I [Hok [HP [HT Hn]]]]. unfold reader_iter, iterate.
  assert (Hk1 : 1 <= reader_k st k).
  { unfold reader_k. destruct k as [k'|]; simpl; [apply Hk; reflexivity | lia]. }
  rewrite (iterate_fuel_spec st _ None None None _ 0 (n_events st) 1 I Hok Hk1 (iter_init_all st R)).
  rewrite srange_all by lia. reflexivity.
Qed.

(* ------------------------------------------------------------------ integer indexing *)
Theorem getitem_int_lemma : forall st key, readable st -> - n_events st <= key < n_events st ->
  getitem_int st key = inr (read_all_obs st (key mod n_events st)).
Proof.
  intros st key R Hkey. pose proof R as [I [Hok [HP [HT Hn]]]]. unfold getitem_int.
  set (n := n_events st) in *.
  set (stop := if key =? -1 then n else key + 1).
  assert (Hinit : iter_init st (Some key) (Some stop) (Some 1) = inr (key mod n, key mod n + 1, 1)).
  { unfold iter_init. unfold ex in HP. rewrite HP. destruct (thrown st) eqn:Et; [| congruence]. simpl. fold n.
    assert (Hm : key mod n = if key <? 0 then key + n else key).
    { destruct (key <? 0) eqn:E.
      - apply Z.ltb_lt in E. symmetry. apply (Z.mod_unique_pos key n (-1)); lia.
      - apply Z.ltb_ge in E. apply Z.mod_small. lia. }
    assert (He : (if stop <? 0 then stop + n else stop) = key mod n + 1).
    { rewrite Hm. unfold stop. destruct (key =? -1) eqn:E1.
      - apply Z.eqb_eq in E1. subst key. destruct (n <? 0) eqn:E2; [lia|]. change (-1 <? 0) with true. cbv iota. lia.
      - apply Z.eqb_neq in E1. destruct (key <? 0) eqn:E2.
        + apply Z.ltb_lt in E2. destruct (key + 1 <? 0) eqn:E3; [lia|]. apply Z.ltb_ge in E3. lia.
        + apply Z.ltb_ge in E2. destruct (key + 1 <? 0) eqn:E3; [lia|]. reflexivity. }
    rewrite He. rewrite <- Hm.
    pose proof (Z.mod_pos_bound key n ltac:(lia)) as Hb.
    destruct (key mod n <? 0) eqn:F1; [lia|]. destruct (n <=? key mod n) eqn:F2; [lia|].
    destruct (key mod n + 1 <=? 0) eqn:F3; [lia|]. destruct (n <? key mod n + 1) eqn:F4; [lia|]. reflexivity. }
  rewrite (iterate_fuel_spec st 1 _ _ _ 1%nat _ _ _ I Hok ltac:(lia) Hinit).
  simpl. destruct (key mod n + 1 <=? key mod n) eqn:E; [lia|]. reflexivity.
Qed.

(* ------------------------------------------------------------------ slices *)
Definition norm_bound (n : Z) (x : option Z) (d : Z) : Z :=
  let v := dflt x d in if v <? 0 then v + n else v.

Theorem getitem_slice_lemma : forall st k a b s, readable st ->
  (forall k', k = Some k' -> 1 <= k') ->
  let n := n_events st in
  let a' := norm_bound n a 0 in
  let b' := norm_bound n b n in
  0 <= a' -> a' < b' -> b' <= n -> 1 <= dflt s 1 ->
  getitem_slice st k a b s = inr (spec_events st (map (fun j => a' + j * dflt s 1) (zseq (nsel a' b' (dflt s 1))))).
Proof.
  intros st k a b s R Hk n a' b' Ha Hab Hb Hs. pose proof R as [I [Hok [HP [HT Hn]]]].
  unfold getitem_slice. fold n. fold (norm_bound n a 0). fold (norm_bound n b n). fold a'. fold b'.
  assert (Hinit : iter_init st a b s = inr (a', b', dflt s 1)).
  { unfold iter_init. unfold ex in HP. rewrite HP. destruct (thrown st) eqn:Et; [| congruence]. simpl. fold n.
    fold (norm_bound n a 0). fold (norm_bound n b n). fold a'. fold b'.
    destruct (a' <? 0) eqn:F1; [lia|]. destruct (n <=? a') eqn:F2; [lia|].
    destruct (b' <=? 0) eqn:F3; [lia|]. destruct (n <? b') eqn:F4; [lia|]. simpl.
    destruct (dflt s 1 <=? 0) eqn:F5; [lia|]. reflexivity. }
  assert (Hk1 : 1 <= Z.min (reader_k st k) (b' - a')).
  { unfold reader_k. destruct k as [k'|]; simpl; [specialize (Hk k' eq_refl); lia | fold n; lia]. }
  unfold iterate. rewrite (iterate_fuel_spec st _ a b s _ a' b' (dflt s 1) I Hok Hk1 Hinit).
  rewrite srange_closed; auto.
  assert (nsel a' b' (dflt s 1) <= b' - a').
  { unfold nsel. apply Z.div_le_upper_bound; nia. }
  fold n. lia.
Qed.

(* ------------------------------------------------------------------ files produced by the writer *)
Lemma thrown_from : forall o d hd ops st, records_particles o = true -> inv st ->
  (0 < n_events st -> thrown st <> None) ->
  0 < n_events (run_from o d hd st ops) -> thrown (run_from o d hd st ops) <> None.
Proof.
  intros o d hd ops. induction ops as [|x r IH]; intros st Hrp I Ht; simpl; auto.
  destruct x as [a|]; simpl.
  - destruct (add o d hd st a) as [st' oc] eqn:Ha. simpl. destruct oc.
    + destruct (add_acc _ _ _ _ _ _ I (rp_records o a Hrp) Ha) as [_ [_ [_ [Hth [_ I']]]]].
      apply IH; auto. intros _. rewrite Hth. discriminate.
    + destruct (add_rej _ _ _ _ _ _ _ I Ha) as [_ [_ [Hi [_ [Hth I']]]]].
      apply IH; auto. unfold n_events. rewrite Hi, Hth. exact Ht.
  - rewrite reopen_id by auto. apply IH; auto.
Qed.

(* the writer never touches the analysis dataset *)
Lemma ana_run_from : forall o d hd ops st, records_particles o = true -> inv st ->
  ana (run_from o d hd st ops) = ana st.
Proof.
  intros o d hd ops. induction ops as [|x r IH]; intros st Hrp I; simpl; auto.
  rewrite IH by (auto; apply step_inv; auto).
  destruct x as [a|]; simpl; [apply add_ana; auto; apply rp_records; auto | reflexivity].
Qed.

Theorem run_readable : forall o d hd ops, records_particles o = true ->
  1 <= n_events (run o d hd ops) -> readable (run o d hd ops).
Proof.
  intros o d hd ops Hrp Hn. pose proof (run_inv o d hd ops Hrp) as I.
  assert (Ht : thrown (run o d hd ops) <> None).
  { unfold run. fold (run_from o d hd init_state ops). apply thrown_from; auto.
    - apply inv_init.
    - unfold n_events, zlen. simpl. lia.
    - unfold run in Hn. fold (run_from o d hd init_state ops) in Hn. lia. }
  split; [exact I|]. split; [| split; [apply (inv_thr _ I Ht)|]; split; [exact Ht | exact Hn]].
  unfold run. fold (run_from o d hd init_state ops). intros e Hin.
  rewrite (ana_run_from o d hd ops init_state Hrp inv_init) in Hin. simpl in Hin. contradiction.
Qed.

(* ------------------------------------------------------------------ append sessions *)
Theorem append_eq_single_lemma : forall o d hd ops1 ops2, records_particles o = true ->
  run o d hd (ops1 ++ Reopen :: ops2) = run o d hd (ops1 ++ ops2).
Proof.
  intros o d hd ops1 ops2 Hrp. unfold run. rewrite !fold_left_app. simpl.
  fold (run o d hd ops1). rewrite reopen_id by (apply run_inv; auto). reflexivity.
Qed.

(* ------------------------------------------------------------------ non-vacuity *)
Definition ex12_opts : opts := mkOpts true true false true false true (RBool true).
Definition ex12_add (p w r : Z) (t : bool) : add_in :=
  mkAdd [p] (TBool t) [[w; w + 2]; [w + 4]] (Some [[r]; [r + 1; r + 3]]) PolOk [0; 0] 1 FNone.
Definition ex12_ops : list op :=
  [Add (ex12_add 1 11 21 true); Add (ex12_add 2 31 41 false); Reopen; Add (ex12_add 3 51 61 true);
   Add (mkAdd [9] TBad [[1];[2]] None PolOk [0;0] 1 FNone); Add (ex12_add 4 71 81 true)].
Example ex12_readable : readable (run ex12_opts 2 true ex12_ops) /\ n_events (run ex12_opts 2 true ex12_ops) = 4.
Proof.
  split; [apply run_readable; [reflexivity | vm_compute; discriminate] | vm_compute; reflexivity].
Qed.
Example ex12_slice : match getitem_slice (run ex12_opts 2 true ex12_ops) (Some 2) (Some (-4)) (Some (-1)) (Some 2) with inr l => map fst l | inl _ => [] end = [0; 2].
Proof. vm_compute. reflexivity. Qed.

(* ------------------------------------------------------------------ FileGenerator (partial) *)
(* the chunk FileGenerator._load_events pulls from the current file at event index ei is the
   sequential stream ei, ei+1, ... up to the chunk / file end *)
Theorem filegen_chunk_lemma : forall f k ei, readable f -> 1 <= k -> 0 <= ei < n_events f ->
  let stop := if n_events f <? ei + k then n_events f else ei + k in
  getitem_slice f (Some k) (Some ei) (Some stop) None =
  inr (spec_events f (map (fun j => ei + j) (zseq (stop - ei)))).
Proof.
  intros f k ei R Hk Hei stop.
  assert (Hstop : ei < stop /\ stop <= n_events f).
  { unfold stop. destruct (n_events f <? ei + k) eqn:E; [apply Z.ltb_lt in E | apply Z.ltb_ge in E]; lia. }
  pose proof (getitem_slice_lemma f (Some k) (Some ei) (Some stop) None R) as H.
  simpl in H. unfold norm_bound in H. simpl in H.
  destruct (ei <? 0) eqn:E1; [lia|]. destruct (stop <? 0) eqn:E2; [lia|].
  rewrite H; try lia; [| intros k' Hk'; inversion Hk'; subst; lia].
  f_equal. unfold nsel. rewrite Z.div_1_r. replace (stop - ei + 1 - 1) with (stop - ei) by lia.
  unfold spec_events. f_equal. apply map_ext. intro j. lia.
Qed.

(* particle tags of event i as get_particle_info() exposes them *)
Definition particle_tags_of (f : wstate) (i : Z) : list Z := map (fun r => nthZ r 0 0) (read_event f i P).
