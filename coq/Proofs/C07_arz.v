(* C07: the ARZ pulse model: length, placement, scaling laws (model level). *)
From Coq Require Import Reals List Bool ZArith Lra Lia.
From PyrexLib Require Import RealPrims.
From PyrexGen Require Import Gen_askaryan.
From PyrexModel Require Import AskaryanIndex AskaryanModel.
From PyrexProofs Require Import C07_index C07_lists C07_formulas C07_finite.
Import ListNotations.
Open Scope R_scope.

Definition shift_times' (s : R) (times : list R) : list R := map (fun t => t + s) times.

(* ------------------------------------------------------------------ *)
(* --- generic list helpers --- *)
(* ------------------------------------------------------------------ *)

Lemma nth_map_lt (f : R -> R) l j d d' : (j < length l)%nat -> nth j (map f l) d' = f (nth j l d).
Proof.
  intros H. rewrite nth_indep with (d' := f d) by (rewrite map_length; exact H). apply map_nth.
Qed.

Lemma map_zerosR (f : R -> R) n : f 0 = 0 -> map f (zerosR n) = zerosR n.
Proof.
  intros H. unfold zerosR. induction n as [|n IH]; [reflexivity|].
  cbn [repeat map]. rewrite H, IH. reflexivity.
Qed.

Lemma last_map (f : R -> R) l : l <> [] -> last (map f l) 0 = f (last l 0).
Proof.
  induction l as [|a l IH]; intros H; [contradiction|].
  destruct l as [|b l]; [reflexivity|].
  change (last (map f (b :: l)) 0 = f (last (b :: l) 0)). apply IH. discriminate.
Qed.

Lemma map_map2_plus (f : R -> R) : (forall x y, f (x + y) = f x + f y) ->
  forall a b, map f (map2 Rplus a b) = map2 Rplus (map f a) (map f b).
Proof.
  intros Hf. induction a as [|x a IH]; intros b; [reflexivity|].
  destruct b as [|y b]; [reflexivity|].
  cbn [map2 map]. rewrite Hf, IH. reflexivity.
Qed.

Lemma nonempty_of_length (l : list R) (k : Z) : length l = Z.to_nat k -> (1 <= k)%Z -> l <> [].
Proof. intros H Hk E. subst l. cbn [length] in H. lia. Qed.

(* ------------------------------------------------------------------ *)
(* --- the shifted time grid --- *)
(* ------------------------------------------------------------------ *)

Lemma shift_length s times : length (shift_times' s times) = length times.
Proof. apply map_length. Qed.
Lemma shift_ZL s times : ZL (shift_times' s times) = ZL times.
Proof. unfold ZL. rewrite shift_length. reflexivity. Qed.
Lemma shift_first s times : (1 <= length times)%nat -> first_time (shift_times' s times) = first_time times + s.
Proof.
  intros H. unfold first_time, shift_times'. apply (nth_map_lt (fun t => t + s)). lia.
Qed.
Lemma shift_second s times : (2 <= length times)%nat -> second_time (shift_times' s times) = second_time times + s.
Proof.
  intros H. unfold second_time, shift_times'. apply (nth_map_lt (fun t => t + s)). lia.
Qed.
Lemma shift_ts s times t0 dt : (1 <= length times)%nat ->
  map (fun t => t - (t0 + s)) (shift_times' s times ++ [last (shift_times' s times) 0 + dt]) =
  map (fun t => t - t0) (times ++ [last times 0 + dt]).
Proof.
  intros H. unfold shift_times'.
  rewrite (last_map (fun t => t + s)) by (intros E; subst times; cbn [length] in H; lia).
  rewrite !map_app, map_map. f_equal.
  - apply map_ext. intros t. ring.
  - cbn [map]. f_equal. ring.
Qed.

(* ------------------------------------------------------------------ *)
(* --- the placed, decimated convolution (generic in the integers) --- *)
(* ------------------------------------------------------------------ *)

Lemma placed_length (Q RA : list R) nst ne N div :
  Q <> [] -> RA <> [] -> (zlen Q + zlen RA - 1 = N * div + ne)%Z -> (0 <= N)%Z -> (1 <= div)%Z ->
  arz_outside nst ne (N * div) = false ->
  zlen (arz_decimate 0 div (arz_assemble 0 (convolve Q RA) nst ne)) = N.
Proof.
  intros HQ HR Hlen HN Hdiv Hout.
  apply arz_decimate_length; [lia | assumption | ].
  apply arz_assemble_length; [ | nia | assumption].
  unfold zlen in *. rewrite convolve_length by assumption.
  destruct Q as [|q Q]; [contradiction|]. cbn [length] in *. lia.
Qed.

Lemma placed_nth (Q RA : list R) nst ne N div (i : nat) :
  Q <> [] -> RA <> [] -> (zlen Q + zlen RA - 1 = N * div + ne)%Z -> (0 <= N)%Z -> (1 <= div)%Z ->
  arz_outside nst ne (N * div) = false -> (Z.of_nat i < N)%Z ->
  nth i (arz_decimate 0 div (arz_assemble 0 (convolve Q RA) nst ne)) 0 =
  rsum (fun q => nth q Q 0 * getz 0 RA (Z.of_nat i * div + nst - Z.of_nat q)) (length Q).
Proof.
  intros HQ HR Hlen HN Hdiv Hout Hi.
  assert (Hc : zlen (convolve Q RA) = (N * div + ne)%Z).
  { unfold zlen in *. rewrite convolve_length by assumption.
    destruct Q as [|q Q]; [contradiction|]. cbn [length] in *. lia. }
  assert (Ha : zlen (arz_assemble 0 (convolve Q RA) nst ne) = (N * div)%Z).
  { apply arz_assemble_length; [assumption | nia | assumption]. }
  transitivity (getz 0 (arz_decimate 0 div (arz_assemble 0 (convolve Q RA) nst ne)) (Z.of_nat i)).
  { rewrite getz_nth by lia. rewrite Nat2Z.id. reflexivity. }
  rewrite arz_decimate_nth by nia.
  rewrite (arz_assemble_nth R 0 (convolve Q RA) nst ne (N * div)%Z) by (assumption || nia).
  apply convolve_getz.
Qed.

(* ------------------------------------------------------------------ *)
(* --- energy does not enter the cone test / the time step --- *)
(* ------------------------------------------------------------------ *)

Lemma ss_oncone_energy_free a b L E1 E2 th n t0 :
  ARZ_ss_oncone a b L E1 th n t0 = ARZ_ss_oncone a b L E2 th n t0.
Proof. reflexivity. Qed.
Lemma ss_dt_energy_free a b L E1 E2 th n t0 :
  ARZ_ss_dt a b L E1 th n t0 = ARZ_ss_dt a b L E2 th n t0.
Proof. reflexivity. Qed.
Lemma ss_zero_energy_false E : E <> 0 -> ARZ_ss_zero_energy E = false.
Proof.
  intros H. unfold ARZ_ss_zero_energy. destruct (Reqb E 0) eqn:Q; [ | reflexivity].
  apply Reqb_true in Q. contradiction.
Qed.

Section ShowerSignal.
  Variable profile : R -> R -> R.
  Variable rac : R -> R -> R.
  Notation SS := (shower_signal profile rac).

  Lemma arz_Q_length nQ nQneg dz z2t E : length (arz_Q profile nQ nQneg dz z2t E) = Z.to_nat nQ.
  Proof. unfold arz_Q. rewrite map_length, seq_length. reflexivity. Qed.
  Lemma arz_RAC_length nRAC nshift dz z2t ts E : length (arz_RAC rac nRAC nshift dz z2t ts E) = Z.to_nat nRAC.
  Proof. unfold arz_RAC. rewrite map_length, seq_length. reflexivity. Qed.

  (* the main branch: hypotheses of placed_length / placed_nth from the generated integers *)
  Lemma main_facts a b L E th n t0 :
    (0 <= L)%Z ->
    (1 <= ARZ_ss_n_Q a b L E th n t0)%Z -> (1 <= ARZ_ss_n_RAC a b L E th n t0)%Z ->
    (1 <= ARZ_ss_dt_divider a b L E th n t0)%Z ->
    ARZ_ss_outside a b L E th n t0 = false ->
    let Q := arz_Q profile (ARZ_ss_n_Q a b L E th n t0) (ARZ_ss_n_Q_negative a b L E th n t0)
                   (ARZ_ss_dz a b L E th n t0) (ARZ_ss_z_to_t a b L E th n t0) E in
    let RA := arz_RAC rac (ARZ_ss_n_RAC a b L E th n t0) (ARZ_ss_n_shift a b L E th n t0)
                      (ARZ_ss_dz a b L E th n t0) (ARZ_ss_z_to_t a b L E th n t0) (ARZ_ss_t_start a b L E th n t0) E in
    Q <> [] /\ RA <> [] /\
    (zlen Q + zlen RA - 1 = (L + 1) * ARZ_ss_dt_divider a b L E th n t0 + ARZ_ss_n_extra a b L E th n t0)%Z /\
    arz_outside (ARZ_ss_n_shift_total a b L E th n t0) (ARZ_ss_n_extra a b L E th n t0)
                ((L + 1) * ARZ_ss_dt_divider a b L E th n t0) = false.
  Proof.
    intros HL HnQ HnR Hdiv Hout Q RA.
    pose proof (arz_Q_length (ARZ_ss_n_Q a b L E th n t0) (ARZ_ss_n_Q_negative a b L E th n t0)
                  (ARZ_ss_dz a b L E th n t0) (ARZ_ss_z_to_t a b L E th n t0) E) as LQ.
    pose proof (arz_RAC_length (ARZ_ss_n_RAC a b L E th n t0) (ARZ_ss_n_shift a b L E th n t0)
                  (ARZ_ss_dz a b L E th n t0) (ARZ_ss_z_to_t a b L E th n t0) (ARZ_ss_t_start a b L E th n t0) E) as LR.
    fold Q in LQ. fold RA in LR.
    pose proof (ss_conv_length a b L E th n t0) as Hc. rewrite ss_N_def in Hc.
    rewrite ss_outside_def, ss_N_def in Hout.
    repeat split.
    - apply (nonempty_of_length _ _ LQ HnQ).
    - apply (nonempty_of_length _ _ LR HnR).
    - unfold zlen. rewrite LQ, LR, !Z2Nat.id by lia. exact Hc.
    - exact Hout.
  Qed.

  (* 1. length: every branch returns len(times) values *)
  Lemma shower_signal_length times E th d n t0 :
    (1 <= length times)%nat ->
    (1 <= ARZ_ss_n_Q (first_time times) (second_time times) (ZL times) E th n t0)%Z ->
    (1 <= ARZ_ss_n_RAC (first_time times) (second_time times) (ZL times) E th n t0)%Z ->
    (1 <= ARZ_ss_dt_divider (first_time times) (second_time times) (ZL times) E th n t0)%Z ->
    length (SS times E th d n t0) = length times.
  Proof.
    intros Hlen HnQ HnR Hdiv.
    unfold shower_signal. cbv zeta.
    destruct (ARZ_ss_zero_energy E); [apply repeat_length|].
    destruct (ARZ_ss_oncone _ _ _ _ _ _ _).
    - rewrite map_length, diff_length, !map_length, app_length. cbn [length]. lia.
    - destruct (ARZ_ss_outside _ _ _ _ _ _ _) eqn:Hout; [apply repeat_length|].
      match goal with |- context [if ?c then _ else _] => destruct c end; [apply repeat_length|].
      rewrite map_length, diff_length, map_length.
      assert (HL : (0 <= ZL times)%Z) by (unfold ZL; lia).
      destruct (main_facts _ _ _ _ _ _ _ HL HnQ HnR Hdiv Hout) as (NQ & NR & Hc & Ho).
      pose proof (placed_length _ _ _ _ (ZL times + 1)%Z _ NQ NR Hc ltac:(lia) Hdiv Ho) as P.
      unfold zlen in P.
      match type of P with Z.of_nat (length ?X) = _ => set (CD := X) in * end.
      unfold ZL in P. lia.
  Qed.

  (* 2. exactly proportional to 1/R *)
  Lemma oncone_inv d dt E (ts : list R) : d <> 0 ->
    map (fun v => v * d) (map (fun d0 => - d0 / dt) (diff (map (fun t => rac t E / d) ts))) =
    map (fun d0 => - d0 / dt) (diff (map (fun t => rac t E / 1) ts)).
  Proof.
    intros Hd.
    assert (E1 : map (fun t => rac t E / d) ts = map (fun x => x / d) (map (fun t => rac t E) ts))
      by (rewrite map_map; reflexivity).
    assert (E2 : map (fun t => rac t E / 1) ts = map (fun x => x / 1) (map (fun t => rac t E) ts))
      by (rewrite map_map; reflexivity).
    rewrite E1, E2, !diff_map_div, !map_map. apply map_ext. intros x.
    unfold Rdiv. rewrite Rinv_1.
    replace (- (x * / d) * / dt * d) with (- x * / dt * (/ d * d)) by ring.
    rewrite Rinv_l by assumption. ring.
  Qed.

  Lemma shower_signal_inv_distance times E th d n t0 : d <> 0 ->
    map (fun v => v * d) (SS times E th d n t0) = SS times E th 1 n t0.
  Proof.
    intros Hd.
    assert (Z0 : forall k, map (fun v => v * d) (zerosR k) = zerosR k)
      by (intros k; apply (map_zerosR (fun v => v * d)); ring).
    unfold shower_signal. cbv zeta.
    destruct (ARZ_ss_zero_energy E); [apply Z0|].
    destruct (ARZ_ss_oncone _ _ _ _ _ _ _).
    - apply oncone_inv. assumption.
    - destruct (ARZ_ss_outside _ _ _ _ _ _ _); [apply Z0|].
      match goal with |- context [if ?c then _ else _] => destruct c end; [apply Z0|].
      rewrite map_map. apply map_ext. intros x. field. assumption.
  Qed.

  (* 3. joint shift of the time grid and the shower time *)
  Lemma shower_signal_joint_shift times E th d n t0 s : (2 <= length times)%nat ->
    SS (shift_times' s times) E th d n (t0 + s) = SS times E th d n t0.
  Proof.
    intros Hlen.
    unfold shower_signal. cbv zeta.
    rewrite shift_length, shift_ZL, shift_first, shift_second by lia.
    rewrite ?ss_oncone_joint, ?ss_z_to_t_joint, ?ss_dt_joint, ?ss_dt_divider_joint, ?ss_dz_joint,
            ?ss_n_Q_joint, ?ss_n_Q_negative_joint, ?ss_t_start_joint, ?ss_n_shift_joint,
            ?ss_n_extra_joint, ?ss_n_RAC_joint, ?ss_outside_joint, ?ss_n_shift_total_joint.
    destruct (ARZ_ss_zero_energy E); [reflexivity|].
    destruct (ARZ_ss_oncone _ _ _ _ _ _ _).
    - rewrite shift_ts by lia. reflexivity.
    - destruct (ARZ_ss_outside _ _ _ _ _ _ _); [reflexivity|].
      match goal with |- context [if ?c then _ else _] => destruct c end; [reflexivity|].
      f_equal. f_equal. apply map_ext. intros c. apply ss_A_joint.
  Qed.

  (* 4. zero energy *)
  Lemma shower_signal_zero_energy times th d n t0 : SS times 0 th d n t0 = zerosR (length times).
  Proof.
    unfold shower_signal. cbv zeta. unfold ARZ_ss_zero_energy. rewrite Reqb_refl. reflexivity.
  Qed.

  (* 5. on the cone the field is proportional to the shower energy when RAC is *)
  Lemma oncone_scale c d dt E (ts : list R) : (forall t, rac t (c * E) = c * rac t E) ->
    map (fun d0 => - d0 / dt) (diff (map (fun t => rac t (c * E) / d) ts)) =
    map (fun v => c * v) (map (fun d0 => - d0 / dt) (diff (map (fun t => rac t E / d) ts))).
  Proof.
    intros H.
    assert (E1 : map (fun t => rac t (c * E) / d) ts = map (fun x => c * x) (map (fun t => rac t E / d) ts)).
    { rewrite map_map. apply map_ext. intros t. rewrite H. unfold Rdiv. ring. }
    rewrite E1, diff_map_scale, !map_map. apply map_ext. intros x. unfold Rdiv. ring.
  Qed.

  Lemma shower_signal_on_cone_linear times c E th d n t0 : c <> 0 -> E <> 0 ->
    (forall t, rac t (c * E) = c * rac t E) ->
    ARZ_ss_oncone (first_time times) (second_time times) (ZL times) E th n t0 = true ->
    SS times (c * E) th d n t0 = map (fun v => c * v) (SS times E th d n t0).
  Proof.
    intros Hc HE Hlin Hon.
    assert (HcE : c * E <> 0) by (intros Q; apply Rmult_integral in Q; tauto).
    unfold shower_signal. cbv zeta.
    rewrite (ss_zero_energy_false _ HcE), (ss_zero_energy_false _ HE).
    rewrite (ss_oncone_energy_free _ _ _ (c * E) E), Hon.
    rewrite !(ss_dt_energy_free _ _ _ (c * E) E).
    apply oncone_scale. assumption.
  Qed.

  (* 6. placement *)
  Lemma arz_RAC_getz nRAC nshift dz z2t ts E (k : Z) : (0 <= nRAC)%Z ->
    getz 0 (arz_RAC rac nRAC nshift dz z2t ts E) (k + nshift) =
    if ((- nshift <=? k) && (k <? nRAC - nshift))%Z then rac (IZR k * dz * z2t + ts) E else 0.
  Proof.
    intros Hn.
    pose proof (arz_RAC_length nRAC nshift dz z2t ts E) as HL.
    destruct (Z.leb_spec (- nshift) k) as [H1|H1]; cbn [andb].
    - destruct (Z.ltb_spec k (nRAC - nshift)) as [H2|H2].
      + rewrite getz_nth by lia. unfold arz_RAC. rewrite nth_map_seq by lia.
        rewrite Z2Nat.id by lia. f_equal. f_equal. f_equal. f_equal. f_equal. lia.
      + apply getz_out. right. unfold zlen. rewrite HL. lia.
    - apply getz_out. left. lia.
  Qed.

  Definition fine_potential times E th n t0 (i : Z) : R :=
    let a := first_time times in let b := second_time times in let L := ZL times in
    let Q := arz_Q profile (ARZ_ss_n_Q a b L E th n t0) (ARZ_ss_n_Q_negative a b L E th n t0) (ARZ_ss_dz a b L E th n t0) (ARZ_ss_z_to_t a b L E th n t0) E in
    let RA_C := arz_RAC rac (ARZ_ss_n_RAC a b L E th n t0) (ARZ_ss_n_shift a b L E th n t0) (ARZ_ss_dz a b L E th n t0) (ARZ_ss_z_to_t a b L E th n t0) (ARZ_ss_t_start a b L E th n t0) E in
    ARZ_ss_A a b L E th n t0
      (rsum (fun q => nth q Q 0 * getz 0 RA_C (i + ARZ_ss_n_shift_total a b L E th n t0 - Z.of_nat q)) (length Q))
      (trapz_dx Q (ARZ_ss_dz a b L E th n t0)).

  Lemma shower_signal_placement times E th d n t0 (j : nat) :
    let a := first_time times in let b := second_time times in let L := ZL times in
    (1 <= length times)%nat ->
    ARZ_ss_zero_energy E = false -> ARZ_ss_oncone a b L E th n t0 = false -> ARZ_ss_outside a b L E th n t0 = false ->
    (all_zero (arz_Q profile (ARZ_ss_n_Q a b L E th n t0) (ARZ_ss_n_Q_negative a b L E th n t0) (ARZ_ss_dz a b L E th n t0) (ARZ_ss_z_to_t a b L E th n t0) E)
       && (0 <? zlen (arz_Q profile (ARZ_ss_n_Q a b L E th n t0) (ARZ_ss_n_Q_negative a b L E th n t0) (ARZ_ss_dz a b L E th n t0) (ARZ_ss_z_to_t a b L E th n t0) E))%Z) = false ->
    (1 <= ARZ_ss_n_Q a b L E th n t0)%Z -> (1 <= ARZ_ss_n_RAC a b L E th n t0)%Z -> (1 <= ARZ_ss_dt_divider a b L E th n t0)%Z ->
    (j < length times)%nat ->
    nth j (SS times E th d n t0) 0 =
    (fine_potential times E th n t0 ((Z.of_nat j + 1) * ARZ_ss_dt_divider a b L E th n t0)
     - fine_potential times E th n t0 (Z.of_nat j * ARZ_ss_dt_divider a b L E th n t0)) / d.
  Proof.
    intros a b L. subst a b L.
    intros Hlen Hze Hon Hout Haz HnQ HnR Hdiv Hj.
    unfold shower_signal. cbv zeta.
    rewrite Hze, Hon, Hout, Haz.
    assert (HL : (0 <= ZL times)%Z) by (unfold ZL; lia).
    destruct (main_facts _ _ _ _ _ _ _ HL HnQ HnR Hdiv Hout) as (NQ & NR & Hc & Ho).
    pose proof (placed_length _ _ _ _ (ZL times + 1)%Z _ NQ NR Hc ltac:(lia) Hdiv Ho) as P.
    assert (PN : forall i : nat, (i <= length times)%nat -> _ = _)
      by (intros i Hi; apply (placed_nth _ _ _ _ (ZL times + 1)%Z _ i NQ NR Hc ltac:(lia) Hdiv Ho); unfold ZL; lia).
    unfold zlen in P.
    match type of P with Z.of_nat (length ?X) = _ => set (CD := X) in * end.
    assert (HCD : length CD = S (length times)) by (unfold ZL in P; lia).
    rewrite (nth_map_lt _ _ _ 0) by (rewrite diff_length, map_length; lia).
    rewrite diff_nth by (rewrite map_length; lia).
    rewrite !(nth_map_lt _ _ _ 0) by lia.
    rewrite !PN by lia.
    unfold fine_potential. cbv zeta.
    replace (Z.of_nat (S j)) with (Z.of_nat j + 1)%Z by lia.
    reflexivity.
  Qed.
End ShowerSignal.

(* ---- the class: em + had showers, theta = |viewing angle| ---- *)
Lemma arz_even_in_angle times emE hadE d psi n t0 :
  arz_values times emE hadE d (- psi) n t0 = arz_values times emE hadE d psi n t0.
Proof. unfold arz_values. cbv zeta. rewrite Rabs_Ropp. reflexivity. Qed.

Lemma arz_zero_energy times d psi n t0 : arz_values times 0 0 d psi n t0 = zerosR (length times).
Proof.
  unfold arz_values. cbv zeta. rewrite !shower_signal_zero_energy. apply map2_plus_zeros.
Qed.

Lemma arz_joint_shift times emE hadE d psi n t0 s : (2 <= length times)%nat ->
  arz_values (shift_times' s times) emE hadE d psi n (t0 + s) = arz_values times emE hadE d psi n t0.
Proof.
  intros H. unfold arz_values. cbv zeta. rewrite !shower_signal_joint_shift by assumption. reflexivity.
Qed.

(* no length hypothesis is needed: map2 truncates to the shorter list on both sides *)
Lemma arz_inv_distance times emE hadE d psi n t0 : d <> 0 ->
  map (fun v => v * d) (arz_values times emE hadE d psi n t0) = arz_values times emE hadE 1 psi n t0.
Proof.
  intros Hd. unfold arz_values. cbv zeta.
  rewrite (map_map2_plus (fun v => v * d)) by (intros; ring).
  rewrite !shower_signal_inv_distance by assumption. reflexivity.
Qed.

(* ------------------------------------------------------------------ *)
(* --- whole-sample shifts of the shower time: t0 -> t0 + m * dt --- *)
(* ------------------------------------------------------------------ *)

(* these generated scalars do not read t0 *)
Lemma ss_z_to_t_t0_free a b L E th n t1 t2 : ARZ_ss_z_to_t a b L E th n t1 = ARZ_ss_z_to_t a b L E th n t2.
Proof. reflexivity. Qed.
Lemma ss_dt_divider_t0_free a b L E th n t1 t2 : ARZ_ss_dt_divider a b L E th n t1 = ARZ_ss_dt_divider a b L E th n t2.
Proof. reflexivity. Qed.
Lemma ss_dz_t0_free a b L E th n t1 t2 : ARZ_ss_dz a b L E th n t1 = ARZ_ss_dz a b L E th n t2.
Proof. reflexivity. Qed.
Lemma ss_n_Q_t0_free a b L E th n t1 t2 : ARZ_ss_n_Q a b L E th n t1 = ARZ_ss_n_Q a b L E th n t2.
Proof. reflexivity. Qed.
Lemma ss_n_Q_negative_t0_free a b L E th n t1 t2 : ARZ_ss_n_Q_negative a b L E th n t1 = ARZ_ss_n_Q_negative a b L E th n t2.
Proof. reflexivity. Qed.
Lemma ss_n_extra_t0_free a b L E th n t1 t2 : ARZ_ss_n_extra a b L E th n t1 = ARZ_ss_n_extra a b L E th n t2.
Proof. reflexivity. Qed.
Lemma ss_n_RAC_t0_free a b L E th n t1 t2 : ARZ_ss_n_RAC a b L E th n t1 = ARZ_ss_n_RAC a b L E th n t2.
Proof. reflexivity. Qed.
Lemma ss_N_t0_free a b L E th n t1 t2 : ARZ_ss_N a b L E th n t1 = ARZ_ss_N a b L E th n t2.
Proof. reflexivity. Qed.
Lemma ss_oncone_t0_free a b L E th n t1 t2 : ARZ_ss_oncone a b L E th n t1 = ARZ_ss_oncone a b L E th n t2.
Proof. reflexivity. Qed.
Lemma ss_dt_t0_free a b L E th n t1 t2 : ARZ_ss_dt a b L E th n t1 = ARZ_ss_dt a b L E th n t2.
Proof. reflexivity. Qed.
Lemma ss_A_t0_free a b L E th n t1 t2 c LQ : ARZ_ss_A a b L E th n t1 c LQ = ARZ_ss_A a b L E th n t2 c LQ.
Proof. reflexivity. Qed.
Lemma ss_t_start_shift a b L E th n t0 s : ARZ_ss_t_start a b L E th n (t0 + s) = ARZ_ss_t_start a b L E th n t0 - s.
Proof. unfold_ss. ring. Qed.

Lemma last_nth_pred (l : list R) : last l 0 = nth (pred (length l)) l 0.
Proof.
  induction l as [|x l IH]; [reflexivity|].
  destruct l as [|y l]; [reflexivity|].
  change (last (y :: l) 0 = nth (pred (length (y :: l))) (y :: l) 0). exact IH.
Qed.

Lemma nth_zerosR k j : nth j (zerosR k) 0 = 0.
Proof. unfold zerosR. revert j. induction k as [|k IH]; intros [|j]; try reflexivity. apply IH. Qed.

Section ShowerShift.
  Variable profile : R -> R -> R.
  Variable rac : R -> R -> R.
  Notation SS := (shower_signal profile rac).

  (* the RAC lattice t_start + k * dz * z_to_t is invariant when t_start moves by m*dt and the
     integer offset by m * dt_divider *)
  Lemma arz_RAC_shift_generic nRAC ns dz z2t ts E (m div : Z) dt : dz * z2t * IZR div = dt ->
    arz_RAC rac nRAC (ns - m * div) dz z2t (ts - IZR m * dt) E = arz_RAC rac nRAC ns dz z2t ts E.
  Proof.
    intros H. unfold arz_RAC. apply map_ext. intros r. f_equal.
    rewrite !minus_IZR, mult_IZR, <- H. ring.
  Qed.

  Lemma arz_RAC_whole_shift a b L E th n t0 (m : Z) :
    ARZ_ss_z_to_t a b L E th n t0 <> 0 ->
    ARZ_ss_n_shift a b L E th n (t0 + IZR m * (b - a)) =
      (ARZ_ss_n_shift a b L E th n t0 - m * ARZ_ss_dt_divider a b L E th n t0)%Z ->
    arz_RAC rac (ARZ_ss_n_RAC a b L E th n (t0 + IZR m * (b - a))) (ARZ_ss_n_shift a b L E th n (t0 + IZR m * (b - a)))
            (ARZ_ss_dz a b L E th n (t0 + IZR m * (b - a))) (ARZ_ss_z_to_t a b L E th n (t0 + IZR m * (b - a)))
            (ARZ_ss_t_start a b L E th n (t0 + IZR m * (b - a))) E
    = arz_RAC rac (ARZ_ss_n_RAC a b L E th n t0) (ARZ_ss_n_shift a b L E th n t0)
              (ARZ_ss_dz a b L E th n t0) (ARZ_ss_z_to_t a b L E th n t0) (ARZ_ss_t_start a b L E th n t0) E.
  Proof.
    intros Hz Hns.
    rewrite Hns, ss_t_start_shift.
    rewrite (ss_n_RAC_t0_free a b L E th n _ t0), (ss_dz_t0_free a b L E th n _ t0), (ss_z_to_t_t0_free a b L E th n _ t0).
    apply arz_RAC_shift_generic.
    rewrite (ss_fine_step a b L E th n t0 Hz).
    pose proof (ss_dt_divider_ge_1 a b L E th n t0) as Hd. apply IZR_le in Hd.
    field. lra.
  Qed.

  Lemma fine_potential_whole_shift times E th n t0 (m i : Z) :
    ARZ_ss_z_to_t (first_time times) (second_time times) (ZL times) E th n t0 <> 0 ->
    ARZ_ss_n_shift (first_time times) (second_time times) (ZL times) E th n (t0 + IZR m * (second_time times - first_time times)) =
      (ARZ_ss_n_shift (first_time times) (second_time times) (ZL times) E th n t0
       - m * ARZ_ss_dt_divider (first_time times) (second_time times) (ZL times) E th n t0)%Z ->
    fine_potential profile rac times E th n (t0 + IZR m * (second_time times - first_time times)) i =
    fine_potential profile rac times E th n t0
      (i - m * ARZ_ss_dt_divider (first_time times) (second_time times) (ZL times) E th n t0).
  Proof.
    intros Hz Hns. unfold fine_potential. cbv zeta.
    rewrite (arz_RAC_whole_shift _ _ _ _ _ _ _ _ Hz Hns).
    rewrite !ss_n_shift_total_def, Hns.
    set (t0' := t0 + IZR m * (second_time times - first_time times)).
    change (ARZ_ss_n_Q (first_time times) (second_time times) (ZL times) E th n t0')
      with (ARZ_ss_n_Q (first_time times) (second_time times) (ZL times) E th n t0).
    change (ARZ_ss_n_Q_negative (first_time times) (second_time times) (ZL times) E th n t0')
      with (ARZ_ss_n_Q_negative (first_time times) (second_time times) (ZL times) E th n t0).
    change (ARZ_ss_dz (first_time times) (second_time times) (ZL times) E th n t0')
      with (ARZ_ss_dz (first_time times) (second_time times) (ZL times) E th n t0).
    change (ARZ_ss_z_to_t (first_time times) (second_time times) (ZL times) E th n t0')
      with (ARZ_ss_z_to_t (first_time times) (second_time times) (ZL times) E th n t0).
    rewrite (ss_A_t0_free _ _ _ _ _ _ t0' t0).
    f_equal. apply rsum_ext. intros q Hq. f_equal. f_equal. lia.
  Qed.

  (* (A) main branch: moving the shower by m whole samples moves the pulse by m samples, provided the
     truncated n_shift follows (Hns) and both placements are inside the window *)
  Theorem shower_signal_whole_sample_shift times E th d n t0 (m : Z) (j : nat) :
    let a := first_time times in let b := second_time times in let L := ZL times in
    let t0' := t0 + IZR m * (b - a) in
    (1 <= length times)%nat ->
    ARZ_ss_zero_energy E = false -> ARZ_ss_oncone a b L E th n t0 = false ->
    ARZ_ss_outside a b L E th n t0 = false -> ARZ_ss_outside a b L E th n t0' = false ->
    (all_zero (arz_Q profile (ARZ_ss_n_Q a b L E th n t0) (ARZ_ss_n_Q_negative a b L E th n t0) (ARZ_ss_dz a b L E th n t0) (ARZ_ss_z_to_t a b L E th n t0) E)
       && (0 <? zlen (arz_Q profile (ARZ_ss_n_Q a b L E th n t0) (ARZ_ss_n_Q_negative a b L E th n t0) (ARZ_ss_dz a b L E th n t0) (ARZ_ss_z_to_t a b L E th n t0) E))%Z) = false ->
    (1 <= ARZ_ss_n_Q a b L E th n t0)%Z -> (1 <= ARZ_ss_n_RAC a b L E th n t0)%Z ->
    ARZ_ss_z_to_t a b L E th n t0 <> 0 ->
    ARZ_ss_n_shift a b L E th n t0' = (ARZ_ss_n_shift a b L E th n t0 - m * ARZ_ss_dt_divider a b L E th n t0)%Z ->
    (j < length times)%nat -> (0 <= Z.of_nat j - m < ZL times)%Z ->
    nth j (SS times E th d n t0') 0 = nth (Z.to_nat (Z.of_nat j - m)) (SS times E th d n t0) 0.
  Proof.
    cbv zeta. intros Hlen Hze Hon Hout Hout' Haz HnQ HnR Hz Hns Hj Hjm.
    pose proof (ss_dt_divider_ge_1 (first_time times) (second_time times) (ZL times) E th n t0) as Hdiv.
    rewrite (shower_signal_placement profile rac times E th d n t0 (Z.to_nat (Z.of_nat j - m)))
      by (assumption || (unfold ZL in Hjm; lia)).
    (* the side conditions at t0' are those at t0: the scalars involved do not read t0 (conversion) *)
    rewrite (shower_signal_placement profile rac times E th d n _ j) by assumption.
    cbv zeta. rewrite !(fine_potential_whole_shift _ _ _ _ _ _ _ Hz Hns).
    rewrite (ss_dt_divider_t0_free _ _ _ _ _ _ _ t0).
    rewrite Z2Nat.id by lia.
    f_equal. f_equal; f_equal; ring.
  Qed.

  (* (B) on the cone, uniform grid *)
  Lemma uniform_extended times dt i :
    (1 <= length times)%nat ->
    (forall i, (i < length times)%nat -> nth i times 0 = first_time times + INR i * dt) ->
    (i <= length times)%nat ->
    nth i (times ++ [last times 0 + dt]) 0 = first_time times + INR i * dt.
  Proof.
    intros Hlen Hu Hi.
    destruct (Nat.eq_dec i (length times)) as [E | NE].
    - rewrite app_nth2 by lia. subst i. rewrite Nat.sub_diag. cbn [nth].
      rewrite last_nth_pred, Hu by lia.
      destruct (length times) as [|k]; [lia|]. cbn [pred]. rewrite S_INR. ring.
    - rewrite app_nth1 by lia. apply Hu. lia.
  Qed.

  Lemma oncone_sample times E d t0 dt dt' j :
    (1 <= length times)%nat ->
    (forall i, (i < length times)%nat -> nth i times 0 = first_time times + INR i * dt) ->
    (j < length times)%nat ->
    nth j (map (fun d0 => - d0 / dt')
             (diff (map (fun t => rac t E / d) (map (fun t => t - t0) (times ++ [last times 0 + dt]))))) 0 =
    - (rac (first_time times + INR (S j) * dt - t0) E / d - rac (first_time times + INR j * dt - t0) E / d) / dt'.
  Proof.
    intros Hlen Hu Hj.
    assert (HT : length (times ++ [last times 0 + dt]) = S (length times))
      by (rewrite app_length; cbn [length]; lia).
    rewrite (nth_map_lt _ _ _ 0) by (rewrite diff_length, !map_length, HT; lia).
    rewrite diff_nth by (rewrite !map_length, HT; lia).
    rewrite !(nth_map_lt (fun t => rac t E / d) _ _ 0) by (rewrite map_length, HT; lia).
    rewrite !(nth_map_lt (fun t => t - t0) _ _ 0) by (rewrite HT; lia).
    rewrite !uniform_extended by (assumption || lia).
    reflexivity.
  Qed.

  Theorem shower_signal_on_cone_whole_sample_shift times E th d n t0 (m : Z) (j : nat) :
    let a := first_time times in let b := second_time times in let L := ZL times in
    let t0' := t0 + IZR m * (b - a) in
    (2 <= length times)%nat ->
    (forall i, (i < length times)%nat -> nth i times 0 = first_time times + INR i * (second_time times - first_time times)) ->
    ARZ_ss_oncone a b L E th n t0 = true ->
    (j < length times)%nat -> (0 <= Z.of_nat j - m < ZL times)%Z ->
    nth j (SS times E th d n t0') 0 = nth (Z.to_nat (Z.of_nat j - m)) (SS times E th d n t0) 0.
  Proof.
    cbv zeta. intros Hlen Hu Hon Hj Hjm.
    unfold shower_signal. cbv zeta.
    destruct (ARZ_ss_zero_energy E); [rewrite !nth_zerosR; reflexivity|].
    rewrite (ss_oncone_t0_free _ _ _ _ _ _ _ t0), Hon.
    rewrite !ss_dt_def.
    unfold ZL in Hjm.
    rewrite !oncone_sample by (assumption || lia).
    set (j' := Z.to_nat (Z.of_nat j - m)).
    assert (HI : INR j' = INR j - IZR m).
    { unfold j'. rewrite !INR_IZR_INZ, Z2Nat.id by lia. apply minus_IZR. }
    rewrite !S_INR, HI.
    f_equal. f_equal. f_equal; f_equal; f_equal; ring.
  Qed.
End ShowerShift.

