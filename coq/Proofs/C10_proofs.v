(* C10 proofs about coq/Model/KernelModel.v: all events (any number of particles, any
   weights), all antenna lists, all oracles (ray-trace solutions, signal-model failures,
   trigger values), all settings. *)
From Coq Require Import List ZArith Bool Lia Arith.
From PyrexModel Require Import KernelModel.
Import ListNotations.
Open Scope Z_scope.

(* ------------------------------------------------------------ specification vocabulary *)
Definition sols (c : cfg) (q : particle) (a : Z) : list path :=
  match c_trace c (q_id q) a with Some l => l | None => [] end.

(* the (particle, ray solution) pairs of antenna a, in the order the kernel meets them *)
Definition pairs (c : cfg) (qs : list particle) (a : Z) : list (particle * path) :=
  flat_map (fun q => map (pair q) (sols c q a)) (filter (passes (c_wmin c)) qs).

Definition pol_of (qp : particle * path) : vec := nu_pol (p_emit (snd qp)) (q_dir (fst qp)).

(* what antenna a is handed for the pair (q, p) *)
Definition deliver (c : cfg) (a : Z) (qp : particle * path) : call :=
  let '(q, p) := qp in
  if offcone c q p then CRecvEmpty a (p_id p) (c_t0 c + p_tof p)
  else if c_sig c (q_id q) (p_id p) then CRecv a (p_id p) (q_id q) (p_recv p)
       else CRecvEmpty a (p_id p) (c_t0 c + p_tof p).

Definition is_recv_for (a : Z) (x : call) : bool :=
  match x with
  | CRecv a' _ _ _ => a' =? a
  | CRecvEmpty a' _ _ => a' =? a
  | _ => false
  end.

Definition one_ant_calls (c : cfg) (q : particle) (a : Z) : list call :=
  CTrace (q_id q) a :: flat_map (do_path c q a) (sols c q a).

Definition all_calls (c : cfg) (qs : list particle) : list call :=
  flat_map (fun q => flat_map (one_ant_calls c q) (c_ants c)) (filter (passes (c_wmin c)) qs).

(* ------------------------------------------------------------ zip-with over the antenna slots *)
Fixpoint zipw {X} (f : Z -> X -> X) (ants : list Z) (xs : list X) : list X :=
  match ants, xs with
  | a :: ants', x :: xs' => f a x :: zipw f ants' xs'
  | _, _ => xs
  end.

Lemma zipw_length {X} (f : Z -> X -> X) ants : forall xs, length (zipw f ants xs) = length xs.
Proof. induction ants; destruct xs; simpl; auto. Qed.

Lemma zipw_compose {X} (f g : Z -> X -> X) ants : forall xs,
  zipw g ants (zipw f ants xs) = zipw (fun a x => g a (f a x)) ants xs.
Proof. induction ants; destruct xs; simpl; auto. f_equal. auto. Qed.

Lemma zipw_ext {X} (f g : Z -> X -> X) ants : (forall a x, f a x = g a x) -> forall xs, zipw f ants xs = zipw g ants xs.
Proof. intros H. induction ants; destruct xs; simpl; auto. rewrite H. f_equal. auto. Qed.

Lemma zipw_id {X} (f : Z -> X -> X) ants : (forall a x, f a x = x) -> forall xs, zipw f ants xs = xs.
Proof. intros H. induction ants; destruct xs; simpl; auto. rewrite H. f_equal. auto. Qed.

Lemma zipw_init {X} (f : Z -> X -> X) (x0 : X) ants :
  zipw f ants (map (fun _ => x0) ants) = map (fun a => f a x0) ants.
Proof. induction ants; simpl; auto. f_equal. auto. Qed.

(* ------------------------------------------------------------ closed form of the loops *)
Lemma one_ant_closed c q a rp pl :
  one_ant c q a rp pl =
  (rp ++ map p_id (sols c q a), pl ++ map (fun p => nu_pol (p_emit p) (q_dir q)) (sols c q a), one_ant_calls c q a).
Proof.
  unfold one_ant, one_ant_calls, sols. destruct (c_trace c (q_id q) a); simpl; [reflexivity|].
  rewrite !app_nil_r. reflexivity.
Qed.

Lemma ant_loop_closed c q ants : forall rps pls,
  length rps = length ants -> length pls = length ants ->
  ant_loop c q ants rps pls =
  (zipw (fun a rp => rp ++ map p_id (sols c q a)) ants rps,
   zipw (fun a pl => pl ++ map (fun p => nu_pol (p_emit p) (q_dir q)) (sols c q a)) ants pls,
   flat_map (one_ant_calls c q) ants).
Proof.
  induction ants as [|a ants IH]; intros rps pls Hr Hp.
  - destruct rps, pls; simpl in *; try discriminate. reflexivity.
  - destruct rps as [|rp rps], pls as [|pl pls]; simpl in Hr, Hp; try discriminate.
    cbn [ant_loop]. rewrite one_ant_closed, IH by lia. reflexivity.
Qed.

Definition RP c qs a : list Z :=
  flat_map (fun q => map p_id (sols c q a)) (filter (passes (c_wmin c)) qs).
Definition PL c qs a : list vec :=
  flat_map (fun q => map (fun p => nu_pol (p_emit p) (q_dir q)) (sols c q a)) (filter (passes (c_wmin c)) qs).

Lemma particle_loop_closed c qs : forall rps pls,
  length rps = length (c_ants c) -> length pls = length (c_ants c) ->
  particle_loop c qs rps pls =
  (zipw (fun a rp => rp ++ RP c qs a) (c_ants c) rps,
   zipw (fun a pl => pl ++ PL c qs a) (c_ants c) pls,
   all_calls c qs).
Proof.
  unfold all_calls, RP, PL. induction qs as [|q qs IH]; intros rps pls Hr Hp; simpl.
  - rewrite !zipw_id by (intros; apply app_nil_r). reflexivity.
  - destruct (passes (c_wmin c) q) eqn:E.
    + rewrite ant_loop_closed by assumption.
      rewrite IH by (rewrite zipw_length; assumption).
      rewrite !zipw_compose. simpl.
      match goal with |- (zipw ?f1 _ _, zipw ?f2 _ _, _) = (zipw ?g1 _ _, zipw ?g2 _ _, _) =>
        rewrite (zipw_ext f1 g1) by (intros; rewrite app_assoc; reflexivity);
        rewrite (zipw_ext f2 g2) by (intros; rewrite app_assoc; reflexivity)
      end. reflexivity.
    + apply IH; assumption.
Qed.

Lemma RP_pairs c qs a : RP c qs a = map (fun qp => p_id (snd qp)) (pairs c qs a).
Proof.
  unfold RP, pairs. induction (filter (passes (c_wmin c)) qs) as [|q l IH]; simpl; [reflexivity|].
  rewrite map_app, map_map, IH. reflexivity.
Qed.

Lemma PL_pairs c qs a : PL c qs a = map pol_of (pairs c qs a).
Proof.
  unfold PL, pairs. induction (filter (passes (c_wmin c)) qs) as [|q l IH]; simpl; [reflexivity|].
  rewrite map_app, map_map, IH. reflexivity.
Qed.

(* the shape of one whole event() call *)
Lemma event_shape_lemma c g ev qs cnt :
  event c g ev qs cnt =
  (cnt,
   CCreate :: all_calls c qs ++ snd (eval_trig (c_trig c)) ++
     (if c_writer c
      then [CWrite (fst (eval_trig (c_trig c)))
                   (map (fun a => map (fun qp => p_id (snd qp)) (pairs c qs a)) (c_ants c))
                   (map (fun a => map pol_of (pairs c qs a)) (c_ants c))
                   (cnt - g)]
      else []),
   match fst (eval_trig (c_trig c)) with
   | TRNone => RetEvent ev
   | TRBool b => RetPair ev b
   | TRDict l => match dict_get l 0 with Some b => RetPair ev b | None => RetKeyError end
   end).
Proof.
  unfold event. rewrite particle_loop_closed by (rewrite map_length; reflexivity).
  rewrite !zipw_init. simpl.
  destruct (eval_trig (c_trig c)) as [tr tcalls]. simpl.
  assert (Hr : map (fun a => RP c qs a) (c_ants c) = map (fun a => map (fun qp => p_id (snd qp)) (pairs c qs a)) (c_ants c))
    by (apply map_ext; intros; apply RP_pairs).
  assert (Hp : map (fun a => PL c qs a) (c_ants c) = map (fun a => map pol_of (pairs c qs a)) (c_ants c))
    by (apply map_ext; intros; apply PL_pairs).
  rewrite Hr, Hp. reflexivity.
Qed.

(* ------------------------------------------------------------ deliveries per antenna *)
Lemma filter_flat_map {A B} (f : B -> bool) (g : A -> list B) l :
  filter f (flat_map g l) = flat_map (fun x => filter f (g x)) l.
Proof.
  induction l as [|x l IH]; simpl; [reflexivity|].
  induction (g x) as [|y r IHr]; simpl; [exact IH|].
  destruct (f y); simpl; rewrite IHr; reflexivity.
Qed.

Lemma filter_app' {A} (f : A -> bool) l1 l2 : filter f (l1 ++ l2) = filter f l1 ++ filter f l2.
Proof. induction l1; simpl; auto. destruct (f a); simpl; rewrite IHl1; reflexivity. Qed.

Lemma do_path_recv_same c q a p : filter (is_recv_for a) (do_path c q a p) = [deliver c a (q, p)].
Proof.
  unfold do_path, deliver. destruct (offcone c q p); [|destruct (c_sig c (q_id q) (p_id p))]; simpl; rewrite Z.eqb_refl; reflexivity.
Qed.

Lemma do_path_recv_other c q a a' p : a' <> a -> filter (is_recv_for a) (do_path c q a' p) = [].
Proof.
  intros H. apply Z.eqb_neq in H.
  unfold do_path. destruct (offcone c q p); [|destruct (c_sig c (q_id q) (p_id p))]; simpl; rewrite H; reflexivity.
Qed.

Lemma one_ant_recv_same c q a :
  filter (is_recv_for a) (one_ant_calls c q a) = map (fun p => deliver c a (q, p)) (sols c q a).
Proof.
  unfold one_ant_calls. simpl. rewrite filter_flat_map.
  induction (sols c q a) as [|p l IH]; simpl; [reflexivity|]. rewrite do_path_recv_same, IH. reflexivity.
Qed.

Lemma one_ant_recv_other c q a a' : a' <> a -> filter (is_recv_for a) (one_ant_calls c q a') = [].
Proof.
  intros H. unfold one_ant_calls. simpl. rewrite filter_flat_map.
  induction (sols c q a') as [|p l IH]; simpl; [reflexivity|]. rewrite do_path_recv_other, IH by assumption. reflexivity.
Qed.

Lemma ants_recv c q a ants :
  NoDup ants -> In a ants ->
  filter (is_recv_for a) (flat_map (one_ant_calls c q) ants) = map (fun p => deliver c a (q, p)) (sols c q a).
Proof.
  induction ants as [|a' ants IH]; intros Hnd Hin; [contradiction|].
  inversion Hnd; subst. cbn [flat_map]. rewrite filter_app'.
  destruct (Z.eq_dec a' a) as [->|Hne].
  - rewrite one_ant_recv_same.
    assert (Hrest : filter (is_recv_for a) (flat_map (one_ant_calls c q) ants) = []).
    { clear IH Hin Hnd H2. induction ants as [|b ants IHb]; cbn [flat_map]; [reflexivity|].
      rewrite filter_app', one_ant_recv_other, IHb; [reflexivity| |].
      - intros Hi. apply H1. right. exact Hi.
      - intros ->. apply H1. left. reflexivity. }
    rewrite Hrest, app_nil_r. reflexivity.
  - rewrite one_ant_recv_other by assumption. simpl. apply IH; [assumption|].
    destruct Hin; [contradiction | assumption].
Qed.

Lemma deliveries_lemma c qs a :
  NoDup (c_ants c) -> In a (c_ants c) ->
  filter (is_recv_for a) (all_calls c qs) = map (deliver c a) (pairs c qs a).
Proof.
  intros Hnd Hin. unfold all_calls, pairs. rewrite filter_flat_map.
  induction (filter (passes (c_wmin c)) qs) as [|q l IH]; simpl; [reflexivity|].
  rewrite ants_recv by assumption. rewrite map_app, map_map, IH. reflexivity.
Qed.

Lemma pairs_length c qs a :
  length (pairs c qs a) = list_sum (map (fun q => length (sols c q a)) (filter (passes (c_wmin c)) qs)).
Proof.
  unfold pairs. induction (filter (passes (c_wmin c)) qs) as [|q l IH]; simpl; [reflexivity|].
  rewrite app_length, map_length, IH. reflexivity.
Qed.

(* the trigger and writer calls are not receive calls *)
Lemma trig_calls_not_recv a t : filter (is_recv_for a) (snd (eval_trig t)) = [].
Proof. destruct t as [|b|l]; simpl; try reflexivity. induction l; simpl; auto. Qed.

Lemma event_deliveries_lemma c g ev qs cnt a :
  NoDup (c_ants c) -> In a (c_ants c) ->
  filter (is_recv_for a) (snd (fst (event c g ev qs cnt))) = map (deliver c a) (pairs c qs a).
Proof.
  intros Hnd Hin. rewrite event_shape_lemma. cbn [fst snd filter is_recv_for].
  rewrite !filter_app', trig_calls_not_recv, deliveries_lemma by assumption.
  destruct (c_writer c); simpl; rewrite app_nil_r; reflexivity.
Qed.

(* ------------------------------------------------------------ weight cut *)
Lemma passes_scalar m q : passes (WScalar m) q = true <-> q_w q >= m.
Proof. simpl. rewrite negb_true_iff, Z.ltb_ge. lia. Qed.

Lemma passes_pair w0 w1 q :
  passes (WPair w0 w1) q = true <->
  (forall s, q_surv q = Some s -> s >= w0) /\ (forall s, q_int q = Some s -> s >= w1).
Proof.
  simpl. rewrite negb_true_iff, orb_false_iff. split.
  - intros [H1 H2]. split; intros s Hs; rewrite Hs in *; apply Z.ltb_ge in H1 || apply Z.ltb_ge in H2; lia.
  - intros [H1 H2]. split.
    + destruct (q_surv q) as [s|]; [|reflexivity]. apply Z.ltb_ge. specialize (H1 s eq_refl). lia.
    + destruct (q_int q) as [s|]; [|reflexivity]. apply Z.ltb_ge. specialize (H2 s eq_refl). lia.
Qed.

(* only particles passing the cut reach any component *)
Definition call_pid (x : call) : option Z :=
  match x with
  | CTrace p _ => Some p | CSignal p _ _ _ _ => Some p | CPropagate _ p _ _ => Some p | CRecv _ _ p _ => Some p
  | _ => None
  end.

Lemma do_path_pid c q a p x pid : In x (do_path c q a p) -> call_pid x = Some pid -> pid = q_id q.
Proof.
  unfold do_path. destruct (offcone c q p); [|destruct (c_sig c (q_id q) (p_id p))]; simpl; intros H Hp;
    repeat (destruct H as [<-|H]; [simpl in Hp; congruence|]); contradiction.
Qed.

Lemma all_calls_pid c qs x pid :
  In x (all_calls c qs) -> call_pid x = Some pid ->
  exists q, In q qs /\ passes (c_wmin c) q = true /\ q_id q = pid.
Proof.
  unfold all_calls. intros H Hp. apply in_flat_map in H as [q [Hq H]].
  apply filter_In in Hq as [Hq Hpass]. exists q. repeat split; auto.
  apply in_flat_map in H as [a [_ H]]. unfold one_ant_calls in H. destruct H as [<-|H].
  - simpl in Hp. congruence.
  - apply in_flat_map in H as [p [_ H]]. symmetry. eapply do_path_pid; eauto.
Qed.

(* ------------------------------------------------------------ off-cone cut *)
(* the path a receive call is about *)
Definition call_path (x : call) : Z :=
  match x with CRecv _ p _ _ => p | CRecvEmpty _ p _ => p | _ => -1 end.

Lemma deliver_path c a qp : call_path (deliver c a qp) = p_id (snd qp).
Proof. destruct qp as [q p]. unfold deliver. destruct (offcone c q p); [|destruct (c_sig _ _ _)]; reflexivity. Qed.

Lemma pairs_indep c1 c2 qs a :
  c_trace c1 = c_trace c2 -> c_wmin c1 = c_wmin c2 -> pairs c1 qs a = pairs c2 qs a.
Proof. intros Ht Hw. unfold pairs, sols. rewrite Ht, Hw. reflexivity. Qed.

Lemma offcone_only_replaces_lemma c1 c2 qs a :
  c_ants c1 = c_ants c2 -> c_trace c1 = c_trace c2 -> c_wmin c1 = c_wmin c2 ->
  NoDup (c_ants c1) -> In a (c_ants c1) ->
  map call_path (filter (is_recv_for a) (all_calls c1 qs)) = map call_path (filter (is_recv_for a) (all_calls c2 qs)) /\
  length (filter (is_recv_for a) (all_calls c1 qs)) = length (filter (is_recv_for a) (all_calls c2 qs)) /\
  map (fun a => map (fun qp => p_id (snd qp)) (pairs c1 qs a)) (c_ants c1) = map (fun a => map (fun qp => p_id (snd qp)) (pairs c2 qs a)) (c_ants c2) /\
  map (fun a => map pol_of (pairs c1 qs a)) (c_ants c1) = map (fun a => map pol_of (pairs c2 qs a)) (c_ants c2).
Proof.
  intros Ha Ht Hw Hnd Hin.
  rewrite !deliveries_lemma by (try rewrite <- Ha; assumption).
  rewrite (pairs_indep c1 c2 qs a Ht Hw), !map_map, !map_length.
  repeat split.
  - apply map_ext. intros. rewrite !deliver_path. reflexivity.
  - rewrite <- Ha. apply map_ext. intros. rewrite (pairs_indep c1 c2 qs _ Ht Hw). reflexivity.
  - rewrite <- Ha. apply map_ext. intros. rewrite (pairs_indep c1 c2 qs _ Ht Hw). reflexivity.
Qed.

(* off-cone: the signal model is not even called, an empty signal on the delayed grid is delivered;
   on-cone: signal model, then propagate along that path, then the antenna; a ValueError of the
   signal model gives the same empty signal *)
Lemma do_path_shape c q a p :
  (offcone c q p = true /\ do_path c q a p = [CRecvEmpty a (p_id p) (c_t0 c + p_tof p)]) \/
  (offcone c q p = false /\ c_sig c (q_id q) (p_id p) = true /\
   do_path c q a p = [CSignal (q_id q) (p_id p) (psi_deg (q_dir q) (p_emit p)) (p_len p) (c_t0 c);
                      CPropagate (p_id p) (q_id q) (nu_pol (p_emit p) (q_dir q)) (c_interp c);
                      CRecv a (p_id p) (q_id q) (p_recv p)]) \/
  (offcone c q p = false /\ c_sig c (q_id q) (p_id p) = false /\
   do_path c q a p = [CSignal (q_id q) (p_id p) (psi_deg (q_dir q) (p_emit p)) (p_len p) (c_t0 c);
                      CRecvEmpty a (p_id p) (c_t0 c + p_tof p)]).
Proof.
  unfold do_path. destruct (offcone c q p); [left; auto|].
  destruct (c_sig c (q_id q) (p_id p)); [right; left | right; right]; auto.
Qed.

(* ------------------------------------------------------------ time grid *)
(* contracts of the exchangeable components: a signal model returns a pulse on the times it
   was given; propagate delays the pulse's times by the path's time of flight *)
Section Grid.
  Variable model_origin : Z -> Z.          (* origin of the pulse made from times with this origin *)
  Variable prop_origin : path -> Z -> Z.   (* origin after path.propagate *)
  Hypothesis Hmodel : forall t, model_origin t = t.
  Hypothesis Hprop : forall p t, prop_origin p t = t + p_tof p.

  Definition delivered_origin (c : cfg) (qp : particle * path) : Z :=
    let '(q, p) := qp in
    match deliver c 0 qp with
    | CRecvEmpty _ _ t => t
    | _ => prop_origin p (model_origin (c_t0 c))
    end.

  Lemma grid_lemma c qp : delivered_origin c qp = c_t0 c + p_tof (snd qp).
  Proof.
    destruct qp as [q p]. unfold delivered_origin, deliver.
    destruct (offcone c q p); [reflexivity|]. destruct (c_sig c (q_id q) (p_id p)); [|reflexivity].
    simpl. rewrite Hprop, Hmodel. reflexivity.
  Qed.
End Grid.

(* ------------------------------------------------------------ triggers *)
Lemma trigger_lemma t :
  match t with
  | TNone => eval_trig t = (TRNone, [])
  | TFun b => eval_trig t = (TRBool b, [CTrig (-1)])
  | TDict l => eval_trig t = (TRDict l, map (fun kv => CTrig (fst kv)) l)
  end.
Proof. destruct t; reflexivity. Qed.

(* ------------------------------------------------------------ interface table *)
Lemma accepts_keywords s c :
  accepts s c = true -> forall k, In k (k_kw c) -> has_param (s_params s) k = true \/ s_varkw s = true.
Proof.
  unfold accepts. intros H k Hk. apply andb_prop in H as [H _]. apply andb_prop in H as [H _].
  rewrite forallb_forall in H. specialize (H k Hk).
  destruct (index_param (s_params s) k 0) eqn:E; [left | right; exact H].
  clear H. revert E. generalize 0%nat. induction (s_params s) as [|[k' d] ps IH]; simpl; intros i E; [discriminate|].
  destruct (k =? k'); [reflexivity | simpl; eapply IH; eauto].
Qed.

(* ------------------------------------------------------------ non-vacuity *)
Definition ex_p1 := mkpath 11 3 (1, 0, 0) 7 100.
Definition ex_p2 := mkpath 12 5 (0, 0, 1) 8 200.
Definition ex_cfg := mkcfg [1; 2]
  (fun pid aid => if (pid =? 1) && (aid =? 1) then Some [ex_p1; ex_p2] else if aid =? 2 then Some [] else None)
  (fun pid pth => negb (pth =? 12)) 40 (WPair 2 3) 1 (TDict [(1, false); (0, true)]) true 10.
Definition ex_q1 := mkpart 1 9 (Some 5) None (0, 1, 0) 60.
Definition ex_q2 := mkpart 2 9 (Some 1) (Some 9) (0, 1, 0) 60.

Example ex_event :
  event ex_cfg 4 77 [ex_q1; ex_q2] 9 =
  (9, [CCreate; CTrace 1 1;
       CSignal 1 11 90 100 10; CPropagate 11 1 (0, -1, 0) 1; CRecv 1 11 1 7;
       CSignal 1 12 90 200 10; CRecvEmpty 1 12 15;
       CTrace 1 2; CTrig 1; CTrig 0;
       CWrite (TRDict [(1, false); (0, true)]) [[11; 12]; []] [[(0, -1, 0); (0, -1, 0)]; []] 5],
   RetPair 77 true).
Proof. reflexivity. Qed.
