"""Gen_askaryan.v: the Askaryan parameterisations of pyrex/askaryan.py (scalar mode).

What is translated (fail-closed, from the source on every run):
  * ARZAskaryanSignal static methods em/had_shower_RAC, em/had_shower_profile, max_length and the
    class constant oncone_range -- the masked-array idiom  `x = np.zeros_like(t); x[c] = e(t[c])`
    is read in scalar mode as  `x := 0; x := if c then e(t) else x`;
  * the scalar / integer statements of ARZAskaryanSignal.shower_signal (z_to_t, dt, N, dt_divider*,
    dz, z_max, n_Q, n_Q_negative, t_start, n_shift, n_extra, n_RAC, the shifted n_shift, sin_theta_c,
    the vector-potential scale) and its tests (zero energy, on-cone, pulse outside the window);
    array statements (z_Q_vals, t_RAC_vals, Q, RA_C, convolution, LQ_tot, the four slicing cases,
    decimation, diff) are modelled by hand in coq/Model/AskaryanIndex.v and pinned by AST hash;
  * the per-frequency spectral amplitude of ZHSAskaryanSignal (`ratio`, `e_omega` statements of
    get_signal) with its shift / zeroing test, and of AVZAskaryanSignal (dThetaEM, epsilon, dThetaHad,
    E, em_tmp, had_tmp, missing_energy_factor, tmp) -- `freqs` is one positive frequency, `x[1:] op= e`
    is `x op= e`, `np.zeros(..)` is 0, `np.any(b)` is b, `epsilon = -np.inf` is a flag that makes
    every `epsilon >= c` / `epsilon > c` false and `epsilon <= c` true.
Every new top-level variable or statement kind that is not on the lists below aborts the translation.
"""
import ast
import hashlib
import os
import sys

sys.path.insert(0, os.path.dirname(os.path.abspath(__file__)))
from py2coq import Module, ClassTr, FnTr, TranslationError, coq_type  # noqa: E402

SRC = "pyrex/askaryan.py"


class AskTr(FnTr):
    """FnTr + the NumPy array idioms of askaryan.py read in scalar mode."""

    def __init__(self, *a, **k):
        super().__init__(*a, **k)
        self.elems = {}          # (array name, index) -> (coq var, type)
        self.lens = {}           # array name -> coq Z var
        self.attr_vars = {}      # dotted attribute tuple -> (coq var, type)
        self.ninf = {}           # variable -> coq bool flag "is -inf"

    # ---- expressions
    def is_intconst(self, n):
        return isinstance(n, ast.Constant) and isinstance(n.value, int) and not isinstance(n.value, bool)

    def e_BinOp(self, n):
        op = type(n.op).__name__
        if op in ("Add", "Sub", "Mult"):
            sym = {"Add": "+", "Sub": "-", "Mult": "*"}[op]
            if self.is_intconst(n.right):
                l, tl = self.expr(n.left)
                if tl == "Z":
                    return "(%s %s %d)%%Z" % (l, sym, n.right.value), "Z"
            if self.is_intconst(n.left):
                r, tr = self.expr(n.right)
                if tr == "Z":
                    return "(%d %s %s)%%Z" % (n.left.value, sym, r), "Z"
        return super().e_BinOp(n)

    def e_Attribute(self, n):
        d = self.dotted(n)
        if d in self.attr_vars:
            return self.attr_vars[d]
        if n.attr == "eps" and isinstance(n.value, ast.Call) and self.dotted(n.value.func) == ("np", "finfo") \
                and len(n.value.args) == 1 and self.dotted(n.value.args[0]) == ("np", "float64"):
            return "(/ (2 ^ 52))", "R"
        return super().e_Attribute(n)

    def e_Subscript(self, n):
        if isinstance(n.value, ast.Name):
            idx = n.slice
            if isinstance(idx, ast.Constant) and (n.value.id, idx.value) in self.elems:
                return self.elems[(n.value.id, idx.value)]
            # masked read  v[cond]  in scalar mode is v
            if isinstance(idx, ast.Compare) and n.value.id in self.vars and self.vars[n.value.id][1] == "R":
                self.boolean(idx)
                return self.vars[n.value.id]
        return super().e_Subscript(n)

    def e_Compare(self, n):
        # comparisons against a variable that may be -inf
        if len(n.ops) == 1 and isinstance(n.left, ast.Name) and n.left.id in self.ninf:
            flag = self.ninf[n.left.id]
            c, _ = super().e_Compare(n)
            opn = type(n.ops[0]).__name__
            if opn in ("Gt", "GtE"):
                return "(negb %s && %s)" % (flag, c), "bool"
            if opn in ("Lt", "LtE"):
                return "(%s || %s)" % (flag, c), "bool"
            self.err(n, "unsupported comparison of a possibly infinite value")
        return super().e_Compare(n)

    def e_BoolOp(self, n):
        # a chained  a and b  over possibly-infinite comparisons is still a conjunction
        return super().e_BoolOp(n)

    def e_Call(self, n):
        d = self.dotted(n.func)
        if d in (("np", "zeros_like"), ("np", "zeros")) and len(n.args) == 1:
            return "0", "R"
        if d == ("np", "any") and len(n.args) == 1:
            return self.boolean(n.args[0])
        if isinstance(n.func, ast.Name) and n.func.id == "len" and len(n.args) == 1 \
                and isinstance(n.args[0], ast.Name) and n.args[0].id in self.lens:
            return self.lens[n.args[0].id], "Z"
        if isinstance(n.func, ast.Name) and n.func.id in ("max", "min") and len(n.args) == 2:
            a, ta = self.expr(n.args[0])
            b, tb = self.expr(n.args[1])
            if ta == tb == "Z":
                return "(Z.%s %s %s)" % (n.func.id, a, b), "Z"
        if d == ("np", "abs") and len(n.args) == 1:
            c, t = self.expr(n.args[0])
            if t == "Z":
                return "(Z.abs %s)" % c, "Z"
        # self.method(args) with defaulted parameters: append the defaults
        if d and len(d) == 2 and d[0] == self.self_name and not n.keywords:
            _, node = self.mod.find_member(self.cname, d[1])
            if isinstance(node, ast.FunctionDef):
                decos = [x.id if isinstance(x, ast.Name) else getattr(x, "attr", "") for x in node.decorator_list]
                params = [a.arg for a in node.args.args][0 if "staticmethod" in decos else 1:]
                missing = len(params) - len(n.args)
                if 0 < missing <= len(node.args.defaults):
                    full = ast.Call(func=n.func, args=list(n.args) + list(node.args.defaults[len(node.args.defaults) - missing:]),
                                    keywords=[])
                    ast.copy_location(full, n)
                    return super().e_Call(full)
        return super().e_Call(n)

    # ---- statements
    def assigned(self, stmts):
        out = []
        for s in stmts:
            if isinstance(s, ast.Assign):
                for t in s.targets:
                    out += [t.value.id] if isinstance(t, ast.Subscript) and isinstance(t.value, ast.Name) else []
            if isinstance(s, ast.AugAssign) and isinstance(s.target, ast.Subscript) and isinstance(s.target.value, ast.Name):
                out.append(s.target.value.id)
        out = [o for i, o in enumerate(out) if o not in out[:i]]
        for o in super().assigned(stmts):
            if o not in out:
                out.append(o)
        return out

    def block(self, stmts, k=None):
        if stmts:
            s, rest = stmts[0], stmts[1:]
            # x[cond] = e      ->  x := if cond then e else x
            if isinstance(s, ast.Assign) and len(s.targets) == 1 and isinstance(s.targets[0], ast.Subscript) \
                    and isinstance(s.targets[0].value, ast.Name) and isinstance(s.targets[0].slice, ast.Compare):
                name = s.targets[0].value.id
                if name not in self.vars or self.vars[name][1] != "R":
                    self.err(s, "masked assignment to an unknown array")
                c, _ = self.boolean(s.targets[0].slice)
                v, t = self.num(s.value)
                return "let %s := (if %s then %s else %s) in\n  %s" % (name, c, v, name, self.block(rest, k))
            # x[1:] op= e      ->  x op= e   (every positive-frequency entry)
            if isinstance(s, ast.AugAssign) and isinstance(s.target, ast.Subscript) and isinstance(s.target.value, ast.Name):
                sl = s.target.slice
                if not (isinstance(sl, ast.Slice) and self.is_intconst(sl.lower) and sl.lower.value == 1
                        and sl.upper is None and sl.step is None):
                    self.err(s, "only x[1:] op= e is supported")
                fake = ast.AugAssign(target=ast.Name(id=s.target.value.id, ctx=ast.Store()), op=s.op, value=s.value)
                ast.copy_location(fake, s)
                ast.fix_missing_locations(fake)
                return super().block([fake] + rest, k)
            # local helper function with one argument
            if isinstance(s, ast.FunctionDef):
                if len(s.args.args) != 1 or s.args.defaults or s.decorator_list:
                    self.err(s, "unsupported local function")
                a = s.args.args[0].arg
                sub = type(self)(self.mod, cname=self.cname, consts=self.consts)
                sub.lookup_member = self.lookup_member
                sub.vars = {a: (a, "R")}
                sub.ret_types = []
                body = sub.block(list(s.body), None)
                if sub.ret_types != ["R"]:
                    self.err(s, "local function must return one real")
                self.vars[s.name] = (s.name, "fun")
                return "let %s := (fun %s : R => %s) in\n  %s" % (s.name, a, body, self.block(rest, k))
            # if c: v = -np.inf  else: v = e     ->  flag + value
            if isinstance(s, ast.If) and len(s.body) == 1 and len(s.orelse) == 1 \
                    and isinstance(s.body[0], ast.Assign) and isinstance(s.orelse[0], ast.Assign) \
                    and isinstance(s.body[0].value, ast.UnaryOp) and isinstance(s.body[0].value.op, ast.USub) \
                    and self.dotted(s.body[0].value.operand) == ("np", "inf"):
                t1, t2 = s.body[0].targets[0], s.orelse[0].targets[0]
                if not (isinstance(t1, ast.Name) and isinstance(t2, ast.Name) and t1.id == t2.id):
                    self.err(s, "unsupported -inf assignment")
                c, _ = self.boolean(s.test)
                v, _ = self.num(s.orelse[0].value)
                flag = t1.id + "_is_ninf"
                self.ninf[t1.id] = flag
                self.vars[t1.id] = (t1.id, "R")
                return "let %s := %s in\n  let %s := %s in\n  %s" % (flag, c, t1.id, v, self.block(rest, k))
            if isinstance(s, ast.If) and not self.always_returns(s.body) and not (s.orelse and self.always_returns(s.orelse)):
                # branch-local temporaries (assigned in one branch only and unknown before) are not exported
                pre = set(self.vars)
                a, b = self.assigned(s.body), self.assigned(s.orelse)
                local = [v for v in a + b if v not in pre and not (v in a and v in b)]
                if local:
                    return self._if_with_locals(s, rest, k, local)
        return super().block(stmts, k)

    def _if_with_locals(self, s, rest, k, local):
        saved_assigned = self.assigned

        def filtered(stmts, _f=saved_assigned):
            return [v for v in _f(stmts) if v not in local]
        self.assigned = filtered
        try:
            code = FnTr.block(self, [s], lambda: "\0REST\0")
        finally:
            self.assigned = saved_assigned
        for v in local:
            self.vars.pop(v, None)
        return code.replace("\0REST\0", self.block(rest, k))


# ------------------------------------------------------------------------------------ helpers
def find_class(mod, name):
    if name not in mod.classes:
        raise TranslationError("%s: class %s not found" % (SRC, name))
    return mod.classes[name]


def find_def(body, name, where):
    found = [n for n in body if isinstance(n, ast.FunctionDef) and n.name == name]
    if len(found) != 1:
        raise TranslationError("%s: expected exactly one def %s in %s" % (SRC, name, where))
    return found[0]


def strip_doc(body):
    body = list(body)
    if body and isinstance(body[0], ast.Expr) and isinstance(body[0].value, ast.Constant) and isinstance(body[0].value.value, str):
        body = body[1:]
    return body


def target_name(s):
    if isinstance(s, ast.Assign) and len(s.targets) == 1:
        t = s.targets[0]
    elif isinstance(s, ast.AugAssign):
        t = s.target
    else:
        return None
    if isinstance(t, ast.Name):
        return t.id
    if isinstance(t, ast.Subscript) and isinstance(t.value, ast.Name):
        return t.value.id
    return None


def is_logger(s):
    return isinstance(s, ast.Expr) and isinstance(s.value, ast.Call) and isinstance(s.value.func, ast.Attribute) \
        and isinstance(s.value.func.value, ast.Name) and s.value.func.value.id == "logger"


def h(node_or_list):
    if isinstance(node_or_list, list):
        txt = "|".join(ast.dump(n, include_attributes=False) for n in node_or_list)
    else:
        txt = ast.dump(node_or_list, include_attributes=False)
    return hashlib.sha256(txt.encode()).hexdigest()[:16]


def emit_chain(mod, tr_factory, params, stmts, outputs, hashes, hkey):
    """One Definition per output (name, variable-or-expression): the same let-chain, a different result."""
    all_stmts = list(stmts)
    for coqname, final in outputs:
        tr = tr_factory()
        stmts = all_stmts
        if isinstance(final, str):
            last = [i for i, st in enumerate(all_stmts) if final in tr.assigned([st])]
            if last:
                stmts = all_stmts[:last[-1] + 1]
        tr.ret_types = []
        res = {}

        def k(final=final, tr=tr, res=res):
            if isinstance(final, ast.AST):
                c, t = tr.expr(final)
            else:
                if final not in tr.vars:
                    raise TranslationError("%s: variable %r is not defined at the end of the chain for %s" % (SRC, final, coqname))
                c, t = tr.vars[final]
            res["t"] = t
            return c
        body = tr.block(list(stmts), k)
        if tr.ret_types:
            raise TranslationError("%s: unexpected return inside the chain for %s" % (SRC, coqname))
        sig = " ".join("(%s : %s)" % (p, coq_type(t, mod)) for p, t in params)
        mod.emit("Definition %s %s : %s :=\n  %s." % (coqname, sig, coq_type(res["t"], mod), body))
        hashes[coqname] = hkey


# ------------------------------------------------------------------------------------ ZHS
def gen_zhs(mod, hashes, pins):
    cls = find_class(mod, "ZHSAskaryanSignal")
    init = find_def(cls.body, "__init__", "ZHSAskaryanSignal")
    body = strip_doc(init.body)
    get_signal = find_def(body, "get_signal", "ZHSAskaryanSignal.__init__")
    outer = {}
    for s in body:
        nm = target_name(s)
        if nm:
            outer.setdefault(nm, []).append(s)
    for need in ("theta", "n", "theta_c", "nu_0"):
        if need not in outer or len(outer[need]) != 1:
            raise TranslationError("%s: ZHSAskaryanSignal.__init__ must assign %s exactly once" % (SRC, need))
    gs = strip_doc(get_signal.body)
    spectral, others = [], []
    known_other = {"dt", "freqs", "shift", "freq_vals"}
    for s in gs:
        nm = target_name(s)
        if nm in ("ratio", "e_omega"):
            spectral.append(s)
        elif nm in known_other or isinstance(s, (ast.If, ast.Return)):
            others.append(s)
        else:
            mod.err(s, "statement of ZHS get_signal is outside the translated/pinned set")
    dt_s = [s for s in gs if target_name(s) == "dt"]
    shift_s = [s for s in gs if target_name(s) == "shift"]
    ifs = [s for s in gs if isinstance(s, ast.If)]
    if len(dt_s) != 1 or len(shift_s) != 1 or len(ifs) != 1:
        raise TranslationError("%s: ZHS get_signal must have one dt, one shift and one zeroing test" % SRC)
    hk = h(get_signal)

    def fac():
        tr = AskTr(mod, cname="ZHSAskaryanSignal")
        for p in ("energy", "viewing_distance", "viewing_angle", "theta", "theta_c", "freqs", "t0"):
            tr.vars[p] = (p, "R")
        tr.attr_vars[("self", "energy")] = ("energy", "R")
        tr.elems[("times", 0)] = ("times_0", "R")
        tr.elems[("times", 1)] = ("times_1", "R")
        tr.lens["times"] = "len_times"
        return tr
    P = [("energy", "R"), ("viewing_distance", "R"), ("viewing_angle", "R"), ("theta", "R"), ("theta_c", "R"), ("freqs", "R")]
    emit_chain(mod, fac, P, outer["nu_0"] + spectral, [("ZHS_e_omega", "e_omega")], hashes, hk)
    P2 = [("times_0", "R"), ("times_1", "R"), ("len_times", "Z"), ("t0", "R")]
    emit_chain(mod, fac, P2, dt_s + shift_s, [("ZHS_shift", "shift"), ("ZHS_zeroed", ifs[0].test)], hashes, hk)
    # theta, theta_c as the constructor computes them
    emit_chain(mod, lambda: _with(AskTr(mod), {"viewing_angle": "R"}), [("viewing_angle", "R")], outer["theta"],
               [("ZHS_theta", "theta")], hashes, hk)
    emit_chain(mod, lambda: _with(AskTr(mod), {"n": "R"}), [("n", "R")], outer["theta_c"], [("ZHS_theta_c", "theta_c")], hashes, hk)
    pins["ZHS.get_signal.pipeline"] = h(others)
    pins["ZHS.__init__.frame"] = h([s for s in body if s is not get_signal])


def _with(tr, vars_):
    for k, t in vars_.items():
        tr.vars[k] = (k, t)
    return tr


# ------------------------------------------------------------------------------------ AVZ
def gen_avz(mod, hashes, pins):
    cls = find_class(mod, "AVZAskaryanSignal")
    init = find_def(cls.body, "__init__", "AVZAskaryanSignal")
    body = strip_doc(init.body)
    get_signal = find_def(body, "get_signal", "AVZAskaryanSignal.__init__")
    gs = strip_doc(get_signal.body)
    spectral_names = {"E_lpm", "dThetaEM", "epsilon", "dThetaHad", "f0", "em_tmp", "had_tmp", "tmp"}
    pipeline_names = {"N", "dt", "freqs", "trace", "shift"}
    spectral, others = [], []
    for s in gs:
        nm = target_name(s)
        if nm in spectral_names:
            spectral.append(s)
        elif nm in pipeline_names or isinstance(s, ast.Return):
            others.append(s)
        elif isinstance(s, ast.If):
            names = set(AskTr(mod).assigned([s]))
            if names & {"trace", "long_trace"} and not (names & spectral_names):
                others.append(s)
            else:
                spectral.append(s)
        else:
            mod.err(s, "statement of AVZ get_signal is outside the translated/pinned set")
    hk = h(get_signal)

    def fac():
        tr = AskTr(mod, cname="AVZAskaryanSignal")
        for p in ("em_energy", "had_energy", "em_frac", "had_frac", "viewing_distance", "theta", "theta_c", "freqs"):
            tr.vars[p] = (p, "R")
        tr.attr_vars[("self", "em_energy")] = ("em_energy", "R")
        tr.attr_vars[("self", "had_energy")] = ("had_energy", "R")
        tr.attr_vars[("particle", "interaction", "em_frac")] = ("em_frac", "R")
        tr.attr_vars[("particle", "interaction", "had_frac")] = ("had_frac", "R")
        return tr
    P = [(p, "R") for p in ("em_energy", "had_energy", "em_frac", "had_frac", "viewing_distance", "theta", "theta_c", "freqs")]
    emit_chain(mod, fac, P, spectral,
               [("AVZ_tmp", "tmp"), ("AVZ_em_tmp", "em_tmp"), ("AVZ_had_tmp", "had_tmp"),
                ("AVZ_dThetaEM", "dThetaEM"), ("AVZ_dThetaHad", "dThetaHad")], hashes, hk)
    # placement: centre shift, shift to t0 (floor), zeroing test
    dt_s = [s for s in others if target_name(s) == "dt"]
    shift_s = [s for s in others if target_name(s) == "shift"]
    zero_ifs = [s for s in others if isinstance(s, ast.If) and any(isinstance(x, ast.Name) and x.id == "shift" for x in ast.walk(s.test))]
    if len(dt_s) != 1 or len(shift_s) != 2 or len(zero_ifs) != 1:
        raise TranslationError("%s: AVZ get_signal must have one dt, two shift statements and one zeroing test" % SRC)

    def fac2():
        tr = AskTr(mod, cname="AVZAskaryanSignal")
        tr.vars["t0"] = ("t0", "R")
        tr.elems[("times", 0)] = ("times_0", "R")
        tr.elems[("times", 1)] = ("times_1", "R")
        tr.lens["trace"] = "len_trace"
        return tr
    P2 = [("times_0", "R"), ("times_1", "R"), ("len_trace", "Z"), ("t0", "R")]
    emit_chain(mod, fac2, [("len_trace", "Z")], shift_s[:1], [("AVZ_center_shift", "shift")], hashes, hk)
    emit_chain(mod, fac2, P2, dt_s + shift_s, [("AVZ_shift", "shift"), ("AVZ_zeroed", zero_ifs[0].test)], hashes, hk)
    pins["AVZ.get_signal.pipeline"] = h(others)
    pins["AVZ.__init__.frame"] = h([s for s in body if s is not get_signal])


# ------------------------------------------------------------------------------------ ARZ
SS_SCALARS = ["theta", "z_to_t", "dt", "N", "dt_divider_Q", "dt_divider_RAC", "dt_divider", "dz", "z_max", "n_Q",
              "n_Q_negative", "t_tolerance", "t_start", "n_shift", "n_extra", "n_RAC", "sin_theta_c"]
SS_ARRAYS = ["z_Q_vals", "t_RAC_vals", "Q", "RA_C", "convolution", "LQ_tot", "A"]


def gen_arz(mod, hashes, pins):
    ct = ClassTr(mod, "ARZAskaryanSignal")
    ct.fn_class = AskTr
    for m in ("oncone_range", "em_shower_RAC", "had_shower_RAC", "em_shower_profile", "had_shower_profile", "max_length"):
        if ct.member(m) is None:
            raise TranslationError("%s: ARZAskaryanSignal.%s not found" % (SRC, m))
    cls = find_class(mod, "ARZAskaryanSignal")
    # the same functions with the default arguments of the source filled in
    for m in ("em_shower_profile", "had_shower_profile", "max_length"):
        node = find_def(cls.body, m, "ARZAskaryanSignal")
        params = [a.arg for a in node.args.args]
        nd = len(node.args.defaults)
        tr = AskTr(mod)
        dvals = [tr.num(d)[0] for d in node.args.defaults]
        free = params[:len(params) - nd]
        mod.emit("Definition ARZ_%s_default %s : R :=\n  ARZAskaryanSignal_%s %s %s." % (
            m, " ".join("(%s : R)" % a for a in free), m, " ".join(free), " ".join(dvals)))
    ss = find_def(cls.body, "shower_signal", "ARZAskaryanSignal")
    expect = ["self", "times", "energy", "profile_function", "potential_function", "viewing_angle", "viewing_distance", "n", "t0"]
    if [a.arg for a in ss.args.args] != expect:
        mod.err(ss, "shower_signal signature changed")
    body = strip_doc(ss.body)
    scal, arrays, ifs, shifted, rets = {}, [], [], [], []
    order = []
    for s in body:
        nm = target_name(s)
        if isinstance(s, ast.Assign) and nm in SS_SCALARS:
            if nm in scal:
                mod.err(s, "scalar %s assigned twice" % nm)
            scal[nm] = s
            order.append(s)
        elif isinstance(s, ast.AugAssign) and nm == "n_shift":
            shifted.append(s)
        elif nm in SS_ARRAYS:
            arrays.append(s)
        elif isinstance(s, ast.If):
            ifs.append(s)
        elif isinstance(s, ast.Return):
            rets.append(s)
        elif is_logger(s):
            pass
        else:
            mod.err(s, "statement of shower_signal is outside the translated/pinned set")
    missing = [v for v in SS_SCALARS if v not in scal]
    if missing or len(shifted) != 1:
        raise TranslationError("%s: shower_signal lacks scalar statements %s" % (SRC, missing or "n_shift += n_Q_negative"))
    # classify the if statements
    zero_if = [s for s in ifs if isinstance(s.test, ast.Compare) and isinstance(s.test.left, ast.Name) and s.test.left.id == "energy"]
    oncone_if = [s for s in ifs if any(isinstance(x, ast.Attribute) and x.attr == "oncone_range" for x in ast.walk(s.test))]
    log_ifs = [s for s in ifs if all(is_logger(b) for b in s.body) and not s.orelse]
    outside_if = [s for s in ifs if isinstance(s.test, ast.BoolOp) and isinstance(s.test.op, ast.Or)]
    allq_if = [s for s in ifs if any(isinstance(x, ast.Name) and x.id == "Q" for x in ast.walk(s.test))]
    case_if = [s for s in ifs if isinstance(s.test, ast.Compare) and isinstance(s.test.left, ast.Name) and s.test.left.id == "n_shift"]
    decim_if = [s for s in ifs if s not in log_ifs and any(isinstance(x, ast.Slice) and x.step is not None for x in ast.walk(s))
                and s not in case_if]
    classified = zero_if + oncone_if + log_ifs + outside_if + allq_if + case_if + decim_if
    if len(zero_if) != 1 or len(oncone_if) != 1 or len(outside_if) != 1 or len(allq_if) != 1 or len(case_if) != 1 \
            or len(decim_if) != 1 or len(set(map(id, classified))) != len(ifs):
        raise TranslationError("%s: the if-statements of shower_signal do not match the modelled structure" % SRC)
    hk = h(ss)

    def fac():
        tr = AskTr(mod, cname="ARZAskaryanSignal")
        tr.self_name = "self"
        for p in ("energy", "viewing_angle", "viewing_distance", "n", "t0", "convolution", "LQ_tot"):
            tr.vars[p] = (p, "R")
        tr.elems[("times", 0)] = ("times_0", "R")
        tr.elems[("times", 1)] = ("times_1", "R")
        tr.lens["times"] = "len_times"
        tr.lookup_member = ct.lookup
        return tr
    P = [("times_0", "R"), ("times_1", "R"), ("len_times", "Z"), ("energy", "R"), ("viewing_angle", "R"), ("n", "R"), ("t0", "R")]
    pre = [s for s in order if s.lineno < oncone_if[0].lineno]
    emit_chain(mod, fac, [("energy", "R")], [], [("ARZ_ss_zero_energy", zero_if[0].test)], hashes, hk)
    emit_chain(mod, fac, P, pre, [("ARZ_ss_oncone", oncone_if[0].test)], hashes, hk)
    chain = [s for s in order if s.lineno < shifted[0].lineno]
    outs = [("ARZ_ss_%s" % v, v) for v in SS_SCALARS if v != "sin_theta_c" and v != "theta" and v != "t_tolerance"]
    emit_chain(mod, fac, P, chain, outs + [("ARZ_ss_outside", outside_if[0].test)], hashes, hk)
    emit_chain(mod, fac, P, chain + shifted, [("ARZ_ss_n_shift_total", "n_shift")], hashes, hk)
    a_stmt = [s for s in arrays if target_name(s) == "A" and s.lineno > shifted[0].lineno]
    if len(a_stmt) != 1:
        raise TranslationError("%s: expected one vector-potential scaling statement A = ..." % SRC)
    emit_chain(mod, fac, P + [("convolution", "R"), ("LQ_tot", "R")], chain + shifted + [scal["sin_theta_c"]] + a_stmt,
               [("ARZ_ss_A", "A")], hashes, hk)
    # everything handled by the hand model is pinned
    hand = [s for s in arrays if s not in a_stmt] + [oncone_if[0]] + allq_if + case_if + decim_if + rets + [zero_if[0]] + [outside_if[0]]
    pins["ARZ.shower_signal.arrays"] = h(sorted(hand, key=lambda s: s.lineno))
    init = find_def(cls.body, "__init__", "ARZAskaryanSignal")
    pins["ARZ.__init__"] = h(strip_doc(init.body))


def generate(repo):
    mod = Module(repo, SRC)
    hashes, pins = {}, {}
    gen_arz(mod, hashes, pins)
    gen_zhs(mod, hashes, pins)
    gen_avz(mod, hashes, pins)
    hashes.update(mod.hashes)
    return mod.result(), {"definitions": hashes, "pins": pins}


if __name__ == "__main__":
    text, side = generate(sys.argv[1])
    print(text)
    print("(*", side, "*)")
