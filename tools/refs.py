"""C20 translator: every dotted reference into numpy / scipy / h5py / stdlib / pyrex that
the package source makes, and the namespace of the *installed* libraries along those
references, as a Coq file (Gen_refs.v).  Fail-closed: anything it cannot classify is
reported in `unclassified` and makes the generated theorem input false.

usage: refs.py <repo> <out.v> <out.json>
"""
import ast
import importlib
import json
import os
import sys

STDLIB = set(sys.stdlib_module_names)
DECLARED = {"numpy", "scipy", "h5py"}           # setup.py install_requires (parsed below too)
# third-party modules the documentation lists as optional, and the files allowed to need them
DOCUMENTED_OPTIONAL = {"PySpice": ["pyrex/custom/pyspice.py"]}


def coq_str(s):
    return '"' + s.replace('"', '""') + '"'


class FileRefs(ast.NodeVisitor):
    def __init__(self, relpath, modname, is_pkg):
        self.rel = relpath
        self.modname = modname
        self.is_pkg = is_pkg
        self.alias = {}       # local name -> tuple(dotted path parts)
        self.imports = []     # (dotted module, line, guarded)
        self.refs = []        # (parts tuple, line)
        self.dynamic = []     # getattr(mod, "lit") style references, informational
        self.methods = []     # attribute names used on values of unknown type
        self.star = []
        self._guard = 0
        self.bound = set()    # names rebound locally (params, assignments): chains on them skipped
        self.assigned = {}    # "name" / "self.attr" -> list of callee paths (tuple) or None for any other value
        self.attr_uses = []   # (target key, first attribute, line): attribute of a value bound to a name / self.attr

    def resolve_relative(self, module, level):
        if level == 0:
            return module
        base = self.modname.split(".")
        if not self.is_pkg:
            base = base[:-1]
        base = base[:len(base) - (level - 1)]
        return ".".join(base + ([module] if module else []))

    def visit_Try(self, node):
        guarded = any(
            isinstance(h.type, ast.Name) and h.type.id in ("ImportError", "ModuleNotFoundError", "Exception")
            or h.type is None
            or isinstance(h.type, ast.Tuple) and any(isinstance(e, ast.Name) and e.id in ("ImportError", "ModuleNotFoundError") for e in h.type.elts)
            for h in node.handlers)
        if guarded:
            self._guard += 1
        for n in node.body:
            self.visit(n)
        if guarded:
            self._guard -= 1
        for h in node.handlers:
            self.visit(h)
        for n in node.orelse + node.finalbody:
            self.visit(n)

    def visit_If(self, node):
        guarded = any(isinstance(n, ast.Name) and n.id == "__available__" or
                      isinstance(n, ast.Attribute) and n.attr == "__available__"
                      for n in ast.walk(node.test))
        self.visit(node.test)
        if guarded:
            self._guard += 1
        for n in node.body:
            self.visit(n)
        if guarded:
            self._guard -= 1
        for n in node.orelse:
            self.visit(n)

    def visit_Import(self, node):
        for a in node.names:
            parts = tuple(a.name.split("."))
            self.imports.append((a.name, node.lineno, bool(self._guard)))
            if a.asname:
                self.alias[a.asname] = parts
            else:
                self.alias[parts[0]] = (parts[0],)

    def visit_ImportFrom(self, node):
        mod = self.resolve_relative(node.module, node.level)
        self.imports.append((mod, node.lineno, bool(self._guard)))
        for a in node.names:
            if a.name == "*":
                self.star.append((mod, node.lineno))
                continue
            parts = tuple(mod.split(".")) + (a.name,)
            self.alias[a.asname or a.name] = parts
            self.refs.append((parts, node.lineno))

    def visit_Attribute(self, node):
        chain = []
        cur = node
        while isinstance(cur, ast.Attribute):
            chain.append(cur.attr)
            cur = cur.value
        if isinstance(cur, ast.Name) and cur.id in self.alias:
            parts = self.alias[cur.id] + tuple(reversed(chain))
            self.refs.append((parts, node.lineno))
        else:
            # attribute of a value of statically unknown type: only its names are recorded
            for a in chain:
                self.methods.append((a, node.lineno))
            # ... unless the value is a name / self.attr that is only ever bound to an instance of one library class
            # (resolved in typed_refs): the FIRST attribute taken of it is then a reference into that class
            rev = list(reversed(chain))
            if isinstance(cur, ast.Name) and cur.id == "self" and len(rev) >= 2:
                self.attr_uses.append(("self." + rev[0], rev[1], node.lineno))
            elif isinstance(cur, ast.Name) and cur.id != "self":
                self.attr_uses.append((cur.id, rev[0], node.lineno))
            self.visit(cur)

    @staticmethod
    def _key(t):
        if isinstance(t, ast.Name):
            return t.id
        if isinstance(t, ast.Attribute) and isinstance(t.value, ast.Name) and t.value.id == "self":
            return "self." + t.attr
        return None

    def _callee(self, v):
        """Dotted library path of the callee when `v` is a call of an imported name, else None."""
        if isinstance(v, ast.Call):
            chain, cur = [], v.func
            while isinstance(cur, ast.Attribute):
                chain.append(cur.attr)
                cur = cur.value
            if isinstance(cur, ast.Name) and cur.id in self.alias:
                return self.alias[cur.id] + tuple(reversed(chain))
        return None

    def _bind(self, target, value):
        if isinstance(target, (ast.Tuple, ast.List)):
            for e in target.elts:
                self._bind(e, None)
            return
        k = self._key(target)
        if k is None:
            return
        if isinstance(value, ast.Constant) and value.value is None:
            return                                   # "not set yet" placeholder
        self.assigned.setdefault(k, []).append(self._callee(value) if value is not None else None)

    def visit_Assign(self, node):
        for t in node.targets:
            self._bind(t, node.value)
        self.generic_visit(node)

    def visit_AugAssign(self, node):
        self._bind(node.target, None)
        self.generic_visit(node)

    def visit_AnnAssign(self, node):
        self._bind(node.target, node.value)
        self.generic_visit(node)

    def visit_For(self, node):
        self._bind(node.target, None)
        self.generic_visit(node)

    def visit_With(self, node):
        for it in node.items:
            if it.optional_vars is not None:
                self._bind(it.optional_vars, it.context_expr)
        self.generic_visit(node)

    def visit_FunctionDef(self, node):
        a = node.args
        for arg in a.posonlyargs + a.args + a.kwonlyargs + ([a.vararg] if a.vararg else []) + ([a.kwarg] if a.kwarg else []):
            if arg.arg != "self":
                self.assigned.setdefault(arg.arg, []).append(None)     # parameters: unknown type
        self.generic_visit(node)

    def typed_refs(self, typed_roots=("h5py",)):
        """References into library CLASSES made through instances: `x = h5py.File(...)` ... `x.fid`.
        Only names / self attributes whose every binding in this file is a call of the same class of a library in
        `typed_roots` (h5py: its object API is defined on the classes) are typed; the class must exist in the
        installed library (else the module-level reference is already reported)."""
        out = []
        for k, callees in self.assigned.items():
            if not callees or any(c is None for c in callees) or len(set(callees)) != 1:
                continue
            parts = callees[0]
            if parts[0] not in typed_roots:
                continue
            try:
                obj = importlib.import_module(parts[0])
                for p_ in parts[1:]:
                    obj = getattr(obj, p_)
            except Exception:
                continue
            if not isinstance(obj, type):
                continue
            for key, attr, line in self.attr_uses:
                if key == k:
                    out.append((parts + (attr,), line))
        return out

    def visit_Name(self, node):
        if node.id in self.alias and isinstance(node.ctx, ast.Load):
            self.refs.append((self.alias[node.id], node.lineno))

    def visit_Call(self, node):
        f = node.func
        if isinstance(f, ast.Name) and f.id in ("getattr", "hasattr") and len(node.args) >= 2 \
                and isinstance(node.args[0], ast.Name) and node.args[0].id in self.alias \
                and isinstance(node.args[1], ast.Constant) and isinstance(node.args[1].value, str):
            self.dynamic.append((".".join(self.alias[node.args[0].id] + (node.args[1].value,)), node.lineno))
        self.generic_visit(node)


def static_module_names(path):
    """Top-level names bound by a pyrex module (defs, classes, assignments, imports)."""
    tree = ast.parse(open(path).read())
    names = set(["__file__", "__name__", "__doc__", "__path__", "__package__"])
    classes = {}

    def bind_target(t):
        if isinstance(t, ast.Name):
            names.add(t.id)
        elif isinstance(t, (ast.Tuple, ast.List)):
            for e in t.elts:
                bind_target(e)

    def scan(body):
        for n in body:
            if isinstance(n, (ast.FunctionDef, ast.AsyncFunctionDef)):
                names.add(n.name)
            elif isinstance(n, ast.ClassDef):
                names.add(n.name)
                classes[n.name] = n
            elif isinstance(n, ast.Assign):
                for t in n.targets:
                    bind_target(t)
            elif isinstance(n, (ast.AnnAssign, ast.AugAssign)):
                bind_target(n.target)
            elif isinstance(n, ast.Import):
                for a in n.names:
                    names.add(a.asname or a.name.split(".")[0])
            elif isinstance(n, ast.ImportFrom):
                for a in n.names:
                    if a.name == "*":
                        names.add("*")
                    else:
                        names.add(a.asname or a.name)
            elif isinstance(n, (ast.If, ast.Try, ast.With, ast.For, ast.While)):
                for fld in ("body", "orelse", "finalbody"):
                    scan(getattr(n, fld, []))
                for h in getattr(n, "handlers", []):
                    scan(h.body)
            elif isinstance(n, ast.Delete):
                pass
    scan(tree.body)
    return names


def main(repo, out_v, out_json):
    pkg_root = os.path.join(repo, "pyrex")
    files = []
    for d, _, fs in os.walk(pkg_root):
        for f in sorted(fs):
            if f.endswith(".py"):
                files.append(os.path.join(d, f))
    files.sort()
    # declared requirements from setup.py
    declared = set()
    setup_src = open(os.path.join(repo, "setup.py")).read()
    for node in ast.walk(ast.parse(setup_src)):
        if isinstance(node, ast.keyword) and node.arg == "install_requires":
            for e in node.value.elts:
                name = e.value
                for sep in "<>=!~ ;[":
                    name = name.split(sep)[0]
                declared.add(name.strip())
    # pyrex static namespace
    pyrex_ns = {}     # dotted module -> set of names
    modfile = {}
    for f in files:
        rel = os.path.relpath(f, repo)
        mod = rel[:-3].replace(os.sep, ".")
        is_pkg = mod.endswith(".__init__")
        if is_pkg:
            mod = mod[:-9]
        modfile[mod] = (f, rel, is_pkg)
    # namespace packages (pyrex.custom has no __init__)
    for mod in list(modfile):
        parts = mod.split(".")
        for i in range(1, len(parts)):
            pyrex_ns.setdefault(".".join(parts[:i]), set())
    for mod, (f, rel, is_pkg) in modfile.items():
        pyrex_ns.setdefault(mod, set()).update(static_module_names(f))
    for mod in list(pyrex_ns):
        if "." in mod:
            parent, child = mod.rsplit(".", 1)
            pyrex_ns.setdefault(parent, set()).add(child)
    # star imports inside pyrex: expand one level
    changed = True
    while changed:
        changed = False
        for mod, (f, rel, is_pkg) in modfile.items():
            fr = FileRefs(rel, mod, is_pkg)
            fr.visit(ast.parse(open(f).read()))
            for m, _ in fr.star:
                if m in pyrex_ns:
                    add = {n for n in pyrex_ns[m] if not n.startswith("_")} - pyrex_ns[mod]
                    if add:
                        pyrex_ns[mod] |= add
                        changed = True

    open_modules = {m for m, ns_ in pyrex_ns.items() if "*" in ns_}
    method_names, own_names = {}, set()
    refs = {}           # parts -> first location
    all_imports = []
    dynamic = []
    undeclared = []
    unresolved_star = []
    for mod, (f, rel, is_pkg) in sorted(modfile.items()):
        fr = FileRefs(rel, mod, is_pkg)
        fr.visit(ast.parse(open(f).read()))
        for parts, line in fr.refs + fr.typed_refs():
            refs.setdefault(parts, "%s:%d" % (rel, line))
        for m, line, guarded in fr.imports:
            top = m.split(".")[0]
            all_imports.append((m, "%s:%d" % (rel, line)))
            if top == "pyrex" or top in STDLIB or top in declared:
                continue
            allowed = DOCUMENTED_OPTIONAL.get(top)
            if allowed and rel in allowed and guarded:
                continue
            undeclared.append((m, "%s:%d" % (rel, line)))
        for m, line in fr.star:
            if m.split(".")[0] != "pyrex" and not (m.split(".")[0] in DOCUMENTED_OPTIONAL):
                unresolved_star.append((m, "%s:%d" % (rel, line)))
        dynamic += [(d, "%s:%d" % (rel, line)) for d, line in fr.dynamic]
        for a, line in fr.methods:
            method_names.setdefault(a, "%s:%d" % (rel, line))
        for n in ast.walk(ast.parse(open(f).read())):
            if isinstance(n, (ast.FunctionDef, ast.ClassDef)):
                own_names.add(n.name)
            elif isinstance(n, ast.Attribute) and isinstance(n.ctx, ast.Store):
                own_names.add(n.attr)

    imported_modules = {m for m, _ in all_imports}
    # ------------------------------------------------------------ build the environment
    # env: dict path-tuple -> sorted list of child names, or None for "open" nodes
    env = {}
    skipped = []

    def listing_ext(obj):
        try:
            return sorted(set(dir(obj)))
        except Exception:
            return []

    checked = []
    for parts, loc in sorted(refs.items()):
        top = parts[0]
        if top in DOCUMENTED_OPTIONAL:
            skipped.append((".".join(parts), loc, "documented optional dependency"))
            continue
        if top == "pyrex":
            # static resolution through module names; anything below a module-level name is open
            path = ()
            okprefix = True
            for i, p in enumerate(parts):
                modname = ".".join(parts[:i])
                if i == 0:
                    env.setdefault((), None)
                    continue
                if modname in pyrex_ns:
                    env[tuple(parts[:i])] = sorted(pyrex_ns[modname])
                else:
                    break
            checked.append((parts, loc))
            continue
        if top not in STDLIB and top not in declared:
            # reference through an undeclared import: reported by undeclared_imports
            skipped.append((".".join(parts), loc, "root is an undeclared module"))
            continue
        try:
            obj = importlib.import_module(top)
        except Exception as e:
            skipped.append((".".join(parts), loc, "cannot import %s: %s" % (top, e)))
            continue
        env[(top,)] = listing_ext(obj)
        cur = obj
        for i in range(1, len(parts)):
            name = parts[i]
            dotted = ".".join(parts[:i + 1])
            nxt = None
            if hasattr(cur, name):
                nxt = getattr(cur, name)
            elif dotted in imported_modules or any(m.startswith(dotted + ".") for m in imported_modules):
                try:
                    nxt = importlib.import_module(dotted)
                    lst = set(env[tuple(parts[:i])])
                    lst.add(name)
                    env[tuple(parts[:i])] = sorted(lst)
                except Exception:
                    nxt = None
            if nxt is None:
                break
            if i < len(parts) - 1:
                env[tuple(parts[:i + 1])] = listing_ext(nxt)
            cur = nxt
        checked.append((parts, loc))

    # roots
    roots = sorted({p[0] for p, _ in checked})
    env[()] = None

    def node(path):
        if path not in env:
            return "Leaf"
        names = env[path]
        if names is None:
            names = roots
        kids = []
        for nme in names:
            kids.append("(%s, %s)" % (coq_str(nme), node(path + (nme,)) if (path + (nme,)) in env else "Leaf"))
        return "Node [" + "; ".join(kids) + "]"

    # pyrex: names below a module-level binding are not tracked -> Open
    def node_p(path):
        if ".".join(path) in open_modules:
            return "Open"
        if path in env:
            names = env[path] if env[path] is not None else roots
            kids = []
            for nme in names:
                sub = path + (nme,)
                if sub in env:
                    kids.append("(%s, %s)" % (coq_str(nme), node_p(sub)))
                elif path and path[0] == "pyrex":
                    kids.append("(%s, Open)" % coq_str(nme))
                else:
                    kids.append("(%s, Leaf)" % coq_str(nme))
            return "Node [" + ";\n ".join(kids) + "]"
        return "Leaf"

    lines = []
    lines.append("(* GENERATED by tools/refs.py from %s -- do not edit *)" % repo)
    lines.append("From Coq Require Import String List.")
    lines.append("From PyrexLib Require Import Namespace.")
    lines.append("Import ListNotations. Open Scope string_scope.")
    lines.append("Definition env : ns :=\n %s." % node_p(()))
    lines.append("Definition refs : list (list string) := [")
    lines.append(";\n".join("  [%s]" % "; ".join(coq_str(p) for p in parts) for parts, _ in checked))
    lines.append("].")
    lines.append("Definition undeclared_imports : list string := [%s]." %
                 "; ".join(coq_str("%s @ %s" % u) for u in undeclared + unresolved_star))
    lines.append("Definition n_refs : nat := %d." % len(checked))
    ext_methods = sorted(a for a in method_names if a not in own_names)
    lines.append("Definition method_names : list string := [%s]." % "; ".join(coq_str(a) for a in ext_methods))
    pkg_dirs = sorted({os.path.relpath(os.path.dirname(f), repo).replace(os.sep, ".") for f in files})
    setup_pkgs = set()
    for node in ast.walk(ast.parse(setup_src)):
        if isinstance(node, ast.keyword) and node.arg == "packages" and isinstance(node.value, (ast.List, ast.Tuple)):
            setup_pkgs = {e.value for e in node.value.elts if isinstance(e, ast.Constant)}
    missing_pkgs = [p for p in pkg_dirs if p not in setup_pkgs]
    lines.append("Definition unpackaged_dirs : list string := [%s]." % "; ".join(coq_str(p) for p in missing_pkgs))
    open(out_v + ".tmp", "w").write("\n".join(lines) + "\n")
    old = open(out_v).read() if os.path.exists(out_v) else None
    new = open(out_v + ".tmp").read()
    os.remove(out_v + ".tmp")
    if old != new:
        open(out_v, "w").write(new)
    json.dump({
        "refs": [{"chain": ".".join(p), "loc": l} for p, l in checked],
        "skipped": skipped, "dynamic": dynamic,
        "undeclared": undeclared + unresolved_star,
        "declared": sorted(declared), "files": len(files),
        "env": {".".join(k): v for k, v in env.items() if k},
        "pyrex_modules": sorted(pyrex_ns), "method_names": {a: method_names[a] for a in method_names if a not in own_names},
        "unpackaged_dirs": missing_pkgs, "open_modules": sorted(open_modules),
    }, open(out_json, "w"), indent=0)


if __name__ == "__main__":
    main(*sys.argv[1:4])
