(* File-level waveform accessor HDF5Reader.get_waveforms(event_id, waveform_type): returns the
   event's own k-th waveform row, or raises when the event has no such row. *)
From Coq Require Import List ZArith Bool Lia.
From PyrexLib Require Import IOLists.
From PyrexModel Require Import IOModel.
From PyrexProofs Require Import IO_writer IO_reader C11_proofs.
Import ListNotations.
Open Scope Z_scope.

Lemma nthZ_py_slice : forall {A} (l : list A) a b k d, 0 <= a -> a <= b -> b <= zlen l -> 0 <= k < b - a ->
  nthZ (py_slice l a b) k d = nthZ l (a + k) d.
Proof.
  intros A l a b k d H0 H1 H2 Hk. unfold nthZ.
  destruct (k <? 0) eqn:E1; [lia|]. destruct (a + k <? 0) eqn:E2; [lia|].
  rewrite py_slice_in by lia.
  rewrite nth_firstn_skipn; [f_equal; lia | lia | unfold zlen in H2; lia].
Qed.

Theorem file_waveform_lemma : forall st i k, inv st -> avail st W = true -> 0 <= i < n_events st -> 0 <= k ->
  file_waveform st i k =
  (if k <? zlen (read_event st i W) then inr (nthZ (read_event st i W) k []) else inl EValue) /\
  file_waveforms st i = inr (read_event st i W).
Proof.
  intros st i k I Ha Hi Hk. unfold file_waveform, file_waveforms, read_event.
  rewrite Ha. rewrite (inv_avail_col st W I Ha). cbn [negb].
  destruct (i <? 0) eqn:E1; [lia|]. cbv zeta. rewrite E1. destruct (n_events st <=? i) eqn:E2; [lia|]. cbn [orb].
  split; [| reflexivity].
  rewrite cell_col by lia.
  assert (Hl : (Z.to_nat i < length (colOf (idx st) W))%nat).
  { unfold colOf. rewrite map_length. unfold n_events, zlen in Hi. lia. }
  destruct (chain_nth _ _ _ _ (inv_chain _ I W) Hl) as [A [B C]].
  set (c := nth (Z.to_nat i) (colOf (idx st) W) (0, 0)) in *.
  unfold rows in C.
  rewrite zlen_py_slice by lia. replace (fst c + snd c - fst c) with (snd c) by lia.
  destruct (snd c <=? k) eqn:E3; destruct (k <? snd c) eqn:E4; try lia; auto.
  rewrite nthZ_py_slice by lia. reflexivity.
Qed.
