(* FileGenerator: draining a generator over several files replays every file's events in order,
   with the running count, then raises StopIteration. *)
From Coq Require Import List ZArith Bool Lia.
From PyrexLib Require Import IOLists.
From PyrexModel Require Import IOModel.
From PyrexProofs Require Import IO_writer IO_reader C11_proofs C12_proofs.
Import ListNotations.
Open Scope Z_scope.

(* a file the generator can replay: readable and its particles dataset holds data *)
Definition gen_ok (f : wstate) : Prop := readable f /\ avail f P = true.

Definition evrange (a b : Z) : list Z := map (fun j => a + j) (zseq (b - a)).
Definition sumtv (l : list wstate) : Z := fold_right Z.add 0 (map tv l).
(* what create_event returns for the events p.. of file f when the earlier files threw B in total *)
Definition file_items (B : Z) (f : wstate) (p : Z) : list (list Z * Z) :=
  map (fun e => (particle_tags_of f e, B + thrown_upto f e)) (evrange p (n_events f)).
Fixpoint all_items (B : Z) (fs : list wstate) : list (list Z * Z) :=
  match fs with [] => [] | f :: r => file_items B f 0 ++ all_items (B + tv f) r end.

Lemma evrange_nil : forall a b, b <= a -> evrange a b = [].
Proof. intros. unfold evrange, zseq. replace (Z.to_nat (b - a)) with 0%nat by lia. reflexivity. Qed.
Lemma evrange_cons : forall a b, a < b -> evrange a b = a :: evrange (a + 1) b.
Proof.
  intros a b H. unfold evrange. replace (b - a) with ((b - (a + 1)) + 1) by lia.
  rewrite zseq_succ by lia. simpl. f_equal; [lia|]. rewrite map_map. apply map_ext. intro j. lia.
Qed.
Lemma evrange_length : forall a b, a <= b -> length (evrange a b) = Z.to_nat (b - a).
Proof. intros. unfold evrange, zseq. rewrite !map_length, seq_length. reflexivity. Qed.

(* ------------------------------------------------------------------ one chunk *)
Lemma collect_tags : forall f evs, avail f P = true ->
  collect (fun x => particle_tags (fst (snd x))) (spec_events f evs) = inr (map (particle_tags_of f) evs).
Proof.
  intros f evs Ha. induction evs as [|e r IH]; simpl; auto.
  rewrite IH. unfold particle_tags, read_all_obs, read_obs. cbn [fst snd]. rewrite get_per_map. rewrite Ha. reflexivity.
Qed.

Definition fcs (done : list wstate) (cur : Z) (nrest : nat) : list Z := 0 :: map tv done ++ cur :: repeat 0 nrest.
Definition cur_of (f : wstate) (p : Z) : Z := if p =? 0 then 0 else thrown_upto f (p - 1).

Lemma set_nth_app : forall {A} (l r : list A) x v, set_nth (length l) v (l ++ x :: r) = l ++ v :: r.
Proof. intros A l r x v. induction l; simpl; auto. f_equal. exact IHl. Qed.

Lemma fcs_set : forall done cur m c, set_nth (Z.to_nat (zlen done + 1)) c (fcs done cur m) = fcs done c m.
Proof.
  intros. unfold fcs. replace (Z.to_nat (zlen done + 1)) with (S (length (map tv done))) by (rewrite map_length; unfold zlen; lia).
  simpl. f_equal. apply set_nth_app.
Qed.
Lemma fcs_sum : forall done cur m, fold_right Z.add 0 (fcs done cur m) = sumtv done + cur.
Proof.
  intros. unfold fcs, sumtv. simpl. rewrite fold_right_app. simpl.
  assert (H : forall m, fold_right Z.add 0 (repeat 0 m) = 0) by (induction m0; simpl; auto).
  rewrite H. assert (G : forall l a, fold_right Z.add a l = fold_right Z.add 0 l + a) by (induction l; simpl; intros; [lia | rewrite IHl; lia]).
  rewrite G. lia.
Qed.
Lemma fcs_next : forall done f m, fcs done (tv f) (S m) = fcs (done ++ [f]) 0 m.
Proof. intros. unfold fcs. rewrite map_app. simpl. rewrite <- app_assoc. reflexivity. Qed.

Lemma thrown_upto_last : forall f, 1 <= n_events f -> thrown_upto f (n_events f - 1) = tv f.
Proof.
  intros f H. unfold thrown_upto, tv. replace (n_events f - 1 + 1) with (n_events f) by lia.
  rewrite Z.mul_comm. apply Z.div_mul. lia.
Qed.

(* ------------------------------------------------------------------ generator invariant *)
Record GI (g : gstate) (done : list wstate) (f : wstate) (rest : list wstate) (p q : Z) : Prop := mkGI {
  gi_fi : g_fi g = zlen done;
  gi_file : g_file g = Some f;
  gi_pq : 0 <= p /\ p <= q /\ q <= n_events f;
  gi_ei : q <= g_ei g /\ (q < n_events f -> g_ei g = q);
  gi_ev : g_events g = map (particle_tags_of f) (evrange p q);
  gi_cn : g_counts g = map (thrown_upto f) (evrange p q);
  gi_fc : g_fcounts g = fcs done (cur_of f p) (length rest)
}.

Section Gen.
Variable files : list wstate.
Variable k : Z.
Hypothesis Hk : 1 <= k.

Lemma go_chunk : forall f ei, gen_ok f -> 0 <= ei < n_events f ->
  let stop := if n_events f <? ei + k then n_events f else ei + k in
  getitem_slice f (Some k) (Some ei) (Some stop) None = inr (spec_events f (evrange ei stop)) /\
  ei < stop /\ stop <= n_events f.
Proof.
  intros f ei [R Ha] Hei stop. split; [apply filegen_chunk_lemma; auto|].
  unfold stop. destruct (n_events f <? ei + k) eqn:E; [apply Z.ltb_lt in E | apply Z.ltb_ge in E]; lia.
Qed.

(* reload inside the current file *)
Lemma g_load_same : forall g done f rest q, files = done ++ f :: rest -> gen_ok f ->
  GI g done f rest q q -> q < n_events f ->
  exists g' q', g_load files k g = inr g' /\ q < q' /\ GI g' done f rest q q'.
Proof.
  intros g done f rest q Hf Hok G Hq. destruct G as [Gfi Gfile Gpq Gei Gev Gcn Gfc].
  destruct Gei as [_ Gei]. specialize (Gei Hq).
  unfold g_load. rewrite Gfi, Gfile, Gei.
  pose proof (zlen_nonneg done).
  destruct (zlen done <? 0) eqn:E1; [lia|]. destruct (n_events f <=? q) eqn:E2; [lia|]. simpl.
  destruct (go_chunk f q Hok ltac:(lia)) as [Hs [Hlt Hle]].
  set (stop := if n_events f <? q + k then n_events f else q + k) in *.
  rewrite Hs. rewrite collect_tags by apply Hok.
  eexists. exists stop. split; [reflexivity|]. split; [lia|].
  constructor; simpl; auto; try lia.
  - unfold stop in *. destruct (n_events f <? q + k) eqn:E; [apply Z.ltb_lt in E | apply Z.ltb_ge in E]; split; lia.
  - unfold spec_events. rewrite map_map. reflexivity.
Qed.

(* move on to the next file *)
Lemma g_load_next : forall g done f f' rest', files = done ++ f :: f' :: rest' -> gen_ok f -> gen_ok f' ->
  GI g done f (f' :: rest') (n_events f) (n_events f) ->
  exists g' q', g_load files k g = inr g' /\ 0 < q' /\ GI g' (done ++ [f]) f' rest' 0 q'.
Proof.
  intros g done f f' rest' Hf Hok Hok' G. destruct G as [Gfi Gfile Gpq Gei Gev Gcn Gfc].
  unfold g_load. rewrite Gfi, Gfile.
  pose proof (zlen_nonneg done). destruct Gei as [Gei _].
  destruct (zlen done <? 0) eqn:E1; [lia|]. destruct (n_events f <=? g_ei g) eqn:E2; [| lia]. simpl.
  assert (Hlen : zlen files = zlen done + 2 + zlen rest').
  { rewrite Hf. rewrite zlen_app. unfold zlen. simpl. lia. }
  pose proof (zlen_nonneg rest').
  destruct (zlen files <=? zlen done + 1) eqn:E3; [lia|].
  assert (Hnth : nth_error files (Z.to_nat (zlen done + 1)) = Some f').
  { rewrite Hf. replace (Z.to_nat (zlen done + 1)) with (length (done ++ [f])) by (rewrite app_length; unfold zlen; simpl; lia).
    replace (done ++ f :: f' :: rest') with ((done ++ [f]) ++ f' :: rest') by (rewrite <- app_assoc; reflexivity).
    rewrite nth_error_app2 by lia. rewrite Nat.sub_diag. reflexivity. }
  rewrite Hnth.
  assert (Hn' : 1 <= n_events f') by (destruct Hok' as [[_ [_ [_ [_ Hn]]]] _]; exact Hn).
  destruct (go_chunk f' 0 Hok' ltac:(lia)) as [Hs [Hlt Hle]].
  change (0 + k) with k in *.
  set (stop := if n_events f' <? k then n_events f' else k) in *.
  rewrite Hs. rewrite collect_tags by apply Hok'.
  eexists. exists stop. split; [reflexivity|]. split; [lia|].
  assert (Hn : 1 <= n_events f) by (destruct Hok as [[_ [_ [_ [_ Hn]]]] _]; exact Hn).
  constructor; simpl; auto; try lia.
  - rewrite zlen_app. unfold zlen. simpl. lia.
  - unfold stop in *. destruct (n_events f' <? k) eqn:E; [apply Z.ltb_lt in E | apply Z.ltb_ge in E]; split; lia.
  - unfold spec_events. rewrite map_map. reflexivity.
  - rewrite Gfc. unfold cur_of. destruct (n_events f =? 0) eqn:E; [lia|].
    rewrite thrown_upto_last by lia. simpl length. rewrite fcs_next. reflexivity.
Qed.

(* the last file is exhausted: StopIteration *)
Lemma g_load_stop : forall g done f, files = done ++ [f] ->
  GI g done f [] (n_events f) (n_events f) -> g_load files k g = inl EStop.
Proof.
  intros g done f Hf G. destruct G as [Gfi Gfile Gpq Gei Gev Gcn Gfc].
  unfold g_load. rewrite Gfi, Gfile. pose proof (zlen_nonneg done). destruct Gei as [Gei _].
  destruct (zlen done <? 0) eqn:E1; [lia|]. destruct (n_events f <=? g_ei g) eqn:E2; [| lia]. simpl.
  assert (Hlen : zlen files = zlen done + 1) by (rewrite Hf, zlen_app; unfold zlen; simpl; lia).
  destruct (zlen files <=? zlen done + 1) eqn:E3; [reflexivity | lia].
Qed.

(* pop one buffered event *)
Definition pop_of (g1 : gstate) : exn + (gstate * (list Z * Z)) :=
  match g_events g1, g_counts g1 with
  | ev :: evs, c :: cs =>
    let fc := set_nth (Z.to_nat (g_fi g1 + 1)) c (g_fcounts g1) in
    inr (mkG (g_fi g1) (g_ei g1) (g_file g1) evs cs fc, (ev, fold_right Z.add 0 fc))
  | _, _ => inl EIndex
  end.

Lemma g_create_unfold : forall g, g_create files k g =
  match (match g_events g with [] => g_load files k g | _ => inr g end) with
  | inl e => inl e
  | inr g1 => pop_of g1
  end.
Proof. intro g. unfold g_create, pop_of. destruct (g_events g); reflexivity. Qed.

Lemma pop_of_spec : forall g done f rest p q, GI g done f rest p q -> p < q ->
  exists g', pop_of g = inr (g', (particle_tags_of f p, sumtv done + thrown_upto f p)) /\
             GI g' done f rest (p + 1) q.
Proof.
  intros g done f rest p q G Hpq. destruct G as [Gfi Gfile Gpq Gei Gev Gcn Gfc].
  unfold pop_of. rewrite (evrange_cons p q Hpq) in Gev, Gcn. simpl in Gev, Gcn.
  rewrite Gev, Gcn. rewrite Gfi, Gfc, fcs_set, fcs_sum.
  eexists. split; [reflexivity|].
  constructor; simpl; auto; try lia.
  unfold cur_of. destruct (p + 1 =? 0) eqn:E; [lia|]. replace (p + 1 - 1) with p by lia. reflexivity.
Qed.

Lemma g_pop : forall g done f rest p q, GI g done f rest p q -> p < q ->
  exists g', g_create files k g = inr (g', (particle_tags_of f p, sumtv done + thrown_upto f p)) /\
             GI g' done f rest (p + 1) q.
Proof.
  intros g done f rest p q G Hpq. rewrite g_create_unfold.
  rewrite (gi_ev _ _ _ _ _ _ G). rewrite (evrange_cons p q Hpq). simpl.
  apply pop_of_spec; auto.
Qed.

Lemma GI_events_nil : forall g done f rest p q, GI g done f rest p q -> p = q -> g_events g = [].
Proof. intros g done f rest p q G H. rewrite (gi_ev _ _ _ _ _ _ G). rewrite evrange_nil by lia. reflexivity. Qed.

Lemma g_create_after_load : forall g g1 done f rest p q, g_events g = [] -> g_load files k g = inr g1 ->
  GI g1 done f rest p q -> p < q ->
  exists g', g_create files k g = inr (g', (particle_tags_of f p, sumtv done + thrown_upto f p)) /\
             GI g' done f rest (p + 1) q.
Proof.
  intros g g1 done f rest p q Hnil Hl G Hpq. rewrite g_create_unfold, Hnil, Hl.
  apply pop_of_spec; auto.
Qed.

(* draining from any invariant state yields exactly the remaining items, then StopIteration *)
Lemma g_drain_spec : forall fuel g done f rest p q, files = done ++ f :: rest ->
  Forall gen_ok files -> GI g done f rest p q ->
  (length (file_items (sumtv done) f p ++ all_items (sumtv done + tv f) rest) < fuel)%nat ->
  g_drain files k fuel g = (file_items (sumtv done) f p ++ all_items (sumtv done + tv f) rest, Some EStop).
Proof.
  induction fuel as [|fuel IH]; intros g done f rest p q Hf Hall G Hfuel; [lia|].
  assert (Hok : gen_ok f).
  { rewrite Forall_forall in Hall. apply Hall. rewrite Hf. apply in_or_app. right. left. reflexivity. }
  assert (Hn : 1 <= n_events f) by (destruct Hok as [[_ [_ [_ [_ Hn]]]] _]; exact Hn).
  pose proof (gi_pq _ _ _ _ _ _ G) as [Hp0 [Hpq Hqn]].
  simpl.
  (* the step performed by g_create, in each situation *)
  assert (Hstep : forall g' p' q' done' f' rest',
            files = done' ++ f' :: rest' ->
            g_create files k g = inr (g', (particle_tags_of f' p', sumtv done' + thrown_upto f' p')) ->
            GI g' done' f' rest' (p' + 1) q' -> p' < n_events f' ->
            file_items (sumtv done) f p ++ all_items (sumtv done + tv f) rest =
              (particle_tags_of f' p', sumtv done' + thrown_upto f' p') ::
              (file_items (sumtv done') f' (p' + 1) ++ all_items (sumtv done' + tv f') rest') ->
            (let r := g_drain files k fuel g' in
             ((particle_tags_of f' p', sumtv done' + thrown_upto f' p') :: fst r, snd r)) =
            (file_items (sumtv done) f p ++ all_items (sumtv done + tv f) rest, Some EStop)).
  { intros g' p' q' done' f' rest' Hf' Hc G' Hlt Heq. rewrite Heq in Hfuel |- *. simpl in Hfuel.
    rewrite (IH g' done' f' rest' (p' + 1) q' Hf' Hall G') by lia. reflexivity. }
  destruct (Z_lt_ge_dec p q) as [Hlt|Hge].
  - (* buffered event *)
    destruct (g_pop g done f rest p q G Hlt) as [g' [Hc G']]. rewrite Hc.
    apply (Hstep g' p q done f rest Hf Hc G'); [lia|].
    unfold file_items. rewrite (evrange_cons p (n_events f)) by lia. reflexivity.
  - assert (p = q) by lia. subst q.
    pose proof (GI_events_nil _ _ _ _ _ _ G eq_refl) as Hnil.
    destruct (Z_lt_ge_dec p (n_events f)) as [Hlt|Hge'].
    + (* reload in the same file *)
      destruct (g_load_same g done f rest p Hf Hok G Hlt) as [g1 [q' [Hl [Hq' G1]]]].
      destruct (g_create_after_load g g1 done f rest p q' Hnil Hl G1 Hq') as [g' [Hc G']]. rewrite Hc.
      apply (Hstep g' p q' done f rest Hf Hc G'); [lia|].
      unfold file_items. rewrite (evrange_cons p (n_events f)) by lia. reflexivity.
    + assert (p = n_events f) by lia. subst p.
      destruct rest as [|f' rest'].
      * (* no more files *)
        rewrite g_create_unfold, Hnil. rewrite (g_load_stop g done f Hf G).
        unfold file_items. rewrite evrange_nil by lia. reflexivity.
      * assert (Hok' : gen_ok f').
        { rewrite Forall_forall in Hall. apply Hall. rewrite Hf. apply in_or_app. right. right. left. reflexivity. }
        assert (Hn' : 1 <= n_events f') by (destruct Hok' as [[_ [_ [_ [_ Hn']]]] _]; exact Hn').
        destruct (g_load_next g done f f' rest' Hf Hok Hok' G) as [g1 [q' [Hl [Hq' G1]]]].
        assert (Hf' : files = (done ++ [f]) ++ f' :: rest') by (rewrite <- app_assoc; exact Hf).
        destruct (g_create_after_load g g1 (done ++ [f]) f' rest' 0 q' Hnil Hl G1 Hq') as [g' [Hc G']]. rewrite Hc.
        assert (Hs : sumtv (done ++ [f]) = sumtv done + tv f).
        { unfold sumtv. rewrite map_app, fold_right_app. simpl.
          assert (Gg : forall l a, fold_right Z.add a l = fold_right Z.add 0 l + a) by (induction l; simpl; intros; [lia | rewrite IHl; lia]).
          rewrite Gg. lia. }
        apply (Hstep g' 0 q' (done ++ [f]) f' rest' Hf' Hc G'); [lia|].
        unfold file_items at 1. rewrite evrange_nil by lia. simpl. rewrite Hs.
        unfold file_items. rewrite (evrange_cons 0 (n_events f')) by lia. reflexivity.
Qed.

End Gen.

(* ------------------------------------------------------------------ the whole generator *)
Lemma gen_ok_n : forall f, gen_ok f -> 1 <= n_events f.
Proof. intros f [[_ [_ [_ [_ Hn]]]] _]. exact Hn. Qed.

Lemma all_items_length : forall fs B, Forall gen_ok fs ->
  length (all_items B fs) = Z.to_nat (fold_right Z.add 0 (map n_events fs)).
Proof.
  induction fs as [|f r IH]; intros B Hall; simpl; auto.
  inversion Hall; subst. rewrite app_length, IH by auto. unfold file_items. rewrite map_length.
  pose proof (gen_ok_n f H1). rewrite evrange_length by lia.
  assert (0 <= fold_right Z.add 0 (map n_events r)).
  { clear IH Hall. induction r; simpl; [lia|]. inversion H2; subst. pose proof (gen_ok_n a H4). specialize (IHr H5). lia. }
  lia.
Qed.

Theorem filegen_replays_lemma : forall files k, 1 <= k -> Forall gen_ok files -> files <> [] ->
  filegen files k = inr (all_items 0 files, Some EStop).
Proof.
  intros files k Hk Hall Hne. destruct files as [|f0 rest]; [congruence|].
  inversion Hall as [|? ? Hok0 Hrest]; subst.
  pose proof (gen_ok_n f0 Hok0) as Hn0.
  unfold filegen. unfold g_load at 1. simpl g_fi. simpl g_file.
  change (-1 <? 0) with true. cbn [orb]. change (-1 + 1) with 0.
  pose proof (zlen_nonneg rest).
  assert (Hz : zlen (f0 :: rest) = 1 + zlen rest) by (unfold zlen; simpl length; lia).
  destruct (zlen (f0 :: rest) <=? 0) eqn:E; [lia|]. simpl nth_error.
  destruct (go_chunk k Hk f0 0 Hok0 ltac:(lia)) as [Hs [Hlt Hle]].
  change (0 + k) with k in *.
  set (stop := if n_events f0 <? k then n_events f0 else k) in *.
  simpl g_ei. change (0 + k) with k. fold stop. rewrite Hs. rewrite collect_tags by apply Hok0.
  simpl g_fcounts.
  match goal with |- inr (g_drain _ _ ?fuel ?g) = _ => 
    rewrite (g_drain_spec (f0 :: rest) k Hk fuel g [] f0 rest 0 stop eq_refl Hall) end.
  - unfold sumtv. simpl. reflexivity.
  - constructor; simpl; auto; try lia.
    + unfold stop. destruct (n_events f0 <? k) eqn:E2; [apply Z.ltb_lt in E2 | apply Z.ltb_ge in E2]; split; lia.
    + unfold spec_events. rewrite map_map. reflexivity.
  - change (file_items (sumtv []) f0 0 ++ all_items (sumtv [] + tv f0) rest) with (all_items 0 (f0 :: rest)).
    rewrite (all_items_length _ 0 Hall). lia.
Qed.

Lemma evrange_zseq : forall n, evrange 0 n = zseq n.
Proof. intro n. unfold evrange. replace (n - 0) with n by lia. rewrite <- (map_id (zseq n)) at 2. apply map_ext. intro; lia. Qed.

Lemma all_items_tags : forall fs B,
  map fst (all_items B fs) = flat_map (fun f => map (particle_tags_of f) (zseq (n_events f))) fs.
Proof.
  induction fs as [|f r IH]; intro B; simpl; auto.
  rewrite map_app, IH. f_equal. unfold file_items. rewrite map_map. simpl. rewrite evrange_zseq. reflexivity.
Qed.

Lemma evrange_snoc : forall a b, a < b -> evrange a b = evrange a (b - 1) ++ [b - 1].
Proof.
  intros a b H. unfold evrange, zseq. replace (Z.to_nat (b - a)) with (S (Z.to_nat (b - 1 - a))) by lia.
  rewrite seq_S. rewrite !map_app. simpl. f_equal. f_equal. lia.
Qed.

Lemma all_items_nonnil : forall fs B, Forall gen_ok fs -> fs <> [] -> all_items B fs <> [].
Proof.
  intros fs B Hall Hne Hnil. apply (f_equal (@length _)) in Hnil. rewrite (all_items_length _ B Hall) in Hnil.
  destruct fs as [|f r]; [congruence|]. inversion Hall; subst. pose proof (gen_ok_n f H1). simpl in Hnil.
  assert (0 <= fold_right Z.add 0 (map n_events r)).
  { clear Hnil Hall Hne. induction r; simpl; [lia|]. inversion H2; subst. pose proof (gen_ok_n a H4). specialize (IHr H5). lia. }
  lia.
Qed.

Lemma last_app' : forall {A} (l1 l2 : list A) d, l2 <> [] -> last (l1 ++ l2) d = last l2 d.
Proof.
  intros A l1 l2 d H. induction l1 as [|a r IH]; simpl; auto.
  destruct (r ++ l2) eqn:E; [apply app_eq_nil in E; destruct E; congruence | exact IH].
Qed.

Lemma all_items_last : forall fs B d, Forall gen_ok fs -> fs <> [] ->
  snd (last (all_items B fs) d) = B + sumtv fs.
Proof.
  induction fs as [|f r IH]; intros B d Hall Hne; [congruence|].
  inversion Hall; subst. pose proof (gen_ok_n f H1) as Hn. simpl all_items.
  destruct r as [|f' r'].
  - simpl. rewrite app_nil_r. unfold file_items. rewrite (evrange_snoc 0 (n_events f)) by lia.
    rewrite map_app. simpl. rewrite last_last. simpl. rewrite thrown_upto_last by lia. unfold sumtv. simpl. lia.
  - rewrite last_app' by (apply all_items_nonnil; [auto | discriminate]).
    rewrite IH by (auto; discriminate). unfold sumtv. simpl. lia.
Qed.

(* files written by the model writer are replayable as soon as some accepted add recorded a particle *)
Lemma run_gen_ok : forall o d hd ops, records_particles o = true ->
  1 <= n_events (run o d hd ops) -> get (rowsOf (run o d hd ops)) P <> [] -> gen_ok (run o d hd ops).
Proof.
  intros o d hd ops Hrp Hn Hr. pose proof (run_readable o d hd ops Hrp Hn) as R. split; [exact R|].
  destruct R as [_ [_ [HP _]]]. unfold avail. unfold ex in HP. rewrite HP. cbn [andb].
  destruct (get (rowsOf (run o d hd ops)) P); [congruence | reflexivity].
Qed.

Theorem filegen_replays_full : forall files k, 1 <= k -> Forall gen_ok files -> files <> [] ->
  exists items, filegen files k = inr (items, Some EStop) /\
    items = all_items 0 files /\
    map fst items = flat_map (fun f => map (particle_tags_of f) (zseq (n_events f))) files /\
    (forall d, snd (last items d) = sumtv files).
Proof.
  intros files k Hk Hall Hne. exists (all_items 0 files).
  split; [apply filegen_replays_lemma; auto|]. split; [reflexivity|]. split; [apply all_items_tags|].
  intro d. rewrite all_items_last by auto. lia.
Qed.
