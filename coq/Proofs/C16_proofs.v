From Coq Require Import Reals List Bool Lra Lia.
From Coquelicot Require Import Coquelicot.
From PyrexLib Require Import RealPrims.
From PyrexGen Require Import Gen_ice.
From PyrexModel Require Import LayeredIceModel.
Import ListNotations.
Open Scope R_scope.

(* ------------------------------------------------------------------------------------
   Exponential-profile ice (AntarcticIce and its subclasses share the same methods; the
   generated definitions are per concrete class, the proofs are written once with a
   tactic and instantiated for each class).
   ------------------------------------------------------------------------------------ *)

Definition profile (s : Ice) (z : R) : R := Ice_n0 s - Ice_k s * exp (Ice_a s * z).
Definition lo (s : Ice) := fst (Ice_valid_range s).
Definition hi (s : Ice) := snd (Ice_valid_range s).
Definition wf (s : Ice) : Prop := 0 < Ice_a s /\ 0 < Ice_k s /\ lo s <= hi s.

Lemma profile_decreasing s z1 z2 : wf s -> z1 < z2 -> profile s z2 < profile s z1.
Proof.
  intros (Ha & Hk & _) Hz. unfold profile.
  assert (exp (Ice_a s * z1) < exp (Ice_a s * z2)) by (apply exp_increasing; nra).
  nra.
Qed.

Lemma profile_monotone s z1 z2 : wf s -> z1 <= z2 -> profile s z2 <= profile s z1.
Proof.
  intros W [H|H]. left; apply profile_decreasing; assumption. subst; right; reflexivity.
Qed.

(* index in the three regions -- generic tactic over the generated definitions *)
Ltac unfold_index :=
  unfold AntarcticIce_index, AntarcticIce_index_below__2, AntarcticIce_index_above__2,
         AntarcticIce_index__1, AntarcticIce_index_below__1, AntarcticIce_index_above__1,
         ArasimIce_index, ArasimIce_index_below__2, ArasimIce_index_above__2,
         ArasimIce_index__1, ArasimIce_index_below__1, ArasimIce_index_above__1,
         GreenlandIce_index, GreenlandIce_index_below__2, GreenlandIce_index_above__2,
         GreenlandIce_index__1, GreenlandIce_index_below__1, GreenlandIce_index_above__1,
         lo, hi, profile in *.

(* what "the declared index below/above" means: the explicit value, else the profile at the edge *)
Definition decl_below (s : Ice) : R := match Ice_index_below s with Some v => v | None => profile s (lo s) end.
Definition decl_above (s : Ice) : R := match Ice_index_above s with Some v => v | None => profile s (hi s) end.

Section ExpIce.
  Variable index : Ice -> R -> R.
  Variable depth_with_index : Ice -> R -> R.
  Hypothesis index_inside : forall s z, wf s -> lo s <= z <= hi s -> index s z = profile s z.
  Hypothesis index_below : forall s z, wf s -> z < lo s -> index s z = decl_below s.
  Hypothesis index_above : forall s z, wf s -> hi s < z -> index s z = decl_above s.
  Hypothesis dwi_def : forall s n,
    depth_with_index s n =
      if Rltb n (index s (hi s)) then hi s
      else if Rgtb n (index s (lo s)) then lo s
      else ln ((Ice_n0 s - n) / Ice_k s) / Ice_a s.

  Lemma gen_increasing_with_depth s z1 z2 :
    wf s -> lo s <= z1 -> z1 < z2 -> z2 <= hi s -> index s z2 < index s z1.
  Proof.
    intros W H1 H12 H2. rewrite !index_inside by (auto; lra).
    apply profile_decreasing; assumption.
  Qed.

  Lemma gen_inverts s z : wf s -> lo s <= z <= hi s -> depth_with_index s (index s z) = z.
  Proof.
    intros W Hz. pose proof W as (Ha & Hk & Hr).
    rewrite dwi_def.
    rewrite (index_inside s (hi s)) by (auto; lra).
    rewrite (index_inside s (lo s)) by (auto; lra).
    rewrite (index_inside s z) by auto.
    assert (profile s (hi s) <= profile s z) by (apply profile_monotone; [assumption|lra]).
    assert (profile s z <= profile s (lo s)) by (apply profile_monotone; [assumption|lra]).
    destruct (Rltb (profile s z) (profile s (hi s))) eqn:E1.
    { apply Rltb_true in E1. lra. }
    destruct (Rgtb (profile s z) (profile s (lo s))) eqn:E2.
    { apply Rgtb_true in E2. lra. }
    unfold profile.
    replace ((Ice_n0 s - (Ice_n0 s - Ice_k s * exp (Ice_a s * z))) / Ice_k s) with (exp (Ice_a s * z))
      by (field; lra).
    rewrite ln_exp. field. lra.
  Qed.

  Lemma gen_clamp_low_index s n : wf s -> n < profile s (hi s) -> depth_with_index s n = hi s.
  Proof.
    intros W Hn. pose proof W as (Ha & Hk & Hr). rewrite dwi_def.
    rewrite (index_inside s (hi s)) by (auto; lra).
    destruct (Rltb n (profile s (hi s))) eqn:E1; [reflexivity|].
    apply Rltb_false in E1. lra.
  Qed.

  Lemma gen_clamp_high_index s n : wf s -> profile s (lo s) < n -> depth_with_index s n = lo s.
  Proof.
    intros W Hn. pose proof W as (Ha & Hk & Hr). rewrite dwi_def.
    rewrite (index_inside s (hi s)) by (auto; lra).
    rewrite (index_inside s (lo s)) by (auto; lra).
    assert (profile s (hi s) <= profile s (lo s)) by (apply profile_monotone; assumption).
    destruct (Rltb n (profile s (hi s))) eqn:E1.
    { apply Rltb_true in E1. lra. }
    destruct (Rgtb n (profile s (lo s))) eqn:E2; [reflexivity|].
    apply Rgtb_false in E2. lra.
  Qed.

  (* the returned depth always lies in the valid range and has the requested index when
     that index occurs in the range *)
  Lemma gen_inverse_in_range s n :
    wf s -> profile s (hi s) <= n <= profile s (lo s) -> n < Ice_n0 s ->
    lo s <= depth_with_index s n <= hi s /\ index s (depth_with_index s n) = n.
  Proof.
    intros W Hn Hn0. pose proof W as (Ha & Hk & Hr). rewrite dwi_def.
    rewrite (index_inside s (hi s)) by (auto; lra).
    rewrite (index_inside s (lo s)) by (auto; lra).
    destruct (Rltb n (profile s (hi s))) eqn:E1.
    { apply Rltb_true in E1. lra. }
    destruct (Rgtb n (profile s (lo s))) eqn:E2.
    { apply Rgtb_true in E2. lra. }
    set (z := ln ((Ice_n0 s - n) / Ice_k s) / Ice_a s).
    assert (Hpos : 0 < (Ice_n0 s - n) / Ice_k s) by (apply Rdiv_lt_0_compat; lra).
    assert (Hz : profile s z = n).
    { unfold profile, z. replace (Ice_a s * (ln ((Ice_n0 s - n) / Ice_k s) / Ice_a s))
        with (ln ((Ice_n0 s - n) / Ice_k s)) by (field; lra).
      rewrite exp_ln by assumption. field. lra. }
    assert (Hin : lo s <= z <= hi s).
    { split.
      - destruct (Rle_lt_dec (lo s) z) as [|Hc]; [assumption|].
        pose proof (profile_decreasing s z (lo s) W Hc). lra.
      - destruct (Rle_lt_dec z (hi s)) as [|Hc]; [assumption|].
        pose proof (profile_decreasing s (hi s) z W Hc). lra. }
    split; [exact Hin|]. rewrite index_inside by assumption. exact Hz.
  Qed.
End ExpIce.

(* instantiate for each generated class *)
Ltac solve_inside :=
  intros s z W Hz; unfold wf in W; destruct W as (Ha & Hk & Hr); unfold_index;
  destruct (Rltb z (fst (Ice_valid_range s))) eqn:E1;
  [apply Rltb_true in E1; lra|];
  destruct (Rgtb z (snd (Ice_valid_range s))) eqn:E2;
  [apply Rgtb_true in E2; lra|]; reflexivity.

Ltac solve_below :=
  intros s z W Hz; unfold wf in W; destruct W as (Ha & Hk & Hr); unfold decl_below; unfold_index;
  destruct (Rltb z (fst (Ice_valid_range s))) eqn:E1;
  [|apply Rltb_false in E1; lra];
  destruct (Ice_index_below s); [reflexivity|];
  destruct (Rltb (fst (Ice_valid_range s)) (fst (Ice_valid_range s))) eqn:E3;
  [apply Rltb_true in E3; lra|];
  destruct (Rgtb (fst (Ice_valid_range s)) (snd (Ice_valid_range s))) eqn:E4;
  [apply Rgtb_true in E4; lra|]; reflexivity.

Ltac solve_above :=
  intros s z W Hz; unfold wf in W; destruct W as (Ha & Hk & Hr); unfold decl_above; unfold_index;
  destruct (Rltb z (fst (Ice_valid_range s))) eqn:E1;
  [apply Rltb_true in E1; lra|];
  destruct (Rgtb z (snd (Ice_valid_range s))) eqn:E2;
  [|apply Rgtb_false in E2; lra];
  destruct (Ice_index_above s); [reflexivity|];
  destruct (Rltb (snd (Ice_valid_range s)) (fst (Ice_valid_range s))) eqn:E3;
  [apply Rltb_true in E3; lra|];
  destruct (Rgtb (snd (Ice_valid_range s)) (snd (Ice_valid_range s))) eqn:E4;
  [apply Rgtb_true in E4; lra|]; reflexivity.

Lemma ant_inside : forall s z, wf s -> lo s <= z <= hi s -> AntarcticIce_index s z = profile s z.
Proof. solve_inside. Qed.
Lemma ant_below : forall s z, wf s -> z < lo s -> AntarcticIce_index s z = decl_below s.
Proof. solve_below. Qed.
Lemma ant_above : forall s z, wf s -> hi s < z -> AntarcticIce_index s z = decl_above s.
Proof. solve_above. Qed.
Lemma ant_dwi : forall s n, AntarcticIce_depth_with_index s n =
      if Rltb n (AntarcticIce_index s (hi s)) then hi s
      else if Rgtb n (AntarcticIce_index s (lo s)) then lo s
      else ln ((Ice_n0 s - n) / Ice_k s) / Ice_a s.
Proof. reflexivity. Qed.

Lemma ara_inside : forall s z, wf s -> lo s <= z <= hi s -> ArasimIce_index s z = profile s z.
Proof. solve_inside. Qed.
Lemma ara_below : forall s z, wf s -> z < lo s -> ArasimIce_index s z = decl_below s.
Proof. solve_below. Qed.
Lemma ara_above : forall s z, wf s -> hi s < z -> ArasimIce_index s z = decl_above s.
Proof. solve_above. Qed.
Lemma ara_dwi : forall s n, ArasimIce_depth_with_index s n =
      if Rltb n (ArasimIce_index s (hi s)) then hi s
      else if Rgtb n (ArasimIce_index s (lo s)) then lo s
      else ln ((Ice_n0 s - n) / Ice_k s) / Ice_a s.
Proof. reflexivity. Qed.

Lemma gre_inside : forall s z, wf s -> lo s <= z <= hi s -> GreenlandIce_index s z = profile s z.
Proof. solve_inside. Qed.
Lemma gre_below : forall s z, wf s -> z < lo s -> GreenlandIce_index s z = decl_below s.
Proof. solve_below. Qed.
Lemma gre_above : forall s z, wf s -> hi s < z -> GreenlandIce_index s z = decl_above s.
Proof. solve_above. Qed.
Lemma gre_dwi : forall s n, GreenlandIce_depth_with_index s n =
      if Rltb n (GreenlandIce_index s (hi s)) then hi s
      else if Rgtb n (GreenlandIce_index s (lo s)) then lo s
      else ln ((Ice_n0 s - n) / Ice_k s) / Ice_a s.
Proof. reflexivity. Qed.

(* gradient: z-component is the derivative of the profile, x and y components vanish *)
Lemma profile_derive s z : is_derive (profile s) z (- Ice_k s * Ice_a s * exp (Ice_a s * z)).
Proof. unfold profile. auto_derive; [trivial | ring]. Qed.

Lemma ant_gradient s z : AntarcticIce_gradient s z = (0, 0, - Ice_k s * Ice_a s * exp (Ice_a s * z)).
Proof. reflexivity. Qed.
Lemma ara_gradient s z : ArasimIce_gradient s z = (0, 0, - Ice_k s * Ice_a s * exp (Ice_a s * z)).
Proof. reflexivity. Qed.
Lemma gre_gradient s z : GreenlandIce_gradient s z = (0, 0, - Ice_k s * Ice_a s * exp (Ice_a s * z)).
Proof. reflexivity. Qed.

(* ---------------------------------------------------------------- uniform ice *)
Definition ulo (s : UIce) := fst (UIce_valid_range s).
Definition uhi (s : UIce) := snd (UIce_valid_range s).
Lemma uni_index_spec s z : ulo s <= uhi s ->
  UniformIce_index s z =
    if Rltb z (ulo s) then match UIce_index_below s with Some v => v | None => UIce_n s end
    else if Rgtb z (uhi s) then match UIce_index_above s with Some v => v | None => UIce_n s end
    else UIce_n s.
Proof. intros _. reflexivity. Qed.
Lemma uni_gradient s z : UniformIce_gradient s z = (0, 0, 0).
Proof. reflexivity. Qed.

(* ---------------------------------------------------------------- attenuation lengths *)
Lemma ant_atten_pos s z f : 0 < AntarcticIce_attenuation_length s z f.
Proof. unfold AntarcticIce_attenuation_length. destruct (AntarcticIce_atten_coeffs _ _). apply exp_pos. Qed.
Lemma uni_atten_pos s z f : 0 < UniformIce_attenuation_length s z f.
Proof. unfold UniformIce_attenuation_length. destruct (UniformIce_atten_coeffs _ _). apply exp_pos. Qed.
Lemma gre_atten_ge_1 s z f : 1 <= GreenlandIce_attenuation_length s z f.
Proof.
  unfold GreenlandIce_attenuation_length. cbv zeta.
  match goal with |- context [Rltb ?a 1] => destruct (Rltb a 1) eqn:E; [lra | apply Rltb_false in E; lra] end.
Qed.

(* The attenuation length depends on frequency only through the documented form:
   exp(-(a + b w)) with w = ln(f / 1 GHz), a and b functions of temperature and of the
   side of 1 GHz only. *)
Lemma ant_atten_form s z f :
  AntarcticIce_attenuation_length s z f =
    exp (- (fst (AntarcticIce_atten_coeffs (AntarcticIce_temperature z) f)
            + snd (AntarcticIce_atten_coeffs (AntarcticIce_temperature z) f) * ln (f * 1e-9))).
Proof. unfold AntarcticIce_attenuation_length. destruct (AntarcticIce_atten_coeffs _ _). reflexivity. Qed.

(* Tabulated (AraSim) attenuation: linear interpolation stays within the bounds of the table
   on the tabulated span. *)
Fixpoint sorted_strict (xs : list R) : Prop :=
  match xs with
  | x0 :: ((x1 :: _) as r) => x0 < x1 /\ sorted_strict r
  | _ => True
  end.

Lemma interp_seg_bounds : forall xs ys m M x,
  length xs = length ys -> (2 <= length xs)%nat -> sorted_strict xs -> List.Forall (fun y => m <= y <= M) ys ->
  hd 0 xs <= x <= last xs 0 -> m <= interp_seg xs ys x <= M.
Proof.
  induction xs as [|x0 xs IH]; intros ys m M x Hlen H2 Hs Hy Hx; [simpl in H2; lia|].
  destruct xs as [|x1 xs']; [simpl in H2; lia|].
  destruct ys as [|y0 [|y1 ys']]; try (simpl in Hlen; discriminate).
  assert (Hy0 : m <= y0 <= M) by (inversion Hy; assumption).
  assert (Hy1 : m <= y1 <= M) by (inversion Hy as [|? ? ? Hr]; inversion Hr; assumption).
  destruct Hs as (H01 & Hs').
  assert (Hlin : forall t, x0 <= t <= x1 -> m <= y0 + (y1 - y0) * (t - x0) / (x1 - x0) <= M).
  { intros t Ht.
    set (u := (t - x0) / (x1 - x0)).
    assert (0 <= u <= 1).
    { unfold u. split. apply Rdiv_le_0_compat; lra.
      apply Rle_div_l; lra. }
    replace (y0 + (y1 - y0) * (t - x0) / (x1 - x0)) with (y0 + (y1 - y0) * u) by (unfold u; field; lra).
    split; nra. }
  simpl hd in Hx.
  destruct xs' as [|x2 xs''].
  - (* exactly two points: last segment *)
    simpl in Hx. simpl. apply Hlin. lra.
  - change (interp_seg (x0 :: x1 :: x2 :: xs'') (y0 :: y1 :: ys') x)
      with (if Rleb x x1 then y0 + (y1 - y0) * (x - x0) / (x1 - x0)
            else interp_seg (x1 :: x2 :: xs'') (y1 :: ys') x).
    destruct (Rleb x x1) eqn:E.
    + apply Rleb_true in E. apply Hlin. lra.
    + apply Rleb_false in E.
      apply IH.
      * simpl in Hlen |- *. congruence.
      * simpl. auto with arith.
      * exact Hs'.
      * inversion Hy; assumption.
      * simpl hd. split; [lra|]. destruct Hx as [_ Hx]. exact Hx.
Qed.

Lemma arasim_table_sorted : sorted_strict ArasimIce_atten_depths.
Proof. unfold ArasimIce_atten_depths. simpl. repeat (split; [lra|]). exact I. Qed.

Lemma arasim_table_bounds : List.Forall (fun y => 221.333 <= y <= 1994.67) ArasimIce_atten_lengths.
Proof. unfold ArasimIce_atten_lengths. repeat (constructor; [lra|]). constructor. Qed.

Lemma arasim_atten_bounds s z f :
  72.7412 <= - z <= 2496.17 ->
  221.333 <= ArasimIce_attenuation_length s z f <= 1994.67.
Proof.
  intros Hz. unfold ArasimIce_attenuation_length, interp1d_extrap. cbv zeta.
  apply interp_seg_bounds.
  - reflexivity.
  - unfold ArasimIce_atten_depths. simpl. repeat constructor.
  - exact arasim_table_sorted.
  - exact arasim_table_bounds.
  - unfold ArasimIce_atten_depths. simpl. exact Hz.
Qed.

(* ---------------------------------------------------------------- layered ice dispatch *)
Lemma find_layer_sound : forall ls z l, find_layer ls z = Some l -> In l ls /\ l_lo l < z <= l_hi l.
Proof.
  induction ls as [|l0 r IH]; intros z l H; simpl in H; [discriminate|].
  destruct (Rltb (l_lo l0) z && Rleb z (l_hi l0)) eqn:E.
  - inversion H; subst. apply andb_true_iff in E. destruct E as [E1 E2].
    apply Rltb_true in E1. apply Rleb_true in E2. split; [left; reflexivity | lra].
  - destruct (IH z l H) as [Hin Hr]. split; [right; assumption | assumption].
Qed.

Lemma find_layer_complete : forall ls z l, In l ls -> l_lo l < z <= l_hi l -> exists l', find_layer ls z = Some l'.
Proof.
  induction ls as [|l0 r IH]; intros z l Hin Hz; [inversion Hin|].
  simpl. destruct (Rltb (l_lo l0) z && Rleb z (l_hi l0)) eqn:E; [eexists; reflexivity|].
  destruct Hin as [->|Hin].
  - apply andb_false_iff in E. destruct E as [E|E]; [apply Rltb_false in E | apply Rleb_false in E]; lra.
  - eapply IH; eassumption.
Qed.

(* in a connected stack the half-open intervals (lo, hi] are pairwise disjoint, so the layer
   containing a depth is unique *)
Lemma connected_below : forall ls l0 l, connected (l0 :: ls) -> In l ls -> l_hi l <= l_lo l0.
Proof.
  induction ls as [|l1 r IH]; intros l0 l Hc Hin; [inversion Hin|].
  simpl in Hc. destruct Hc as (H0 & H01 & H1 & Hn & Hr).
  destruct Hin as [->|Hin]; [lra|].
  assert (l_hi l <= l_lo l1) by (apply IH; [simpl; auto | assumption]).
  lra.
Qed.

Lemma layer_unique : forall ls z l l', connected ls -> In l ls -> In l' ls ->
  l_lo l < z <= l_hi l -> l_lo l' < z <= l_hi l' -> l_lo l = l_lo l' /\ l_hi l = l_hi l'.
Proof.
  induction ls as [|l0 r IH]; intros z l l' Hc Hl Hl' Hz Hz'; [inversion Hl|].
  assert (Hcr : connected r) by (simpl in Hc; tauto).
  destruct Hl as [->|Hl]; destruct Hl' as [->|Hl'].
  - split; reflexivity.
  - pose proof (connected_below r l l' Hc Hl'). lra.
  - pose proof (connected_below r l' l Hc Hl). lra.
  - eapply IH; eassumption.
Qed.

Lemma last_default_irrel : forall (r : list layer) a d d', last (a :: r) d = last (a :: r) d'.
Proof.
  induction r as [|b r IH]; intros a d d'; [reflexivity|].
  change (last (a :: b :: r) d) with (last (b :: r) d).
  change (last (a :: b :: r) d') with (last (b :: r) d'). apply IH.
Qed.

Lemma last_cons : forall (r : list layer) l0 d, last (l0 :: r) d = last r l0.
Proof.
  destruct r as [|a r]; intros l0 d; [reflexivity|].
  change (last (l0 :: a :: r) d) with (last (a :: r) d). apply last_default_irrel.
Qed.

Lemma last_in : forall (r : list layer) l0, In (last r l0) (l0 :: r).
Proof.
  induction r as [|a r IH]; intros l0; [left; reflexivity|].
  right. rewrite (last_default_irrel r a l0 a). rewrite last_cons. apply IH.
Qed.

Lemma layer_at_depth_spec : forall ls z l,
  connected ls -> layer_at_depth ls z = Some l ->
  In l ls /\ (l_lo l < z <= l_hi l \/ (l_lo l = z /\ l = last ls l)).
Proof.
  intros ls z l Hc H. unfold layer_at_depth in H.
  destruct (find_layer ls z) as [l1|] eqn:E.
  - inversion H; subst. destruct (find_layer_sound _ _ _ E). split; [assumption | left; assumption].
  - destruct ls as [|l0 r]; [discriminate|].
    destruct (Reqb (l_lo (last r l0)) z) eqn:E2; [|discriminate].
    inversion H; subst. apply Reqb_true in E2.
    split; [apply last_in|]. right. split; [assumption|]. rewrite last_cons. reflexivity.
Qed.

Lemma layer_at_depth_complete : forall ls z l,
  In l ls -> l_lo l < z <= l_hi l -> exists l', layer_at_depth ls z = Some l'.
Proof.
  intros ls z l Hin Hz. destruct (find_layer_complete ls z l Hin Hz) as [l' E].
  exists l'. unfold layer_at_depth. rewrite E. reflexivity.
Qed.

(* non-vacuity *)
Definition default_antarctic : Ice := mkIce 1.78 0.43 0.0132 (-2850, 0) (Some 1) None.
Lemma default_wf : wf default_antarctic.
Proof. unfold wf, lo, hi, default_antarctic; simpl. lra. Qed.
Lemma connected_example : connected [(-100, 0, 0%nat); (-300, -100, 1%nat)].
Proof. simpl. repeat split; unfold l_lo, l_hi; simpl; lra. Qed.

(* ---------------------------------------------------------------- composite statements used by Props/C16.v *)
Lemma antarctic_index_regions_lemma : forall s z, wf s ->
  (z < lo s -> AntarcticIce_index s z = decl_below s) /\
  (hi s < z -> AntarcticIce_index s z = decl_above s) /\
  (lo s <= z <= hi s -> AntarcticIce_index s z = profile s z).
Proof.
  intros s z W. repeat split; intros; [apply ant_below | apply ant_above | apply ant_inside]; assumption.
 Qed.

Lemma arasim_index_regions_lemma : forall s z, wf s ->
  (z < lo s -> ArasimIce_index s z = decl_below s) /\
  (hi s < z -> ArasimIce_index s z = decl_above s) /\
  (lo s <= z <= hi s -> ArasimIce_index s z = profile s z).
Proof.
  intros s z W. repeat split; intros; [apply ara_below | apply ara_above | apply ara_inside]; assumption.
 Qed.

Lemma greenland_index_regions_lemma : forall s z, wf s ->
  (z < lo s -> GreenlandIce_index s z = decl_below s) /\
  (hi s < z -> GreenlandIce_index s z = decl_above s) /\
  (lo s <= z <= hi s -> GreenlandIce_index s z = profile s z).
Proof.
  intros s z W. repeat split; intros; [apply gre_below | apply gre_above | apply gre_inside]; assumption.
 Qed.

Lemma antarctic_depth_with_index_clamps_lemma : forall s n, wf s ->
  (n < profile s (hi s) -> AntarcticIce_depth_with_index s n = hi s) /\
  (profile s (lo s) < n -> AntarcticIce_depth_with_index s n = lo s).
Proof.
  intros s n W. split.
  - exact (gen_clamp_low_index AntarcticIce_index AntarcticIce_depth_with_index ant_inside ant_dwi s n W).
  - exact (gen_clamp_high_index AntarcticIce_index AntarcticIce_depth_with_index ant_inside ant_dwi s n W).
 Qed.

Lemma arasim_depth_with_index_clamps_lemma : forall s n, wf s ->
  (n < profile s (hi s) -> ArasimIce_depth_with_index s n = hi s) /\
  (profile s (lo s) < n -> ArasimIce_depth_with_index s n = lo s).
Proof.
  intros s n W. split.
  - exact (gen_clamp_low_index ArasimIce_index ArasimIce_depth_with_index ara_inside ara_dwi s n W).
  - exact (gen_clamp_high_index ArasimIce_index ArasimIce_depth_with_index ara_inside ara_dwi s n W).
 Qed.

Lemma greenland_depth_with_index_clamps_lemma : forall s n, wf s ->
  (n < profile s (hi s) -> GreenlandIce_depth_with_index s n = hi s) /\
  (profile s (lo s) < n -> GreenlandIce_depth_with_index s n = lo s).
Proof.
  intros s n W. split.
  - exact (gen_clamp_low_index GreenlandIce_index GreenlandIce_depth_with_index gre_inside gre_dwi s n W).
  - exact (gen_clamp_high_index GreenlandIce_index GreenlandIce_depth_with_index gre_inside gre_dwi s n W).
 Qed.

Lemma antarctic_gradient_is_derivative_lemma : forall s z,
  vx (AntarcticIce_gradient s z) = 0 /\ vy (AntarcticIce_gradient s z) = 0 /\
  is_derive (profile s) z (vz (AntarcticIce_gradient s z)).
Proof.
  intros s z. rewrite ant_gradient. unfold vx, vy, vz; simpl. split; [reflexivity|]. split; [reflexivity|]. apply profile_derive.
 Qed.

Lemma arasim_gradient_is_derivative_lemma : forall s z,
  vx (ArasimIce_gradient s z) = 0 /\ vy (ArasimIce_gradient s z) = 0 /\
  is_derive (profile s) z (vz (ArasimIce_gradient s z)).
Proof.
  intros s z. rewrite ara_gradient. unfold vx, vy, vz; simpl. split; [reflexivity|]. split; [reflexivity|]. apply profile_derive.
 Qed.

Lemma greenland_gradient_is_derivative_lemma : forall s z,
  vx (GreenlandIce_gradient s z) = 0 /\ vy (GreenlandIce_gradient s z) = 0 /\
  is_derive (profile s) z (vz (GreenlandIce_gradient s z)).
Proof.
  intros s z. rewrite gre_gradient. unfold vx, vy, vz; simpl. split; [reflexivity|]. split; [reflexivity|]. apply profile_derive.
 Qed.

(* ---------------------------------------------------------------- layered ice: the dispatch is total *)
(* in a connected stack every depth between the bottom edge (inclusive) and the top edge
   (inclusive) lies in some layer's half-open interval, or is exactly the bottom edge *)
Lemma connected_cover : forall ls l0 z, connected (l0 :: ls) ->
  l_lo (last ls l0) < z <= l_hi l0 -> exists l, In l (l0 :: ls) /\ l_lo l < z <= l_hi l.
Proof.
  induction ls as [|l1 r IH]; intros l0 z Hc Hz.
  - simpl in Hz. exists l0. split; [left; reflexivity | exact Hz].
  - simpl in Hc. destruct Hc as (H0 & H01 & Hc1).
    destruct (Rlt_le_dec (l_lo l0) z) as [Hin|Hout].
    + exists l0. split; [left; reflexivity | lra].
    + assert (Hlast : last (l1 :: r) l0 = last r l1).
      { destruct r as [|a r']; [reflexivity|].
        change (last (l1 :: a :: r') l0) with (last (a :: r') l0).
        apply last_default_irrel. }
      rewrite Hlast in Hz.
      destruct (IH l1 z) as (l & Hl & Hzl).
      * exact Hc1.
      * split; [lra|]. rewrite H01. exact Hout.
      * exists l. split; [right; exact Hl | exact Hzl].
Qed.

Lemma index_source_total : forall l0 r z, connected (l0 :: r) ->
  (z > l_hi l0 -> index_source (l0 :: r) z = Above) /\
  (z < l_lo (last r l0) -> index_source (l0 :: r) z = Below) /\
  (l_lo (last r l0) <= z <= l_hi l0 -> exists t, index_source (l0 :: r) z = FromLayer t).
Proof.
  intros l0 r z Hc. unfold index_source.
  assert (Hnone_out : forall l, layer_at_depth (l0 :: r) z = Some l ->
            l_lo (last r l0) <= z <= l_hi l0).
  { intros l Hl. destruct (layer_at_depth_spec _ _ _ Hc Hl) as (Hin & Hcase).
    assert (Hb : forall x, In x (l0 :: r) -> l_lo (last r l0) <= l_lo x /\ l_hi x <= l_hi l0 /\ l_lo x < l_hi x).
    { clear - Hc. revert l0 Hc. induction r as [|l1 r IH]; intros l0 Hc x Hx.
      - destruct Hx as [<-|[]]. simpl in Hc. simpl. lra.
      - simpl in Hc. destruct Hc as (H0 & H01 & Hc1).
        assert (Hlast : last (l1 :: r) l0 = last r l1).
        { destruct r as [|a r']; [reflexivity|].
          change (last (l1 :: a :: r') l0) with (last (a :: r') l0). apply last_default_irrel. }
        rewrite Hlast.
        destruct Hx as [<-|Hx].
        + assert (In l1 (l1 :: r)) by (left; reflexivity).
          destruct (IH l1 Hc1 l1 H) as (? & ? & ?). lra.
        + destruct (IH l1 Hc1 x Hx) as (? & ? & ?). assert (l_lo l1 < l_hi l1) by (simpl in Hc1; tauto). lra. }
    destruct (Hb l Hin) as (Hb1 & Hb2 & Hb3).
    destruct Hcase as [Hz|[Hz _]]; lra. }
  repeat split.
  - intros Hz. destruct (layer_at_depth (l0 :: r) z) as [l|] eqn:E.
    + specialize (Hnone_out l eq_refl). lra.
    + destruct (Rgtb z (l_hi l0)) eqn:E2; [reflexivity|]. apply Rgtb_false in E2. lra.
  - intros Hz. destruct (layer_at_depth (l0 :: r) z) as [l|] eqn:E.
    + specialize (Hnone_out l eq_refl). lra.
    + assert (l_lo l0 < l_hi l0) by (simpl in Hc; tauto).
      assert (l_lo (last r l0) <= l_lo l0).
      { clear - Hc. revert l0 Hc. induction r as [|l1 r IH]; intros l0 Hc; [simpl; lra|].
        simpl in Hc. destruct Hc as (H0 & H01 & Hc1).
        assert (Hlast : last (l1 :: r) l0 = last r l1).
        { destruct r as [|a r']; [reflexivity|].
          change (last (l1 :: a :: r') l0) with (last (a :: r') l0). apply last_default_irrel. }
        rewrite Hlast. specialize (IH l1 Hc1). assert (l_lo l1 < l_hi l1) by (simpl in Hc1; tauto). lra. }
      destruct (Rgtb z (l_hi l0)) eqn:E2; [apply Rgtb_true in E2; lra|].
      destruct (Rleb z (l_lo (last r l0))) eqn:E3; [reflexivity|]. apply Rleb_false in E3. lra.
  - intros Hz. destruct (Req_dec (l_lo (last r l0)) z) as [Heq|Hne].
    + (* exactly the bottom edge: the last layer is taken unless an upper one already matched *)
      unfold layer_at_depth. destruct (find_layer (l0 :: r) z) as [l|]; [eexists; reflexivity|].
      destruct (Reqb (l_lo (last r l0)) z) eqn:E; [eexists; reflexivity|].
      unfold Reqb in E. destruct (Req_EM_T (l_lo (last r l0)) z); [discriminate | contradiction].
    + destruct (connected_cover r l0 z Hc) as (l & Hl & Hzl); [lra|].
      destruct (layer_at_depth_complete (l0 :: r) z l Hl Hzl) as (l' & E). rewrite E. eexists; reflexivity.
Qed.
