(* C11: HDF5 write-read round trip returns each event's own data for every configuration.
   Statements only (about the executable model coq/Model/IOModel.v of pyrex/io.py as written,
   including the rollback of a failed add); proofs are in Proofs/IO_writer.v, Proofs/C11_proofs.v.

   Quantification: every option set that records particles for every event
   (records_particles: write_particles, 'particles' not gated by require_trigger, valid
   constructor arguments), every detector size d, every history `ops` of add() calls --
   well formed or malformed in any of the modelled ways, each add failing (or not) at whatever
   stage its input makes it fail -- interleaved with append-mode reopenings. *)
From Coq Require Import List ZArith Bool.
From PyrexModel Require Import IOModel.
From PyrexProofs Require Import IO_writer C11_proofs IO_accessors.
Import ListNotations.
Open Scope Z_scope.

(* reading the file back yields as many events as adds were accepted *)
Theorem len_eq_accepted : forall o d hd ops, records_particles o = true ->
  n_events (run o d hd ops) = zlen (accepted o d hd ops).
Proof. exact len_eq_accepted_lemma. Qed.
Print Assumptions len_eq_accepted.

(* event i reads back, in every table, exactly the rows the i-th accepted add recorded
   ([] where the options say not to record); nothing beyond the last event *)
Theorem roundtrip : forall o d hd ops t i, records_particles o = true -> 0 <= i ->
  read_event (run o d hd ops) i t =
  match nth_error (accepted o d hd ops) (Z.to_nat i) with
  | Some a => expected o a t
  | None => []
  end.
Proof. exact roundtrip_event_lemma. Qed.
Print Assumptions roundtrip.

(* the same, for the whole stream of a table at once *)
Theorem roundtrip_stream : forall o d hd ops t, records_particles o = true ->
  events_rows (run o d hd ops) t = map (fun a => expected o a t) (accepted o d hd ops).
Proof. exact roundtrip_lemma. Qed.
Print Assumptions roundtrip_stream.

(* the index table always addresses rows inside the datasets *)
Theorem index_in_bounds : forall o d hd ops i t, records_particles o = true ->
  let st := run o d hd ops in
  0 <= i < n_events st ->
  0 <= fst (cell (idx st) i t) /\ 0 <= snd (cell (idx st) i t) /\
  fst (cell (idx st) i t) + snd (cell (idx st) i t) <= zlen (get (rowsOf st) t).
Proof. exact index_in_bounds_lemma. Qed.
Print Assumptions index_in_bounds.

(* ... and the ranges of successive events are ordered and disjoint *)
Theorem starts_monotone : forall o d hd ops i j t, records_particles o = true ->
  let st := run o d hd ops in
  0 <= i -> i < j -> j < n_events st ->
  fst (cell (idx st) i t) + snd (cell (idx st) i t) <= fst (cell (idx st) j t).
Proof. exact starts_monotone_lemma. Qed.
Print Assumptions starts_monotone.

(* an add rejected with an error does not disturb earlier events, the event count, the
   counters or total_thrown (whatever stage it failed at) ... *)
Theorem rejected_add_preserves_others : forall o d hd ops a st' e, records_particles o = true ->
  add o d hd (run o d hd ops) a = (st', Rej e) ->
  n_events st' = n_events (run o d hd ops) /\
  (forall i t, read_event st' i t = read_event (run o d hd ops) i t) /\
  cntOf st' = cntOf (run o d hd ops) /\ thrown st' = thrown (run o d hd ops).
Proof. exact rejected_add_preserves_lemma. Qed.
Print Assumptions rejected_add_preserves_others.

(* ... nor later ones: the stream after more adds is the earlier stream followed by what
   the later accepted adds recorded *)
Theorem rejected_add_transparent : forall o d hd ops1 a ops2 st' e t, records_particles o = true ->
  add o d hd (run o d hd ops1) a = (st', Rej e) ->
  events_rows (run o d hd (ops1 ++ Add a :: ops2)) t =
  events_rows (run o d hd ops1) t ++ map (fun b => expected o b t) (accepted_from o d hd st' ops2).
Proof. exact rejected_add_transparent_lemma. Qed.
Print Assumptions rejected_add_transparent.

(* the bookkeeping invariant behind all of it holds after every history: counters equal
   dataset lengths, the event counter equals the index-table length, rows exist only in
   created datasets that have an index column, ranges form an ordered chain *)
Theorem writer_invariant : forall o d hd ops, records_particles o = true -> inv (run o d hd ops).
Proof. exact run_inv. Qed.
Print Assumptions writer_invariant.

(* total_thrown is the sum of events_thrown over the accepted adds *)
Theorem total_thrown_eq : forall o d hd ops, records_particles o = true ->
  tv (run o d hd ops) = fold_right Z.add 0 (map a_thrown (accepted o d hd ops)).
Proof. exact total_thrown_lemma. Qed.
Print Assumptions total_thrown_eq.

(* the file-level accessor HDF5Reader.get_waveforms(event_id=i, waveform_type=k) returns the k-th
   waveform row of event i's own block and raises for k at or beyond the event's number of
   waveform rows (never another event's row); get_waveforms(event_id=i) is the event's block *)
Theorem reader_waveform_eq_spec : forall st i k, inv st -> avail st W = true -> 0 <= i < n_events st -> 0 <= k ->
  file_waveform st i k =
  (if k <? zlen (read_event st i W) then inr (nthZ (read_event st i W) k []) else inl EValue) /\
  file_waveforms st i = inr (read_event st i W).
Proof. exact file_waveform_lemma. Qed.
Print Assumptions reader_waveform_eq_spec.

(* non-vacuity: a history with accepted and rejected adds in two sessions *)
Theorem example_history : accepted ex_opts 2 true ex_ops = [ex_a1; ex_a2] /\
  records_particles ex_opts = true /\ n_events (run ex_opts 2 true ex_ops) = 2.
Proof. exact (conj ex_accepted (conj ex_rp (proj1 ex_events))). Qed.
Print Assumptions example_history.
