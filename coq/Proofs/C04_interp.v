(* np.interp model: stored value at sample points, linear between, zero outside. *)
From Coq Require Import List QArith Qabs Bool Arith Lia.
From PyrexLib Require Import InterpQ.
Import ListNotations.
Open Scope Q_scope.

(* strictly increasing sample points x0 < x1 < ... *)
Fixpoint chain (x0 : Q) (xp : list Q) : Prop :=
  match xp with [] => True | x1 :: r => x0 < x1 /\ chain x1 r end.

Lemma chain_le : forall xp x0 j x, chain x0 xp -> nth_error (x0 :: xp) j = Some x -> x0 <= x.
Proof.
  induction xp; intros x0 j x C H.
  - destruct j; simpl in H; [inversion H; apply Qle_refl|destruct j; discriminate].
  - destruct j; simpl in H; [inversion H; apply Qle_refl|].
    destruct C as [L C]. apply Qle_trans with a; [apply Qlt_le_weak; exact L|].
    eapply IHxp; eauto.
Qed.

Lemma Qle_bool_false_lt : forall a b, b < a -> Qle_bool a b = false.
Proof.
  intros. destruct (Qle_bool a b) eqn:E; [|reflexivity].
  apply Qle_bool_iff in E. exfalso. eapply Qlt_not_le; eauto.
Qed.

Lemma Qle_bool_true_le : forall a b, a <= b -> Qle_bool a b = true.
Proof. intros. apply Qle_bool_iff. assumption. Qed.

Lemma Qeq_bool_false_lt : forall a b, b < a -> Qeq_bool a b = false.
Proof.
  intros. destruct (Qeq_bool a b) eqn:E; [|reflexivity].
  apply Qeq_bool_iff in E. rewrite E in H. exfalso. eapply Qlt_irrefl; eauto.
Qed.

(* (a) at a sample time the stored value itself is returned *)
Lemma interp_from_hit : forall xp fp x0 f0 j x f x',
  chain x0 xp -> nth_error (x0 :: xp) j = Some x -> nth_error (f0 :: fp) j = Some f -> x' == x ->
  interp_from x0 f0 xp fp x' = f.
Proof.
  induction xp; intros fp x0 f0 j x f x' C Hx Hf E.
  - destruct j; simpl in Hx; [|destruct j; discriminate]. inversion Hx; subst.
    simpl in Hf. inversion Hf; subst. simpl.
    assert (Q : Qeq_bool x' x = true) by (apply Qeq_bool_iff; exact E).
    destruct fp; rewrite Q; reflexivity.
  - destruct C as [L C]. destruct j.
    + simpl in Hx, Hf. inversion Hx; inversion Hf; subst. simpl. destruct fp.
      * assert (Q : Qeq_bool x' x = true) by (apply Qeq_bool_iff; exact E). rewrite Q. reflexivity.
      * rewrite Qle_bool_false_lt by (rewrite E; exact L).
        assert (Q0 : Qeq_bool x' x = true) by (apply Qeq_bool_iff; exact E). rewrite Q0. reflexivity.
    + simpl in Hx, Hf. destruct fp as [|f1 fp]; [destruct j; discriminate|]. simpl.
      rewrite Qle_bool_true_le by (rewrite E; eapply chain_le; eauto).
      eapply IHxp; eauto.
Qed.

(* (b) strictly between two neighbouring samples: the straight line through them *)
Lemma interp_from_between : forall xp fp x0 f0 j a b fa fb x,
  chain x0 xp ->
  nth_error (x0 :: xp) j = Some a -> nth_error (x0 :: xp) (S j) = Some b ->
  nth_error (f0 :: fp) j = Some fa -> nth_error (f0 :: fp) (S j) = Some fb ->
  a < x -> x < b ->
  interp_from x0 f0 xp fp x == lin a fa b fb x.
Proof.
  induction xp; intros fp x0 f0 j a0 b fa fb x C Ha Hb Hfa Hfb L1 L2.
  - simpl in Hb. destruct j; discriminate.
  - destruct C as [L C]. destruct fp as [|f1 fp]; [simpl in Hfb; destruct j; discriminate|].
    destruct j.
    + simpl in Ha, Hb, Hfa, Hfb. inversion Ha; inversion Hb; inversion Hfa; inversion Hfb; subst.
      cbn [interp_from].
      rewrite Qle_bool_false_lt by exact L2. rewrite Qeq_bool_false_lt by exact L1. apply qn_eq.
    + simpl in Ha, Hb, Hfa, Hfb. cbn [interp_from].
      rewrite Qle_bool_true_le.
      * eapply IHxp; eauto.
      * apply Qle_trans with a0; [eapply chain_le; eauto|apply Qlt_le_weak; exact L1].
Qed.

(* (c) to the right of the last sample: zero *)
Lemma interp_from_right : forall xp fp x0 f0 x,
  chain x0 xp -> length fp = length xp -> last (x0 :: xp) 0 < x -> interp_from x0 f0 xp fp x = 0.
Proof.
  induction xp; intros fp x0 f0 x C LEN L.
  - simpl in *. destruct fp; [|discriminate]. rewrite Qeq_bool_false_lt by exact L. reflexivity.
  - destruct C as [L0 C]. destruct fp as [|f1 fp]; [discriminate|]. simpl.
    assert (LA : last (x0 :: a :: xp) 0 = last (a :: xp) 0) by reflexivity. rewrite LA in L.
    rewrite Qle_bool_true_le.
    + apply IHxp; auto.
    + apply Qle_trans with (last (a :: xp) 0); [|apply Qlt_le_weak; exact L].
      assert (exists j, nth_error (a :: xp) j = Some (last (a :: xp) 0)) as [j Hj].
      { clear. revert a. induction xp as [|y ys IH]; intros z.
        - exists O. reflexivity.
        - destruct (IH y) as [j Hj]. exists (S j). exact Hj. }
      eapply chain_le; eauto.
Qed.

Lemma interp_left : forall x0 xp f0 fp x, x < x0 -> interp (x0 :: xp) (f0 :: fp) x = Some 0.
Proof.
  intros. simpl. assert (E : Qlt_b x x0 = true) by (apply Qlt_b_true; exact H). rewrite E. reflexivity.
Qed.

Lemma interp_not_left : forall x0 xp f0 fp x, x0 <= x ->
  interp (x0 :: xp) (f0 :: fp) x = Some (interp_from x0 f0 xp fp x).
Proof.
  intros. simpl. assert (E : Qlt_b x x0 = false) by (apply Qlt_b_false; exact H). rewrite E. reflexivity.
Qed.

(* the statement of the property for one new sample time x against a strictly increasing grid *)
Theorem interp_spec_lemma : forall x0 xp f0 fp x,
  chain x0 xp -> length fp = length xp ->
  exists v, interp (x0 :: xp) (f0 :: fp) x = Some v /\
    (forall j xj fj, nth_error (x0 :: xp) j = Some xj -> nth_error (f0 :: fp) j = Some fj -> x == xj -> v = fj) /\
    (forall j a b fa fb, nth_error (x0 :: xp) j = Some a -> nth_error (x0 :: xp) (S j) = Some b ->
        nth_error (f0 :: fp) j = Some fa -> nth_error (f0 :: fp) (S j) = Some fb ->
        a < x -> x < b -> v == fa + (fb - fa) / (b - a) * (x - a)) /\
    (x < x0 \/ last (x0 :: xp) 0 < x -> v = 0).
Proof.
  intros x0 xp f0 fp x C LEN.
  destruct (Qlt_le_dec x x0) as [L|L].
  - exists 0. split; [apply interp_left; exact L|]. split; [|split].
    + intros j xj fj Hx Hf E. exfalso. pose proof (chain_le _ _ _ _ C Hx) as Q.
      rewrite <- E in Q. eapply Qlt_not_le; eauto.
    + intros j a b fa fb Ha Hb _ _ L1 _. exfalso. pose proof (chain_le _ _ _ _ C Ha) as Q.
      apply (Qlt_irrefl x). apply Qlt_le_trans with x0; [exact L|]. apply Qle_trans with a; [exact Q|apply Qlt_le_weak; exact L1].
    + reflexivity.
  - exists (interp_from x0 f0 xp fp x). split; [apply interp_not_left; exact L|]. split; [|split].
    + intros. eapply interp_from_hit; eauto.
    + intros. rewrite (interp_from_between xp fp x0 f0 j a b fa fb x); auto. unfold lin. ring.
    + intros [H|H]; [exfalso; eapply Qlt_not_le; eauto|]. apply interp_from_right; auto.
Qed.
