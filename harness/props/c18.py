"""C18: uniform and layered tracers reduce to image geometry and the one-medium tracer."""
import importlib
import json
import math
import os
import sys

import numpy as np

from harness import common, realextract as rx
from harness.common import REPO, ROOT
from harness.props import ray2_util as U

sys.path.insert(0, os.path.join(ROOT, "tools"))

RT = "pyrex/ray_tracing.py"
LRT = "pyrex/custom/layered_ice/ray_tracing.py"
PINNED = {  # hand-modelled code (Model/UniformPath.v, UniformTracer.v, LayeredPath.v)
    "UniformRayTracePath.__init__": RT, "UniformRayTracePath._points": RT,
    "UniformRayTracer._reflected_path": RT, "UniformRayTracer.solutions": RT,
    "LayeredRayTracer._build_path": LRT, "LayeredRayTracer._potential_paths": LRT,
    "LayeredRayTracer._trace_path": LRT, "LayeredRayTracer.solutions": LRT,
    "LayeredRayTracePath.path_length": LRT, "LayeredRayTracePath.tof": LRT, "LayeredRayTracePath.fresnel": LRT,
}
PIN_FILE = os.path.join(ROOT, "harness", "pins", "C18.json")
KF_DEGENERATE = "uniform-endpoint-on-boundary-degenerate-leg"
KF_DEEP_LAYER = "layered-exponential-layer-below-z_uniform-loses-solutions"


def gen_files(scratch):
    import gen_ice
    import gen_ray2
    importlib.reload(gen_ice)
    importlib.reload(gen_ray2)
    t0, h0 = gen_ice.generate(REPO)
    t1, h1 = gen_ray2.generate_uniform(REPO)
    t2, h2 = gen_ray2.generate_layered(REPO)
    return {"Gen_ice": t0, "Gen_uniform": t1, "Gen_layered": t2}, {**h1, **h2}


def current_pins():
    from py2coq import ast_pin
    return {k: ast_pin(REPO, src, k) for k, src in PINNED.items()}


# ---------------------------------------------------------------------------- generators
def rand_uniform_cfg(rng, maxr=None):
    lo = -float(rng.choice([500.0, 300.0, 2850.0, 100.5, 1000.0]))
    hi = float(rng.choice([0.0, 0.0, -20.0, -50.25]))
    ice = {"n": round(rng.uniform(1.2, 1.9), 3), "lo": lo, "hi": hi,
           "above": rng.choice([1.0, 1.0, None, 1.3]), "below": rng.choice([None, 1.8, 1.0, 2.2])}

    def depth():
        c = rng.random()
        if c < 0.08:
            return rng.choice([lo, hi])                      # exactly on a boundary
        if c < 0.12:
            return rng.choice([lo - 10.0, hi + 5.0])         # outside the ice
        return round(rng.uniform(lo, hi), rng.choice([0, 1, 3]))
    off = (float(rng.choice([0.0, 0.0, 100.0, -250.5, 1234.0])), float(rng.choice([0.0, 50.0, -75.25, 987.0])))
    rho = rng.choice([0.0, 1.0, 10.0 ** rng.uniform(0, 3.5), 10.0 ** rng.uniform(1, 3)])
    az = rng.choice([0.0, math.pi / 2, math.pi, -math.pi / 2, rng.uniform(-math.pi, math.pi)])
    f = [off[0], off[1], depth()]
    t = [off[0] + rho * math.cos(az), off[1] + rho * math.sin(az), depth()]
    if rng.random() < 0.04:
        t = list(f)
    return {"ice": ice, "from": [float(x) for x in f], "to": [float(x) for x in t],
            "max_reflections": rng.randint(0, 3) if maxr is None else maxr}


def classify_uniform(cfg):
    ice = cfg["ice"]
    zs = (cfg["from"][2], cfg["to"][2])
    tags = []
    if any(z in (ice["lo"], ice["hi"]) for z in zs):
        tags.append("on_boundary")
    if any(not (ice["lo"] <= z <= ice["hi"]) for z in zs):
        tags.append("outside")
    if cfg["from"][0] == cfg["to"][0] and cfg["from"][1] == cfg["to"][1]:
        tags.append("vertical")
    if cfg["from"][0] != 0 or cfg["from"][1] != 0:
        tags.append("offset_source")
    if ice["above"] is None or ice["below"] is None:
        tags.append("open_side")
    return tags


# ---------------------------------------------------------------------------- OCaml literals
def oc_vec(v):
    return "((%s, %s), %s)" % (rx.ocf(v[0]), rx.ocf(v[1]), rx.ocf(v[2]))


def oc_opt(v):
    return "None" if v is None else "(Some %s)" % rx.ocf(v)


def oc_uice(c):
    return "{M.uIce_n=%s; M.uIce_valid_range=(%s,%s); M.uIce_index_above=%s; M.uIce_index_below=%s}" % (
        rx.ocf(c["n"]), rx.ocf(c["lo"]), rx.ocf(c["hi"]), oc_opt(c.get("above")), oc_opt(c.get("below")))


def oc_tracer(cfg):
    return "{M.uTracer_from_point=%s; M.uTracer_to_point=%s; M.uTracer_ice=%s}" % (oc_vec(cfg["from"]), oc_vec(cfg["to"]), oc_uice(cfg["ice"]))


OC_PRE = r'''
let rec nat_of n = if n <= 0 then M.O else M.S (nat_of (n-1))
let rec int_of = function M.O -> 0 | M.S n -> 1 + int_of n
let prv ((a, b), c) = Printf.printf "%h %h %h " a b c
let prlist l = List.iter prv l; print_newline ()
let prsols l = List.iter (fun (th, k) -> Printf.printf "%h %h " th (float_of_int (int_of k))) l; print_string "0x0p+0\n"
let prpath p = (match M.path_points p with None -> print_string "None\n" | Some l ->
   Printf.printf "%h %h " (M.uniformRayTracePath_path_length p) (M.uniformRayTracePath_tof p);
   prv (M.uniformRayTracePath_emitted_direction p); prv (M.uniformRayTracePath_received_direction p); prlist l)
let rec zl = function [] -> () | x :: r -> Printf.printf "%h " (z_to_float x); zl r
let prpaths ll = List.iter (fun l -> zl l; print_string "-0x1p+0 ") ll; print_string "-0x1p+1\n"
'''


def close(a, b, rel, abs_):
    a, b = float(a), float(b)
    if math.isnan(a) or math.isnan(b):
        return math.isnan(a) and math.isnan(b)
    return abs(a - b) <= abs_ + rel * max(abs(a), abs(b))


# ---------------------------------------------------------------------------- correspondence: uniform
def corr_uniform(ctx, scale):
    """Hand model + generated members (run as OCaml floats) vs the implementation."""
    rng = ctx.rng
    n = ctx.n(60, 1200) * scale
    cases, checks = [], []
    dist = {}
    for _ in range(n):
        cfg = rand_uniform_cfg(rng)
        for tg in classify_uniform(cfg) or ["plain"]:
            dist[tg] = dist.get(tg, 0) + 1
        tr = U.uniform_tracer(cfg)
        with np.errstate(all="ignore"):
            sols = tr.solutions
            impl_sols = [(float(s.theta0), int(s._reflections)) for s in sols]
            ex = bool(tr.exists)
        cases.append("prsols (M.tracer_solution_params %s (nat_of %d))" % (oc_tracer(cfg), cfg["max_reflections"]))
        checks.append(("solutions", cfg, impl_sols, ex))
        for s in sols:
            try:
                with np.errstate(all="ignore"):
                    pts = [U.fl(p) for p in s._points]
                    out = (float(s.path_length), float(s.tof), U.fl(s.emitted_direction), U.fl(s.received_direction), pts)
            except ValueError as e:
                out = "None"
            cases.append("prpath (M.mk_path %s %s (nat_of %d))" % (oc_tracer(cfg), rx.ocf(float(s.theta0)), int(s._reflections)))
            checks.append(("path", cfg, (float(s.theta0), int(s._reflections)), out))
    old = rx.OCAML_PRELUDE
    rx.OCAML_PRELUDE = old + OC_PRE
    try:
        res = rx.run(ctx, "From PyrexModel Require Import UniformPath UniformTracer.\nFrom PyrexGen Require Import Gen_uniform.",
                     ["tracer_solution_params", "mk_path", "path_points", "UniformRayTracePath_path_length", "UniformRayTracePath_tof",
                      "UniformRayTracePath_emitted_direction", "UniformRayTracePath_received_direction", "UniformRayTracer_exists"],
                     cases, name="uniform")
    finally:
        rx.OCAML_PRELUDE = old
    bad = 0
    for r, (kind, cfg, a, b) in zip(res, checks):
        ok = True
        if kind == "solutions":
            vals = list(r)[:-1] if isinstance(r, tuple) else None
            model = [(vals[i], int(vals[i + 1])) for i in range(0, len(vals), 2)] if vals is not None else None
            ok = model is not None and len(model) == len(a) and all(m[1] == i[1] and close(m[0], i[0], 1e-13, 1e-13) for m, i in zip(model, a)) \
                and (b == (len(a) > 0))
            ctx.case(key=("sols", json.dumps(cfg, sort_keys=True)), nontrivial=len(a) > 1, sample={"cfg": cfg, "impl": a, "model": model})
            detail = "solutions (theta0, reflections): impl=%r model=%r exists=%r" % (a, model, b)
        else:
            if b == "None" or r == "None":
                ok = (b == "None") == (r == "None")
                detail = "_points raises: impl=%r model=%r" % (b, r)
            else:
                L, tof, em, rc, pts = b
                flat = [L, tof] + em + rc + [x for p in pts for x in p]
                sc = 1.0 + max(abs(x) for x in cfg["from"] + cfg["to"])
                # a first / last leg whose length is at the rounding level of the coordinates (end point on the boundary it
                # reflects from: the open known finding) has no direction: normalize() of rounding noise; model and
                # implementation legitimately differ there (libm), so the direction of such a leg is not compared
                skip = set()
                if len(pts) > 2:
                    if _first_leg(pts) <= 64 * U.EPS * sc:
                        skip |= {2, 3, 4}
                    if _last_leg(pts) <= 64 * U.EPS * sc:
                        skip |= {5, 6, 7}
                ok = isinstance(r, tuple) and len(r) == len(flat) and all(
                    i in skip or close(x, y, 1e-11, 1e-11 * (sc if i >= 8 else 1.0) if i != 1 else 1e-20) for i, (x, y) in enumerate(zip(r, flat)))
                detail = "path quantities for (theta0, reflections)=%r: impl=%r model=%r" % (a, flat, r)
            ctx.case(key=("path", json.dumps(cfg, sort_keys=True), a), nontrivial=a[1] > 0)
        if not ok:
            bad += 1
            if bad <= 4:
                ctx.oblige("corr:uniform:%s" % kind, False, "model and implementation disagree on %s: %s" % (json.dumps(cfg), detail[:900]))
    ctx.oblige("corr:uniform(%d model runs)" % len(cases), bad == 0, "%d disagreements" % bad)
    ctx.extra["corr_uniform_distribution"] = dist
    ctx.extra["corr_uniform_tolerance"] = "rel 1e-11 (same operation order, libm differences only); launch angles 1e-13"


# ---------------------------------------------------------------------------- correspondence: _build_path
def corr_build_path(ctx, scale):
    from pyrex.custom.layered_ice import LayeredRayTracer
    from pyrex.internal_functions import flatten
    exprs, expect, meta = [], [], []
    for nl in range(1, 6):
        for start in range(nl):
            for d in (1, -1):
                for refl in range(0, 4 if nl < 5 else 3):
                    tree = LayeredRayTracer._build_path(path=(start,), direction=d, reflections=refl, max_level=nl - 1)
                    flat = sorted(tuple(int(x) for x in p) for p in flatten(tree, dont_flatten=(tuple,)))
                    exprs.append("build_path_top %s %s %d %d" % (common.coq_lit(start), common.coq_lit(d), refl, nl - 1))
                    expect.append(flat)
                    meta.append((nl, start, d, refl))
    res = ctx.coq_eval_exprs("From Coq Require Import ZArith List. Import ListNotations.\nFrom PyrexModel Require Import LayeredPath.\nOpen Scope Z_scope.", exprs)
    bad = 0
    for r, e, m in zip(res, expect, meta):
        import re as _re
        got = sorted(tuple(int(x) for x in _re.findall(r"-?\d+", g)) for g in _re.findall(r"\[([^\[\]]*)\]", r.strip()[1:-1]))
        ctx.case(key=("build_path",) + m, nontrivial=m[3] > 0)
        if got != e:
            bad += 1
            ctx.fail("build_path:%r" % (m,), "_build_path(start=%d, direction=%d, reflections=%d, max_level=%d): implementation %r, model %r; spec: walks with that many turns" % (
                m[1], m[2], m[3], m[0] - 1, e, got), {"kind": "build_path", "m": list(m), "impl": e, "model": got})
    ctx.oblige("corr:build_path(%d cases, exhaustive up to 5 layers x 3 reflections)" % len(exprs), bad == 0, "%d disagreements" % bad)


# ---------------------------------------------------------------------------- probes: uniform (image method)
def probe_uniform_cfg(ctx, cfg, tag="probe"):
    """The property itself on the implementation, judged by the method of images."""
    key_cfg = json.dumps(cfg, sort_keys=True)
    exp = U.uniform_expected(cfg)
    tr = U.uniform_tracer(cfg)
    with np.errstate(all="ignore"):
        sols = tr.solutions
        ex = bool(tr.exists)

    def fail(what, key=None, **kw):
        ctx.fail(key or "uniform:%s:%s" % (what.split(":")[0], key_cfg), "UniformRayTracer %s on %s" % (what, key_cfg), {"kind": "uniform", "cfg": cfg, **kw})
    if exp is None:
        if sols or ex:
            fail("reports solutions/exists for an endpoint outside the ice")
        return 0
    if len(sols) != len(exp) or not ex:
        fail("count: %d solutions (exists=%r), image method gives %d" % (len(sols), ex, len(exp)))
        return 0
    n = cfg["ice"]["n"]
    lo, hi = cfg["ice"]["lo"], cfg["ice"]["hi"]
    scale = 1.0 + max(abs(x) for x in cfg["from"] + cfg["to"]) + (hi - lo)
    for s, e in zip(sols, exp):
        what = "k=%d first=%+d" % (e["k"], e["d"])
        try:
            with np.errstate(all="ignore"):
                L, tof = float(s.path_length), float(s.tof)
                em, rc = U.fl(s.emitted_direction), U.fl(s.received_direction)
                pts = [U.fl(p) for p in s._points]
        except ValueError as ex_:
            if e["zero_span"] and e["degenerate"]:
                fail("degenerate", key=KF_DEGENERATE, solution=what, error=repr(ex_))
            else:
                fail("raises %r for %s" % (ex_, what))
            continue
        tolL = 64 * U.EPS * (e["length"] + scale) * (e["k"] + 2)
        if not abs(L - e["length"]) <= tolL:
            fail("length: %s path_length=%r, distance to the mirrored receiver (z=%r) is %r" % (what, L, e["image_z"], e["length"]), solution=what)
        if not abs(tof - n * L / U.C0) <= 8 * U.EPS * abs(tof) or not abs(tof - e["tof"]) <= n * tolL / U.C0 + 8 * U.EPS * e["tof"]:
            fail("tof: %s tof=%r but n L / c = %r" % (what, tof, e["tof"]), solution=what)
        # reflection points
        if len(pts) != e["k"] + 2 or pts[0] != [float(x) for x in cfg["from"]] or pts[-1] != [float(x) for x in cfg["to"]]:
            fail("points: %s reports points %r" % (what, pts), solution=what)
            continue
        dx, dy = cfg["to"][0] - cfg["from"][0], cfg["to"][1] - cfg["from"][1]
        lam_prev = 0.0
        for j, (p, plane) in enumerate(zip(pts[1:-1], e["planes"])):
            if p[2] != plane:
                fail("boundary: %s reflection point %d at z=%r, not on the boundary %r" % (what, j + 1, p[2], plane), solution=what)
            # on the segment between the endpoints (horizontally), in order
            rho2 = dx * dx + dy * dy
            lam = ((p[0] - cfg["from"][0]) * dx + (p[1] - cfg["from"][1]) * dy) / rho2 if rho2 > 0 else lam_prev
            off = math.hypot(p[0] - cfg["from"][0] - lam * dx, p[1] - cfg["from"][1] - lam * dy)
            if off > 64 * U.EPS * scale or lam < lam_prev - 1e-12 or lam > 1 + 1e-12:
                fail("plane: %s reflection point %d = %r is not on the horizontal segment between the endpoints in order (offset %.3g, parameter %r)" % (
                    what, j + 1, p, off, lam), solution=what)
            lam_prev = lam
        if e["degenerate"] or e["zero_span"]:
            # zero-length first/last leg: directions are reported as zero vectors (known finding)
            bad_dir = (e["emitted"] is None or U.vdiff(em, e["emitted"]) > 1e-9 or U.vdiff(rc, e["received"]) > 1e-9)
            if bad_dir:
                fail("degenerate", key=KF_DEGENERATE, solution=what, emitted=em, received=rc, expected=[e["emitted"], e["received"]])
            continue
        if e["emitted"] is None:      # identical endpoints, direct: convention (0,0,1)
            continue
        told = 256 * U.EPS * (e["k"] + 2) * scale / max(min(_first_leg(pts), _last_leg(pts)), 1e-300) + 64 * U.EPS
        if U.vdiff(em, e["emitted"]) > told or U.vdiff(rc, e["received"]) > told:
            fail("direction: %s emitted=%r received=%r; straight segment to the mirrored receiver gives %r / %r (tol %.3g)" % (
                what, em, rc, e["emitted"], e["received"], told), solution=what)
        # mirror law at every reflection point: horizontal direction kept, vertical component reversed
        legs = [[b[i] - a[i] for i in range(3)] for a, b in zip(pts[:-1], pts[1:])]
        for j in range(len(legs) - 1):
            a, b = legs[j], legs[j + 1]
            na, nb = U.vnorm(a), U.vnorm(b)
            if na == 0 or nb == 0:
                continue
            ua, ub = [x / na for x in a], [x / nb for x in b]
            tolm = 256 * U.EPS * scale * (1 / na + 1 / nb) + 64 * U.EPS
            if abs(ua[0] - ub[0]) > tolm or abs(ua[1] - ub[1]) > tolm or abs(ua[2] + ub[2]) > tolm:
                fail("mirror: %s angles differ at reflection point %d: incoming %r outgoing %r" % (what, j + 1, ua, ub), solution=what)
    return len(sols)


def _first_leg(pts):
    return U.vnorm([b - a for a, b in zip(pts[0], pts[1])])


def _last_leg(pts):
    return U.vnorm([b - a for a, b in zip(pts[-2], pts[-1])])


def probes_uniform(ctx, scale):
    rng = ctx.rng
    fixed = [
        # F2 witness (fixed by b971f54): source away from x=y=0
        {"ice": {"n": 1.5, "lo": -500.0, "hi": 0.0, "above": 1.0, "below": 1.8}, "from": [100.0, 50.0, -100.0], "to": [400.0, 50.0, -200.0], "max_reflections": 1},
        # known finding: source on the surface
        {"ice": {"n": 1.5, "lo": -500.0, "hi": 0.0, "above": 1.0, "below": 1.8}, "from": [0.0, 0.0, 0.0], "to": [300.0, 0.0, -200.0], "max_reflections": 2},
    ]
    nsol = 0
    for cfg in fixed:
        nsol += probe_uniform_cfg(ctx, cfg)
    # very short but non-zero legs (nanometres) at small coordinates: far above the rounding level of the coordinates
    # (eps x 1 m = 2e-16 m), so the directions are well defined unit vectors
    for _ in range(ctx.n(12, 200) * scale):
        lo = -float(rng.choice([0.5, 1.0, 0.25]))
        z0 = round(rng.uniform(lo * 0.9, lo * 0.1), 3)
        d = 10 ** rng.uniform(-9.0, -7.5)
        az, el = rng.uniform(-math.pi, math.pi), rng.uniform(-1.2, 1.2)
        f = [float(rng.choice([0.0, 0.125, -0.5])), float(rng.choice([0.0, 0.25])), z0]
        t = [f[0] + d * math.cos(el) * math.cos(az), f[1] + d * math.cos(el) * math.sin(az), z0 + d * math.sin(el)]
        cfg = {"ice": {"n": 1.5, "lo": lo, "hi": 0.0, "above": 1.0, "below": 1.8}, "from": f, "to": [float(x) for x in t], "max_reflections": rng.choice([0, 1])}
        ctx.case(key=("probe_uniform_short", json.dumps(cfg, sort_keys=True)), sample={"probe": "uniform_short_leg", "cfg": cfg})
        nsol += probe_uniform_cfg(ctx, cfg)
    for _ in range(ctx.n(150, 4000) * scale):
        cfg = rand_uniform_cfg(rng)
        ctx.case(key=("probe_uniform", json.dumps(cfg, sort_keys=True)), nontrivial=cfg["max_reflections"] > 0,
                 sample={"probe": "uniform", "cfg": cfg})
        nsol += probe_uniform_cfg(ctx, cfg)
    ctx.extra["probe_uniform_solutions"] = nsol


# ---------------------------------------------------------------------------- probes: layered
def rand_stack(rng, kinds=("uniform", "uniform", "antarctic")):
    nl = rng.randint(1, 4)
    kinds = rng.choice([kinds, ("uniform",)])
    if "antarctic" in kinds:
        # exponential layers only above z_uniform (-764 m): below it the analytic tracer's distance function is
        # dominated by the log_1 cancellation that C01 documents (design finding F10); that regime is C01's
        bounds = sorted({-round(rng.uniform(20, 640), rng.choice([0, 1])) for _ in range(nl)} | {0.0}, reverse=True)
        bottom = -700.0
    else:
        bounds = sorted({-round(rng.uniform(20, 900), rng.choice([0, 1])) for _ in range(nl)} | {0.0}, reverse=True)
        bottom = -float(rng.choice([1000.0, 1500.0, 2850.0]))
    bounds.append(bottom)
    layers = []
    n_prev = rng.uniform(1.3, 1.5)
    for i in range(len(bounds) - 1):
        hi, lo = bounds[i], bounds[i + 1]
        kind = rng.choice(kinds)
        if kind == "uniform":
            n_prev = round(min(1.95, max(1.2, n_prev + rng.uniform(-0.08, 0.2))), 3)
            layers.append({"kind": "uniform", "n": n_prev, "lo": lo, "hi": hi, "above": None, "below": None})
        else:
            layers.append({"kind": "antarctic", "lo": lo, "hi": hi, "above": None, "below": None})
            n_prev = 1.78
    return {"layers": layers, "above": rng.choice([1.0, 1.0, None]), "below": rng.choice([None, 1.9, None])}


def rand_layered_cfg(rng, ice=None, maxr=None):
    ice = ice or rand_stack(rng)
    top, bot = ice["layers"][0]["hi"], ice["layers"][-1]["lo"]
    bnds = [l["hi"] for l in ice["layers"]] + [bot]

    def depth():
        c = rng.random()
        if c < 0.07:
            return float(rng.choice(bnds))
        return round(rng.uniform(max(bot, -1200.0), top), rng.choice([0, 2]))
    off = (float(rng.choice([0.0, 310.0, -45.5])), float(rng.choice([0.0, 77.0, -1200.25])))
    rho = 10.0 ** rng.uniform(0.5, 3.2)
    az = rng.choice([0.0, math.pi, rng.uniform(-math.pi, math.pi)])
    f = [off[0], off[1], depth()]
    t = [off[0] + rho * math.cos(az), off[1] + rho * math.sin(az), depth()]
    return {"ice": ice, "from": [float(x) for x in f], "to": [float(x) for x in t],
            "max_reflections": rng.choice([0, 1, 1, 2]) if maxr is None else maxr}


def layer_of(ice_cfg, path):
    """index of the layer a sub-path runs in (by its ice object's range)."""
    vr = tuple(float(x) for x in path.ice.valid_range)
    for i, l in enumerate(ice_cfg["layers"]):
        if (float(l["lo"]), float(l["hi"])) == vr:
            return i
    return None


def dr_dtheta(tr, s):
    """sensitivity of the summed radial distance to the launch angle (for the root tolerance)."""
    return None


def probe_layered_cfg(ctx, cfg):
    key_cfg = json.dumps(cfg, sort_keys=True)
    tr = U.layered_tracer(cfg)
    ice = tr.ice

    def fail(what, **kw):
        ctx.fail("layered:%s:%s" % (what.split(":")[0], key_cfg), "LayeredRayTracer %s on %s" % (what, key_cfg), {"kind": "layered", "cfg": cfg, **kw})
    try:
        with np.errstate(all="ignore"):
            sols = tr.solutions
            ex = bool(tr.exists)
    except Exception as e:
        fail("raises: %r" % (e,))
        return 0
    if ex != (len(sols) > 0):
        fail("exists: exists=%r but %d solutions" % (ex, len(sols)))
    bnds = [float(b) for b in ice.boundaries]
    rho = math.hypot(cfg["to"][0] - cfg["from"][0], cfg["to"][1] - cfg["from"][1])
    scale = 1.0 + max(abs(x) for x in cfg["from"] + cfg["to"])
    for si, s in enumerate(sols):
        paths = list(s.paths)
        with np.errstate(all="ignore"):
            L, tof = float(s.path_length), float(s.tof)
            Ls = [float(p.path_length) for p in paths]
            Ts = [float(p.tof) for p in paths]
            em = [U.fl(p.emitted_direction) for p in paths]
            rc = [U.fl(p.received_direction) for p in paths]
        # chain: starts at the source, ends at the receiver, consecutive sub-paths share a point
        if U.fl(paths[0].from_point) != cfg["from"] or U.fl(paths[-1].to_point) != cfg["to"]:
            fail("chain: solution %d does not start/end at the endpoints: %r .. %r" % (si, U.fl(paths[0].from_point), U.fl(paths[-1].to_point)), solution=si)
        if U.fl(s.emitted_direction) != em[0] or U.fl(s.received_direction) != rc[-1]:
            fail("chain: solution %d directions are not those of its first/last sub-path" % si, solution=si)
        if not abs(L - math.fsum(Ls)) <= 8 * U.EPS * len(Ls) * abs(L) or not abs(tof - math.fsum(Ts)) <= 8 * U.EPS * len(Ts) * abs(tof):
            fail("sum: solution %d path_length/tof %r/%r are not the sums over its sub-paths %r/%r" % (si, L, tof, math.fsum(Ls), math.fsum(Ts)), solution=si)
        for i, p in enumerate(paths):
            li = layer_of(cfg["ice"], p)
            zs = (float(p.from_point[2]), float(p.to_point[2]))
            if li is None or not all(cfg["ice"]["layers"][li]["lo"] <= z <= cfg["ice"]["layers"][li]["hi"] for z in zs):
                fail("layer: solution %d sub-path %d (z %r -> %r) is not inside one layer of the stack" % (si, i, zs[0], zs[1]), solution=si)
        # root tolerance: brentq locates the launch angle to BRENT_DTHETA; the last junction point is forced onto
        # the receiver, so the last section absorbs the radial residual  |dr/dtheta| * BRENT_DTHETA
        sens = 0.0
        for p in paths:
            dz = abs(float(p.to_point[2]) - float(p.from_point[2]))
            cz = max(min(abs(em_[2]) for em_ in (U.fl(p.emitted_direction), U.fl(p.received_direction))), 1e-12)
            sens += (dz + 1.0) / cz ** 3 * 4.0
        resid = sens * U.BRENT_DTHETA + 256 * U.EPS * (rho + scale)
        spec = [p for p in paths if type(p).__name__ != "UniformRayTracePath"]
        if spec:
            with np.errstate(all="ignore"):
                betas = [abs(float(p.ice.index(float(p.from_point[2])) * math.sin(p.theta0))) for p in spec]
            if min(betas) < 0.1:
                continue      # near-vertical through exponential ice: beta_tolerance regime of the analytic tracer (C01)
            # accuracy of the analytic tracer's distance function (log_1 cancellation; the tolerance C01 uses for it)
            resid += 1e-3 + 1e-6 * rho
        for i in range(len(paths) - 1):
            a, b = paths[i], paths[i + 1]
            zb = float(a.to_point[2])
            if U.fl(a.to_point) != U.fl(b.from_point):
                fail("chain: solution %d sub-paths %d/%d do not share an endpoint: %r vs %r" % (si, i, i + 1, U.fl(a.to_point), U.fl(b.from_point)), solution=si)
                continue
            if zb not in bnds:
                fail("junction: solution %d junction %d at z=%r is not a layer boundary %r" % (si, i, zb, bnds), solution=si)
            u, v = rc[i], em[i + 1]
            with np.errstate(all="ignore"):
                n1, n2 = float(a.ice.index(zb)), float(b.ice.index(zb))
            # tolerance of the directions of sections whose direction comes from their end points (uniform layers)
            tol = 1e-9
            for p_ in (a, b):
                if type(p_).__name__ == "UniformRayTracePath":
                    seg = max(U.vnorm([float(x) - float(y) for x, y in zip(p_.to_point, p_.from_point)]), 1e-300)
                    tol += 4 * resid / seg
            uh, vh = math.hypot(u[0], u[1]), math.hypot(v[0], v[1])
            if abs(U.vnorm(u) - 1) > 1e-9 or abs(U.vnorm(v) - 1) > 1e-9:
                fail("unit: solution %d junction %d directions are not unit vectors %r %r" % (si, i, u, v), solution=si)
                continue
            # same azimuth on both sides
            if abs(u[0] * v[1] - u[1] * v[0]) > tol or (uh > tol and vh > tol and u[0] * v[0] + u[1] * v[1] < 0):
                fail("azimuth: solution %d junction %d changes the horizontal direction: in %r out %r" % (si, i, u, v), solution=si)
            la, lb = layer_of(cfg["ice"], a), layer_of(cfg["ice"], b)
            if (u[2] > 0) == (v[2] > 0) and u[2] != 0:
                # transmission: Snell
                if la is not None and lb is not None and abs(la - lb) != 1:
                    fail("snell: solution %d junction %d continues in a non-adjacent/same layer (%r -> %r) without reflection" % (si, i, la, lb), solution=si)
                if abs(n1 * uh - n2 * vh) > tol * max(n1, n2):
                    fail("snell: solution %d junction %d at z=%r: n1 sin(t1) = %r but n2 sin(t2) = %r (n %r -> %r; in %r out %r; tol %.3g)" % (
                        si, i, zb, n1 * uh, n2 * vh, n1, n2, u, v, tol * max(n1, n2)), solution=si)
            else:
                if la != lb:
                    fail("mirror: solution %d junction %d reverses direction but changes layer (%r -> %r)" % (si, i, la, lb), solution=si)
                if abs(uh - vh) > tol or abs(u[2] + v[2]) > tol:
                    fail("mirror: solution %d junction %d at z=%r: incoming %r outgoing %r are not mirror images (tol %.3g)" % (si, i, zb, u, v, tol), solution=si)
    return len(sols)


def probes_layered(ctx, scale):
    rng = ctx.rng
    nsol = 0
    fixed = [  # the reflection-angle defect fixed by 5636dae: reflection off the lower boundary of an exponential layer
        {"ice": {"layers": [{"kind": "antarctic", "lo": -600.0, "hi": 0.0, "above": None, "below": None},
                            {"kind": "uniform", "n": 1.78, "lo": -2850.0, "hi": -600.0, "above": None, "below": None}], "above": 1.0, "below": None},
         "from": [0.0, 0.0, -100.0], "to": [500.0, 0.0, -320.0], "max_reflections": 1}]
    for cfg in fixed:
        nsol += probe_layered_cfg(ctx, cfg)
    for _ in range(ctx.n(25, 600) * scale):
        cfg = rand_layered_cfg(rng)
        ctx.case(key=("probe_layered", json.dumps(cfg, sort_keys=True)), nontrivial=len(cfg["ice"]["layers"]) > 1,
                 sample={"probe": "layered", "cfg": cfg})
        nsol += probe_layered_cfg(ctx, cfg)
    ctx.extra["probe_layered_solutions"] = nsol


# ---------------------------------------------------------------------------- probes: split vs unsplit
def probe_split_uniform(ctx, cfg, cuts):
    """UniformIce cut into layers of the same index: every unsplit solution reappears unchanged with
    unit transmission; additional solutions reflect off a cut with zero amplitude."""
    key_cfg = json.dumps({"cfg": cfg, "cuts": cuts}, sort_keys=True)
    ice = cfg["ice"]
    edges = [ice["hi"]] + sorted(cuts, reverse=True) + [ice["lo"]]
    layers = [{"kind": "uniform", "n": ice["n"], "lo": lo, "hi": hi, "above": None, "below": None} for hi, lo in zip(edges[:-1], edges[1:])]
    lcfg = {"ice": {"layers": layers, "above": ice["above"], "below": ice["below"]}, "from": cfg["from"], "to": cfg["to"],
            "max_reflections": cfg["max_reflections"]}

    def fail(what, **kw):
        ctx.fail("split-uniform:%s:%s" % (what.split(":")[0], key_cfg), "split of uniform ice at %r: %s; %s" % (cuts, what, key_cfg),
                 {"kind": "split_uniform", "cfg": cfg, "cuts": cuts, **kw})
    with np.errstate(all="ignore"):
        usols = U.uniform_tracer(cfg).solutions
        try:
            lsols = U.layered_tracer(lcfg).solutions
        except Exception as e:
            fail("raises: %r" % (e,))
            return 0
        exp = U.uniform_expected(cfg) or []
        split_data = [(float(s.path_length), float(s.tof), U.fl(s.emitted_direction), U.fl(s.received_direction), s.fresnel, len(s.paths)) for s in lsols]
    dzspan = ice["hi"] - ice["lo"]
    matched = set()
    for us, e in zip(usols, exp):
        if e["degenerate"] or e["zero_span"] or e["emitted"] is None:
            continue
        if cfg["from"][:2] == cfg["to"][:2] and e["length"] * 1.2246467991473532e-16 >= 0.8e-12:
            # exactly vertical ray with more than ~6.5 km of vertical travel: the layered tracer launches it downward at the angle
            # pi, whose tangent is -1.2246e-16 instead of 0; the summed radial distance |tan(pi)| x travel then reaches the
            # tracer's zero tolerance 1e-12 m (distance() in LayeredRayTracer.solutions) and the root is not recognised.
            # Rounding artefact of a degenerate input (design_notes/C02.md, round 4): not judged, counted.
            ctx.extra["split_uniform_skipped_vertical_long"] = ctx.extra.get("split_uniform_skipped_vertical_long", 0) + 1
            continue
        # sensitivity of the layered root: L = S / cos(zenith), r = S tan(zenith)
        cz = max(abs(e["emitted"][2]), 1e-9)
        S = abs(e["image_z"] - cfg["from"][2])
        tolL = 1e-9 * (1 + e["length"]) + 8 * U.BRENT_DTHETA * (S + dzspan) / cz ** 2
        last = min(abs(cfg["to"][2] - c) for c in edges if c != cfg["to"][2]) if any(c != cfg["to"][2] for c in edges) else dzspan
        told = 1e-9 + 16 * U.BRENT_DTHETA * (S + dzspan) / cz ** 3 / max(last, 1e-3) + 1e-12 * (S + dzspan) / max(last, 1e-3)
        with np.errstate(all="ignore"):
            uf = us.fresnel
        hit = None
        for j, (L, tof, em, rc, fr, npth) in enumerate(split_data):
            if j in matched:
                continue
            if abs(L - e["length"]) <= tolL and U.vdiff(em, e["emitted"]) <= told and U.vdiff(rc, e["received"]) <= told:
                hit = j
                break
        if hit is None:
            fail("missing: unsplit solution k=%d first=%+d (length %r, emitted %r) has no counterpart among %d split solutions %r (tol %.3g / %.3g)" % (
                e["k"], e["d"], e["length"], e["emitted"], len(split_data), [(d[0], d[2]) for d in split_data], tolL, told), solution=[e["k"], e["d"]])
            continue
        matched.add(hit)
        L, tof, em, rc, fr, npth = split_data[hit]
        if abs(tof - e["tof"]) > ice["n"] * tolL / U.C0 + 1e-12 * e["tof"]:
            fail("tof: unsplit k=%d first=%+d tof %r, split %r" % (e["k"], e["d"], e["tof"], tof), solution=[e["k"], e["d"]])
        tolf = 1e-9 + 64 * told
        if abs(complex(fr[0]) - complex(uf[0])) > tolf or abs(complex(fr[1]) - complex(uf[1])) > tolf:
            fail("transmission: unsplit k=%d first=%+d Fresnel factors %r, split path (%d sections) %r: the cuts do not transmit with factor 1" % (
                e["k"], e["d"], uf, npth, fr), solution=[e["k"], e["d"]])
    for j, (L, tof, em, rc, fr, npth) in enumerate(split_data):
        if j not in matched and exp and not any(e["degenerate"] or e["zero_span"] or e["emitted"] is None for e in exp):
            if cfg["from"][:2] == cfg["to"][:2] and L * 1.2246467991473532e-16 >= 0.8e-12:
                continue      # exactly vertical, long: may be the counterpart of an unsplit solution that was not judged (see above)
            if abs(complex(fr[0])) > 1e-7 or abs(complex(fr[1])) > 1e-7:
                fail("extra: split solution %d (length %r, %d sections, Fresnel %r) has no unsplit counterpart and non-zero amplitude" % (j, L, npth, fr), solution=j)
    return len(lsols)


def _cut_bound(s, cuts):
    """C01's cancellation bound of the shallow closed forms evaluated at every cut below z_uniform that the unsplit
    solution s crosses (once per crossing)."""
    from harness.props import c01
    icep = c01.ice_params(None, default_of=type(s.ice).__name__)
    zu = c01.z_uniform_of(icep)
    zf, zt = float(s.from_point[2]), float(s.to_point[2])
    em = U.fl(s.emitted_direction)
    beta = c01.nprof(icep, zf) * math.hypot(em[0], em[1])
    if beta <= 0.005 or beta >= icep["n0"]:
        return np.zeros(3)
    if s.direct:
        spans = [(min(zf, zt), max(zf, zt))]
    else:
        ntop = c01.nprof(icep, icep["hi"])
        zturn = icep["hi"] if beta <= ntop else math.log((icep["n0"] - beta) / icep["k"]) / icep["a"]
        spans = [(zf, zturn), (zt, zturn)]
    tot = 0.0
    for c in cuts:
        if c < zu:
            for lo, hi in spans:
                if lo <= c <= hi:
                    tot += 2 * c01.log1_delta(icep, beta, c)      # the section below ends there, the one above starts there
    A = math.sqrt(icep["n0"] ** 2 - beta * beta)
    return tot / icep["a"] * np.array([beta / A, icep["n0"] / A, icep["n0"] ** 2 / (A * U.C0)])


def probe_split_exponential(ctx, f, t, cuts):
    """AntarcticIce cut into layers vs SpecializedRayTracer (solver tolerance; cancellation regime excluded)."""
    from pyrex.ray_tracing import SpecializedRayTracer
    from pyrex.ice_model import AntarcticIce
    key_cfg = json.dumps({"from": f, "to": t, "cuts": cuts})
    edges = [0.0] + sorted(cuts, reverse=True) + [-2850.0]
    layers = [{"kind": "antarctic", "lo": lo, "hi": hi, "above": None, "below": None} for hi, lo in zip(edges[:-1], edges[1:])]
    layers[0]["above"] = 1.0      # a turn inside the top layer reflects off the surface with that layer's own index_above
    lcfg = {"ice": {"layers": layers, "above": 1.0, "below": None}, "from": f, "to": t, "max_reflections": 1}

    def fail(what, key=None, **kw):
        ctx.fail(key or "split-exp:%s:%s" % (what.split(":")[0], key_cfg), "split of AntarcticIce at %r: %s; %s" % (cuts, what, key_cfg),
                 {"kind": "split_exp", "from": f, "to": t, "cuts": cuts, **kw})
    with np.errstate(all="ignore"):
        try:
            us = SpecializedRayTracer(f, t, AntarcticIce()).solutions
            ls = U.layered_tracer(lcfg).solutions
        except Exception as e:
            fail("raises: %r" % (e,))
            return 0
        ld = [(float(s.path_length), float(s.tof), U.fl(s.emitted_direction), U.fl(s.received_direction), s.fresnel, U.cancellation_bound(s)) for s in ls]
        if f[0] == t[0] and f[1] == t[1] and f[2] != t[2] and f[2] < 0 and t[2] < 0:
            # exactly vertical pair: closed forms.  The direct ray is the vertical segment (length |dz|, direction (0,0,+-1)), the
            # second solution goes straight up to the surface and back down (length |z0| + |z1|).  Both the one-medium tracer
            # and the split stack must report exactly these two (beta = 0: the tracer's own beta = 0 forms are exact).
            want = [(abs(t[2] - f[2]), math.copysign(1.0, t[2] - f[2]), math.copysign(1.0, t[2] - f[2])), (abs(f[2]) + abs(t[2]), 1.0, -1.0)]
            for label, sols in (("one-medium tracer", [(float(s.path_length), U.fl(s.emitted_direction), U.fl(s.received_direction)) for s in us]),
                                ("split stack", [(d[0], d[2], d[3]) for d in ld])):
                for wl, wez, wrz in want:
                    ok_ = [x for x in sols if abs(x[0] - wl) <= 1e-9 * (1 + wl) and abs(x[1][2] - wez) <= 1e-9 and abs(x[2][2] - wrz) <= 1e-9
                           and math.hypot(x[1][0], x[1][1]) <= 1e-9]
                    if not ok_:
                        fail("vertical: the %s lacks the vertical solution of length %r (emitted z %+g, received z %+g); it reports %r" % (
                            label, wl, wez, wrz, [(x[0], x[1][2]) for x in sols]), solution=label)
            if len(us) != 2:
                fail("vertical-count: the one-medium tracer reports %d solutions for an exactly vertical pair (two exist)" % len(us))
            return len(ls)
        for k, s in enumerate(us):
            L, tof, em, rc = float(s.path_length), float(s.tof), U.fl(s.emitted_direction), U.fl(s.received_direction)
            uf = s.fresnel
            if math.hypot(em[0], em[1]) < 0.08 or math.hypot(rc[0], rc[1]) < 0.08:
                continue      # near-vertical (beta < ~0.1): beta_tolerance regime of the analytic tracer, C01's domain
            # C01's worst-case bound of the log_term_1 cancellation (open finding F10) of the unsplit solution and of the split
            # candidates: on the length / time themselves and, through the launch angle, 2 x the radial bound
            Bu = U.cancellation_bound(s)
            # sections of the split path that end on a cut deeper than z_uniform evaluate the shallow closed form AT the cut
            # (a layer's z_uniform is clipped into the layer): C01's bound of that evaluation
            Bx = _cut_bound(s, cuts)
            if not np.all(np.isfinite(Bx)):
                if not [d for d in ld if abs(d[0] - L) <= 1e-3 + 1e-6 * L]:
                    fail("lost", key=KF_DEEP_LAYER, solution=k, cuts=cuts)
                ctx.extra["split_exp_skipped_cancellation_bound"] = ctx.extra.get("split_exp_skipped_cancellation_bound", 0) + 1
                continue
            Bu = Bu + Bx
            Bl = max((float(d[5][1] + 2 * d[5][0]) for d in ld if np.all(np.isfinite(d[5]))), default=0.0)
            Br = max((float(d[5][0]) for d in ld if np.all(np.isfinite(d[5]))), default=0.0)
            if not np.all(np.isfinite(Bu)) or any(not np.all(np.isfinite(d[5])) for d in ld) or Bu[1] + 2 * Bu[0] + Bl > 0.05 * L:
                ctx.extra["split_exp_skipped_cancellation_bound"] = ctx.extra.get("split_exp_skipped_cancellation_bound", 0) + 1
                continue
            cz = max(min(abs(em[2]), abs(rc[2])), 0.05)
            cL = 1.01 * (Bu[1] + 2 * Bu[0] + Bl)
            tolL, told = 1e-3 + 1e-6 * L + cL, 1e-5 + 4.0 * (Bu[0] + Br) / max(L, 1.0) / cz ** 3
            hit = [d for d in ld if abs(d[0] - L) <= tolL and U.vdiff(d[2], em) <= told and U.vdiff(d[3], rc) <= told]
            if not hit:
                fail("missing: unsplit solution %d (length %r, emitted %r, received %r) not among split solutions %r (tolerance %.3g m incl. cancellation bound %.3g; directions %.3g)" % (
                    k, L, em, rc, [(d[0], d[2]) for d in ld], tolL, cL, told), solution=k)
                continue
            d = hit[0]
            if abs(d[1] - tof) > 1e-6 * tof + (1e-3 + cL) * 1.8 / U.C0:
                fail("tof: unsplit solution %d tof %r, split %r" % (k, tof, d[1]), solution=k)
            if abs(complex(d[4][0]) - complex(uf[0])) > 1e-4 or abs(complex(d[4][1]) - complex(uf[1])) > 1e-4:
                fail("transmission: unsplit solution %d Fresnel %r, split %r" % (k, uf, d[4]), solution=k)
    return len(ls)


def probes_split(ctx, scale):
    rng = ctx.rng
    n1 = n2 = 0
    for _ in range(ctx.n(40, 900) * scale):
        cfg = rand_uniform_cfg(rng, maxr=rng.choice([0, 1, 1, 2]))
        ice = cfg["ice"]
        if U.uniform_expected(cfg) is None:
            continue
        ncut = rng.choice([1, 1, 2, 3])
        cuts = set()
        for _ in range(ncut):
            c = rng.random()
            z = cfg["from"][2] if c < 0.1 else cfg["to"][2] if c < 0.2 else round(rng.uniform(ice["lo"], ice["hi"]), rng.choice([0, 2]))
            if ice["lo"] < z < ice["hi"]:
                cuts.add(float(z))
        if not cuts:
            continue
        ctx.case(key=("split_uniform", json.dumps(cfg, sort_keys=True), tuple(sorted(cuts))), sample={"probe": "split_uniform", "cfg": cfg, "cuts": sorted(cuts)})
        n1 += probe_split_uniform(ctx, cfg, sorted(cuts))
    from pyrex.ice_model import AntarcticIce
    _ai = AntarcticIce()
    zu = float(_ai.depth_with_index(_ai.n0 * 0.99999))          # z_uniform of the unsplit ice, as the tracer computes it
    deep_cuts = [zu, zu + 1.0, zu - 1.0, -800.0, -1000.0, -1500.0]
    # the open known finding (layer far below z_uniform loses the solutions), always evaluated
    n2 += probe_split_exponential(ctx, [120.0, 0.0, -1453.8], [319.18062667736945, 292.2775936626647, -1897.0], [-1500.0])
    # a cut at -800 m: every section arriving there from below ends exactly on its layer's (clipped) z_uniform
    n2 += probe_split_exponential(ctx, [0.0, 0.0, -1000.0], [400.0, 0.0, -150.0], [-800.0])
    n2 += probe_split_exponential(ctx, [400.0, 0.0, -150.0], [0.0, 0.0, -1000.0], [-800.0])
    # exactly vertical pairs, upward and downward, shallow and across the cuts
    for zf, zt, cuts_v in ((-500.0, -100.0, [-300.0]), (-100.0, -500.0, [-300.0]), (-900.0, -50.0, [-800.0, -200.0]), (-50.0, -900.0, [-800.0])):
        n2 += probe_split_exponential(ctx, [10.0, 20.0, zf], [10.0, 20.0, zt], cuts_v)
    for _ in range(ctx.n(4, 60) * scale):
        za, zb = round(rng.uniform(-1200, -5), 1), round(rng.uniform(-1200, -5), 1)
        if za == zb:
            continue
        ox, oy = float(rng.choice([0.0, 120.0, -45.5])), float(rng.choice([0.0, -33.0]))
        cuts_v = sorted({-float(round(rng.uniform(10, 1000), 0)) for _ in range(rng.choice([1, 2]))})
        ctx.case(key=("split_exp_vertical", za, zb, tuple(cuts_v)), sample={"probe": "split_exp_vertical", "from": [ox, oy, za], "to": [ox, oy, zb], "cuts": cuts_v})
        n2 += probe_split_exponential(ctx, [ox, oy, za], [ox, oy, zb], cuts_v)
    for it in range(ctx.n(14, 220) * scale):
        deep = it % 2 == 1          # every second case: a cut at / around / below z_uniform with a ray that crosses it
        if deep:
            cuts = sorted({float(rng.choice(deep_cuts))} | ({-float(round(rng.uniform(10, 740), 0))} if rng.random() < 0.4 else set()))
            zc = min(cuts)
            za, zb = round(zc - rng.uniform(20, 500), 1), round(rng.uniform(-600, -5) if rng.random() < 0.7 else zc + rng.uniform(5, 60), 1)
            z0, z1 = (za, zb) if rng.random() < 0.5 else (zb, za)      # upward and downward
        else:
            z0, z1 = round(rng.uniform(-700, -5), 1), round(rng.uniform(-700, -5), 1)
            cuts = sorted({-float(round(rng.uniform(10, 740), 0)) for _ in range(rng.choice([1, 2]))})
        rho = rng.uniform(0.15, 2.0) * max(abs(z1 - z0), 60.0)
        az = rng.uniform(-math.pi, math.pi)
        ox, oy = rng.choice([0.0, 120.0]), rng.choice([0.0, -33.0])
        f, t = [ox, oy, z0], [ox + rho * math.cos(az), oy + rho * math.sin(az), z1]
        ctx.case(key=("split_exp", tuple(f), tuple(t), tuple(cuts)), sample={"probe": "split_exp", "from": f, "to": t, "cuts": cuts})
        n2 += probe_split_exponential(ctx, f, t, cuts)
    ctx.extra["probe_split_solutions"] = {"uniform": n1, "exponential": n2}


# ---------------------------------------------------------------------------- probes: histories on a LayeredIce object
def _solution_summary(tr):
    with np.errstate(all="ignore"):
        out = []
        for s in tr.solutions:
            out.append((float(s.path_length), float(s.tof), U.fl(s.emitted_direction), U.fl(s.received_direction),
                        [[U.fl(p.from_point), U.fl(p.to_point)] for p in s.paths]))
    return out


def probe_history(ctx, hist):
    """read -> move a layer boundary (re-assign .layers, or edit the layers' valid_range in place) -> read, on ONE LayeredIce
    object.  After the change a new tracer on that object must give exactly what a tracer on a freshly built LayeredIce with
    the current layers gives, and every junction must lie on a CURRENT boundary with both sections inside their own layer."""
    from pyrex.custom.layered_ice import LayeredIce, LayeredRayTracer
    cls = type("LayeredRayTracerH", (LayeredRayTracer,), {"max_reflections": hist["max_reflections"]})
    key = "history:%s" % json.dumps(hist, sort_keys=True)

    def fail(what):
        ctx.fail(key, "LayeredIce history (%s): %s; %s" % (hist["mode"], what, json.dumps(hist)), {"kind": "history", "hist": hist})
    ice = U.mk_layered_ice(hist["before"])
    with np.errstate(all="ignore"):
        tr1 = cls(hist["from"], hist["to"], ice)
        _ = tr1.solutions                                     # first read (boundaries, layers ...)
        _ = ice.boundaries
        new_layers = [U.mk_layer(l) for l in hist["after"]["layers"]]
        if hist["mode"] == "reassign_layers":
            ice.layers = list(sorted(new_layers, key=lambda x: -x.valid_range[0]))       # as the constructor orders them
        else:
            for obj, l in zip(ice.layers, hist["after"]["layers"]):
                obj.valid_range = (l["lo"], l["hi"])
        try:
            got = _solution_summary(cls(hist["from"], hist["to"], ice))
            want = _solution_summary(cls(hist["from"], hist["to"], U.mk_layered_ice(hist["after"])))
        except Exception as e:
            fail("raises %r after the change" % (e,))
            return
    cur = [hist["after"]["layers"][0]["hi"]] + [l["lo"] for l in hist["after"]["layers"]]
    for si, sol in enumerate(got):
        secs = sol[4]
        for (a, b), (c, d) in zip(secs[:-1], secs[1:]):
            if b[2] not in cur:
                fail("solution %d has a junction at z=%r, not a boundary of the current layers %r" % (si, b[2], cur))
                return
        for a, b in secs:
            if not any(l["lo"] <= a[2] <= l["hi"] and l["lo"] <= b[2] <= l["hi"] for l in hist["after"]["layers"]):
                fail("solution %d has a section from z=%r to z=%r that is not inside one current layer %r" % (si, a[2], b[2], cur))
                return
    if got != want:
        fail("a tracer on the modified object gives %d solutions %r, a tracer on a fresh LayeredIce with the same layers %d solutions %r" % (
            len(got), [(g[0], [x[1][2] for x in g[4]]) for g in got], len(want), [(g[0], [x[1][2] for x in g[4]]) for g in want]))


def probes_history(ctx, scale):
    rng = ctx.rng
    fixed = {"mode": "reassign_layers", "max_reflections": 1, "from": [0.0, 0.0, -900.0], "to": [350.0, 120.0, -100.0],
             "before": {"layers": [{"kind": "uniform", "n": 1.4, "lo": -300.0, "hi": 0.0, "above": None, "below": None},
                                   {"kind": "uniform", "n": 1.7, "lo": -2000.0, "hi": -300.0, "above": None, "below": None}], "above": 1.0, "below": None},
             "after": {"layers": [{"kind": "uniform", "n": 1.4, "lo": -700.0, "hi": 0.0, "above": None, "below": None},
                                  {"kind": "uniform", "n": 1.7, "lo": -2000.0, "hi": -700.0, "above": None, "below": None}], "above": 1.0, "below": None}}
    probe_history(ctx, fixed)
    probe_history(ctx, {**fixed, "mode": "edit_valid_range"})
    for _ in range(ctx.n(10, 200) * scale):
        ice = rand_stack(rng, kinds=("uniform",) if rng.random() < 0.7 else ("uniform", "uniform", "antarctic"))
        if len(ice["layers"]) < 2:
            continue
        after = json.loads(json.dumps(ice))
        j = rng.randrange(len(ice["layers"]) - 1)              # move the boundary between layers j and j+1
        hi, lo = after["layers"][j]["hi"], after["layers"][j + 1]["lo"]
        newb = float(round(rng.uniform(lo + 0.05 * (hi - lo), hi - 0.05 * (hi - lo)), 1))
        after["layers"][j]["lo"] = newb
        after["layers"][j + 1]["hi"] = newb
        cfg = rand_layered_cfg(rng, ice=after)
        hist = {"mode": rng.choice(["reassign_layers", "edit_valid_range"]), "max_reflections": cfg["max_reflections"],
                "from": cfg["from"], "to": cfg["to"], "before": ice, "after": after}
        ctx.case(key=("history", json.dumps(hist, sort_keys=True)), sample={"probe": "history", "hist": hist})
        probe_history(ctx, hist)


# ---------------------------------------------------------------------------- probes: histories on one TRACER object
def _uniform_summary(tr):
    with np.errstate(all="ignore"):
        out = []
        for s in tr.solutions:
            try:
                out.append((int(s._reflections), float(s.theta0), float(s.path_length), float(s.tof), U.fl(s.emitted_direction),
                            U.fl(s.received_direction), [U.fl(p) for p in s._points]))
            except ValueError as e:
                out.append((int(s._reflections), float(s.theta0), "ValueError"))
        return bool(tr.exists), out


MOVES = ("augmented", "inplace_then_reassign", "plain")


def _move(tr, attr, delta, how):
    """move an end point of a live tracer through a public route"""
    d = np.array(delta, dtype=float)
    if how == "augmented":
        if attr == "to_point":
            tr.to_point += d
        else:
            tr.from_point += d
    elif how == "inplace_then_reassign":
        p = getattr(tr, attr)
        p += d                                   # the caller edits the array it got from the tracer ...
        setattr(tr, attr, p)                     # ... and assigns it back
    else:
        setattr(tr, attr, np.array(getattr(tr, attr), dtype=float) + d)


def probe_tracer_history(ctx, hist):
    """read .solutions -> move an end point of the SAME tracer object (augmented assignment / in-place edit and re-assignment /
    plain assignment) -> read again: must equal, exactly, a freshly built tracer on the moved end points (which is judged
    against image geometry / junction physics by the other probes, and here again for the uniform tracer)."""
    kind = hist["kind"]
    key = "tracer-history:%s" % json.dumps(hist, sort_keys=True)

    def fail(what):
        ctx.fail(key, "%s tracer history (%s of %s by %r): %s; %s" % (kind, hist["how"], hist["attr"], hist["delta"], what, json.dumps(hist)),
                 {"kind": "tracer_history", "hist": hist})
    cfg = hist["cfg"]
    new = json.loads(json.dumps(cfg))
    key_pt = "to" if hist["attr"] == "to_point" else "from"
    new[key_pt] = [float(np.float64(a) + np.float64(b)) for a, b in zip(cfg[key_pt], hist["delta"])]
    with np.errstate(all="ignore"):
        try:
            if kind == "uniform":
                tr = U.uniform_tracer(cfg)
                tr.from_point = np.array(tr.from_point, dtype=float)
                tr.to_point = np.array(tr.to_point, dtype=float)
                first = _uniform_summary(tr)
                _move(tr, hist["attr"], hist["delta"], hist["how"])
                got = _uniform_summary(tr)
                want = _uniform_summary(U.uniform_tracer(new))
            else:
                tr = U.layered_tracer(cfg)
                tr.from_point = np.array(tr.from_point, dtype=float)
                tr.to_point = np.array(tr.to_point, dtype=float)
                first = (bool(tr.exists), _solution_summary(tr))
                _move(tr, hist["attr"], hist["delta"], hist["how"])
                got = (bool(tr.exists), _solution_summary(tr))
                want = (bool(U.layered_tracer(new).exists), _solution_summary(U.layered_tracer(new)))
        except Exception as e:
            fail("raises %r" % (e,))
            return
    if U.fl(getattr(tr, hist["attr"])) != new[key_pt]:
        fail("the end point of the tracer is %r after the move, expected %r" % (U.fl(getattr(tr, hist["attr"])), new[key_pt]))
        return
    if got != want:
        def brief(x):
            return (x[0], [(y[2] if kind == "uniform" else y[0]) for y in x[1]])
        fail("after the move the tracer reports (exists, lengths) %r, a fresh tracer on the moved end points %r%s" % (
            brief(got), brief(want), " -- the values before the move are still served" if got == first else ""))
        return
    if kind == "uniform":
        probe_uniform_cfg(ctx, new)


def probes_tracer_history(ctx, scale):
    rng = ctx.rng
    base = {"ice": {"n": 1.5, "lo": -500.0, "hi": 0.0, "above": 1.0, "below": 1.8}, "from": [100.0, 50.0, -100.0], "to": [400.0, 50.0, -200.0], "max_reflections": 2}
    for how in MOVES:
        for attr in ("to_point", "from_point"):
            probe_tracer_history(ctx, {"kind": "uniform", "cfg": base, "attr": attr, "delta": [25.0, -10.0, -30.0], "how": how})
    for _ in range(ctx.n(24, 500) * scale):
        cfg = rand_uniform_cfg(rng)
        if U.uniform_expected(cfg) is None:
            continue
        ice = cfg["ice"]
        attr = rng.choice(["to_point", "from_point"])
        z = cfg["to" if attr == "to_point" else "from"][2]
        dz = rng.choice([0.0, 0.0, round(rng.uniform(ice["lo"], ice["hi"]), 1) - z, ice["hi"] + 5.0 - z])
        delta = [float(rng.choice([0.0, 12.5, -300.0])), float(rng.choice([0.0, 40.0])), float(dz)]
        if delta == [0.0, 0.0, 0.0]:
            delta[0] = 1.0
        hist = {"kind": "uniform", "cfg": cfg, "attr": attr, "delta": delta, "how": rng.choice(MOVES)}
        ctx.case(key=("tracer_history", json.dumps(hist, sort_keys=True)), sample={"probe": "tracer_history", "hist": hist})
        probe_tracer_history(ctx, hist)
    for _ in range(ctx.n(8, 150) * scale):
        cfg = rand_layered_cfg(rng, ice=rand_stack(rng, kinds=("uniform",)))
        attr = rng.choice(["to_point", "from_point"])
        top, bot = cfg["ice"]["layers"][0]["hi"], cfg["ice"]["layers"][-1]["lo"]
        z = cfg["to" if attr == "to_point" else "from"][2]
        dz = rng.choice([0.0, round(rng.uniform(max(bot, -1200.0), top), 1) - z])
        delta = [float(rng.choice([15.0, -220.0])), float(rng.choice([0.0, 60.0])), float(dz)]
        hist = {"kind": "layered", "cfg": cfg, "attr": attr, "delta": delta, "how": rng.choice(MOVES)}
        ctx.case(key=("tracer_history", json.dumps(hist, sort_keys=True)), sample={"probe": "tracer_history", "hist": hist})
        probe_tracer_history(ctx, hist)


# ---------------------------------------------------------------------------- entry points
def run(ctx):
    ctx.rule = ("uniform: random ice (range, indices incl. missing ones), endpoints incl. exactly on / outside the boundaries, coincident, "
                "vertical, any horizontal offset and azimuth, max_reflections 0..3; layered: random stacks of 1..5 uniform / exponential layers, "
                "endpoints incl. on layer boundaries; split: uniform and exponential ice cut at 1..3 arbitrary depths (incl. an endpoint's depth); "
                "non-trivial = reflected / multi-layer cases")
    ctx.trusted += ["Coq 8.16.1 kernel (coqchk in the thorough tier)",
                    "tools/py2coq.py + tools/gen_ray2.py (translator: whole scalar members, and named arithmetic snippets of the array/loop code)",
                    "harness/realextract.py extraction directives (R -> OCaml float), correspondence only",
                    "Model/UniformPath.v, UniformTracer.v, LayeredPath.v are hand-written models of the array writes / loops / recursion: pinned by AST hash, "
                    "tied to the source formulas by glue lemmas, validated by correspondence",
                    "scipy.optimize.brentq: returns a root within xtol + rtol|x| of a sign change (used only for probe tolerances)"]
    ctx.assumptions += ["theorems are over the real numbers; binary64 rounding is covered by the numeric correspondence and probes only",
                        "layered root finding (91 sampled launch angles + brentq) is not modelled: which roots are found is explored by the probes (partial)",
                        "split_exponential_additive is not proved here (C01 owns the exponential-profile integrals); exponential splits are probed against SpecializedRayTracer at solver tolerance, "
                        "outside the cancellation regime documented for C01 (depths above z_uniform, not near-vertical)",
                        "directions of a reflected uniform path are proved for endpoints strictly inside the ice; on a boundary the code returns a zero vector (known finding)"]
    ctx.partial += ["layered_root_search (probes only)", "split_exponential (probes only)"]
    try:
        files, hashes = gen_files(ctx.scratch)
        for k, v in files.items():
            ctx.write_gen(k, v)
        ctx.oblige("gen:Gen_uniform+Gen_layered", True)
        ctx.extra["translated_functions"] = hashes
        gen_ok = True
    except Exception as e:
        ctx.oblige("gen:Gen_uniform+Gen_layered", False, "translation failed (fail-closed): %s" % e)
        gen_ok = False
    pins = current_pins() if True else {}
    recorded = json.load(open(PIN_FILE)) if os.path.exists(PIN_FILE) else {}
    changed = sorted(k for k in pins if recorded.get(k) != pins[k])
    ctx.extra["pins"] = {"current": pins, "changed_since_validation": changed}
    scale = 4 if (changed or not gen_ok) else 1
    ok = False
    if gen_ok:
        ok = ctx.coq_build("C18")
        for name, fn in (("uniform", corr_uniform), ("build_path", corr_build_path)):
            try:
                fn(ctx, scale)
            except Exception as e:
                ctx.oblige("corr:" + name, False, repr(e)[-1500:])
    # the property itself on the implementation (always: these are cheap and independent of the model)
    probes_uniform(ctx, scale)
    probes_layered(ctx, scale)
    probes_split(ctx, scale)
    probes_history(ctx, scale)
    probes_tracer_history(ctx, scale)


def replay(ctx, obj):
    print(json.dumps(obj, indent=1, default=str)[:3000])
    k = obj.get("kind")
    np.seterr(all="ignore")
    if k == "uniform":
        cfg = obj["cfg"]
        tr = U.uniform_tracer(cfg)
        print("implementation: exists =", tr.exists)
        for s in tr.solutions:
            try:
                print("  reflections=%d theta0=%r length=%r tof=%r emitted=%r received=%r points=%r" % (
                    s._reflections, s.theta0, s.path_length, s.tof, U.fl(s.emitted_direction), U.fl(s.received_direction), s._points.tolist()))
            except Exception as e:
                print("  reflections=%d theta0=%r raises %r" % (s._reflections, s.theta0, e))
        print("image method (model of the property):")
        for e in U.uniform_expected(cfg) or []:
            print("  ", e)
    elif k == "layered":
        tr = U.layered_tracer(obj["cfg"])
        for s in tr.solutions:
            print("solution length=%r tof=%r" % (s.path_length, s.tof))
            for p in s.paths:
                print("   %s %r -> %r theta0=%r emitted=%r received=%r" % (type(p).__name__, U.fl(p.from_point), U.fl(p.to_point), p.theta0,
                                                                           U.fl(p.emitted_direction), U.fl(p.received_direction)))
    elif k == "split_uniform":
        probe_split_uniform(ctx, obj["cfg"], obj["cuts"])
        for f in ctx.failures:
            print("FAIL:", f["what"][:800])
    elif k == "split_exp":
        probe_split_exponential(ctx, obj["from"], obj["to"], obj["cuts"])
        for f in ctx.failures:
            print("FAIL:", f["what"][:800])
    elif k == "tracer_history":
        probe_tracer_history(ctx, obj["hist"])
        for f in ctx.failures:
            print("FAIL:", f["what"][:1200])
        print("(no failure: the moved tracer and a fresh tracer agree)" if not ctx.failures else "")
    elif k == "history":
        probe_history(ctx, obj["hist"])
        for f in ctx.failures:
            print("FAIL:", f["what"][:1200])
        print("(no failure: the modified object and a fresh object agree)" if not ctx.failures else "")
    elif k == "build_path":
        print("implementation:", obj["impl"], "\nmodel:", obj["model"])
    return 1
