(* C04: heap model of pyrex/signals.py  Signal / EmptySignal / FunctionSignal.

   Store: arrs = the NumPy arrays that exist (cell id = index; cells are never freed or
   resized, exactly like ndarray buffers); objs = the signal objects (id = index);
   ext = arrays held by the caller (constructor / with_times arguments).
   Every operation is written with the ALLOCATION behaviour of the code:
     np.array(x), np.concatenate, a+b, np.zeros, np.interp  -> fresh cell
     x *= q, x /= q, x += q, x[k] = q                         -> in-place write of the cell
     self.times = new_times                                    -> the object points at the given cell
   All constructors go through Signal.__init__ (mk_data): times copied, values padded with
   zeros / truncated to len(times) and copied.
   A FunctionSignal has no values cell: its values are the thunk fun_values (sum over
   components of factor * f(t - t0)); Proofs/C06 (values_code_nofilter) shows that the code's
   lazily cached, buffer-extended, cropped evaluation equals this thunk when no filters are set.
   The five component lists (_functions,_t0s,_buffers,_factors,_filters) are kept by value
   in the object record: the code only ever creates them together (deepcopy / comprehension),
   the harness checks on the Python side that no two objects share any of these lists.

   alias_wt = true is the code before the F6 repair (FunctionSignal.with_times stored the
   caller's array itself); the checked tree corresponds to alias_wt = false. *)
From Coq Require Import List QArith Qabs Bool Arith Lia.
From PyrexLib Require Import InterpQ.
Import ListNotations.
Open Scope Q_scope.

Inductive vtype := Undef | Volt | Field | Power.
Inductive cls := Sig | Empty | Fun.
Inductive err := ValueErr | TypeErr | IndexErr.

Definition vt_eqb (a b : vtype) : bool :=
  match a, b with
  | Undef, Undef | Volt, Volt | Field, Field | Power, Power => true
  | _, _ => false
  end.

Record comp := { c_fn : Q -> Q; c_t0 : Q; c_factor : Q; c_lead : Q; c_trail : Q }.

Record sigobj := { s_cls : cls; s_sub : bool; s_times : nat; s_vals : option nat;
                   s_vt : vtype; s_comps : list comp }.

Record state := { arrs : list (list Q); objs : list sigobj; ext : list nat }.

Definition init : state := {| arrs := []; objs := []; ext := [] |}.

Definition cell (st : state) (c : nat) : list Q := nth c (arrs st) [].

(* ------------------------------------------------------------ list helpers *)
Fixpoint zeros (n : nat) : list Q := match n with O => [] | S k => 0 :: zeros k end.

(* Signal.__init__: len_diff>0 -> concatenate((values, zeros(len_diff))) else values[:len(times)] *)
Definition pad_trunc (n : nat) (vs : list Q) : list Q :=
  if Nat.ltb (length vs) n then vs ++ zeros (n - length vs) else firstn n vs.

Fixpoint map2 (f : Q -> Q -> Q) (a b : list Q) : list Q :=
  match a, b with
  | x :: a', y :: b' => f x y :: map2 f a' b'
  | _, _ => []
  end.

Fixpoint mapi_from (k : nat) (f : nat -> Q -> Q) (l : list Q) : list Q :=
  match l with [] => [] | x :: l' => f k x :: mapi_from (S k) f l' end.
Definition mapi := mapi_from 0.

Fixpoint list_eqb (a b : list Q) : bool :=
  match a, b with
  | [], [] => true
  | x :: a', y :: b' => Qeq_bool x y && list_eqb a' b'
  | _, _ => false
  end.

Fixpoint upd {A} (l : list A) (k : nat) (x : A) : list A :=
  match l, k with
  | [], _ => []
  | _ :: l', O => x :: l'
  | y :: l', S k' => y :: upd l' k' x
  end.

Definition qadd (a b : Q) : Q := qn (a + b).
Definition qmul (a b : Q) : Q := qn (a * b).
Definition qdiv (a b : Q) : Q := qn (a / b).

(* ------------------------------------------------------------ primitives *)
(* np.array(...) / np.concatenate / arithmetic: a new buffer *)
Definition alloc (st : state) (xs : list Q) : state * nat :=
  ({| arrs := arrs st ++ [xs]; objs := objs st; ext := ext st |}, length (arrs st)).

(* in-place elementwise write (x *= q, x += q, x[k] = v): the buffer keeps its length *)
Definition write (st : state) (c : nat) (f : nat -> Q -> Q) : state :=
  {| arrs := upd (arrs st) c (mapi f (cell st c)); objs := objs st; ext := ext st |}.

Definition add_obj (st : state) (o : sigobj) : state * nat :=
  ({| arrs := arrs st; objs := objs st ++ [o]; ext := ext st |}, length (objs st)).

Definition set_obj (st : state) (i : nat) (o : sigobj) : state :=
  {| arrs := arrs st; objs := upd (objs st) i o; ext := ext st |}.

Definition add_ext (st : state) (xs : list Q) : state :=
  let '(st1, c) := alloc st xs in
  {| arrs := arrs st1; objs := objs st1; ext := ext st1 ++ [c] |}.

(* Signal.__init__(times, values, value_type) on given DATA (the arguments may be temporaries):
   self.times = np.array(times); self.values = padded/truncated copy *)
Definition mk_sig (st : state) (c : cls) (sub : bool) (tdata vdata : list Q) (vt : vtype)
  : state * nat :=
  let '(st1, tc) := alloc st tdata in
  let '(st2, vc) := alloc st1 (pad_trunc (length tdata) vdata) in
  add_obj st2 {| s_cls := c; s_sub := sub; s_times := tc; s_vals := Some vc; s_vt := vt;
                 s_comps := [] |}.

(* EmptySignal.__init__: Signal.__init__(times, np.zeros(len(times)), value_type) *)
Definition mk_empty (st : state) (sub : bool) (tdata : list Q) (vt : vtype) : state * nat :=
  mk_sig st Empty sub tdata (zeros (length tdata)) vt.

(* FunctionSignal.__init__: self.times = np.array(times); component lists of length 1 *)
Definition mk_fun (st : state) (sub : bool) (tdata : list Q) (comps : list comp) (vt : vtype)
  : state * nat :=
  let '(st1, tc) := alloc st tdata in
  add_obj st1 {| s_cls := Fun; s_sub := sub; s_times := tc; s_vals := None; s_vt := vt;
                 s_comps := comps |}.

(* ------------------------------------------------------------ reading values *)
Definition comp_val (t : Q) (c : comp) : Q := qmul (c_fn c (t - c_t0 c)) (c_factor c).

(* FunctionSignal.values without filters: zeros + sum over components, in list order *)
Definition fun_values (ts : list Q) (comps : list comp) : list Q :=
  map (fun t => fold_left (fun acc c => qadd acc (comp_val t c)) comps 0) ts.

Definition times_of (st : state) (o : sigobj) : list Q := cell st (s_times o).

Definition values_of (st : state) (o : sigobj) : list Q :=
  match s_vals o with
  | Some vc => cell st vc
  | None => fun_values (times_of st o) (s_comps o)
  end.

(* ------------------------------------------------------------ operations *)
Inductive op :=
| ONewArr (xs : list Q)                                   (* caller creates an array *)
| OMk (c : cls) (sub : bool) (ta va : nat) (f : Q -> Q) (vt : vtype)
      (* Signal(ext[ta], ext[va], vt) | EmptySignal(ext[ta], vt) | FunctionSignal(ext[ta], f, vt) *)
| OCopy (i : nat)
| OAdd (i j : nat)                                        (* objs[i] + objs[j] *)
| ORadd (i : nat) (k : Z)                                 (* k + objs[i]  (k an int) *)
| OMul (i : nat) (q : Q) | ORmul (i : nat) (q : Q) | OImul (i : nat) (q : Q)
| ODiv (i : nat) (q : Q) | OIdiv (i : nat) (q : Q)
| OWithTimes (i : nat) (ta : nat)                         (* objs[i].with_times(ext[ta]) *)
| OShift (i : nat) (q : Q)
| OSetType (i : nat) (vt : vtype)
| OSetBuffers (i : nat) (lead trail : Q)                  (* FunctionSignal only, force=False *)
| OPokeArr (a : nat) (k : nat) (q : Q)                    (* ext[a][k] = q *)
| OPokeTimes (i : nat) (k : nat) (q : Q)                  (* objs[i].times[k] = q  (not for FunctionSignal) *)
| OPokeVals (i : nat) (k : nat) (q : Q).                  (* objs[i].values[k] = q  (Signal only) *)

Inductive out :=
| RObj (id : nat)        (* a new object *)
| RSame (id : nat)       (* the operand itself is returned *)
| RNone
| RErr (e : err)
| RSkip.                 (* op refers to something that does not exist / outside the model: no-op *)

Definition get_obj (st : state) (i : nat) : option sigobj := nth_error (objs st) i.
Definition get_ext (st : state) (a : nat) : option nat := nth_error (ext st) a.

(* value-type rule shared by the three __add__ implementations *)
Definition add_type (a b : vtype) : option vtype :=
  if negb (vt_eqb a Undef) && negb (vt_eqb b Undef) && negb (vt_eqb a b) then None
  else Some (if vt_eqb a Undef then b else a).

(* X.copy() *)
Definition do_copy (st : state) (o : sigobj) : state * nat :=
  match s_cls o with
  | Sig => mk_sig st Sig false (times_of st o) (values_of st o) (s_vt o)
  | Empty => mk_empty st false (times_of st o) (s_vt o)
  | Fun => mk_fun st false (times_of st o) (s_comps o) (s_vt o)
  end.

Definition set_vt (st : state) (i : nat) (vt : vtype) : state :=
  match get_obj st i with
  | Some o => set_obj st i {| s_cls := s_cls o; s_sub := s_sub o; s_times := s_times o;
                              s_vals := s_vals o; s_vt := vt; s_comps := s_comps o |}
  | None => st
  end.

Definition set_comps (st : state) (i : nat) (cs : list comp) : state :=
  match get_obj st i with
  | Some o => set_obj st i {| s_cls := s_cls o; s_sub := s_sub o; s_times := s_times o;
                              s_vals := s_vals o; s_vt := s_vt o; s_comps := cs |}
  | None => st
  end.

Definition set_times_cell (st : state) (i : nat) (tc : nat) : state :=
  match get_obj st i with
  | Some o => set_obj st i {| s_cls := s_cls o; s_sub := s_sub o; s_times := tc;
                              s_vals := s_vals o; s_vt := s_vt o; s_comps := s_comps o |}
  | None => st
  end.

Definition do_add (st : state) (a b : sigobj) : state * out :=
  if negb (list_eqb (times_of st a) (times_of st b)) then (st, RErr ValueErr) else
  match add_type (s_vt a) (s_vt b) with
  | None => (st, RErr ValueErr)
  | Some vt =>
    match s_cls a with
    | Sig =>
        (* Signal(self.times, self.values+other.values, value_type) *)
        let '(st', id) := mk_sig st Sig false (times_of st a)
                                 (map2 qadd (values_of st a) (values_of st b)) vt in
        (st', RObj id)
    | Empty =>
        (* new = other.copy(); new.value_type = value_type *)
        let '(st', id) := do_copy st b in (set_vt st' id vt, RObj id)
    | Fun =>
        match s_cls b with
        | Fun => (* new = self.copy(); new lists += deepcopy(other lists); value_type *)
            let '(st', id) := mk_fun st false (times_of st a) (s_comps a ++ s_comps b) (s_vt a) in
            (set_vt st' id vt, RObj id)
        | Empty =>
            let '(st', id) := do_copy st a in (set_vt st' id vt, RObj id)
        | Sig =>
            let '(st', id) := mk_sig st Sig false (times_of st a)
                                     (map2 qadd (values_of st a) (values_of st b)) vt in
            (st', RObj id)
        end
    end
  end.

Definition scale_comps (f : Q -> Q) (cs : list comp) : list comp :=
  map (fun c => {| c_fn := c_fn c; c_t0 := c_t0 c; c_factor := f (c_factor c);
                   c_lead := c_lead c; c_trail := c_trail c |}) cs.

(* __mul__/__rmul__/__truediv__: a new object *)
Definition do_scale (st : state) (o : sigobj) (f : Q -> Q) : state * out :=
  match s_cls o with
  | Fun => let '(st', id) := mk_fun st false (times_of st o) (scale_comps f (s_comps o)) (s_vt o) in
           (st', RObj id)
  | _ => (* Signal(self.times, self.values * other, value_type=self.value_type), also for EmptySignal *)
         let '(st', id) := mk_sig st Sig false (times_of st o) (map f (values_of st o)) (s_vt o) in
         (st', RObj id)
  end.

(* __imul__/__itruediv__: in place, returns self *)
Definition do_iscale (st : state) (i : nat) (o : sigobj) (f : Q -> Q) : state * out :=
  match s_vals o with
  | Some vc => (write st vc (fun _ v => f v), RSame i)
  | None => (set_comps st i (scale_comps f (s_comps o)), RSame i)
  end.

Definition qmax (a b : Q) : Q := if Qle_bool a b then b else a.

(* set_buffers(leading, trailing, force=False): each buffer = max(given, current) *)
Definition buf_comps (lead trail : Q) (cs : list comp) : list comp :=
  map (fun c => {| c_fn := c_fn c; c_t0 := c_t0 c; c_factor := c_factor c;
                   c_lead := qmax (c_lead c) lead; c_trail := qmax (c_trail c) trail |}) cs.

Definition hd_Q (l : list Q) : option Q := match l with [] => None | x :: _ => Some x end.
Definition last_Q (l : list Q) : option Q := match rev l with [] => None | x :: _ => Some x end.

Definition do_with_times (alias_wt : bool) (st : state) (o : sigobj) (tc : nat) : state * out :=
  let nt := cell st tc in
  match s_cls o with
  | Sig =>
      (* new_values = np.interp(new_times, self.times, self.values, left=0, right=0)
         Signal(new_times, new_values, value_type) *)
      match interp_all (times_of st o) (values_of st o) nt with
      | None => (st, RErr ValueErr)
      | Some nv => let '(st', id) := mk_sig st Sig false nt nv (s_vt o) in (st', RObj id)
      end
  | Empty => let '(st', id) := mk_empty st false nt (s_vt o) in (st', RObj id)
  | Fun =>
      (* new = self.copy(); new.times = <new_times>; buffers when contained in the old span *)
      let '(st1, id) := mk_fun st false (times_of st o) (s_comps o) (s_vt o) in
      let st2 := if alias_wt then set_times_cell st1 id tc
                 else let '(s, c) := alloc st1 nt in set_times_cell s id c in
      match hd_Q nt, last_Q nt, hd_Q (times_of st o), last_Q (times_of st o) with
      | Some n0, Some n1, Some t0, Some t1 =>
          if Qle_bool t0 n0 && Qle_bool n1 t1
          then (set_comps st2 id (buf_comps (qn (n0 - t0)) (qn (t1 - n1)) (s_comps o)), RObj id)
          else (st2, RObj id)
      | _, _, _, _ => (st, RErr IndexErr)   (* new_times[0] / self.times[0] of an empty array *)
      end
  end.

Definition shift_comps (q : Q) (cs : list comp) : list comp :=
  map (fun c => {| c_fn := c_fn c; c_t0 := qadd (c_t0 c) q; c_factor := c_factor c;
                   c_lead := c_lead c; c_trail := c_trail c |}) cs.

Definition poke (st : state) (c k : nat) (q : Q) : state * out :=
  if Nat.ltb k (length (cell st c))
  then (write st c (fun j v => if Nat.eqb j k then q else v), RNone)
  else (st, RErr IndexErr).

Definition step (alias_wt : bool) (st : state) (o : op) : state * out :=
  match o with
  | ONewArr xs => (add_ext st xs, RNone)
  | OMk c sub ta va f vt =>
      match get_ext st ta with
      | None => (st, RSkip)
      | Some tc =>
        match c with
        | Sig => match get_ext st va with
                 | None => (st, RSkip)
                 | Some vc => let '(st', id) := mk_sig st Sig sub (cell st tc) (cell st vc) vt in
                              (st', RObj id)
                 end
        | Empty => let '(st', id) := mk_empty st sub (cell st tc) vt in (st', RObj id)
        | Fun => let '(st', id) :=
                   mk_fun st sub (cell st tc)
                          [{| c_fn := f; c_t0 := 0; c_factor := 1; c_lead := 0; c_trail := 0 |}] vt in
                 (st', RObj id)
        end
      end
  | OCopy i =>
      match get_obj st i with
      | None => (st, RSkip)
      | Some a => let '(st', id) := do_copy st a in (st', RObj id)
      end
  | OAdd i j =>
      match get_obj st i, get_obj st j with
      | Some a, Some b => do_add st a b
      | _, _ => (st, RSkip)
      end
  | ORadd i k =>
      match get_obj st i with
      | None => (st, RSkip)
      | Some _ => if Z.eqb k 0 then (st, RSame i) else (st, RErr TypeErr)
      end
  | OMul i q | ORmul i q =>
      match get_obj st i with
      | None => (st, RSkip)
      | Some a => do_scale st a (fun v => qmul v q)
      end
  | ODiv i q =>
      match get_obj st i with
      | None => (st, RSkip)
      | Some a => if Qeq_bool q 0 then (st, RSkip) else do_scale st a (fun v => qdiv v q)
      end
  | OImul i q =>
      match get_obj st i with
      | None => (st, RSkip)
      | Some a => do_iscale st i a (fun v => qmul v q)
      end
  | OIdiv i q =>
      match get_obj st i with
      | None => (st, RSkip)
      | Some a => if Qeq_bool q 0 then (st, RSkip) else do_iscale st i a (fun v => qdiv v q)
      end
  | OWithTimes i ta =>
      match get_obj st i, get_ext st ta with
      | Some a, Some tc => do_with_times alias_wt st a tc
      | _, _ => (st, RSkip)
      end
  | OShift i q =>
      (* self.times += dt  (in place) ; FunctionSignal also self._t0s = [t+dt ...] *)
      match get_obj st i with
      | None => (st, RSkip)
      | Some a =>
          let st1 := write st (s_times a) (fun _ t => qadd t q) in
          match s_cls a with
          | Fun => (set_comps st1 i (shift_comps q (s_comps a)), RNone)
          | _ => (st1, RNone)
          end
      end
  | OSetType i vt =>
      match get_obj st i with
      | None => (st, RSkip)
      | Some _ => (set_vt st i vt, RNone)
      end
  | OSetBuffers i lead trail =>
      match get_obj st i with
      | None => (st, RSkip)
      | Some a =>
          match s_cls a with
          | Fun => if Qle_bool 0 lead && Qle_bool 0 trail
                   then (set_comps st i (buf_comps lead trail (s_comps a)), RNone)
                   else (st, RSkip)
          | _ => (st, RSkip)
          end
      end
  | OPokeArr a k q =>
      match get_ext st a with
      | None => (st, RSkip)
      | Some c => poke st c k q
      end
  | OPokeTimes i k q =>
      match get_obj st i with
      | None => (st, RSkip)
      | Some a => match s_cls a with
                  | Fun => (st, RSkip)   (* not a public operation on a FunctionSignal (see C06) *)
                  | _ => poke st (s_times a) k q
                  end
      end
  | OPokeVals i k q =>
      match get_obj st i with
      | None => (st, RSkip)
      | Some a => match s_cls a, s_vals a with
                  | Sig, Some vc => poke st vc k q
                  | _, _ => (st, RSkip)
                  end
      end
  end.

Fixpoint run (alias_wt : bool) (st : state) (ops : list op) : state * list out :=
  match ops with
  | [] => (st, [])
  | o :: ops' => let '(st1, r) := step alias_wt st o in
                 let '(st2, rs) := run alias_wt st1 ops' in (st2, r :: rs)
  end.

Definition run_state (alias_wt : bool) (ops : list op) : state := fst (run alias_wt init ops).

(* ------------------------------------------------------------ observation (for the harness) *)
Definition qpair (q : Q) : Z * Z := let r := Qred q in (Qnum r, Zpos (Qden r)).
Definition cls_code (c : cls) : Z := match c with Sig => 0 | Empty => 1 | Fun => 2 end%Z.
Definition vt_code (v : vtype) : Z := match v with Undef => 0 | Volt => 1 | Field => 2 | Power => 3 end%Z.
Definition out_code (r : out) : Z * Z :=
  match r with
  | RObj id => (0, Z.of_nat id) | RSame id => (1, Z.of_nat id) | RNone => (2, 0)
  | RErr ValueErr => (3, 0) | RErr TypeErr => (3, 1) | RErr IndexErr => (3, 2) | RSkip => (4, 0)
  end%Z.

Definition obs_comp (c : comp) := (qpair (c_t0 c), qpair (c_factor c), qpair (c_lead c), qpair (c_trail c)).

Definition obs_obj (st : state) (o : sigobj) :=
  (cls_code (s_cls o), s_sub o, vt_code (s_vt o), map qpair (times_of st o),
   map qpair (values_of st o), map obs_comp (s_comps o)).

(* cells held by each object: (times cell, values cell or none) *)
Definition obj_cells (o : sigobj) : list nat :=
  s_times o :: match s_vals o with Some v => [v] | None => [] end.

Definition obs_state (st : state) :=
  (map (obs_obj st) (objs st), map (fun c => map qpair (cell st c)) (ext st),
   (map Z.of_nat (ext st), map (fun o => map Z.of_nat (obj_cells o)) (objs st))).

(* full trace: output code of each op and the observable state after it *)
Fixpoint trace (alias_wt : bool) (st : state) (ops : list op) :=
  match ops with
  | [] => []
  | o :: ops' => let '(st1, r) := step alias_wt st o in
                 (out_code r, obs_state st1) :: trace alias_wt st1 ops'
  end.

(* ------------------------------------------------------------ compact trace
   Printing the complete state after every op dominates the run time of the correspondence,
   so the per-step state is flattened to integers (with length prefixes) and folded into a
   61-bit polynomial checksum (mod 2^61 by masking); the harness computes the same checksum from the real objects.
   The complete final state is still printed and compared exactly, and on any difference
   the full trace above is evaluated for the report. *)
Definition hmix (h x : Z) : Z := Z.land (h * 1000003 + x) 2305843009213693951%Z.

Definition flat_q (q : Q) : list Z := let '(n, d) := qpair q in [n; d].
Definition flat_list {A} (f : A -> list Z) (l : list A) : list Z :=
  Z.of_nat (length l) :: flat_map f l.

Fixpoint first_index (c : nat) (l : list nat) (k : nat) : nat :=
  match l with
  | [] => k
  | x :: l' => if Nat.eqb x c then k else first_index c l' (S k)
  end.

(* sharing pattern: for every holder the position of the first holder with the same cell *)
Definition holders (st : state) : list nat := ext st ++ flat_map obj_cells (objs st).
Definition sharing (st : state) : list Z :=
  let hs := holders st in map (fun c => Z.of_nat (first_index c hs 0)) hs.

Definition flat_comp (c : comp) : list Z :=
  flat_q (c_t0 c) ++ flat_q (c_factor c) ++ flat_q (c_lead c) ++ flat_q (c_trail c).

Definition flat_obj (st : state) (o : sigobj) : list Z :=
  [cls_code (s_cls o); if s_sub o then 1%Z else 0%Z; vt_code (s_vt o)]
  ++ flat_list flat_q (times_of st o) ++ flat_list flat_q (values_of st o)
  ++ flat_list flat_comp (s_comps o).

Definition flat_state (st : state) : list Z :=
  flat_list (flat_obj st) (objs st)
  ++ flat_list (fun c => flat_list flat_q (cell st c)) (ext st)
  ++ flat_list (fun z => [z]) (sharing st).

Definition state_hash (st : state) : Z := fold_left hmix (flat_state st) 7%Z.

Fixpoint trace_hash (alias_wt : bool) (st : state) (ops : list op) : list (Z * Z * Z) * state :=
  match ops with
  | [] => ([], st)
  | o :: ops' => let '(st1, r) := step alias_wt st o in
                 let '(rest, stf) := trace_hash alias_wt st1 ops' in
                 ((out_code r, state_hash st1) :: rest, stf)
  end.

Definition compact_trace (alias_wt : bool) (ops : list op) :=
  let '(hs, stf) := trace_hash alias_wt init ops in (hs, obs_state stf).
