(* C03, part 2: attenuation factor, interpolation, polarization basis, propagate. *)
From Coq Require Import Reals List Bool ZArith Lra Lia Psatz.
From PyrexLib Require Import RealPrims Vec3Facts CPair SignalAlg ListOps.
From PyrexGen Require Import Gen_ice Gen_prop.
From PyrexModel Require Import PropagationModel.
From PyrexProofs Require Import C16_proofs C03_fresnel.
Import ListNotations.
Open Scope R_scope.
Set Default Timeout 120.

(* ---------------------------------------------------------------------------------------
   exp(-|I|) lies in (0, 1] and does not grow with |I| *)
Lemma exp_neg_abs_unit I : 0 < exp (- Rabs I) <= 1.
Proof.
  split; [apply exp_pos|]. rewrite <- exp_0.
  pose proof (Rabs_pos I). destruct (Req_dec (Rabs I) 0) as [E|E].
  - rewrite E, Ropp_0. lra.
  - left. apply exp_increasing. lra.
Qed.

Lemma exp_neg_abs_antitone I J : 0 <= I <= J -> exp (- Rabs J) <= exp (- Rabs I).
Proof.
  intros [H0 H1]. rewrite !Rabs_pos_eq by lra.
  destruct H1 as [H1|H1]; [left; apply exp_increasing; lra | subst; lra].
Qed.

Lemma basic_attenuation_unit p f : 0 < BasicRayTracePath_attenuation p f <= 1.
Proof. unfold BasicRayTracePath_attenuation. cbv zeta. apply exp_neg_abs_unit. Qed.

Lemma specialized_attenuation_unit f beta ice segs : 0 < specialized_attenuation f beta ice segs <= 1.
Proof. unfold specialized_attenuation, SpecializedRayTracePath_attenuation_of_integral. apply exp_neg_abs_unit. Qed.

(* products of exp(-dp / L) with dp >= 0 and L > 0 *)
Lemma list_prod_unit l : (forall x, In x l -> 0 < x <= 1) -> 0 < list_prod l <= 1.
Proof.
  induction l as [|a t IH]; intros H; simpl; [lra|].
  destruct (H a (or_introl eq_refl)) as [A1 A2].
  destruct IH as [B1 B2]; [intros; apply H; right; assumption|].
  split; [apply Rmult_lt_0_compat; assumption|].
  replace 1 with (1 * 1) by ring. apply Rmult_le_compat; lra.
Qed.

Lemma exp_neg_ratio_unit dp L : 0 <= dp -> 0 < L -> 0 < exp (- dp / L) <= 1.
Proof.
  intros H0 H1. split; [apply exp_pos|]. rewrite <- exp_0.
  assert (0 <= dp / L) by (apply Rmult_le_pos; [assumption | left; apply Rinv_0_lt_compat; assumption]).
  replace (- dp / L) with (- (dp / L)) by (unfold Rdiv; ring).
  destruct (Req_dec (dp / L) 0) as [E|E]; [rewrite E, Ropp_0; lra | left; apply exp_increasing; lra].
Qed.

Lemma uniform_step_unit self f dz attens p1 p2 :
  0 < attens <= 1 -> 0 < UniformRayTracePath_attenuation_step self f dz attens p1 p2 <= attens.
Proof.
  intros [A1 A2]. unfold UniformRayTracePath_attenuation_step. cbv zeta.
  match goal with |- context [if ?c then ?a else ?b] => set (pr := if c then a else b) end.
  destruct pr as [dp zs] eqn:Epr.
  assert (Hdp : 0 <= dp).
  { unfold pr in Epr. destruct (Reqb (vz p1) (vz p2)); inversion Epr; apply sqrt_pos. }
  match goal with |- context [list_prod ?l] => assert (P : 0 < list_prod l <= 1) end.
  { apply list_prod_unit. intros x Hx.
    rewrite !in_map_iff in Hx. destruct Hx as (y & Hy & Hin). subst x.
    rewrite in_map_iff in Hin. destruct Hin as (L & HL & Hin2). subst y.
    rewrite in_map_iff in Hin2. destruct Hin2 as (z & Hz & _). subst L.
    apply exp_neg_ratio_unit; [assumption | apply uni_atten_pos]. }
  destruct P as [P1 P2]. split; [apply Rmult_lt_0_compat; assumption|].
  rewrite <- (Rmult_1_r attens) at 2. apply Rmult_le_compat_l; lra.
Qed.

Lemma uniform_attenuation_unit self f dz points : 0 < uniform_attenuation self f dz points <= 1.
Proof.
  unfold uniform_attenuation.
  assert (G : forall l a, 0 < a <= 1 ->
     0 < fold_left (fun attens pp => UniformRayTracePath_attenuation_step self f dz attens (fst pp) (snd pp)) l a <= 1).
  { induction l as [|pp t IH]; intros a Ha; simpl; [assumption|].
    apply IH. pose proof (uniform_step_unit self f dz a (fst pp) (snd pp) Ha). lra. }
  apply G. lra.
Qed.

Lemma layered_attenuation_unit parts : (forall x, In x parts -> 0 < x <= 1) -> 0 < layered_attenuation parts <= 1.
Proof. apply list_prod_unit. Qed.

(* ---------------------------------------------------------------------------------------
   numpy.interp of values in (0,1] on an increasing grid stays in (0,1]: the attenuation
   interpolation (every interpolation step, every grid) cannot leave the unit interval *)
Fixpoint increasing (xs : list R) : Prop :=
  match xs with
  | a :: ((b :: _) as t) => a < b /\ increasing t
  | _ => True
  end.

Lemma convex_between y0 y1 x x0 x1 lo hi : x0 < x1 -> x0 <= x <= x1 -> lo <= y0 <= hi -> lo <= y1 <= hi ->
  lo <= y0 + (y1 - y0) * (x - x0) / (x1 - x0) <= hi.
Proof.
  intros Hx Hin H0 H1.
  set (t := (x - x0) / (x1 - x0)).
  assert (Ht : 0 <= t <= 1).
  { unfold t. split.
    - apply Rmult_le_pos; [lra | left; apply Rinv_0_lt_compat; lra].
    - apply Rmult_le_reg_r with (x1 - x0); [lra|]. unfold Rdiv. rewrite Rmult_assoc, Rinv_l by lra. lra. }
  replace (y0 + (y1 - y0) * (x - x0) / (x1 - x0)) with ((1 - t) * y0 + t * y1) by (unfold t; field; lra).
  split; nra.
Qed.

Lemma np_interp_go_cons x0 x1 xs y0 y1 ys x :
  np_interp_go (x0 :: x1 :: xs) (y0 :: y1 :: ys) x
  = if Rleb x x1 then y0 + (y1 - y0) * (x - x0) / (x1 - x0) else np_interp_go (x1 :: xs) (y1 :: ys) x.
Proof. reflexivity. Qed.

Lemma np_interp_go_bounded lo hi : forall xs ys x,
  increasing xs -> length xs = length ys -> (forall y, In y ys -> lo <= y <= hi) ->
  (match xs with x0 :: _ => x0 <= x | [] => True end) -> ys <> [] ->
  lo <= np_interp_go xs ys x <= hi.
Proof.
  induction xs as [|x0 xs IH]; intros ys x Hinc Hlen Hys Hx Hne.
  - destruct ys; [contradiction | discriminate].
  - destruct ys as [|y0 ys]; [discriminate|].
    destruct xs as [|x1 xs'].
    + simpl. apply Hys; left; reflexivity.
    + destruct ys as [|y1 ys']; [discriminate|].
      rewrite np_interp_go_cons. destruct Hinc as [H01 Hinc].
      destruct (Rleb x x1) eqn:E.
      * apply Rleb_true in E. apply convex_between; try lra; apply Hys; simpl; auto.
      * apply Rleb_false in E. apply IH.
        -- exact Hinc.
        -- simpl in *. lia.
        -- intros y Hy. apply Hys. right. exact Hy.
        -- lra.
        -- discriminate.
Qed.

Lemma np_interp_bounded lo hi xs ys x :
  increasing xs -> length xs = length ys -> ys <> [] -> (forall y, In y ys -> lo <= y <= hi) ->
  lo <= np_interp x xs ys <= hi.
Proof.
  intros Hinc Hlen Hne Hys. unfold np_interp.
  destruct xs as [|x0 xs]; [destruct ys; [contradiction | discriminate]|].
  destruct ys as [|y0 ys]; [contradiction|].
  destruct (Rleb x x0) eqn:E.
  - apply Hys; left; reflexivity.
  - apply Rleb_false in E. apply np_interp_go_bounded; try assumption. lra.
Qed.

(* the interval (0,1] itself: positivity needs the minimum of finitely many positive values *)
Lemma np_interp_unit xs ys x :
  increasing xs -> length xs = length ys -> ys <> [] -> (forall y, In y ys -> 0 < y <= 1) ->
  0 < np_interp x xs ys <= 1.
Proof.
  intros Hinc Hlen Hne Hys.
  assert (M : exists m, 0 < m /\ forall y, In y ys -> m <= y).
  { clear -Hys. induction ys as [|a t IH]; [exists 1; split; [lra | intros y []]|].
    destruct IH as (m & Hm & Hall); [intros; apply Hys; right; assumption|].
    destruct (Hys a (or_introl eq_refl)) as [Ha _].
    exists (Rmin a m). split; [apply Rmin_glb_lt; assumption|].
    intros y [E|Hy]; [subst; apply Rmin_l | eapply Rle_trans; [apply Rmin_r | apply Hall; assumption]]. }
  destruct M as (m & Hm & Hall).
  assert (B : m <= np_interp x xs ys <= 1).
  { apply np_interp_bounded; try assumption. intros y Hy. split; [apply Hall; assumption | apply Hys; assumption]. }
  lra.
Qed.

(* ---------------------------------------------------------------------------------------
   attenuation length does not grow with frequency *)
Definition antarctic_b_lo (t_C : R) : R :=   (* b below 1 GHz *)
  ((- 6.7489 + t_C * (0.026709 - 8.84e-4 * t_C)) - (- 6.2212 - t_C * (0.070927 + 1.773e-3 * t_C))) / ln 1e-4.
Definition antarctic_b_hi (t_C : R) : R :=   (* b from 1 GHz *)
  ((- 4.0947 - t_C * (0.002213 + 3.32e-4 * t_C)) - (- 6.2212 - t_C * (0.070927 + 1.773e-3 * t_C))) / ln 3.16.

Lemma ln_1em4_neg : ln 1e-4 < 0.
Proof. rewrite <- ln_1. apply ln_increasing; lra. Qed.
Lemma ln_316_pos : 0 < ln 3.16.
Proof. rewrite <- ln_1. apply ln_increasing; lra. Qed.

(* valid temperature range: the Antarctic profile runs from about -51 C at the surface to about
   -1 C at 2850 m; the slopes are positive for every t_C between -100 C and +5 C *)
Lemma antarctic_b_positive t_C : -100 <= t_C <= 5 -> 0 < antarctic_b_lo t_C /\ 0 < antarctic_b_hi t_C.
Proof.
  intros H. unfold antarctic_b_lo, antarctic_b_hi. split.
  - assert (N : (- 6.7489 + t_C * (0.026709 - 8.84e-4 * t_C)) - (- 6.2212 - t_C * (0.070927 + 1.773e-3 * t_C)) < 0) by nra.
    pose proof ln_1em4_neg.
    replace (_ / ln 1e-4) with ((- ((- 6.7489 + t_C * (0.026709 - 8.84e-4 * t_C)) - (- 6.2212 - t_C * (0.070927 + 1.773e-3 * t_C)))) / (- ln 1e-4))
      by (field; lra).
    apply Rdiv_lt_0_compat; lra.
  - assert (N : 0 < (- 4.0947 - t_C * (0.002213 + 3.32e-4 * t_C)) - (- 6.2212 - t_C * (0.070927 + 1.773e-3 * t_C))) by nra.
    apply Rdiv_lt_0_compat; [assumption | apply ln_316_pos].
Qed.

Definition temp_ok (z : R) : Prop := -100 <= AntarcticIce_temperature z - zero_Celsius <= 5.

Lemma antarctic_atten_length_antitone s z f1 f2 : temp_ok z -> 0 < f1 <= f2 ->
  AntarcticIce_attenuation_length s z f2 <= AntarcticIce_attenuation_length s z f1.
Proof.
  intros HT [Hf1 Hf12]. unfold temp_ok in HT.
  destruct (antarctic_b_positive _ HT) as [Blo Bhi].
  unfold AntarcticIce_attenuation_length, AntarcticIce_atten_coeffs. cbv zeta.
  set (tC := AntarcticIce_temperature z - zero_Celsius) in *.
  fold (antarctic_b_lo tC). fold (antarctic_b_hi tC).
  set (a := - 6.2212 - tC * (0.070927 + 1.773e-3 * tC)).
  assert (W : forall f, 0 < f -> (f < 1e9 -> ln (f * 1e-9) < 0) /\ (1e9 <= f -> 0 <= ln (f * 1e-9))).
  { intros f Hf. split; intros Hc.
    - rewrite <- ln_1. apply ln_increasing; nra.
    - rewrite <- ln_1. destruct (Req_dec (f * 1e-9) 1) as [E|E]; [rewrite E; lra|]. left. apply ln_increasing; nra. }
  assert (Wm : ln (f1 * 1e-9) <= ln (f2 * 1e-9)).
  { destruct Hf12 as [Hlt|Heq]; [left; apply ln_increasing; nra | subst; lra]. }
  destruct (W f1 Hf1) as [W1a W1b]. destruct (W f2 ltac:(lra)) as [W2a W2b].
  assert (Mono : forall u v, u <= v -> exp (- v) <= exp (- u)).
  { intros u v [H|H]; [left; apply exp_increasing; lra | subst; lra]. }
  destruct (Rltb f1 1e9) eqn:E1; destruct (Rltb f2 1e9) eqn:E2;
    try apply Rltb_true in E1; try apply Rltb_false in E1; try apply Rltb_true in E2; try apply Rltb_false in E2;
    simpl; apply Mono.
  - assert (antarctic_b_lo tC * ln (f1 * 1e-9) <= antarctic_b_lo tC * ln (f2 * 1e-9)) by (apply Rmult_le_compat_l; lra). lra.
  - specialize (W1a E1). specialize (W2b E2).
    assert (antarctic_b_lo tC * ln (f1 * 1e-9) <= 0) by nra.
    assert (0 <= antarctic_b_hi tC * ln (f2 * 1e-9)) by nra. lra.
  - lra.
  - assert (antarctic_b_hi tC * ln (f1 * 1e-9) <= antarctic_b_hi tC * ln (f2 * 1e-9)) by (apply Rmult_le_compat_l; lra). lra.
Qed.

Lemma uniform_atten_length_antitone s z f1 f2 :
  -100 <= UniformIce_temperature z - zero_Celsius <= 5 -> 0 < f1 <= f2 ->
  UniformIce_attenuation_length s z f2 <= UniformIce_attenuation_length s z f1.
Proof.
  intros HT Hf.
  pose proof (antarctic_atten_length_antitone (mkIce 0 0 0 (0, 0) None None) z f1 f2 HT Hf) as A.
  exact A.
Qed.

Lemma greenland_atten_length_antitone s z f1 f2 : f1 <= f2 ->
  GreenlandIce_attenuation_length s z f2 <= GreenlandIce_attenuation_length s z f1.
Proof.
  intros Hf. unfold GreenlandIce_attenuation_length. cbv zeta.
  set (A := Rpower 10 _).
  destruct (Rltb (-0.55e-6 * (f2 - 75e6) + A) 1) eqn:E2; destruct (Rltb (-0.55e-6 * (f1 - 75e6) + A) 1) eqn:E1;
    try apply Rltb_true in E1; try apply Rltb_false in E1; try apply Rltb_true in E2; try apply Rltb_false in E2; lra.
Qed.

Lemma arasim_atten_length_constant s z f1 f2 :
  ArasimIce_attenuation_length s z f1 = ArasimIce_attenuation_length s z f2.
Proof. reflexivity. Qed.

(* the trapezoid sums that make up the integral are monotone in the integrand *)
Lemma trapz_dx_monotone (g1 g2 : R -> R) dx zs :
  (forall z, In z zs -> 0 <= g1 z <= g2 z) ->
  0 <= trapz_dx (Rabs dx) (map g1 zs) <= trapz_dx (Rabs dx) (map g2 zs).
Proof.
  pose proof (Rabs_pos dx) as Hd.
  induction zs as [|a [|b t] IH]; intros H; simpl; try lra.
  assert (Ha := H a (or_introl eq_refl)). assert (Hb := H b (or_intror (or_introl eq_refl))).
  assert (IH' : 0 <= trapz_dx (Rabs dx) (map g1 (b :: t)) <= trapz_dx (Rabs dx) (map g2 (b :: t))) by (apply IH; intros; apply H; right; assumption).
  simpl in IH'.
  assert (A : 0 <= Rabs dx * (g1 a + g1 b) <= Rabs dx * (g2 a + g2 b)).
  { split; [apply Rmult_le_pos; lra | apply Rmult_le_compat_l; lra]. }
  lra.
Qed.

(* BasicRayTracePath.attenuation: non-increasing in |f| when, at every node of its depth
   grids, the ray is not horizontal (cos theta > 0) and the ice temperature is in range *)
Definition basic_nodes (p : Path) : list R :=
  if Path_direct p then
    linspace_closed (Path_z0 p) (Path_z1 p) (_n_intervals (Rabs (Path_z1 p - Path_z0 p)) (Path_dz p) + 1)%Z
  else
    linspace_closed (Path_z0 p) (Path_z_turn p - Path_z_turn_proximity p)
       (_n_intervals (Path_z_turn p - Path_z_turn_proximity p - Path_z0 p) (Path_dz p) + 1)%Z
    ++ linspace_closed (Path_z_turn p - Path_z_turn_proximity p) (Path_z1 p)
       (_n_intervals (Path_z_turn p - Path_z_turn_proximity p - Path_z1 p) (Path_dz p) + 1)%Z.

Lemma basic_attenuation_antitone p f1 f2 :
  0 < Rabs f1 <= Rabs f2 ->
  (forall z, In z (basic_nodes p) -> 0 < cos (BasicRayTracePath_theta p z) /\ temp_ok z) ->
  BasicRayTracePath_attenuation p f2 <= BasicRayTracePath_attenuation p f1.
Proof.
  intros Hf Hn. unfold BasicRayTracePath_attenuation. cbv zeta.
  set (g := fun fa z => 1 / cos (BasicRayTracePath_theta p z) / AntarcticIce_attenuation_length (Path_ice p) z fa).
  change (exp (- Rabs (BasicRayTracePath_z_integral p (g (Rabs f2)))) <= exp (- Rabs (BasicRayTracePath_z_integral p (g (Rabs f1))))).
  assert (G : forall z, In z (basic_nodes p) -> 0 <= g (Rabs f1) z <= g (Rabs f2) z).
  { intros z Hz. destruct (Hn z Hz) as [Hc HT]. unfold g.
    pose proof (antarctic_atten_length_antitone (Path_ice p) z _ _ HT Hf) as A.
    pose proof (ant_atten_pos (Path_ice p) z (Rabs f1)) as P1. pose proof (ant_atten_pos (Path_ice p) z (Rabs f2)) as P2.
    assert (C : 0 < 1 / cos (BasicRayTracePath_theta p z)) by (apply Rdiv_lt_0_compat; lra).
    split.
    - left. apply Rdiv_lt_0_compat; assumption.
    - unfold Rdiv at 1 3. apply Rmult_le_compat_l; [lra|]. apply Rinv_le_contravar; assumption. }
  apply exp_neg_abs_antitone.
  unfold BasicRayTracePath_z_integral, basic_nodes in *.
  destruct (Path_direct p).
  - cbv zeta. apply trapz_dx_monotone. exact G.
  - cbv zeta.
    match goal with |- 0 <= trapz_dx (Rabs ?d1) (map _ ?l1) + trapz_dx (Rabs ?d2) (map _ ?l2) <= _ =>
      pose proof (trapz_dx_monotone (g (Rabs f1)) (g (Rabs f2)) d1 l1 (fun z Hz => G z (in_or_app _ _ z (or_introl Hz)))) as A1;
      pose proof (trapz_dx_monotone (g (Rabs f1)) (g (Rabs f2)) d2 l2 (fun z Hz => G z (in_or_app _ _ z (or_intror Hz)))) as A2 end.
    lra.
Qed.

(* the attenuation depends on the frequency only through |f| *)
Lemma basic_attenuation_even p f : BasicRayTracePath_attenuation p (- f) = BasicRayTracePath_attenuation p f.
Proof. unfold BasicRayTracePath_attenuation. cbv zeta. rewrite Rabs_Ropp. reflexivity. Qed.

(* UniformRayTracePath.attenuation: each segment factor is non-increasing in |f| *)
Lemma list_prod_le l1 l2 : Forall2 (fun a b => 0 < a <= b) l1 l2 -> 0 < list_prod l1 <= list_prod l2.
Proof.
  induction 1 as [|a b t1 t2 Hab _ IH]; simpl; [lra|].
  destruct IH as [I1 I2]. split; [apply Rmult_lt_0_compat; lra | apply Rmult_le_compat; lra].
Qed.

Lemma uniform_step_antitone self f1 f2 dz a1 a2 p1 p2 :
  0 < Rabs f1 <= Rabs f2 -> 0 < a2 <= a1 ->
  (forall z, -100 <= UniformIce_temperature z - zero_Celsius <= 5) ->
  UniformRayTracePath_attenuation_step self f2 dz a2 p1 p2 <= UniformRayTracePath_attenuation_step self f1 dz a1 p1 p2.
Proof.
  intros Hf Ha HT. unfold UniformRayTracePath_attenuation_step. cbv zeta.
  match goal with |- context [if ?c then ?a else ?b] => set (pr := if c then a else b) end.
  destruct pr as [dp zs] eqn:Epr.
  assert (Hdp : 0 <= dp).
  { unfold pr in Epr. destruct (Reqb (vz p1) (vz p2)); inversion Epr; apply sqrt_pos. }
  match goal with |- a2 * list_prod ?l2 <= a1 * list_prod ?l1 => assert (P : 0 < list_prod l2 <= list_prod l1) end.
  { apply list_prod_le. rewrite !map_map.
    clear Epr. induction zs as [|z t IH]; simpl; constructor; [|exact IH].
    pose proof (uniform_atten_length_antitone (UPath_ice self) z _ _ (HT z) Hf) as A.
    pose proof (uni_atten_pos (UPath_ice self) z (Rabs f1)) as P1. pose proof (uni_atten_pos (UPath_ice self) z (Rabs f2)) as P2.
    split; [apply exp_pos|].
    assert (- dp / UniformIce_attenuation_length (UPath_ice self) z (Rabs f2) <= - dp / UniformIce_attenuation_length (UPath_ice self) z (Rabs f1)).
    { unfold Rdiv. replace (- dp * / UniformIce_attenuation_length (UPath_ice self) z (Rabs f2))
        with (- (dp * / UniformIce_attenuation_length (UPath_ice self) z (Rabs f2))) by ring.
      replace (- dp * / UniformIce_attenuation_length (UPath_ice self) z (Rabs f1))
        with (- (dp * / UniformIce_attenuation_length (UPath_ice self) z (Rabs f1))) by ring.
      apply Ropp_le_contravar. apply Rmult_le_compat_l; [assumption|]. apply Rinv_le_contravar; assumption. }
    destruct H as [H|H]; [left; apply exp_increasing; assumption | rewrite H; lra]. }
  destruct P as [P1 P2]. apply Rmult_le_compat; lra.
Qed.

Lemma uniform_attenuation_antitone self f1 f2 dz points :
  0 < Rabs f1 <= Rabs f2 -> (forall z, -100 <= UniformIce_temperature z - zero_Celsius <= 5) ->
  uniform_attenuation self f2 dz points <= uniform_attenuation self f1 dz points.
Proof.
  intros Hf HT. unfold uniform_attenuation.
  assert (G : forall l a1 a2, 0 < a2 <= a1 -> a1 <= 1 ->
    fold_left (fun attens pp => UniformRayTracePath_attenuation_step self f2 dz attens (fst pp) (snd pp)) l a2
    <= fold_left (fun attens pp => UniformRayTracePath_attenuation_step self f1 dz attens (fst pp) (snd pp)) l a1).
  { induction l as [|pp t IH]; intros a1 a2 Ha H1; simpl; [lra|].
    apply IH.
    - split; [apply (uniform_step_unit self f2 dz a2); lra | apply uniform_step_antitone; assumption].
    - pose proof (uniform_step_unit self f1 dz a1 (fst pp) (snd pp)). lra. }
  apply G; lra.
Qed.

(* SpecializedRayTracePath: a trapezoid over nodes (x_i, c_i / L_i(f)) whose increments and
   weights have the same sign grows with f *)
Fixpoint same_sign_nodes (l : list (R * R)) : Prop :=   (* (x, c) *)
  match l with
  | (x0, c0) :: (((x1, c1) :: _) as t) => 0 <= (x1 - x0) * c0 /\ 0 <= (x1 - x0) * c1 /\ same_sign_nodes t
  | _ => True
  end.

Lemma trapz_nodes_monotone (l : list (R * R * R * R)) :   (* ((x, c), 1/L(f1)), 1/L(f2) *)
  same_sign_nodes (map (fun q => (fst (fst (fst q)), snd (fst (fst q)))) l) ->
  (forall q, In q l -> 0 <= snd (fst q) <= snd q) ->
  0 <= trapz_nodes (map (fun q => (fst (fst (fst q)), snd (fst (fst q)) * snd (fst q))) l)
    <= trapz_nodes (map (fun q => (fst (fst (fst q)), snd (fst (fst q)) * snd q)) l).
Proof.
  induction l as [|[[[x0 c0] u0] v0] [|[[[x1 c1] u1] v1] t] IH]; intros HS HL; simpl; try lra.
  simpl in HS. destruct HS as (S0 & S1 & HS).
  assert (H0 := HL _ (or_introl eq_refl)). assert (H1 := HL _ (or_intror (or_introl eq_refl))). simpl in H0, H1.
  assert (IH' := IH HS (fun q Hq => HL q (or_intror Hq))). simpl in IH'.
  assert (A0 : 0 <= (x1 - x0) * c0 * u0 <= (x1 - x0) * c0 * v0) by (split; [apply Rmult_le_pos; lra | apply Rmult_le_compat_l; lra]).
  assert (A1 : 0 <= (x1 - x0) * c1 * u1 <= (x1 - x0) * c1 * v1) by (split; [apply Rmult_le_pos; lra | apply Rmult_le_compat_l; lra]).
  lra.
Qed.

(* ---------------------------------------------------------------------------------------
   polarization basis *)
Definition zhat : vec3 := (0, 0, 1).

Lemma vnormalize_zero v : vnorm v = 0 -> vnormalize v = v.
Proof. intros H. unfold vnormalize. rewrite H. assert (E : Reqb 0 0 = true) by (apply Reqb_true; reflexivity). rewrite E. reflexivity. Qed.

Lemma vnorm_cross_perp u v : vdot u u = 1 -> vdot u v = 0 -> vnorm (vcross u v) = vnorm v.
Proof. intros Hu Huv. unfold vnorm. rewrite lagrange, Hu, Huv. f_equal. ring. Qed.

Lemma vdot_normalize_l u v : vdot (vnormalize u) v = (if Reqb (vnorm u) 0 then 1 else / vnorm u) * vdot u v.
Proof. unfold vnormalize. destruct (Reqb (vnorm u) 0); [ring | apply vdot_scale_l]. Qed.

Lemma vcross_perp_l' u v : vdot (vcross u v) u = 0.
Proof. rewrite vdot_comm. apply vcross_perp_l. Qed.

Lemma sumsq3_zero a b c : a * a + b * b + c * c = 0 -> a = 0 /\ b = 0 /\ c = 0.
Proof.
  intros H. pose proof (Rle_0_sqr a) as A. pose proof (Rle_0_sqr b) as B. pose proof (Rle_0_sqr c) as C. unfold Rsqr in *.
  assert (a * a = 0) by lra. assert (b * b = 0) by lra. assert (c * c = 0) by lra.
  repeat split; apply Rsqr_0_uniq; unfold Rsqr; assumption.
Qed.

Lemma vdot_zero_vec v : vdot v v = 0 -> v = (0, 0, 0).
Proof. intros H. unfold vdot in H. apply sumsq3_zero in H. destruct H as (A & B & C). apply vec3_eq; assumption. Qed.

(* the s-direction as propagate() builds it: normalize(e x z), or, for an exactly vertical ray
   (zero cross product), the limit (sin phi, -cos phi, 0) along the ray's azimuth *)
Definition us0 (e : vec3) (phi : R) : vec3 :=
  let u := vnormalize (vcross e zhat) in if negb (vany u) then (sin phi, - cos phi, 0) else u.

Lemma vany_zero : vany (0, 0, 0) = false.
Proof.
  unfold vany, vx, vy, vz; simpl. assert (E : Reqb 0 0 = true) by (apply Reqb_true; reflexivity). rewrite E. reflexivity.
Qed.

Lemma vany_false v : vany v = false -> v = (0, 0, 0).
Proof.
  unfold vany. intros H. apply orb_false_elim in H. destruct H as [H Hz]. apply orb_false_elim in H. destruct H as [Hx Hy].
  apply negb_false_iff in Hx, Hy, Hz. apply Reqb_true in Hx, Hy, Hz. apply vec3_eq; assumption.
Qed.

Lemma vnorm_zero_vec : vnorm (0, 0, 0) = 0.
Proof. unfold vnorm, vdot, vx, vy, vz; simpl. replace (0 * 0 + 0 * 0 + 0 * 0) with 0 by ring. apply sqrt_0. Qed.

Lemma us0_nonvertical e phi : vnorm (vcross e zhat) <> 0 -> us0 e phi = vnormalize (vcross e zhat).
Proof.
  intros H. unfold us0. cbv zeta. destruct (vany (vnormalize (vcross e zhat))) eqn:E; [reflexivity|].
  apply vany_false in E. pose proof (vnormalize_unit _ H) as U. rewrite E in U.
  unfold vdot, vx, vy, vz in U; simpl in U. lra.
Qed.

Lemma us0_vertical e phi : vnorm (vcross e zhat) = 0 -> us0 e phi = (sin phi, - cos phi, 0).
Proof.
  intros H. unfold us0. cbv zeta. rewrite (vnormalize_zero _ H).
  assert (Z : vcross e zhat = (0, 0, 0)) by (apply vdot_zero_vec, vnorm_zero_iff; exact H).
  rewrite Z, vany_zero. reflexivity.
Qed.

Lemma us0_unit e phi : vdot (us0 e phi) (us0 e phi) = 1.
Proof.
  destruct (Req_dec (vnorm (vcross e zhat)) 0) as [Z|NZ].
  - rewrite (us0_vertical _ _ Z). unfold vdot, vx, vy, vz; simpl. pose proof (sin2_cos2 phi) as S. unfold Rsqr in S. lra.
  - rewrite (us0_nonvertical _ _ NZ). apply vnormalize_unit; assumption.
Qed.

Lemma us0_perp_e e phi : vdot (us0 e phi) e = 0.
Proof.
  destruct (Req_dec (vnorm (vcross e zhat)) 0) as [Z|NZ].
  - rewrite (us0_vertical _ _ Z).
    assert (Z0 : vcross e zhat = (0, 0, 0)) by (apply vdot_zero_vec, vnorm_zero_iff; exact Z).
    assert (Ex : vy e = 0) by (apply (f_equal vx) in Z0; unfold vcross, zhat, vx, vy, vz in *; simpl in *; lra).
    assert (Ey : vx e = 0) by (apply (f_equal vy) in Z0; unfold vcross, zhat, vx, vy, vz in *; simpl in *; lra).
    unfold vdot. change (vx (sin phi, - cos phi, 0)) with (sin phi). change (vy (sin phi, - cos phi, 0)) with (- cos phi).
    change (vz (sin phi, - cos phi, 0)) with 0. rewrite Ex, Ey. ring.
  - rewrite (us0_nonvertical _ _ NZ), vdot_normalize_l, vdot_comm, vcross_perp_l. ring.
Qed.

(* received direction in the plane of incidence: sufficient conditions *)
Lemma us0_perp_r_nonvertical e phi r : vnorm (vcross e zhat) <> 0 -> vdot (vcross e zhat) r = 0 -> vdot (us0 e phi) r = 0.
Proof. intros NZ H. rewrite (us0_nonvertical _ _ NZ), vdot_normalize_l, H. ring. Qed.

Lemma us0_perp_r_vertical e phi r : vnorm (vcross e zhat) = 0 -> vx r * sin phi - vy r * cos phi = 0 -> vdot (us0 e phi) r = 0.
Proof.
  intros Z H. rewrite (us0_vertical _ _ Z). unfold vdot.
  change (vx (sin phi, - cos phi, 0)) with (sin phi). change (vy (sin phi, - cos phi, 0)) with (- cos phi).
  change (vz (sin phi, - cos phi, 0)) with 0. lra.
Qed.

Lemma pol_basis_lemma e phi r : vnorm e <> 0 -> vdot r r = 1 -> vdot (us0 e phi) r = 0 ->
  let u_s0 := us0 e phi in
  let u_p0 := vnormalize (vcross u_s0 e) in
  let u_p1 := vnormalize (vcross u_s0 r) in
  vdot u_s0 u_s0 = 1 /\ vdot u_p1 u_p1 = 1 /\ vdot u_s0 u_p1 = 0 /\ vdot u_s0 r = 0 /\ vdot u_p1 r = 0 /\
  (vdot u_p0 u_p0 = 1 /\ vdot u_s0 u_p0 = 0 /\ vdot u_p0 e = 0 /\ vdot u_s0 e = 0).
Proof.
  intros Ne Hr Sr u_s0 u_p0 u_p1.
  assert (Us : vdot u_s0 u_s0 = 1) by apply us0_unit.
  assert (Se : vdot u_s0 e = 0) by apply us0_perp_e.
  assert (N1 : vnorm (vcross u_s0 r) <> 0).
  { rewrite vnorm_cross_perp by assumption. unfold vnorm. rewrite Hr, sqrt_1. lra. }
  assert (N0 : vnorm (vcross u_s0 e) <> 0) by (rewrite vnorm_cross_perp by assumption; exact Ne).
  repeat split.
  - exact Us.
  - apply vnormalize_unit; assumption.
  - unfold u_p1. rewrite vdot_comm, vdot_normalize_l, vcross_perp_l'. ring.
  - exact Sr.
  - unfold u_p1. rewrite vdot_normalize_l, vdot_comm, vcross_perp_r. ring.
  - apply vnormalize_unit; assumption.
  - unfold u_p0. rewrite vdot_comm, vdot_normalize_l, vcross_perp_l'. ring.
  - unfold u_p0. rewrite vdot_normalize_l, vdot_comm, vcross_perp_r. ring.
  - exact Se.
Qed.

(* the construction WITHOUT the vertical-ray case returns zero vectors for a vertical ray
   (design finding F12a; repaired in pyrex by the `fix:` commit recorded in known_findings/C03.json) *)
Lemma pol_basis_vertical_zero r :
  let u_s0 := vnormalize (vcross zhat zhat) in
  let u_p1 := vnormalize (vcross u_s0 r) in
  u_s0 = (0, 0, 0) /\ u_p1 = (0, 0, 0) /\ vdot u_s0 u_s0 <> 1.
Proof.
  assert (Z : vcross zhat zhat = (0, 0, 0)) by (apply vec3_eq; unfold vcross, zhat, vx, vy, vz; simpl; ring).
  cbv zeta. rewrite Z. rewrite (vnormalize_zero (0, 0, 0)) by apply vnorm_zero_vec.
  assert (C : vcross (0, 0, 0) r = (0, 0, 0)) by (apply vec3_eq; unfold vcross, vx, vy, vz; simpl; ring).
  rewrite C, (vnormalize_zero (0, 0, 0)) by apply vnorm_zero_vec.
  repeat split. unfold vdot, vx, vy, vz; simpl. lra.
Qed.

(* Bessel: the s and p amplitudes never carry more than |pol|^2 *)
Lemma bessel2 u v p : vdot u u = 1 -> vdot v v = 1 -> vdot u v = 0 ->
  vdot p u * vdot p u + vdot p v * vdot p v <= vdot p p.
Proof.
  intros Hu Hv Huv.
  set (w := vsub (vsub p (vscale (vdot p u) u)) (vscale (vdot p v) v)).
  assert (E : vdot w w = vdot p p - 2 * vdot p u * vdot p u - 2 * vdot p v * vdot p v
                + vdot p u * vdot p u * vdot u u + vdot p v * vdot p v * vdot v v + 2 * vdot p u * vdot p v * vdot u v).
  { unfold w, vdot, vsub, vscale, vx, vy, vz; simpl. ring. }
  pose proof (vdot_self_nonneg w) as W. rewrite E, Hu, Hv, Huv in W. lra.
Qed.

Lemma cauchy_schwarz_unit p u : vdot u u = 1 -> vdot p u * vdot p u <= vdot p p.
Proof.
  intros Hu. pose proof (vdot_self_nonneg (vcross p u)) as L. rewrite lagrange, Hu in L. lra.
Qed.

Lemma pol_amplitudes_bounded e phi p :
  let u_s0 := us0 e phi in
  let u_p0 := vnormalize (vcross u_s0 e) in
  vdot p u_s0 * vdot p u_s0 + vdot p u_p0 * vdot p u_p0 <= vdot p p.
Proof.
  cbv zeta. pose proof (us0_unit e phi) as Us. pose proof (us0_perp_e e phi) as Se.
  destruct (Req_dec (vnorm e) 0) as [Z|NZ].
  - assert (Z0 : vnorm (vcross (us0 e phi) e) = 0) by (rewrite vnorm_cross_perp by assumption; exact Z).
    rewrite (vnormalize_zero _ Z0).
    assert (C0 : vcross (us0 e phi) e = (0, 0, 0)) by (apply vdot_zero_vec, vnorm_zero_iff; exact Z0).
    rewrite C0. pose proof (cauchy_schwarz_unit p _ Us).
    unfold vdot at 3 4. change (vx (0, 0, 0)) with 0. change (vy (0, 0, 0)) with 0. change (vz (0, 0, 0)) with 0. lra.
  - assert (N0 : vnorm (vcross (us0 e phi) e) <> 0) by (rewrite vnorm_cross_perp by assumption; exact NZ).
    apply bessel2.
    + exact Us.
    + apply vnormalize_unit; exact N0.
    + rewrite vdot_comm, vdot_normalize_l, vcross_perp_l'. ring.
Qed.
