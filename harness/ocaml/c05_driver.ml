(* Driver for the extracted filter model (Model/FilterModel.v -> filt.ml).
   One case per input line, tokens separated by blanks, floats in C99 hex notation.
     filter <fr 0|1> <kind> <p1> <p2> <p3> <N> <times x N> <values x N>
     apply  <dt> <nf> (<kind> <p1> <p2> <p3> <fr>) x nf <N> <values x N>
     fft    <N> (<re> <im>) x N
     ifft   <N> (<re> <im>) x N
     freq   <n> <d>
     trace  <fs|sg> <nops> (F <kind> <p1> <p2> <p3> <fr> | S <c> | D <c> | R) x nops <N> <times x N> <values x N>
            -> the values read after every op, concatenated (nops * N floats)
     mg     <nops> <N> (P <N values> | A | F <kind> <p1> <p2> <p3> <fr> | S <c> | D <c> | R) x nops <times x N>
            -> the values read at every R, concatenated (stack machine over multi-term FunctionSignals)
     fullgrid <lead> <trail> <N> <times x N>
     fsvalues <lead> <trail> <nf> (<kind> <p1> <p2> <p3> <fr>) x nf <N> <times x N> <L> <fvals x L>
   Output: one line of hex floats per case. *)
let resp kind p1 p2 p3 : float -> float * float =
  match kind with
  | 0 -> (fun _ -> (1.0, 0.0))
  | 1 -> Filt.delay_response p1
  | 2 -> (fun f -> let r = f /. p1 in let d = 1.0 +. r *. r in (1.0 /. d, (-. r) /. d))
  | 3 -> (fun f -> let r = f /. p1 in let d = 1.0 +. r *. r in (1.0 /. d, (0.5 *. r) /. d))
  | 4 -> (fun f -> if f > 0.0 then (let r = f /. p1 in let s = r /. (1.0 +. r) in (p2 *. s, p3 *. s))
                   else (0.0, 0.0))
  | 5 -> (fun _ -> (p1, p2))
  | 6 -> (fun f -> let r = f /. p1 in let d = 1.0 +. r *. r in (p2 /. d, (p3 *. r) /. d))
  | _ -> failwith "kind"

let () =
  try
    while true do
      let line = input_line stdin in
      let toks = Array.of_list (List.filter (fun s -> s <> "") (String.split_on_char ' ' line)) in
      let pos = ref 1 in
      let nf () = let v = float_of_string toks.(!pos) in incr pos; v in
      let ni () = let v = int_of_string toks.(!pos) in incr pos; v in
      let nlist n = let rec go i acc = if i = 0 then List.rev acc else go (i - 1) (nf () :: acc) in go n [] in
      let out_r l = print_string (String.concat " " (List.map (Printf.sprintf "%h") l)); print_newline () in
      let out_c l = out_r (List.concat_map (fun (a, b) -> [a; b]) l) in
      (match toks.(0) with
       | "filter" ->
         let fr = ni () = 1 in
         let kind = ni () in let p1 = nf () in let p2 = nf () in let p3 = nf () in
         let n = ni () in
         let times = nlist n in let values = nlist n in
         out_r (Filt.filter_frequencies times values (resp kind p1 p2 p3) fr)
       | "apply" ->
         let dt = nf () in let k = ni () in
         let rec fs i acc = if i = 0 then List.rev acc else begin
             let kind = ni () in let p1 = nf () in let p2 = nf () in let p3 = nf () in
             let fr = ni () = 1 in fs (i - 1) ((resp kind p1 p2 p3, fr) :: acc) end in
         let fl = fs k [] in
         let n = ni () in let values = nlist n in
         out_r (Filt.apply_filters dt values fl)
       | "fft" | "ifft" ->
         let n = ni () in
         let rec go i acc = if i = 0 then List.rev acc else (let a = nf () in let b = nf () in go (i - 1) ((a, b) :: acc)) in
         let xs = go n [] in
         out_c (if toks.(0) = "fft" then Filt.fft_l xs else Filt.ifft_l xs)
       | "trace" ->
         let which = toks.(!pos) in incr pos;
         let k = ni () in
         let rec ops i acc = if i = 0 then List.rev acc else begin
             let tag = toks.(!pos) in incr pos;
             let op = (match tag with
               | "F" -> let kind = ni () in let p1 = nf () in let p2 = nf () in let p3 = nf () in let fr = ni () = 1 in
                        Filt.OpFilter (resp kind p1 p2 p3, fr)
               | "S" -> Filt.OpScale (nf ())
               | "D" -> Filt.OpDiv (nf ())
               | _ -> Filt.OpRead) in
             ops (i - 1) (op :: acc) end in
         let ol = ops k [] in
         let n = ni () in let times = nlist n in let values = nlist n in
         let tr = if which = "fs" then Filt.fs_trace times values Filt.fs_init ol else Filt.sg_trace times values ol in
         out_r (List.concat tr)
       | "mg" ->
         let k = ni () in
         (* protocol: mg <nops> <N> ops... times *)
         let nn = ni () in
         let rec ops i acc = if i = 0 then List.rev acc else begin
             let tag = toks.(!pos) in incr pos;
             let op = (match tag with
               | "P" -> Filt.MPush (nlist nn)
               | "A" -> Filt.MAdd
               | "F" -> let kind = ni () in let p1 = nf () in let p2 = nf () in let p3 = nf () in let fr = ni () = 1 in
                        Filt.MFilter (resp kind p1 p2 p3, fr)
               | "S" -> Filt.MScale (nf ())
               | "D" -> Filt.MDiv (nf ())
               | _ -> Filt.MRead) in
             ops (i - 1) (op :: acc) end in
         let ol = ops k [] in
         let times = nlist nn in
         out_r (List.concat (Filt.mg_run times [] ol))
       | "fullgrid" ->
         let lead = nf () in let trail = nf () in let n = ni () in let times = nlist n in
         out_r (Filt.full_times times lead trail (Filt.sig_dt times))
       | "fsvalues" ->
         let lead = nf () in let trail = nf () in let k = ni () in
         let rec fs i acc = if i = 0 then List.rev acc else begin
             let kind = ni () in let p1 = nf () in let p2 = nf () in let p3 = nf () in
             let fr = ni () = 1 in fs (i - 1) ((resp kind p1 p2 p3, fr) :: acc) end in
         let fl = fs k [] in
         let n = ni () in let times = nlist n in
         let l = ni () in let fvals = nlist l in
         out_r (Filt.function_signal_values times lead trail fvals fl)
       | "freq" ->
         let n = ni () in let d = nf () in
         out_r (List.init n (fun k -> Filt.fftfreq n d k))
       | _ -> failwith ("bad op " ^ toks.(0)))
    done
  with End_of_file -> ()
