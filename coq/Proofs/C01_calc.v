(* C01, part 1: real analysis of the closed-form z-integrals of the exponential-profile ice
   n(z) = n0 - k exp(a z).  Everything here is about hand-written closed forms; C01_proofs.v
   shows that the definitions generated from pyrex/ray_tracing.py are equal to them. *)
From Coq Require Import Reals Lra Lia.
From Coquelicot Require Import Coquelicot.
Open Scope R_scope.

(* replace a `Derive f x` produced by auto_derive by the value given by a known is_derive fact *)
Ltac derive_is H :=
  match goal with |- context [Derive ?f ?x] =>
    let v := match type of H with is_derive _ _ ?v => v end in
    replace (Derive f x) with v by (symmetry; apply is_derive_unique; exact H) end.

Section ClosedForms.
  Variables n0 k a : R.
  Hypothesis Ha : 0 < a.
  Hypothesis Hk : 0 < k.

  Definition nz (z : R) := n0 - k * exp (a * z).
  Definition al (b : R) := n0 ^ 2 - b ^ 2.
  Definition ga (b z : R) := nz z ^ 2 - b ^ 2.
  Definition lg1 (b z : R) := n0 * nz z - b ^ 2 - sqrt (al b * ga b z).
  Definition lg2 (b z : R) := nz z + sqrt (ga b z).
  Definition L1 (b z : R) := - z + ln (lg1 b z) / a.
  Definition L2 (b z : R) := ln (lg2 b z) / a.

  Lemma nz_lt_n0 z : nz z < n0.
  Proof. unfold nz. pose proof (exp_pos (a * z)). nra. Qed.

  Lemma nz_derive z : is_derive nz z (- a * (n0 - nz z)).
  Proof. unfold nz. auto_derive; [trivial | ring]. Qed.

  Lemma nz_decreasing z1 z2 : z1 < z2 -> nz z2 < nz z1.
  Proof.
    intros H. unfold nz.
    assert (exp (a * z1) < exp (a * z2)) by (apply exp_increasing; nra). nra.
  Qed.

  Lemma nz_monotone z1 z2 : z1 <= z2 -> nz z2 <= nz z1.
  Proof. intros [H|H]; [left; apply nz_decreasing; exact H | subst; right; reflexivity]. Qed.

  (* (n0 n - b^2)^2 - alpha gamma = b^2 (n0 - n)^2 : the identity behind everything *)
  Lemma log1_identity n b :
    (n0 * n - b ^ 2) ^ 2 - (n0 ^ 2 - b ^ 2) * (n ^ 2 - b ^ 2) = b ^ 2 * (n0 - n) ^ 2.
  Proof. ring. Qed.

  Lemma log1_pos_gen n b : 0 < b -> b <= n -> n < n0 ->
    0 < n0 * n - b ^ 2 - sqrt ((n0 ^ 2 - b ^ 2) * (n ^ 2 - b ^ 2)).
  Proof.
    intros Hb Hn Hn0.
    assert (Hx : 0 < n0 * n - b ^ 2) by nra.
    assert (Hag : 0 <= (n0 ^ 2 - b ^ 2) * (n ^ 2 - b ^ 2)) by (apply Rmult_le_pos; nra).
    assert (sqrt ((n0 ^ 2 - b ^ 2) * (n ^ 2 - b ^ 2)) < n0 * n - b ^ 2); [|lra].
    apply Rlt_le_trans with (sqrt ((n0 * n - b ^ 2) ^ 2)); [|rewrite sqrt_pow2; lra].
    apply sqrt_lt_1_alt. split; [exact Hag|].
    pose proof (log1_identity n b).
    assert (0 < b ^ 2 * (n0 - n) ^ 2) by (apply Rmult_lt_0_compat; apply pow_lt; lra).
    lra.
  Qed.

  Lemma lg1_pos b z : 0 < b -> b <= nz z -> 0 < lg1 b z.
  Proof. intros Hb Hn. unfold lg1, al, ga. apply log1_pos_gen; [assumption.. | apply nz_lt_n0]. Qed.

  Lemma lg2_pos b z : 0 <= b -> b <= nz z -> 0 < nz z -> 0 < lg2 b z.
  Proof. intros Hb Hn Hp. unfold lg2. pose proof (sqrt_pos (ga b z)). lra. Qed.

  (* the numerically stable form of log_term_1 (used by the repair of the cancellation) *)
  Lemma log1_stable_gen n b : 0 <= (n0 ^ 2 - b ^ 2) * (n ^ 2 - b ^ 2) ->
    n0 * n - b ^ 2 + sqrt ((n0 ^ 2 - b ^ 2) * (n ^ 2 - b ^ 2)) <> 0 ->
    n0 * n - b ^ 2 - sqrt ((n0 ^ 2 - b ^ 2) * (n ^ 2 - b ^ 2)) =
    b ^ 2 * (n0 - n) ^ 2 / (n0 * n - b ^ 2 + sqrt ((n0 ^ 2 - b ^ 2) * (n ^ 2 - b ^ 2))).
  Proof.
    intros Hag Hd.
    set (S := sqrt ((n0 ^ 2 - b ^ 2) * (n ^ 2 - b ^ 2))) in *.
    assert (HS : S ^ 2 = (n0 ^ 2 - b ^ 2) * (n ^ 2 - b ^ 2)).
    { unfold S. rewrite <- Rsqr_pow2. apply Rsqr_sqrt. exact Hag. }
    pose proof (log1_identity n b) as Hid.
    apply Rmult_eq_reg_r with (n0 * n - b ^ 2 + S); [|exact Hd].
    unfold Rdiv. rewrite Rmult_assoc, Rinv_l, Rmult_1_r by exact Hd.
    rewrite <- Hid, <- HS. ring.
  Qed.

  Section Derivs.
    Variables b z : R.
    Hypothesis Hb : 0 < b.
    Hypothesis Hn : b < nz z.

    Let n := nz z.
    Let A := sqrt (al b).
    Let G := sqrt (ga b z).

    Lemma al_pos : 0 < al b.
    Proof. unfold al. pose proof (nz_lt_n0 z). nra. Qed.
    Lemma ga_pos : 0 < ga b z.
    Proof. unfold ga. nra. Qed.
    Lemma A_pos : 0 < A. Proof. apply sqrt_lt_R0, al_pos. Qed.
    Lemma G_pos : 0 < G. Proof. apply sqrt_lt_R0, ga_pos. Qed.
    Lemma A_sq : A ^ 2 = n0 ^ 2 - b ^ 2.
    Proof. unfold A. rewrite <- Rsqr_pow2. rewrite Rsqr_sqrt; [reflexivity | left; apply al_pos]. Qed.
    Lemma G_sq : G ^ 2 = n ^ 2 - b ^ 2.
    Proof. unfold G. rewrite <- Rsqr_pow2. rewrite Rsqr_sqrt; [reflexivity | left; apply ga_pos]. Qed.

    Lemma ga_derive : is_derive (ga b) z (- 2 * a * n * (n0 - n)).
    Proof.
      unfold ga. auto_derive.
      - eexists; apply nz_derive.
      - derive_is (nz_derive z). fold n. ring.
    Qed.

    Ltac side :=
      repeat match goal with |- _ /\ _ => split end;
      repeat match goal with
      | |- True => exact I
      | |- ex_derive ?f _ =>
          match f with
          | context [ga] => eexists; apply ga_derive
          | context [nz] => eexists; apply nz_derive
          end
      | |- 0 < ga _ _ => apply ga_pos
      end.

    Lemma sqrt_ga_derive : is_derive (fun y => sqrt (ga b y)) z (- a * n * (n0 - n) / G).
    Proof.
      pose proof G_pos as HG.
      auto_derive.
      - side.
      - derive_is ga_derive. fold G. field. lra.
    Qed.

    Lemma lg2_derive : is_derive (lg2 b) z (- a * (n0 - n) * lg2 b z / G).
    Proof.
      pose proof G_pos as HG.
      unfold lg2.
      auto_derive.
      - side.
      - derive_is (nz_derive z). derive_is ga_derive.
        fold n. fold G. field. lra.
    Qed.

    Lemma L2_derive : is_derive (L2 b) z (- (n0 - n) / G).
    Proof.
      pose proof G_pos as HG.
      assert (Hp : 0 < lg2 b z) by (apply lg2_pos; unfold n in *; lra).
      unfold L2. auto_derive.
      - side. eexists; apply lg2_derive. exact Hp.
      - derive_is lg2_derive. field. repeat split; lra.
    Qed.

    Lemma lg1_derive : is_derive (lg1 b) z (a * (n0 - n) * (A * n / G - n0)).
    Proof.
      pose proof G_pos as HG. pose proof A_pos as HA. pose proof al_pos as Hal. pose proof ga_pos as Hga.
      pose proof A_sq as HA2.
      assert (HAG : sqrt (al b * ga b z) = A * G) by (unfold A, G; rewrite <- sqrt_mult by lra; reflexivity).
      unfold lg1. auto_derive.
      - side. apply Rmult_lt_0_compat; assumption.
      - derive_is (nz_derive z). derive_is ga_derive.
        fold n. rewrite HAG. 
        replace (al b) with (A ^ 2) by (rewrite HA2; reflexivity).
        field. split; lra.
    Qed.

    Lemma L1_derive : is_derive (L1 b) z (A / G).
    Proof.
      pose proof G_pos as HG. pose proof A_pos as HA. pose proof al_pos as Hal. pose proof ga_pos as Hga.
      assert (Hl : 0 < lg1 b z) by (apply lg1_pos; lra).
      assert (HAG : sqrt (al b * ga b z) = A * G) by (unfold A, G; rewrite <- sqrt_mult by lra; reflexivity).
      pose proof A_sq as HA2. pose proof G_sq as HG2.
      unfold L1. auto_derive.
      - side. eexists; apply lg1_derive. exact Hl.
      - derive_is lg1_derive.
        unfold lg1 in Hl |- *. fold n in Hl |- *. rewrite HAG in Hl |- *.
        clearbody A G n.
        field_simplify_eq; [|repeat split; lra].
        (* (n0 - n)(A n - n0 G) = (A + G)(n0 n - b^2 - A G), using A^2, G^2 *)
        replace (A * a * n0 * n - A * a * n ^ 2 - a * n0 ^ 2 * G + a * n0 * n * G - a * n0 * n * G + a * b ^ 2 * G + a * A * G ^ 2)
          with (a * (A * n0 * n - A * n ^ 2 - n0 ^ 2 * G + b ^ 2 * G + A * G ^ 2)) by ring.
        rewrite HG2. 
        replace (a * n0 * n * A - a * b ^ 2 * A - a * A ^ 2 * G) with (a * (n0 * n * A - b ^ 2 * A - A ^ 2 * G)) by ring.
        rewrite HA2. ring.
    Qed.

    (* closed forms of the three indefinite integrals (shallow branch) *)
    Lemma dist_cf_derive : is_derive (fun y => b / sqrt (al b) * L1 b y) z (b / G).
    Proof.
      pose proof G_pos as HG. pose proof A_pos as HA.
      auto_derive.
      - eexists; apply L1_derive.
      - derive_is L1_derive. fold A. field. split; lra.
    Qed.

    Lemma plen_cf_derive : is_derive (fun y => n0 / sqrt (al b) * L1 b y + L2 b y) z (n / G).
    Proof.
      pose proof G_pos as HG. pose proof A_pos as HA.
      auto_derive.
      - split; [eexists; apply L1_derive | split; [eexists; apply L2_derive | exact I]].
      - derive_is L1_derive. derive_is L2_derive. fold A. fold n. field. split; lra.
    Qed.

    Lemma tof_cf_derive c : c <> 0 ->
      is_derive (fun y => (sqrt (ga b y) / a + n0 * L2 b y + n0 ^ 2 / sqrt (al b) * L1 b y) / c) z
                (n ^ 2 / (c * G)).
    Proof.
      intros Hc. pose proof G_pos as HG. pose proof A_pos as HA. pose proof G_sq as HG2.
      auto_derive.
      - split; [eexists; apply ga_derive|]. split; [apply ga_pos|].
        split; [eexists; apply L2_derive|]. split; [eexists; apply L1_derive | exact I].
      - derive_is ga_derive. derive_is L1_derive. derive_is L2_derive. fold A. fold n. fold G.
        field. repeat split; lra.
    Qed.
  End Derivs.

  (* ---------------------------------------------------------------- definite integrals (FTC) *)
  Lemma above_on_segment b z0 z1 x : b < nz (Rmax z0 z1) -> Rmin z0 z1 <= x <= Rmax z0 z1 -> b < nz x.
  Proof. intros H [_ Hx]. pose proof (nz_monotone x (Rmax z0 z1) Hx). lra. Qed.

  Lemma cont_inv_sqrt_ga b x (g : R -> R) : 0 < b -> b < nz x ->
    ex_derive g x -> continuous (fun y => g y / sqrt (ga b y)) x.
  Proof.
    intros Hb Hn Hg. apply (ex_derive_continuous (K:=R_AbsRing) (V:=R_NormedModule) (fun y => g y / sqrt (ga b y)) x).
    auto_derive. split; [exact Hg|]. split; [eexists; apply (ga_derive b x)|].
    split; [apply ga_pos; assumption|]. split; [|exact I].
    apply Rgt_not_eq, sqrt_lt_R0, ga_pos; assumption.
  Qed.

  Lemma dist_definite b z0 z1 : 0 < b -> b < nz (Rmax z0 z1) ->
    is_RInt (fun y => b / sqrt (ga b y)) z0 z1
            (b / sqrt (al b) * L1 b z1 - b / sqrt (al b) * L1 b z0).
  Proof.
    intros Hb Hn.
    apply (is_RInt_derive (fun y => b / sqrt (al b) * L1 b y) (fun y => b / sqrt (ga b y))).
    - intros x Hx. apply dist_cf_derive; [assumption | eapply above_on_segment; eassumption].
    - intros x Hx. apply (cont_inv_sqrt_ga b x (fun _ => b)); [assumption | eapply above_on_segment; eassumption|].
      auto_derive. exact I.
  Qed.

  Lemma plen_definite b z0 z1 : 0 < b -> b < nz (Rmax z0 z1) ->
    is_RInt (fun y => nz y / sqrt (ga b y)) z0 z1
            ((n0 / sqrt (al b) * L1 b z1 + L2 b z1) - (n0 / sqrt (al b) * L1 b z0 + L2 b z0)).
  Proof.
    intros Hb Hn.
    apply (is_RInt_derive (fun y => n0 / sqrt (al b) * L1 b y + L2 b y) (fun y => nz y / sqrt (ga b y))).
    - intros x Hx. apply plen_cf_derive; [assumption | eapply above_on_segment; eassumption].
    - intros x Hx. apply (cont_inv_sqrt_ga b x nz); [assumption | eapply above_on_segment; eassumption|].
      eexists; apply nz_derive.
  Qed.

  Lemma tof_definite c b z0 z1 : c <> 0 -> 0 < b -> b < nz (Rmax z0 z1) ->
    is_RInt (fun y => nz y ^ 2 / (c * sqrt (ga b y))) z0 z1
            ((sqrt (ga b z1) / a + n0 * L2 b z1 + n0 ^ 2 / sqrt (al b) * L1 b z1) / c
             - (sqrt (ga b z0) / a + n0 * L2 b z0 + n0 ^ 2 / sqrt (al b) * L1 b z0) / c).
  Proof.
    intros Hc Hb Hn.
    apply (is_RInt_derive (fun y => (sqrt (ga b y) / a + n0 * L2 b y + n0 ^ 2 / sqrt (al b) * L1 b y) / c)
                          (fun y => nz y ^ 2 / (c * sqrt (ga b y)))).
    - intros x Hx. apply tof_cf_derive; [assumption | eapply above_on_segment; eassumption | assumption].
    - intros x Hx.
      assert (Hnx : b < nz x) by (eapply above_on_segment; eassumption).
      apply continuous_ext with (fun y => (nz y ^ 2 / c) / sqrt (ga b y)).
      + intros t. change (@eq R (nz t ^ 2 / c / sqrt (ga b t)) (nz t ^ 2 / (c * sqrt (ga b t)))).
        unfold Rdiv. rewrite Rinv_mult. ring.
      + apply (cont_inv_sqrt_ga b x (fun y => nz y ^ 2 / c)); [assumption..|].
        auto_derive. eexists; apply nz_derive.
  Qed.

  (* ---------------------------------------------------------------- the beta = 0 (vertical) forms *)
  Lemma tof_vertical_derive c z : c <> 0 ->
    is_derive (fun y => ((nz y - n0) / a + n0 * y) / c) z (nz z / c).
  Proof.
    intros Hc. auto_derive.
    - eexists; apply nz_derive.
    - derive_is (nz_derive z). field. split; lra.
  Qed.

  (* ---------------------------------------------------------------- the deep (uniform n0) forms *)
  Lemma dist_deep_derive b z : is_derive (fun y => b * y / sqrt (al b)) z (b / sqrt (n0 ^ 2 - b ^ 2)).
  Proof.
    unfold al. auto_derive; [exact I |].
    match goal with |- context [sqrt ?e] => replace e with (n0 ^ 2 - b ^ 2) by ring end.
    unfold Rdiv; ring.
  Qed.

  Lemma plen_deep_derive b z : is_derive (fun y => n0 * y / sqrt (al b)) z (n0 / sqrt (n0 ^ 2 - b ^ 2)).
  Proof.
    unfold al. auto_derive; [exact I |].
    match goal with |- context [sqrt ?e] => replace e with (n0 ^ 2 - b ^ 2) by ring end.
    unfold Rdiv; ring.
  Qed.

  Lemma tof_deep_derive c b z : c <> 0 -> b < n0 -> - n0 < b ->
    is_derive (fun y => n0 * (nz y + n0 * (a * y - 1)) / (a * sqrt (al b) * c)) z
              (n0 * nz z / (c * sqrt (n0 ^ 2 - b ^ 2))).
  Proof.
    intros Hc Hb1 Hb2. assert (0 < al b) by (unfold al; nra).
    assert (0 < sqrt (al b)) by (apply sqrt_lt_R0; assumption).
    auto_derive.
    - eexists; apply nz_derive.
    - derive_is (nz_derive z). fold (al b). field. repeat split; lra.
  Qed.

  (* ---------------------------------------------------------------- continuity up to the turning depth *)
  (* At the turning depth gamma = 0: the closed forms stay continuous there (sqrt is continuous at 0),
     although their derivatives blow up.  Used for the improper integrals of indirect rays. *)
  Lemma cR_plus (f g : R -> R) x : continuous f x -> continuous g x -> continuous (fun y => f y + g y) x.
  Proof. exact (continuous_plus f g x). Qed.
  Lemma cR_minus (f g : R -> R) x : continuous f x -> continuous g x -> continuous (fun y => f y - g y) x.
  Proof. exact (continuous_minus f g x). Qed.
  Lemma cR_mult (f g : R -> R) x : continuous f x -> continuous g x -> continuous (fun y => f y * g y) x.
  Proof. exact (continuous_mult f g x). Qed.
  Lemma cR_opp (f : R -> R) x : continuous f x -> continuous (fun y => - f y) x.
  Proof. exact (continuous_opp f x). Qed.
  Lemma cR_const (c x : R) : continuous (fun _ : R => c) x.
  Proof. apply continuous_const. Qed.
  Lemma cR_id (x : R) : continuous (fun y : R => y) x.
  Proof. apply continuous_id. Qed.
  Lemma cR_sqrt (f : R -> R) x : continuous f x -> continuous (fun y => sqrt (f y)) x.
  Proof. intros H. apply (continuous_comp f sqrt x H). apply continuous_sqrt. Qed.
  Lemma cR_ln (f : R -> R) x : 0 < f x -> continuous f x -> continuous (fun y => ln (f y)) x.
  Proof.
    intros Hp H. apply (continuous_comp f ln x H).
    apply (ex_derive_continuous (K:=R_AbsRing) (V:=R_NormedModule) ln (f x)). auto_derive. exact Hp.
  Qed.

  Lemma nz_continuous z : continuous nz z.
  Proof. apply (ex_derive_continuous (K:=R_AbsRing) (V:=R_NormedModule) nz z). eexists; apply nz_derive. Qed.

  Ltac cont :=
    unfold Rdiv;
    repeat match goal with
    | |- continuous (fun _ => ?c) _ => apply cR_const
    | |- continuous (fun y => y) _ => apply cR_id
    | |- continuous nz _ => apply nz_continuous
    | |- continuous (fun y => nz y) _ => apply nz_continuous
    | |- continuous (fun y => @?f y + @?g y) _ => apply (cR_plus f g)
    | |- continuous (fun y => @?f y - @?g y) _ => apply (cR_minus f g)
    | |- continuous (fun y => @?f y * @?g y) _ => apply (cR_mult f g)
    | |- continuous (fun y => - @?f y) _ => apply (cR_opp f)
    | |- continuous (fun y => sqrt (@?f y)) _ => apply (cR_sqrt f)
    end.

  Lemma ga_continuous b z : continuous (ga b) z.
  Proof. unfold ga. simpl pow. cont. Qed.
  Lemma lg1_continuous b z : continuous (lg1 b) z.
  Proof. unfold lg1. cont; apply ga_continuous. Qed.
  Lemma lg2_continuous b z : continuous (lg2 b) z.
  Proof. unfold lg2. cont; apply ga_continuous. Qed.
  Lemma L1_continuous b z : 0 < lg1 b z -> continuous (L1 b) z.
  Proof. intros H. unfold L1. cont. apply (cR_ln (lg1 b)); [exact H | apply lg1_continuous]. Qed.
  Lemma L2_continuous b z : 0 < lg2 b z -> continuous (L2 b) z.
  Proof. intros H. unfold L2. cont. apply (cR_ln (lg2 b)); [exact H | apply lg2_continuous]. Qed.

  Ltac leaves H1 H2 :=
    match goal with
    | |- continuous (fun y => ga _ y) _ => apply ga_continuous
    | |- continuous (ga _) _ => apply ga_continuous
    | |- continuous (fun y => L1 _ y) _ => apply L1_continuous; exact H1
    | |- continuous (L1 _) _ => apply L1_continuous; exact H1
    | |- continuous (fun y => L2 _ y) _ => apply L2_continuous; exact H2
    | |- continuous (L2 _) _ => apply L2_continuous; exact H2
    end.

  Lemma dist_cf_continuous b z : 0 < lg1 b z -> continuous (fun y => b / sqrt (al b) * L1 b y) z.
  Proof. intros H. cont. all: leaves H H. Qed.
  Lemma plen_cf_continuous b z : 0 < lg1 b z -> 0 < lg2 b z ->
    continuous (fun y => n0 / sqrt (al b) * L1 b y + L2 b y) z.
  Proof. intros H1 H2. cont. all: leaves H1 H2. Qed.
  Lemma tof_cf_continuous c b z : 0 < lg1 b z -> 0 < lg2 b z ->
    continuous (fun y => (sqrt (ga b y) / a + n0 * L2 b y + n0 ^ 2 / sqrt (al b) * L1 b y) / c) z.
  Proof. intros H1 H2. cont. all: leaves H1 H2. Qed.
End ClosedForms.
