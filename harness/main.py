"""CLI: ./check <id> [--tier quick|thorough] [--replay file]"""
import argparse
import importlib
import json
import os
import sys
import traceback

from harness import common


def main():
    ap = argparse.ArgumentParser()
    ap.add_argument("pid")
    ap.add_argument("--tier", default=os.environ.get("VERIF_TIER", "quick"), choices=["quick", "thorough"])
    ap.add_argument("--replay")
    a = ap.parse_args()
    seed = int(os.environ.get("VERIF_SEED", "20261001"))
    mod = importlib.import_module("harness.props." + a.pid.lower())
    ctx = common.Ctx(a.pid, a.tier, seed)
    if a.replay:
        obj = json.load(open(a.replay))
        rc = mod.replay(ctx, obj.get("replay", obj))
        sys.exit(rc or 0)
    try:
        mod.run(ctx)
    except Exception:
        tb = traceback.format_exc()
        sys.stderr.write(tb)
        ctx.oblige("harness:completed", False, tb[-1500:])
    sys.exit(ctx.finish())


if __name__ == "__main__":
    main()
