"""Shared helpers of the C18 / C02 checks (ray tracers): construction of tracers from plain
JSON-able configurations, independent oracles (image method, Snell stacks), derived tolerances."""
import math

import numpy as np

C0 = 299792458.0
EPS = 2.220446049250313e-16
BRENT_DTHETA = 2.0e-12      # scipy brentq: |x - root| <= xtol + rtol*|x| = 1e-12 + 8.9e-16*pi, doubled


# ----------------------------------------------------------------------------- construction
def mk_uniform_ice(c):
    from pyrex.ice_model import UniformIce
    return UniformIce(c["n"], valid_range=(c["lo"], c["hi"]), index_above=c.get("above"), index_below=c.get("below"))


def mk_layer(c):
    from pyrex.ice_model import UniformIce, AntarcticIce
    if c["kind"] == "uniform":
        return UniformIce(c["n"], valid_range=(c["lo"], c["hi"]), index_above=c.get("above"), index_below=c.get("below"))
    kw = {}
    for k in ("n0", "k", "a"):
        if k in c:
            kw[k] = c[k]
    return AntarcticIce(valid_range=(c["lo"], c["hi"]), index_above=c.get("above"), index_below=c.get("below"), **kw)


def mk_layered_ice(c):
    from pyrex.custom.layered_ice import LayeredIce
    return LayeredIce([mk_layer(l) for l in c["layers"]], index_above=c.get("above"), index_below=c.get("below"))


def uniform_tracer(cfg):
    from pyrex.ray_tracing import UniformRayTracer
    cls = type("UniformRayTracerR%d" % cfg["max_reflections"], (UniformRayTracer,), {"max_reflections": cfg["max_reflections"]})
    return cls(cfg["from"], cfg["to"], mk_uniform_ice(cfg["ice"]))


def layered_tracer(cfg):
    from pyrex.custom.layered_ice import LayeredRayTracer
    cls = type("LayeredRayTracerR%d" % cfg["max_reflections"], (LayeredRayTracer,), {"max_reflections": cfg["max_reflections"]})
    return cls(cfg["from"], cfg["to"], mk_layered_ice(cfg["ice"]))


def fl(v):
    return [float(x) for x in v]


def vnorm(v):
    return math.sqrt(sum(float(x) ** 2 for x in v))


def vdiff(a, b):
    return max(abs(float(x) - float(y)) for x, y in zip(a, b))


# ----------------------------------------------------------------------------- image-method oracle
def uniform_expected(cfg):
    """Independent description of the solution set of UniformRayTracer by the method of images.
    Returns None when no solution may exist, else a list of dicts (k reflections, first direction d):
    length, unit emitted / received directions, image height, list of mirror planes."""
    ice = cfg["ice"]
    lo, hi, n = ice["lo"], ice["hi"], ice["n"]
    f, t = cfg["from"], cfg["to"]
    if not (lo <= f[2] <= hi and lo <= t[2] <= hi):
        return None
    out = []
    dx, dy = t[0] - f[0], t[1] - f[1]
    rho2 = dx * dx + dy * dy
    for k in range(0, cfg["max_reflections"] + 1):
        for d in ((0,) if k == 0 else (1, -1)):
            if k > 0:
                if ice.get("above") is None and (k > 1 or d == 1):
                    continue
                if ice.get("below") is None and (k > 1 or d == -1):
                    continue
            planes = [(hi if (d * (-1) ** j) == 1 else lo) for j in range(k)]
            zi = t[2]
            for p in reversed(planes):       # mirror the receiver back through the planes
                zi = 2 * p - zi
            dzi = zi - f[2]
            D = math.sqrt(rho2 + dzi * dzi)
            degenerate = k > 0 and (f[2] == planes[0] or t[2] == planes[-1])
            e = None if D == 0 else (dx / D, dy / D, dzi / D)
            r = None if e is None else (e[0], e[1], e[2] * (-1) ** k)
            out.append({"k": k, "d": d, "planes": planes, "image_z": zi, "length": D, "emitted": e, "received": r,
                        "tof": n * D / C0, "degenerate": degenerate, "zero_span": k > 0 and dzi == 0})
    return out


# ----------------------------------------------------------------------------- attenuation oracle
def total_variation_inv_alen(ice, z_a, z_b, freqs, samples=400):
    """Upper estimate of the total variation of 1/attenuation_length on [z_a, z_b] (per frequency)."""
    zs = np.linspace(z_a, z_b, samples)
    with np.errstate(all="ignore"):
        al = np.asarray(ice.attenuation_length(zs, np.asarray(freqs)))
    inv = 1.0 / al
    return np.sum(np.abs(np.diff(inv, axis=0)), axis=0) * 1.05


# ----------------------------------------------------------------------------- C01's cancellation bound
_ICEP = {}


def cancellation_bound(s):
    """C01's derived worst-case effect (radial distance, path length, tof) of the log_term_1 cancellation of the analytic
    tracer on this solution (harness.props.c01.log1_bound: shallow closed forms evaluated at the segment endpoints at or
    above z_uniform and at z_uniform when crossed).  For a layered path: the sum over its analytic sections, each with its
    layer's own range (z_uniform is clipped into the layer, as depth_with_index does).  Zero for other path classes."""
    name = type(s).__name__
    if name == "LayeredRayTracePath":
        tot = np.zeros(3)
        for p in s.paths:
            tot = tot + cancellation_bound(p)
        return tot
    if name != "SpecializedRayTracePath":
        return np.zeros(3)
    from harness.props import c01
    cls = type(s.ice).__name__
    if cls not in _ICEP:
        _ICEP[cls] = c01.ice_params(None, default_of=cls)
    icep = dict(_ICEP[cls])
    icep["lo"], icep["hi"] = float(s.ice.valid_range[0]), float(s.ice.valid_range[1])
    zf, zt = float(s.from_point[2]), float(s.to_point[2])
    em = fl(s.emitted_direction)
    beta = c01.nprof(icep, zf) * math.hypot(em[0], em[1])
    zu = min(max(c01.z_uniform_of(icep), icep["lo"]), icep["hi"])
    if s.direct:
        legs = [(min(zf, zt), max(zf, zt), False)]
    else:
        ntop = c01.nprof(icep, icep["hi"])
        zturn = icep["hi"] if beta <= ntop else math.log((icep["n0"] - beta) / icep["k"]) / icep["a"]
        legs = [(zf, zturn, True), (zt, zturn, True)]
    with np.errstate(all="ignore"):
        return np.asarray(c01.log1_bound(icep, beta, legs, zu), dtype=float)
