(* Signals as (times, values, value_type) and the pointwise operations on them that the
   antenna / propagation code uses (copy, set type, scale, add, shift), with energy and
   linear combinations.  The frequency filter itself is C05's (Lib/DFT.v, Model/FilterModel.v
   of that property); here it only ever appears as a function argument. *)
From Coq Require Import Reals List Bool ZArith Lra.
Import ListNotations.
Open Scope R_scope.

Record Sig := mkSig { sg_times : list R; sg_values : list R; sg_type : Z }.

(* Signal.Type enum values (pyrex/signals.py); the generated files carry the values read
   from the source and Proofs check they are these. *)
Definition ty_undefined : Z := 0%Z.
Definition ty_voltage : Z := 1%Z.
Definition ty_field : Z := 2%Z.
Definition ty_power : Z := 3%Z.

Definition sig_copy (s : Sig) : Sig := mkSig (sg_times s) (sg_values s) (sg_type s).
Definition sig_set_type (t : Z) (s : Sig) : Sig := mkSig (sg_times s) (sg_values s) t.
Definition sig_scale (c : R) (s : Sig) : Sig := mkSig (sg_times s) (map (Rmult c) (sg_values s)) (sg_type s).
Definition sig_shift (dt : R) (s : Sig) : Sig := mkSig (map (fun t => t + dt) (sg_times s)) (sg_values s) (sg_type s).
Definition sig_with_values (v : list R) (s : Sig) : Sig := mkSig (sg_times s) v (sg_type s).

Fixpoint map2 {A B D} (f : A -> B -> D) (a : list A) (b : list B) : list D :=
  match a, b with
  | x :: a', y :: b' => f x y :: map2 f a' b'
  | _, _ => []
  end.

Definition vals_add (xs ys : list R) : list R := map2 Rplus xs ys.
Definition lincomb (a b : R) (xs ys : list R) : list R := map2 (fun x y => a * x + b * y) xs ys.

Fixpoint energy (xs : list R) : R :=
  match xs with [] => 0 | x :: t => x * x + energy t end.

Lemma map2_length {A B D} (f : A -> B -> D) a b : length a = length b -> length (map2 f a b) = length a.
Proof. revert b; induction a; destruct b; simpl; intros; try discriminate; auto. Qed.

Lemma energy_nonneg xs : 0 <= energy xs.
Proof. induction xs; simpl; [lra | nra]. Qed.

Lemma energy_scale c xs : energy (map (Rmult c) xs) = c * c * energy xs.
Proof. induction xs; simpl; [ring | rewrite IHxs; ring]. Qed.

Lemma map_scale_lincomb c a b xs ys :
  map (Rmult c) (lincomb a b xs ys) = lincomb a b (map (Rmult c) xs) (map (Rmult c) ys).
Proof.
  unfold lincomb. revert ys; induction xs; destruct ys; simpl; try reflexivity.
  rewrite IHxs. f_equal. ring.
Qed.

Lemma map_scale_scale c d xs : map (Rmult c) (map (Rmult d) xs) = map (Rmult (c * d)) xs.
Proof. rewrite map_map. apply map_ext. intros; ring. Qed.

Lemma lincomb_length a b xs ys : length xs = length ys -> length (lincomb a b xs ys) = length xs.
Proof. apply map2_length. Qed.

(* list equality from pointwise equality (how C05 states linearity) *)
Lemma nth_ext_R (l l' : list R) :
  length l = length l' -> (forall n, (n < length l)%nat -> nth n l 0 = nth n l' 0) -> l = l'.
Proof. intros L H. apply (nth_ext l l' 0 0 L H). Qed.

Lemma nth_lincomb a b xs ys n : length xs = length ys ->
  nth n (lincomb a b xs ys) 0 = a * nth n xs 0 + b * nth n ys 0.
Proof.
  unfold lincomb. revert ys n; induction xs; destruct ys; simpl; intros n L; try discriminate.
  - destruct n; ring.
  - destruct n; [reflexivity | apply IHxs; congruence].
Qed.
