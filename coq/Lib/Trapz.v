(* The trapezoid rule lies in the Darboux bracket of any per-cell bounds, and so does the
   Riemann integral: a discretisation error bound that needs no smoothness (the Earth's
   density jumps at shell boundaries). *)
From Coq Require Import Reals List Lra.
From Coquelicot Require Import Coquelicot.
From PyrexLib Require Import RealPrims.
Import ListNotations.
Open Scope R_scope.

(* sum over the cells [x_i, x_{i+1}] of (x_{i+1} - x_i) * b_i *)
Fixpoint cell_sum (xs bs : list R) : R :=
  match xs, bs with
  | x0 :: ((x1 :: _) as xs'), b :: bs' => (x1 - x0) * b + cell_sum xs' bs'
  | _, _ => 0
  end.

(* xs is a partition (non-decreasing) with one pair of bounds m_i <= f <= M_i per cell *)
Fixpoint cells_bounded (f : R -> R) (xs ms Ms : list R) : Prop :=
  match xs with
  | x0 :: ((x1 :: _) as xs') =>
      match ms, Ms with
      | m :: ms', M :: Ms' =>
          x0 <= x1 /\ (forall t, x0 <= t <= x1 -> m <= f t <= M) /\ cells_bounded f xs' ms' Ms'
      | _, _ => False
      end
  | _ => ms = [] /\ Ms = []
  end.

Lemma trapz_in_darboux_bracket f xs : forall ms Ms,
  cells_bounded f xs ms Ms ->
  cell_sum xs ms <= trapz xs (map f xs) <= cell_sum xs Ms.
Proof.
  induction xs as [|x0 xs IH]; intros ms Ms H.
  - simpl. lra.
  - destruct xs as [|x1 xs].
    + simpl. lra.
    + destruct ms as [|m ms]; [simpl in H; tauto|].
      destruct Ms as [|M Ms]; [simpl in H; tauto|].
      simpl in H. destruct H as (Hle & Hb & Hrest).
      specialize (IH ms Ms Hrest).
      pose proof (Hb x0 ltac:(lra)) as B0. pose proof (Hb x1 ltac:(lra)) as B1.
      change (trapz (x0 :: x1 :: xs) (map f (x0 :: x1 :: xs)))
        with ((x1 - x0) * (f x0 + f x1) / 2 + trapz (x1 :: xs) (map f (x1 :: xs))).
      change (cell_sum (x0 :: x1 :: xs) (m :: ms)) with ((x1 - x0) * m + cell_sum (x1 :: xs) ms).
      change (cell_sum (x0 :: x1 :: xs) (M :: Ms)) with ((x1 - x0) * M + cell_sum (x1 :: xs) Ms).
      assert (0 <= x1 - x0) by lra.
      assert ((x1 - x0) * m <= (x1 - x0) * (f x0 + f x1) / 2) by nra.
      assert ((x1 - x0) * (f x0 + f x1) / 2 <= (x1 - x0) * M) by nra.
      lra.
Qed.

Lemma last_cons : forall (xs : list R) (a d : R), last (a :: xs) d = last xs a.
Proof.
  induction xs as [|b xs IH]; intros a d; [reflexivity|].
  change (last (a :: b :: xs) d) with (last (b :: xs) d).
  rewrite (IH b d), (IH b a). reflexivity.
Qed.

(* the same bracket contains the integral whenever it exists *)
Lemma rint_in_darboux_bracket f xs : forall ms Ms x0,
  cells_bounded f (x0 :: xs) ms Ms ->
  ex_RInt f x0 (last xs x0) ->
  cell_sum (x0 :: xs) ms <= RInt f x0 (last xs x0) <= cell_sum (x0 :: xs) Ms.
Proof.
  induction xs as [|x1 xs IH]; intros ms Ms x0 H Hex.
  - simpl. rewrite RInt_point. unfold zero; simpl. lra.
  - destruct ms as [|m ms]; [simpl in H; tauto|].
    destruct Ms as [|M Ms]; [simpl in H; tauto|].
    simpl in H. destruct H as (Hle & Hb & Hrest).
    assert (Hlast : last (x1 :: xs) x0 = last xs x1) by apply last_cons.
    rewrite Hlast in *.
    assert (Hmono : x1 <= last xs x1).
    { clear - Hrest. revert x1 ms Ms Hrest. induction xs as [|a xs IHx]; intros x1 ms Ms Hrest.
      - simpl. lra.
      - destruct ms as [|m' ms]; [simpl in Hrest; tauto|].
        destruct Ms as [|M' Ms]; [simpl in Hrest; tauto|].
        simpl in Hrest. destruct Hrest as (Hl & _ & Hr).
        specialize (IHx a ms Ms Hr).
        assert (H : last (a :: xs) x1 = last xs a) by apply last_cons.
        rewrite H. lra. }
    assert (Hex1 : ex_RInt f x0 x1) by (apply (ex_RInt_Chasles_1 f x0 x1 (last xs x1)); [lra|assumption]).
    assert (Hex2 : ex_RInt f x1 (last xs x1)) by (apply (ex_RInt_Chasles_2 f x0 x1 (last xs x1)); [lra|assumption]).
    specialize (IH ms Ms x1 Hrest Hex2).
    rewrite <- (RInt_Chasles f x0 x1 (last xs x1)) by assumption.
    change (cell_sum (x0 :: x1 :: xs) (m :: ms)) with ((x1 - x0) * m + cell_sum (x1 :: xs) ms).
    change (cell_sum (x0 :: x1 :: xs) (M :: Ms)) with ((x1 - x0) * M + cell_sum (x1 :: xs) Ms).
    change (plus (RInt f x0 x1) (RInt f x1 (last xs x1))) with (RInt f x0 x1 + RInt f x1 (last xs x1)).
    assert (Hc : (x1 - x0) * m <= RInt f x0 x1 <= (x1 - x0) * M).
    { split.
      - replace ((x1 - x0) * m) with (RInt (fun _ => m) x0 x1)
          by (rewrite RInt_const; unfold scal; simpl; unfold mult; simpl; ring).
        apply RInt_le; [assumption|apply ex_RInt_const|assumption|].
        intros t Ht. apply (Hb t). lra.
      - replace ((x1 - x0) * M) with (RInt (fun _ => M) x0 x1)
          by (rewrite RInt_const; unfold scal; simpl; unfold mult; simpl; ring).
        apply RInt_le; [assumption|assumption|apply ex_RInt_const|].
        intros t Ht. apply (Hb t). lra. }
    lra.
Qed.

(* hence trapezoid and integral differ by at most the width of the bracket *)
Lemma trapz_error_bound f xs ms Ms x0 :
  cells_bounded f (x0 :: xs) ms Ms ->
  ex_RInt f x0 (last xs x0) ->
  Rabs (trapz (x0 :: xs) (map f (x0 :: xs)) - RInt f x0 (last xs x0))
    <= cell_sum (x0 :: xs) Ms - cell_sum (x0 :: xs) ms.
Proof.
  intros H Hex.
  pose proof (trapz_in_darboux_bracket f (x0 :: xs) ms Ms H).
  pose proof (rint_in_darboux_bracket f xs ms Ms x0 H Hex).
  apply Rabs_le. lra.
Qed.
