(* Executable model of pyrex/io.py (HDF5Writer.add and helpers, append-mode open,
   EventIterator, HDF5Reader.__getitem__/__iter__/__len__) and of
   pyrex/generation.py FileGenerator, written to follow the code AS WRITTEN
   (stage order of add, counters, index table, rollback on failure, chunk loading).
   No proofs here.  Rows of every dataset carry integer tags.

   Tables (datasets indexed per event):
     P /monte_carlo_data/particles   one row per particle            row = [tag]
     T /data/triggers                one row per event               row = [0|1]
     M /monte_carlo_data/triggers    one row per waveform index      row = [bitmask of true component names]
     R /monte_carlo_data/rays        one row per ray index           row = tag per antenna (0 = no ray)
     N /monte_carlo_data/noise       one row per event               row = tag per antenna (0 = no noise master)
     W /data/waveforms               one row per waveform index      row = tag per antenna (0 = no waveform) *)
From Coq Require Import List ZArith Bool Lia.
Import ListNotations.
Open Scope Z_scope.

(* ------------------------------------------------------------------ basic types *)
Inductive tid := P | T | M | R | N | W.
Inductive okey := OP | OT | OA | OW | OR | ON.   (* keys of _write_data / _trig_only *)

Definition tid_eqb (a b : tid) : bool :=
  match a, b with P,P | T,T | M,M | R,R | N,N | W,W => true | _,_ => false end.
Definition okey_eqb (a b : okey) : bool :=
  match a, b with OP,OP | OT,OT | OA,OA | OW,OW | OR,OR | ON,ON => true | _,_ => false end.

Definition all_tids : list tid := [P; T; M; R; N; W].
Definition tid_code (t : tid) : Z := match t with P => 0 | T => 1 | M => 2 | R => 3 | N => 4 | W => 5 end.

(* a value per table *)
Record per (A : Type) := mkPer { pP : A; pT : A; pM : A; pR : A; pN : A; pW : A }.
Arguments mkPer {A}. Arguments pP {A}. Arguments pT {A}. Arguments pM {A}.
Arguments pR {A}. Arguments pN {A}. Arguments pW {A}.
Definition get {A} (p : per A) (t : tid) : A :=
  match t with P => pP p | T => pT p | M => pM p | R => pR p | N => pN p | W => pW p end.
Definition set {A} (p : per A) (t : tid) (v : A) : per A :=
  match t with
  | P => mkPer v (pT p) (pM p) (pR p) (pN p) (pW p)
  | T => mkPer (pP p) v (pM p) (pR p) (pN p) (pW p)
  | M => mkPer (pP p) (pT p) v (pR p) (pN p) (pW p)
  | R => mkPer (pP p) (pT p) (pM p) v (pN p) (pW p)
  | N => mkPer (pP p) (pT p) (pM p) (pR p) v (pW p)
  | W => mkPer (pP p) (pT p) (pM p) (pR p) (pN p) v
  end.
Definition per_all {A} (v : A) : per A := mkPer v v v v v v.
Definition per_map {A B} (f : tid -> A -> B) (p : per A) : per B :=
  mkPer (f P (pP p)) (f T (pT p)) (f M (pM p)) (f R (pR p)) (f N (pN p)) (f W (pW p)).
Definition per_list {A} (p : per A) : list A := [pP p; pT p; pM p; pR p; pN p; pW p].
Definition per_tuple {A} (p : per A) := (pP p, pT p, pM p, pR p, pN p, pW p).

Definition row := list Z.
Definition zlen {A} (l : list A) : Z := Z.of_nat (length l).
Definition b2z (b : bool) : Z := if b then 1 else 0.

(* exceptions (codes are what the harness compares) *)
Inductive exn := EValue | EType | EIndex | EAttr | EKey | EStop.
Definition exn_code (e : exn) : Z :=
  match e with EValue => 1 | EType => 2 | EIndex => 3 | EAttr => 4 | EKey => 5 | EStop => 6 end.

(* ------------------------------------------------------------------ writer options *)
Inductive req := RBool (b : bool) | RList (l : list okey).
(* argument order: write_particles write_triggers write_antenna_triggers write_rays
   write_noise write_waveforms require_trigger *)
Record opts := mkOpts { wP : bool; wT : bool; wA : bool; wR : bool; wN : bool; wW : bool; rq : req }.

Definition write_data (o : opts) (k : okey) : bool :=
  match k with OP => wP o | OT => wT o | OA => wA o | OW => wW o | OR => wR o | ON => wN o end.

(* HDF5Writer.__init__: _trig_only *)
Definition trig_only (o : opts) (k : okey) : bool :=
  match rq o with
  | RBool b => if b then match k with OP | OT | OA => false | _ => true end else false
  | RList l => existsb (okey_eqb k) l
  end.
Definition any_trig_only (o : opts) : bool := existsb (trig_only o) [OP; OT; OA; OW; OR; ON].
(* __init__ raises ValueError for write_antenna_triggers without write_triggers *)
Definition opts_valid (o : opts) : bool := negb (wA o && negb (wT o)).

(* ------------------------------------------------------------------ add() input *)
Inductive xval := XBool (b : bool) | XList (l : list bool).
(* triggered argument: None | bool | dict (global?, other keys in dict order, key = name bit) | other type *)
Inductive trig := TNone | TBool (b : bool) | TDict (g : option bool) (x : list (Z * xval)) | TBad.
(* polarizations argument relative to ray_paths: well formed | None | one list too many |
   antenna i has one entry too many | entry (antenna i, ray j) has only two components *)
Inductive pols := PolOk | PolNone | PolOuter | PolInner (i : Z) | PolVec (i j : Z).
(* other malformed inputs: last particle has a non-scalar metadata value | last antenna lacks
   _noise_master | last antenna has one extra waveform object without .values *)
Inductive fault := FNone | FMeta | FNoise | FWave.

Record add_in := mkAdd {
  a_parts : list Z;               (* particle tags *)
  a_trig : trig;
  a_waves : list (list Z);        (* per antenna: tags of ant.all_waveforms *)
  a_rays : option (list (list Z));(* ray_paths: per entry, ray tags *)
  a_pols : pols;
  a_noise : list Z;               (* per antenna noise tag *)
  a_thrown : Z;
  a_fault : fault }.

(* _check_trigger *)
Definition check_trigger (t : trig) : exn + bool :=
  match t with
  | TBool b => inr b
  | TDict (Some g) _ => inr g
  | TDict None _ => inl EValue
  | _ => inl EType
  end.
Definition trig_val (a : add_in) : bool :=
  match check_trigger (a_trig a) with inr b => b | inl _ => false end.
Definition trig_extra (a : add_in) : list (Z * xval) :=
  match a_trig a with TDict _ x => x | _ => [] end.
Definition has_extra (a : add_in) : bool := match trig_extra a with [] => false | _ => true end.

Definition list_max (l : list Z) : Z := fold_right Z.max 0 l.
Definition nthZ {A} (l : list A) (i : Z) (d : A) : A := if i <? 0 then d else nth (Z.to_nat i) l d.
Definition zseq (n : Z) : list Z := map Z.of_nat (seq 0 (Z.to_nat n)).

(* the detector's waveform lists as seen by the writer (fault FWave appends one malformed
   waveform, tag -1, to the last antenna) *)
Definition eff_waves (a : add_in) : list (list Z) :=
  match a_fault a with
  | FWave => match rev (a_waves a) with [] => [] | l :: r => rev r ++ [l ++ [-1]] end
  | _ => a_waves a
  end.
Definition max_waves (a : add_in) : Z := list_max (map zlen (eff_waves a)).

Definition odd_tag (x : Z) : bool := Z.odd x.

(* data content of the rows an add records (shared by the model and the specification) *)
Definition part_rows (a : add_in) : list row := map (fun x => [x]) (a_parts a).
Definition wave_rows (a : add_in) : list row :=
  map (fun j => map (fun ws => nthZ ws j 0) (eff_waves a)) (zseq (max_waves a)).
Definition ray_rows (a : add_in) : list row :=
  match a_rays a with
  | None => []
  | Some rp => map (fun j => map (fun paths => nthZ paths j 0) rp) (zseq (list_max (map zlen rp)))
  end.
Definition pow2 (b : Z) : Z := Z.shiftl 1 b.
Definition xval_at (v : xval) (j : Z) : bool :=
  match v with XBool b => b | XList l => nthZ l j false end.
(* component-trigger mask of waveform index j *)
Definition mc_mask (incl : bool) (a : add_in) (j : Z) : Z :=
  (if incl then
     fold_right Z.add 0
       (map (fun iw => if odd_tag (nthZ (snd iw) j 0) then pow2 (fst iw) else 0)
            (combine (zseq (zlen (eff_waves a))) (eff_waves a)))
   else 0)
  + fold_right Z.add 0 (map (fun kv => if xval_at (snd kv) j then pow2 (fst kv) else 0) (trig_extra a)).
Definition mc_rows (incl : bool) (a : add_in) : list row :=
  map (fun j => [mc_mask incl a j]) (zseq (max_waves a)).

(* ------------------------------------------------------------------ writer state *)
(* An analysis dataset (create_analysis_dataset) with its column of the index table
   (add_analysis_indices): the dataset exists / its rows / the column exists / the index
   entries written so far, newest first (event number, (start, length)); events without an
   entry read the zero-filled cell (0, 0).  add() never touches it (it is not in _counters). *)
Record astate := mkA { a_ex : bool; a_rows : list row; a_col : bool; a_ent : list (Z * (Z * Z)) }.
Definition ana0 : astate := mkA false [] false [].

Record wstate := mkW {
  rowsOf : per (list row);     (* dataset contents *)
  cntOf : per Z;               (* _counters[table] *)
  exOf : per bool;             (* dataset / group exists in the file *)
  cols : list tid;             (* attrs['keys'] of /event_indices, in order *)
  idx : list (per (Z * Z));    (* /event_indices rows; absent columns read (0,0) *)
  nidx : Z;                    (* _counters['indices'] *)
  thrown : option Z;           (* attrs['total_thrown'] of the particles group *)
  ana : astate                 (* one analysis dataset and its index column *)
}.
Definition init_state : wstate :=
  mkW (per_all []) (per_all 0) (per_all false) [] [] 0 None ana0.

Definition set_rows (st : wstate) (t : tid) (r : list row) : wstate :=
  mkW (set (rowsOf st) t r) (cntOf st) (exOf st) (cols st) (idx st) (nidx st) (thrown st) (ana st).
Definition set_cnt (st : wstate) (t : tid) (c : Z) : wstate :=
  mkW (rowsOf st) (set (cntOf st) t c) (exOf st) (cols st) (idx st) (nidx st) (thrown st) (ana st).
Definition set_thrown (st : wstate) (v : option Z) : wstate :=
  mkW (rowsOf st) (cntOf st) (exOf st) (cols st) (idx st) (nidx st) v (ana st).

Definition zero_cells : per (Z * Z) := per_all (0, 0).
(* h5py resize of the first axis: truncate or zero-fill (zero rows are written [] here; they are
   either overwritten by put_rows or discarded by the rollback) *)
Definition resize_rows (r : list row) (n : Z) : list row :=
  if n <=? zlen r then firstn (Z.to_nat n) r else r ++ repeat [] (Z.to_nat (n - zlen r)).
(* _create_dataset / _create_metadataset followed by resize(counter, axis=0) *)
Definition create_resize (st : wstate) (t : tid) : wstate :=
  mkW (set (rowsOf st) t (resize_rows (get (rowsOf st) t) (get (cntOf st) t))) (cntOf st)
      (set (exOf st) t true) (cols st) (idx st) (nidx st) (thrown st) (ana st).
(* dataset[start + i] = rows[i] *)
Definition put_rows (st : wstate) (t : tid) (start : Z) (new : list row) : wstate :=
  let old := get (rowsOf st) t in
  set_rows st t (firstn (Z.to_nat start) old ++ new ++ skipn (Z.to_nat start + length new) old).

Fixpoint update_nth {A} (n : nat) (f : A -> A) (l : list A) : list A :=
  match l, n with
  | [], _ => []
  | x :: r, O => f x :: r
  | x :: r, S k => x :: update_nth k f r
  end.
(* indices[g, column of t] = v, growing the first axis (zero filled) to g+1 rows if needed *)
Definition set_cell (ix : list (per (Z * Z))) (g : Z) (t : tid) (v : Z * Z) : list (per (Z * Z)) :=
  let ix1 := if zlen ix <=? g then ix ++ repeat zero_cells (Z.to_nat (g + 1 - zlen ix)) else ix in
  update_nth (Z.to_nat g) (fun r => set r t v) ix1.
(* _write_indices (global_index_value = _counters['indices']) *)
Definition write_indices (st : wstate) (t : tid) (start len : Z) : wstate :=
  if negb (get (exOf st) t) then st
  else mkW (rowsOf st) (cntOf st) (exOf st)
           (if existsb (tid_eqb t) (cols st) then cols st else cols st ++ [t])
           (set_cell (idx st) (nidx st) t (start, len)) (nidx st) (thrown st) (ana st).
(* _preset_all_indices: iteration order of self._counters *)
Definition preset (st : wstate) : wstate :=
  fold_left (fun s t => write_indices s t (get (cntOf s) t) 0) [W; T; P; R; M; N] st.

(* ------------------------------------------------------------------ stages of add *)
Inductive res := Ok (st : wstate) | Err (st : wstate) (e : exn).
Definition bind (r : res) (f : wstate -> res) : res :=
  match r with Ok st => f st | Err st e => Err st e end.

(* allocate len(new) rows of table t at the counter: bump counter, create, resize *)
Definition alloc (st : wstate) (t : tid) (k : Z) : wstate :=
  create_resize (set_cnt st t (get (cntOf st) t + k)) t.

(* _write_particles *)
Definition st_particles (st : wstate) (a : add_in) : res :=
  let start := get (cntOf st) P in
  let new := part_rows a in
  let st1 := alloc st P (zlen new) in
  let st2 := write_indices st1 P start (zlen new) in
  match a_fault a, new with
  | FMeta, _ :: _ => Err st2 EValue        (* _write_metadata rejects the non-scalar value *)
  | _, _ =>
    let st3 := put_rows st2 P start new in
    Ok (set_thrown st3 (Some (match thrown st3 with Some x => x | None => 0 end + a_thrown a)))
  end.

(* does some extra trigger list run out before max_waves ? (val[j] IndexError) *)
Definition extra_short (a : add_in) : bool :=
  existsb (fun kv => match snd kv with XBool _ => false | XList l => zlen l <? max_waves a end) (trig_extra a).
Definition has_bad_wave (a : add_in) : bool :=
  match a_fault a with FWave => match a_waves a with [] => false | _ => true end | _ => false end.

(* _write_trigger *)
Definition st_trigger (hd : bool) (st : wstate) (a : add_in) (incl : bool) : res :=
  let st1 := set_cnt st T (get (cntOf st) T + 1) in
  match check_trigger (a_trig a) with
  | inl e => Err st1 e
  | inr g =>
    let st2 := create_resize st1 T in
    let st3 := put_rows st2 T (get (cntOf st2) T - 1) [[b2z g]] in
    let st4 := write_indices st3 T (get (cntOf st3) T - 1) 1 in
    if incl || has_extra a then
      if negb hd then Err st4 EValue else
      let start := get (cntOf st4) M in
      let st5 := alloc st4 M (max_waves a) in
      if incl && has_bad_wave a then Err st5 EAttr         (* ant.trigger(wave) on the malformed waveform *)
      else if extra_short a then Err st5 EIndex
      else Ok (write_indices (put_rows st5 M start (mc_rows incl a)) M start (max_waves a))
    else Ok st4
  end.

(* _write_ray_data *)
Definition st_rays (d : Z) (hd : bool) (st : wstate) (a : add_in) : res :=
  if negb hd then Err st EValue else
  match a_rays a with
  | None => Err st EType
  | Some rp =>
    if negb (zlen rp =? d) then Err st EValue else
    match a_pols a with
    | PolNone => Err st EType
    | PolOuter => Err st EValue
    | _ =>
      let inner_bad := match a_pols a with PolInner i => (0 <=? i) && (i <? zlen rp) | _ => false end in
      if inner_bad then Err st EValue else
      let start := get (cntOf st) R in
      let new := ray_rows a in
      let st1 := alloc st R (zlen new) in
      let vec_bad := match a_pols a with
                     | PolVec i j => (0 <=? i) && (i <? zlen rp) && (0 <=? j) && (j <? zlen (nthZ rp i []))
                     | _ => false end in
      if vec_bad then Err st1 EIndex
      else Ok (write_indices (put_rows st1 R start new) R start (zlen new))
    end
  end.

(* _write_noise_data *)
Definition st_noise (hd : bool) (st : wstate) (a : add_in) : res :=
  if negb hd then Err st EValue else
  let st1 := alloc st N 1 in
  let st2 := write_indices st1 N (get (cntOf st1) N - 1) 1 in
  match a_fault a, a_noise a with
  | FNoise, _ :: _ => Err st2 EAttr
  | _, _ => Ok (put_rows st2 N (get (cntOf st2) N - 1) [a_noise a])
  end.

(* _write_waveforms *)
Definition st_waves (hd : bool) (st : wstate) (a : add_in) : res :=
  if negb hd then Err st EValue else
  let start := get (cntOf st) W in
  let st1 := alloc st W (max_waves a) in
  if has_bad_wave a then Err st1 EAttr
  else Ok (write_indices (put_rows st1 W start (wave_rows a)) W start (max_waves a)).

(* write_data[k] and (not trig_only[k] or _check_trigger(triggered)), evaluated lazily *)
Definition cond (o : opts) (a : add_in) (k : okey) : exn + bool :=
  if write_data o k then (if trig_only o k then check_trigger (a_trig a) else inr true) else inr false.
Definition guarded (o : opts) (a : add_in) (k : okey) (st : wstate) (f : wstate -> res) : res :=
  match cond o a k with
  | inl e => Err st e
  | inr true => f st
  | inr false => Ok st
  end.

Definition body (o : opts) (d : Z) (hd : bool) (st : wstate) (a : add_in) : res :=
  bind (guarded o a OP (preset st) (fun s => st_particles s a)) (fun s1 =>
  bind (guarded o a OT s1 (fun s =>
          match cond o a OA with
          | inl e => Err s e
          | inr incl => st_trigger hd s a incl
          end)) (fun s2 =>
  bind (guarded o a OR s2 (fun s => st_rays d hd s a)) (fun s3 =>
  bind (guarded o a ON s3 (fun s => st_noise hd s a)) (fun s4 =>
  guarded o a OW s4 (fun s => st_waves hd s a))))).

(* _rollback(counters, total_thrown) *)
Definition rollback (snap st' : wstate) : wstate :=
  mkW (per_map (fun t r => if get (exOf st') t
                           then (if get (cntOf snap) t <? zlen r then firstn (Z.to_nat (get (cntOf snap) t)) r else r)
                           else r) (rowsOf st'))
      (cntOf snap) (exOf st') (cols st')
      (if nidx snap <? zlen (idx st') then firstn (Z.to_nat (nidx snap)) (idx st') else idx st')
      (nidx snap)
      (if get (exOf st') P then thrown snap else thrown st')
      (ana st').

Inductive outcome := Acc | Rej (e : exn).
Definition outcome_code (x : outcome) : Z := match x with Acc => 0 | Rej e => exn_code e end.
Definition is_none {A} (x : option A) : bool := match x with None => true | _ => false end.
Definition pols_none (p : pols) : bool := match p with PolNone => true | _ => false end.
Definition trig_none (t : trig) : bool := match t with TNone => true | _ => false end.

(* HDF5Writer.add *)
Definition add (o : opts) (d : Z) (hd : bool) (st : wstate) (a : add_in) : wstate * outcome :=
  if wR o && (is_none (a_rays a) || pols_none (a_pols a)) then (st, Rej EValue)
  else if any_trig_only o && trig_none (a_trig a) then (st, Rej EValue)
  else match body o d hd st a with
       | Ok st' => (mkW (rowsOf st') (cntOf st') (exOf st') (cols st') (idx st') (nidx st' + 1) (thrown st') (ana st'), Acc)
       | Err st' e => (rollback st st', Rej e)
       end.

(* HDF5Writer.open in mode 'a' on an existing file: counters recovered from the dataset shapes *)
Definition reopen (st : wstate) : wstate :=
  mkW (rowsOf st) (per_map (fun t r => if get (exOf st) t then zlen r else 0) (rowsOf st))
      (exOf st) (cols st) (idx st) (zlen (idx st)) (thrown st) (ana st).

Inductive op := Add (a : add_in) | Reopen.
Definition step (o : opts) (d : Z) (hd : bool) (st : wstate) (x : op) : wstate :=
  match x with Add a => fst (add o d hd st a) | Reopen => reopen st end.
Definition run (o : opts) (d : Z) (hd : bool) (ops : list op) : wstate :=
  fold_left (step o d hd) ops init_state.

(* ------------------------------------------------------------------ analysis pass (mode 'a') *)
(* create_analysis_dataset(name, shape=(len rows, w)) + filling it | add_analysis_indices(name, gi, start, len) *)
Inductive aop := ACreate (rws : list row) | AIndex (gi start len : Z).
Definition set_ana (st : wstate) (a : astate) : wstate :=
  mkW (rowsOf st) (cntOf st) (exOf st) (cols st) (idx st) (nidx st) (thrown st) a.
Definition ana_step (st : wstate) (x : aop) : wstate :=
  let a := ana st in
  match x with
  | ACreate rws => if a_ex a then st else set_ana st (mkA true rws (a_col a) (a_ent a))
  | AIndex gi start len =>
    (* _write_indices(location, start, len, global_index_value=gi): nothing if the dataset does not
       exist; creates the column; grows the index table (zero rows) up to row gi *)
    if negb (a_ex a) then st
    else let ix := if zlen (idx st) <=? gi then idx st ++ repeat zero_cells (Z.to_nat (gi + 1 - zlen (idx st))) else idx st in
         mkW (rowsOf st) (cntOf st) (exOf st) (cols st) ix (nidx st) (thrown st)
             (mkA true (a_rows a) true ((gi, (start, len)) :: a_ent a))
  end.
Definition ana_apply (st : wstate) (xs : list aop) : wstate := fold_left ana_step xs st.

(* the adds of a history that were accepted, in order *)
Fixpoint accepted_from (o : opts) (d : Z) (hd : bool) (st : wstate) (ops : list op) : list add_in :=
  match ops with
  | [] => []
  | Reopen :: r => accepted_from o d hd (reopen st) r
  | Add a :: r =>
    match add o d hd st a with
    | (st', Acc) => a :: accepted_from o d hd st' r
    | (st', Rej _) => accepted_from o d hd st' r
    end
  end.
Definition accepted (o : opts) (d : Z) (hd : bool) (ops : list op) : list add_in :=
  accepted_from o d hd init_state ops.

(* ------------------------------------------------------------------ specification side *)
(* what the options say an accepted add records in table t *)
Definition records (o : opts) (a : add_in) (k : okey) : bool :=
  write_data o k && (negb (trig_only o k) || trig_val a).
Definition expected (o : opts) (a : add_in) (t : tid) : list row :=
  match t with
  | P => if records o a OP then part_rows a else []
  | T => if records o a OT then [[b2z (trig_val a)]] else []
  | M => if records o a OT && (records o a OA || has_extra a) then mc_rows (records o a OA) a else []
  | R => if records o a OR then ray_rows a else []
  | N => if records o a ON then [a_noise a] else []
  | W => if records o a OW then wave_rows a else []
  end.
(* the configurations the property quantifies over: particles are recorded for every event *)
Definition records_particles (o : opts) : bool := wP o && negb (trig_only o OP) && opts_valid o.

(* python slicing of a list with non-negative or negative bounds *)
Definition norm_idx (len i : Z) : Z := if i <? 0 then Z.max 0 (i + len) else Z.min i len.
Definition py_slice {A} (l : list A) (a b : Z) : list A :=
  let a' := norm_idx (zlen l) a in
  let b' := norm_idx (zlen l) b in
  firstn (Z.to_nat (b' - a')) (skipn (Z.to_nat a') l).

Definition cell (ix : list (per (Z * Z))) (i : Z) (t : tid) : Z * Z := get (nthZ ix i zero_cells) t.
Definition n_events (st : wstate) : Z := zlen (idx st).
(* reader specification: event i owns rows [start, start+len) of table t *)
Definition read_event (st : wstate) (i : Z) (t : tid) : list row :=
  let sl := cell (idx st) i t in
  py_slice (get (rowsOf st) t) (fst sl) (fst sl + snd sl).

(* index cell of the analysis dataset for event i: the newest entry written for i, else (0,0) *)
Definition acell (st : wstate) (i : Z) : Z * Z :=
  match find (fun e => fst e =? i) (a_ent (ana st)) with Some e => snd e | None => (0, 0) end.
Definition acolumn (st : wstate) : list (Z * Z) := map (acell st) (zseq (zlen (idx st))).

(* ------------------------------------------------------------------ readers *)
Inductive tobs := NA | Rows (r : list row) | Crash.
(* specification of get_data(<analysis dataset>) for event i *)
Definition read_ana (st : wstate) (i : Z) : tobs :=
  if negb (a_ex (ana st)) then NA
  else if negb (a_col (ana st)) then Crash
  else Rows (py_slice (a_rows (ana st)) (fst (acell st i)) (fst (acell st i) + snd (acell st i))).
Definition is_nil {A} (l : list A) : bool := match l with [] => true | _ => false end.
(* _bool_dict: location exists and has size > 0 *)
Definition avail (st : wstate) (t : tid) : bool := get (exOf st) t && negb (is_nil (get (rowsOf st) t)).
Definition hascol (st : wstate) (t : tid) : bool := existsb (tid_eqb t) (cols st).
(* accessors that return only the first row of the event's slice (triggered, noise_bases) *)
Definition first_only (t : tid) : bool := match t with T | N => true | _ => false end.
Definition view (t : tid) (r : list row) : list row := if first_only t then firstn 1 r else r.

(* specification of what an event looks like through the accessors *)
Definition read_obs (st : wstate) (i : Z) : per tobs :=
  per_map (fun t _ => if avail st t then Rows (view t (read_event st i t)) else NA) (per_all tt).

(* l[a:b:step] for step >= 1 *)
Definition every {A} (step : Z) (l : list A) (d : A) : list A :=
  map (fun j => nthZ l (j * step) d) (zseq ((zlen l + step - 1) / step)).
Definition list_min (l : list Z) : Z := match l with [] => 0 | x :: r => fold_right Z.min x r end.

(* EventIterator._load_data for one table (None: the table has no column in the index
   table, so self._data has no entry for it) *)
Definition load_table (st : wstate) (ss se step : Z) (t : tid) : option (list (list row)) :=
  if hascol st t then
    let ti := map (fun r => get r t) (every step (py_slice (idx st) ss se) zero_cells) in
    let tmp_start := list_min (map fst ti) in
    let tmp_end := list_max (map (fun c => fst c + snd c) ti) in
    let tmp := py_slice (get (rowsOf st) t) tmp_start tmp_end in
    Some (map (fun c => py_slice tmp (fst c - tmp_start) (fst c - tmp_start + snd c)) ti)
  else None.
(* the same loader applied to the analysis dataset's column *)
Definition load_ana (st : wstate) (ss se step : Z) : option (list (list row)) :=
  if a_col (ana st) then
    let ti := every step (py_slice (acolumn st) ss se) (0, 0) in
    let tmp_start := list_min (map fst ti) in
    let tmp_end := list_max (map (fun c => fst c + snd c) ti) in
    let tmp := py_slice (a_rows (ana st)) tmp_start tmp_end in
    Some (map (fun c => py_slice tmp (fst c - tmp_start) (fst c - tmp_start + snd c)) ti)
  else None.
Definition chunk := (per (option (list (list row))) * option (list (list row)))%type.
(* np.min of an empty selection raises ValueError *)
Definition load_data (st : wstate) (ss se step : Z) : exn + chunk :=
  if is_nil (every step (py_slice (idx st) ss se) zero_cells) && (negb (is_nil (cols st)) || a_col (ana st))
  then inl EValue
  else inr (per_map (fun t _ => load_table st ss se step t) (per_all tt), load_ana st ss se step).

(* accessor of one table at position c of the loaded chunk *)
Definition ev_table (st : wstate) (data : chunk) (c : Z) (t : tid) : tobs :=
  if negb (avail st t) then NA
  else match get (fst data) t with
       | None => Crash
       | Some l => if (0 <=? c) && (c <? zlen l) then Rows (view t (nthZ l c [])) else Crash
       end.
(* get_data(<analysis dataset>) at position c of the loaded chunk *)
Definition ev_ana (st : wstate) (data : chunk) (c : Z) : tobs :=
  if negb (a_ex (ana st)) then NA
  else if negb (a_col (ana st)) then Crash          (* "No event-specific data is available" *)
  else if is_nil (a_rows (ana st)) then Rows []     (* _bool_dict false: np.array([]) *)
  else match snd data with
       | None => Crash
       | Some l => if (0 <=? c) && (c <? zlen l) then Rows (nthZ l c []) else Crash
       end.
Definition ev_obs (st : wstate) (data : chunk) (c : Z) : per tobs * tobs :=
  (per_map (fun t _ => ev_table st data c t) (per_all tt), ev_ana st data c).

Definition dflt (x : option Z) (d : Z) : Z := match x with Some v => v | None => d end.
(* EventIterator.__init__: (start, stop, step) or the exception raised *)
Definition iter_init (st : wstate) (start stop step : option Z) : exn + (Z * Z * Z) :=
  if negb (get (exOf st) P) || is_none (thrown st) then inl EKey else
  let n := n_events st in
  let s := dflt start 0 in
  let p := dflt step 1 in
  let e := dflt stop n in
  let s := if s <? 0 then s + n else s in
  let e := if e <? 0 then e + n else e in
  if (s <? 0) || (n <=? s) || (e <=? 0) || (n <? e) then inl EIndex
  else if p <=? 0 then inl EValue
  else inr (s, e, p).

(* repeated __next__: c = _iter_counter, ss/se = _slice_start_event/_slice_end_event.
   Yields (event number, observation) per event. *)
Fixpoint iter_loop (st : wstate) (k stop step : Z) (fuel : nat) (c ss se : Z) (data : chunk)
  : exn + list (Z * (per tobs * tobs)) :=
  match fuel with
  | O => inr []
  | S f =>
    let c1 := c + 1 in
    let ev := c1 * step + ss in
    if stop <=? ev then inr []
    else if se <=? ev then
      let ss' := ev in
      let se' := Z.min (ss' + k) (n_events st) in
      match load_data st ss' se' step with
      | inl e => inl e
      | inr data' =>
        match iter_loop st k stop step f 0 ss' se' data' with
        | inl e => inl e
        | inr r => inr ((ev, ev_obs st data' 0) :: r)
        end
      end
    else
      match iter_loop st k stop step f c1 ss se data with
      | inl e => inl e
      | inr r => inr ((ev, ev_obs st data c1) :: r)
      end
  end.

Definition empty_chunk : chunk := (per_all None, None).
(* all events of EventIterator(file, slice_range=k, start, stop, step); fuel bounds the number of __next__ calls *)
Definition iterate_fuel (st : wstate) (k : Z) (start stop step : option Z) (fuel : nat) : exn + list (Z * (per tobs * tobs)) :=
  match iter_init st start stop step with
  | inl e => inl e
  | inr (s, e, p) => iter_loop st k e p fuel (-1) s s empty_chunk
  end.
Definition iterate (st : wstate) (k : Z) (start stop step : option Z) : exn + list (Z * (per tobs * tobs)) :=
  iterate_fuel st k start stop step (S (Z.to_nat (n_events st))).

(* ------------------------------------------------------------------ the iterator as an object *)
(* EventIterator with its position explicit: slice_range k, stop, step are fixed at construction;
   _iter_counter c, _slice_start_event ss, _slice_end_event se and the loaded chunk change. *)
Record iter := mkIt { it_k : Z; it_stop : Z; it_step : Z; it_c : Z; it_ss : Z; it_se : Z; it_data : chunk }.
Definition it_new (st : wstate) (k : Z) (start stop step : option Z) : exn + iter :=
  match iter_init st start stop step with
  | inl e => inl e
  | inr (s, e, p) => inr (mkIt k e p (-1) s s empty_chunk)
  end.
(* the event number the accessors and total_events_thrown compute from the position *)
Definition it_event_number (it : iter) : Z := it_c it * it_step it + it_ss it.
(* EventIterator.total_events_thrown (exact arithmetic) *)
Definition it_thrown (st : wstate) (it : iter) : Z :=
  ((it_event_number it + 1) * match thrown st with Some x => x | None => 0 end) / n_events st.
Inductive iop := INext | IIter | IRead.   (* IRead: read the accessors of the iterator's current event again *)
(* what a call delivers: an event (total_events_thrown and all accessors, read from the iterator
   after the call), StopIteration, or nothing (iter(it) returns the iterator itself) *)
Inductive iout := OEv (thr : Z) (o : per tobs * tobs) | OStop | ONone.
(* __next__ *)
Definition it_next (st : wstate) (it : iter) : exn + (iter * iout) :=
  let c1 := it_c it + 1 in
  let ev := c1 * it_step it + it_ss it in
  if it_stop it <=? ev then inr (mkIt (it_k it) (it_stop it) (it_step it) c1 (it_ss it) (it_se it) (it_data it), OStop)
  else if it_se it <=? ev then
    let se' := Z.min (ev + it_k it) (n_events st) in
    match load_data st ev se' (it_step it) with
    | inl e => inl e
    | inr d => let it' := mkIt (it_k it) (it_stop it) (it_step it) 0 ev se' d in
               inr (it', OEv (it_thrown st it') (ev_obs st d 0))
    end
  else let it' := mkIt (it_k it) (it_stop it) (it_step it) c1 (it_ss it) (it_se it) (it_data it) in
       inr (it', OEv (it_thrown st it') (ev_obs st (it_data it) c1)).
(* __iter__ returns self and leaves the position alone *)
Definition it_op (st : wstate) (it : iter) (x : iop) : exn + (iter * iout) :=
  match x with
  | INext => it_next st it
  | IIter => inr (it, ONone)
  | IRead => inr (it, OEv (it_thrown st it) (ev_obs st (it_data it) (it_c it)))
  end.
Fixpoint it_run (st : wstate) (it : iter) (ops : list iop) : exn + list iout :=
  match ops with
  | [] => inr []
  | x :: r => match it_op st it x with
              | inl e => inl e
              | inr (it', o) => match it_run st it' r with inl e => inl e | inr os => inr (o :: os) end
              end
  end.
(* f[a:b:s] (or iter(f) when whole = true) followed by a history of next / iter calls *)
Definition history (st : wstate) (k : option Z) (whole : bool) (a b s : option Z) (ops : list iop) : exn + list iout :=
  let n := n_events st in
  let start := dflt a 0 in
  let stop := dflt b n in
  let start := if start <? 0 then start + n else start in
  let stop := if stop <? 0 then stop + n else stop in
  let kk := if whole then dflt k n else Z.min (dflt k n) (stop - start) in
  match it_new st kk a b s with
  | inl e => inl e
  | inr it => it_run st it ops
  end.

(* two live iterators over one opened file, driven by one interleaved history (true = first) *)
Fixpoint it_run2 (st : wstate) (i1 i2 : iter) (ops : list (bool * iop)) : exn + list iout :=
  match ops with
  | [] => inr []
  | (w, x) :: r =>
    match it_op st (if w then i1 else i2) x with
    | inl e => inl e
    | inr (it', o) =>
      match it_run2 st (if w then it' else i1) (if w then i2 else it') r with
      | inl e => inl e
      | inr os => inr (o :: os)
      end
    end
  end.
Definition slice_k (st : wstate) (k : option Z) (whole : bool) (a b : option Z) : Z :=
  let n := n_events st in
  let start := dflt a 0 in
  let stop := dflt b n in
  let start := if start <? 0 then start + n else start in
  let stop := if stop <? 0 then stop + n else stop in
  if whole then dflt k n else Z.min (dflt k n) (stop - start).
Definition history2 (st : wstate) (k : option Z) (w1 : bool) (a1 b1 s1 : option Z) (w2 : bool) (a2 b2 s2 : option Z)
  (ops : list (bool * iop)) : exn + list iout :=
  match it_new st (slice_k st k w1 a1 b1) a1 b1 s1, it_new st (slice_k st k w2 a2 b2) a2 b2 s2 with
  | inr i1, inr i2 => it_run2 st i1 i2 ops
  | inl e, _ => inl e
  | _, inl e => inl e
  end.

(* HDF5Reader: slice_range None means the whole file *)
Definition reader_k (st : wstate) (k : option Z) : Z := dflt k (n_events st).
(* HDF5Reader.__iter__ *)
Definition reader_iter (st : wstate) (k : option Z) := iterate st (reader_k st k) None None None.
(* HDF5Reader.__getitem__(int): next(EventIterator(slice_range=1, start=key, stop, step=1)) *)
Definition getitem_int (st : wstate) (key : Z) : exn + (per tobs * tobs) :=
  let stop := if key =? -1 then n_events st else key + 1 in
  match iterate_fuel st 1 (Some key) (Some stop) (Some 1) 1 with
  | inl e => inl e
  | inr [] => inl EStop
  | inr (x :: _) => inr (snd x)
  end.
(* HDF5Reader.__getitem__(slice) *)
Definition getitem_slice (st : wstate) (k : option Z) (a b s : option Z) : exn + list (Z * (per tobs * tobs)) :=
  let n := n_events st in
  let start := dflt a 0 in
  let stop := dflt b n in
  let start := if start <? 0 then start + n else start in
  let stop := if stop <? 0 then stop + n else stop in
  iterate st (Z.min (reader_k st k) (stop - start)) a b s.

(* HDF5Reader.get_waveforms(event_id=i): the event's block of the waveform dataset, located by
   _get_table_slice (start, start+length of the index row) *)
Definition file_waveforms (st : wstate) (i : Z) : exn + list row :=
  if negb (avail st W) then inl EValue
  else if negb (hascol st W) then inl EKey
  else let i := if i <? 0 then i + n_events st else i in    (* h5py: a negative row index counts from the end *)
  if (i <? 0) || (n_events st <=? i) then inl EIndex
  else let sl := cell (idx st) i W in
       inr (py_slice (get (rowsOf st) W) (fst sl) (fst sl + snd sl)).
(* HDF5Reader.get_waveforms(event_id=i, waveform_type=k):
   if wf_index >= stop-start: raise ValueError; return wf_data[start+wf_index] *)
Definition file_waveform (st : wstate) (i k : Z) : exn + row :=
  if negb (avail st W) then inl EValue
  else if negb (hascol st W) then inl EKey
  else let i := if i <? 0 then i + n_events st else i in
  if (i <? 0) || (n_events st <=? i) then inl EIndex
  else let sl := cell (idx st) i W in
       if snd sl <=? k then inl EValue
       else inr (nthZ (get (rowsOf st) W) (fst sl + k) []).

(* ------------------------------------------------------------------ FileGenerator *)
Record gstate := mkG {
  g_fi : Z;                       (* _file_index *)
  g_ei : Z;                       (* _event_index *)
  g_file : option wstate;         (* the open file *)
  g_events : list (list Z);       (* _events: particle tags per event *)
  g_counts : list Z;              (* _event_counts *)
  g_fcounts : list Z              (* _file_counts *)
}.
(* EventIterator.total_events_thrown (exact arithmetic; the code evaluates it in floating point) *)
Definition thrown_upto (f : wstate) (ev : Z) : Z :=
  ((ev + 1) * match thrown f with Some x => x | None => 0 end) / n_events f.
(* get_particle_info() of one event: the particle tags *)
Definition particle_tags (o : per tobs) : exn + list Z :=
  match get o P with
  | NA => inl EValue
  | Crash => inl EKey
  | Rows rs => inr (map (fun r => nthZ r 0 0) rs)
  end.
Fixpoint collect {A B} (f : A -> exn + B) (l : list A) : exn + list B :=
  match l with
  | [] => inr []
  | x :: r => match f x with inl e => inl e
              | inr y => match collect f r with inl e => inl e | inr ys => inr (y :: ys) end end
  end.
(* _load_events (with _next_file inlined) *)
Definition g_load (files : list wstate) (k : Z) (g : gstate) : exn + gstate :=
  let need_next := (g_fi g <? 0) || match g_file g with Some f => n_events f <=? g_ei g | None => true end in
  let go (fi ei : Z) (f : wstate) : exn + gstate :=
    let start := ei in
    let stop := if n_events f <? ei + k then n_events f else ei + k in
    match getitem_slice f (Some k) (Some start) (Some stop) None with
    | inl e => inl e
    | inr evs =>
      match collect (fun x => particle_tags (fst (snd x))) evs with
      | inl e => inl e
      | inr tags => inr (mkG fi (ei + k) (Some f) tags (map (fun x => thrown_upto f (fst x)) evs) (g_fcounts g))
      end
    end in
  if need_next then
    let fi := g_fi g + 1 in
    if zlen files <=? fi then inl EStop
    else match nth_error files (Z.to_nat fi) with
         | None => inl EStop
         | Some f => go fi 0 f
         end
  else match g_file g with Some f => go (g_fi g) (g_ei g) f | None => inl EStop end.

Fixpoint set_nth {A} (n : nat) (v : A) (l : list A) : list A :=
  match l, n with [], _ => [] | _ :: r, O => v :: r | x :: r, S m => x :: set_nth m v r end.
(* create_event: returns (particle tags, generator count after the call) *)
Definition g_create (files : list wstate) (k : Z) (g : gstate) : exn + (gstate * (list Z * Z)) :=
  let r := match g_events g with [] => g_load files k g | _ => inr g end in
  match r with
  | inl e => inl e
  | inr g1 =>
    match g_events g1, g_counts g1 with
    | ev :: evs, c :: cs =>
      let fc := set_nth (Z.to_nat (g_fi g1 + 1)) c (g_fcounts g1) in
      inr (mkG (g_fi g1) (g_ei g1) (g_file g1) evs cs fc, (ev, fold_right Z.add 0 fc))
    | _, _ => inl EIndex        (* pop from an empty list *)
    end
  end.
Fixpoint g_drain (files : list wstate) (k : Z) (fuel : nat) (g : gstate) : list (list Z * Z) * option exn :=
  match fuel with
  | O => ([], None)
  | S f => match g_create files k g with
           | inl e => ([], Some e)
           | inr (g', x) => let r := g_drain files k f g' in (x :: fst r, snd r)
           end
  end.
(* FileGenerator(files, slice_range=k) followed by create_event() until it raises *)
Definition filegen (files : list wstate) (k : Z) : exn + (list (list Z * Z) * option exn) :=
  let g0 := mkG (-1) 0 None [] [] (repeat 0 (S (length files))) in
  match g_load files k g0 with
  | inl e => inl e
  | inr g1 => inr (g_drain files k (S (Z.to_nat (fold_right Z.add 0 (map n_events files)))) g1)
  end.

(* ------------------------------------------------------------------ case runner (correspondence) *)
Definition HASH_P : Z := 2305843009213693951.
Definition HASH_B : Z := 1000003.
Definition flatten_tobs (o : tobs) : list Z :=
  match o with
  | NA => [-1]
  | Crash => [-2]
  | Rows rs => zlen rs :: flat_map (fun r => zlen r :: r) rs
  end.
Definition fp_obs (o : per tobs * tobs) : Z :=
  fold_left (fun h x => (h * HASH_B + x + 7) mod HASH_P) (flat_map flatten_tobs (per_list (fst o) ++ [snd o])) 0.

Record filecase := mkFile { f_det : Z; f_hasdet : bool; f_opts : opts; f_ops : list op; f_aops : list aop }.

Inductive events_res := EvOk (n : Z) (evs : list (tobs * tobs * tobs * tobs * tobs * tobs)) | EvErr (code : Z).
Inductive file_res :=
  | RCtor (code : Z)
  | RFile (outcomes : list Z) (counters : list (list Z)) (colorder : list Z)
          (index : list (list (Z * Z))) (nrows : list Z) (exist : list bool) (thrown_attr : Z)
          (events : events_res).
Inductive query_res := QErr (code : Z) | QOk (l : list Z) | QGenOk (items : list (list Z * Z)) (stopped : bool)
  | QHistOk (l : list (Z * Z)).
Inductive query :=
  | QLen (f : nat) | QIter (f : nat) (k : option Z) | QInt (f : nat) (k : option Z) (key : Z)
  | QSlice (f : nat) (k : option Z) (a b s : option Z) | QGen (k : Z) (fs : list Z)
  | QWf (f : nat) (i k : Z) | QWfEv (f : nat) (i : Z)
  | QHist (f : nat) (k : option Z) (whole : bool) (a b s : option Z) (ops : list iop)
  | QHist2 (f : nat) (k : option Z) (w1 : bool) (a1 b1 s1 : option Z) (w2 : bool) (a2 b2 s2 : option Z) (ops : list (bool * iop)).

Definition counters_of (st : wstate) : list Z := per_list (cntOf st) ++ [nidx st].
(* run the ops; collect outcome codes and the counters at the end of each session *)
Fixpoint run_ops (o : opts) (d : Z) (hd : bool) (st : wstate) (ops : list op)
  : wstate * list Z * list (list Z) :=
  match ops with
  | [] => (st, [], [counters_of st])
  | Reopen :: r =>
    match run_ops o d hd (reopen st) r with (s, outs, cs) => (s, outs, counters_of st :: cs) end
  | Add a :: r =>
    let sa := add o d hd st a in
    match run_ops o d hd (fst sa) r with (s, outs, cs) => (s, outcome_code (snd sa) :: outs, cs) end
  end.

Definition final_state (f : filecase) : wstate := ana_apply (run (f_opts f) (f_det f) (f_hasdet f) (f_ops f)) (f_aops f).

Definition events_of (st : wstate) : events_res :=
  match reader_iter st None with
  | inl e => EvErr (exn_code e)
  | inr l => EvOk (n_events st) (map (fun x => per_tuple (fst (snd x))) l)
  end.

Definition run_file (f : filecase) : file_res :=
  if negb (opts_valid (f_opts f)) then RCtor 1 else
  match run_ops (f_opts f) (f_det f) (f_hasdet f) init_state (f_ops f) with
  | (st0, outs, cs) =>
    let st := ana_apply st0 (f_aops f) in
    RFile outs cs (map tid_code (cols st)) (map (fun r => per_list r) (idx st))
          (map zlen (per_list (rowsOf st))) (per_list (exOf st))
          (match thrown st with Some x => x | None => 0 end) (events_of st)
  end.

Definition fps (r : exn + list (Z * (per tobs * tobs))) : query_res :=
  match r with inl e => QErr (exn_code e) | inr l => QOk (map (fun x => fp_obs (snd x)) l) end.

Definition run_query (sts : list wstate) (q : query) : query_res :=
  let file i := nth i sts init_state in
  match q with
  | QLen f => QOk [n_events (file f)]
  | QIter f k => fps (reader_iter (file f) k)
  | QInt f k key => match getitem_int (file f) key with inl e => QErr (exn_code e) | inr o => QOk [fp_obs o] end
  | QSlice f k a b s => fps (getitem_slice (file f) k a b s)
  | QWf f i k => match file_waveform (file f) i k with inl e => QErr (exn_code e) | inr r => QOk r end
  | QWfEv f i => match file_waveforms (file f) i with inl e => QErr (exn_code e) | inr rs => QOk (concat rs) end
  | QHist f k whole a b s ops =>
    match history (file f) k whole a b s ops with
    | inl e => QErr (exn_code e)
    | inr os => QHistOk (map (fun o => match o with OEv t ob => (fp_obs ob, t) | OStop => (-1, -1) | ONone => (-2, -2) end) os)
    end
  | QHist2 f k w1 a1 b1 s1 w2 a2 b2 s2 ops =>
    match history2 (file f) k w1 a1 b1 s1 w2 a2 b2 s2 ops with
    | inl e => QErr (exn_code e)
    | inr os => QHistOk (map (fun o => match o with OEv t ob => (fp_obs ob, t) | OStop => (-1, -1) | ONone => (-2, -2) end) os)
    end
  | QGen k fs =>
    match filegen (map (fun i => file (Z.to_nat i)) fs) k with
    | inl e => QErr (exn_code e)
    | inr (items, Some EStop) => QGenOk items true
    | inr (items, Some e) => QErr (exn_code e)
    | inr (items, None) => QGenOk items false
    end
  end.

Definition run_case (fs : list filecase) (qs : list query) : list file_res * list query_res :=
  (map run_file fs, map (run_query (map final_state fs)) qs).
