(* C03, part 1: Fresnel coefficients of the three tracers (Gen/Gen_prop.v). *)
From Coq Require Import Reals List Bool ZArith Lra Lia Psatz.
From PyrexLib Require Import RealPrims Vec3Facts CPair SignalAlg ListOps.
From PyrexGen Require Import Gen_ice Gen_prop.
From PyrexModel Require Import PropagationModel.
Import ListNotations.
Open Scope R_scope.
Set Default Timeout 120.

(* the amplitude reflection coefficient (A - B)/(A + B) for real A >= 0 and
   B = real >= 0 (ordinary reflection) or B = i b (total internal reflection) *)
Lemma refl_real_le_1 A n c : 0 <= A -> 0 <= n * c -> 0 < A + n * c ->
  cabs2 (cdiv (csub (cofR A) (cscale n (cofR c))) (cadd (cofR A) (cscale n (cofR c)))) <= 1.
Proof.
  intros HA HB HS.
  assert (D : cabs2 (cadd (cofR A) (cscale n (cofR c))) = (A + n * c) * (A + n * c)).
  { unfold cabs2, cadd, cscale, cofR, cre, cim; simpl. ring. }
  rewrite cabs2_div by (rewrite D; nra).
  rewrite D. unfold cabs2, csub, cscale, cofR, cre, cim; simpl.
  apply Rmult_le_reg_r with ((A + n * c) * (A + n * c)); [nra|].
  unfold Rdiv. rewrite Rmult_assoc, Rinv_l by nra. nra.
Qed.

Lemma refl_tir_eq_1 A n s : 0 < A * A + (n * s) * (n * s) ->
  cabs2 (cdiv (csub (cofR A) (cscale n (cscale s (0, 1)))) (cadd (cofR A) (cscale n (cscale s (0, 1))))) = 1.
Proof.
  intros H.
  assert (D : cabs2 (cadd (cofR A) (cscale n (cscale s (0, 1)))) = A * A + (n * s) * (n * s)).
  { unfold cabs2, cadd, cscale, cofR, cre, cim; simpl. ring. }
  rewrite cabs2_div by (rewrite D; lra). rewrite D.
  unfold cabs2, csub, cscale, cofR, cre, cim; simpl. field_simplify_eq; [ring | lra].
Qed.

(* the cos_2 the code computes and the two coefficients built from it *)
Definition cos2_of (sin_2 : R) : Cx :=
  if Rleb sin_2 1 then cofR (sqrt (1 - sin_2 ^ 2)) else cscale (sqrt (sin_2 ^ 2 - 1)) (0, 1).
Definition refl_s (n_1 n_2 cos_1 : R) (cos_2 : Cx) : Cx :=
  cdiv (csub (cofR (n_1 * cos_1)) (cscale n_2 cos_2)) (cadd (cofR (n_1 * cos_1)) (cscale n_2 cos_2)).
Definition refl_p (n_1 n_2 cos_1 : R) (cos_2 : Cx) : Cx :=
  cdiv (csub (cofR (n_2 * cos_1)) (cscale n_1 cos_2)) (cadd (cofR (n_2 * cos_1)) (cscale n_1 cos_2)).
Definition trans_s (n_1 n_2 cos_1 : R) (cos_2 : Cx) : Cx :=
  cdiv (cofR (2 * n_1 * cos_1)) (cadd (cofR (n_1 * cos_1)) (cscale n_2 cos_2)).
Definition trans_p (n_1 n_2 cos_1 : R) (cos_2 : Cx) : Cx :=
  cdiv (cofR (2 * n_1 * cos_1)) (cadd (cofR (n_2 * cos_1)) (cscale n_1 cos_2)).

(* |r_s|, |r_p| <= 1 for a real cos_2, = 1 under total internal reflection *)
Lemma reflection_le_1 n_1 n_2 cos_1 sin_2 :
  0 < n_1 -> 0 < n_2 -> 0 < cos_1 -> 0 <= sin_2 ->
  cabs2 (refl_s n_1 n_2 cos_1 (cos2_of sin_2)) <= 1 /\ cabs2 (refl_p n_1 n_2 cos_1 (cos2_of sin_2)) <= 1 /\
  (1 < sin_2 -> cabs2 (refl_s n_1 n_2 cos_1 (cos2_of sin_2)) = 1 /\ cabs2 (refl_p n_1 n_2 cos_1 (cos2_of sin_2)) = 1).
Proof.
  intros H1 H2 Hc Hs. unfold cos2_of, refl_s, refl_p.
  destruct (Rleb sin_2 1) eqn:E.
  - apply Rleb_true in E.
    assert (0 <= sqrt (1 - sin_2 ^ 2)) by apply sqrt_pos.
    assert (0 < n_1 * cos_1) by nra. assert (0 < n_2 * cos_1) by nra.
    repeat split.
    + apply refl_real_le_1; nra.
    + apply refl_real_le_1; nra.
    + intros; lra.
    + intros; lra.
  - apply Rleb_false in E.
    assert (0 < n_1 * cos_1) by nra. assert (0 < n_2 * cos_1) by nra.
    assert (T1 : cabs2 (cdiv (csub (cofR (n_1 * cos_1)) (cscale n_2 (cscale (sqrt (sin_2 ^ 2 - 1)) (0, 1))))
                             (cadd (cofR (n_1 * cos_1)) (cscale n_2 (cscale (sqrt (sin_2 ^ 2 - 1)) (0, 1))))) = 1)
      by (apply refl_tir_eq_1; nra).
    assert (T2 : cabs2 (cdiv (csub (cofR (n_2 * cos_1)) (cscale n_1 (cscale (sqrt (sin_2 ^ 2 - 1)) (0, 1))))
                             (cadd (cofR (n_2 * cos_1)) (cscale n_1 (cscale (sqrt (sin_2 ^ 2 - 1)) (0, 1))))) = 1)
      by (apply refl_tir_eq_1; nra).
    rewrite T1, T2. repeat split; lra.
Qed.

(* ---------------------------------------------------------------------------------------
   BasicRayTracePath.fresnel *)
Definition basic_reflects (p : Path) : bool :=
  negb (Path_direct p || Rltb (Path_z_turn p) (snd (Ice_valid_range (Path_ice p)))).

Lemma basic_fresnel_direct p : basic_reflects p = false ->
  BasicRayTracePath_fresnel p = (c_one, c_one).
Proof.
  unfold basic_reflects, BasicRayTracePath_fresnel. intros H.
  destruct (Path_direct p || Rltb _ _); [reflexivity | discriminate].
Qed.

Lemma basic_fresnel_value p : basic_reflects p = true ->
  let top := snd (Ice_valid_range (Path_ice p)) in
  let n_1 := AntarcticIce_index (Path_ice p) top in
  let n_2 := AntarcticIce_index_above (Path_ice p) in
  let th := BasicRayTracePath_theta p top in
  BasicRayTracePath_fresnel p
  = (refl_s n_1 n_2 (cos th) (cos2_of (n_1 / n_2 * sin th)), refl_p n_1 n_2 (cos th) (cos2_of (n_1 / n_2 * sin th))).
Proof.
  unfold basic_reflects, BasicRayTracePath_fresnel. intros H.
  destruct (Path_direct p || Rltb _ _); [discriminate|].
  cbv zeta. unfold refl_s, refl_p, cos2_of.
  destruct (Rleb _ 1); reflexivity.
Qed.

Lemma basic_fresnel_le_1 p :
  let top := snd (Ice_valid_range (Path_ice p)) in
  let n_1 := AntarcticIce_index (Path_ice p) top in
  let n_2 := AntarcticIce_index_above (Path_ice p) in
  let th := BasicRayTracePath_theta p top in
  0 < n_1 -> 0 < n_2 -> 0 < cos th -> 0 <= sin th ->
  cabs2 (fst (BasicRayTracePath_fresnel p)) <= 1 /\ cabs2 (snd (BasicRayTracePath_fresnel p)) <= 1 /\
  (basic_reflects p = true -> 1 < n_1 / n_2 * sin th ->
     cabs2 (fst (BasicRayTracePath_fresnel p)) = 1 /\ cabs2 (snd (BasicRayTracePath_fresnel p)) = 1).
Proof.
  intros top n_1 n_2 th H1 H2 Hc Hs.
  destruct (basic_reflects p) eqn:E.
  - rewrite (basic_fresnel_value p E). fold top n_1 n_2 th. simpl fst; simpl snd.
    assert (Hs2 : 0 <= n_1 / n_2 * sin th).
    { apply Rmult_le_pos; [|assumption]. apply Rlt_le, Rdiv_lt_0_compat; assumption. }
    destruct (reflection_le_1 n_1 n_2 (cos th) _ H1 H2 Hc Hs2) as (A & B & C).
    split; [exact A | split; [exact B | intros _ T; apply C; exact T]].
  - rewrite (basic_fresnel_direct p E). unfold c_one, cabs2, cre, cim; simpl.
    split; [lra | split; [lra | intros; discriminate]].
Qed.

(* ---------------------------------------------------------------------------------------
   UniformRayTracePath.fresnel: every reflection multiplies by a factor of modulus <= 1 *)
Lemma atan_cos_sin x : 0 <= x -> 0 < cos (atan x) /\ 0 <= sin (atan x).
Proof.
  intros Hx. pose proof (atan_bound x) as [B1 B2].
  split.
  - apply cos_gt_0; lra.
  - assert (0 <= atan x). { rewrite <- atan_0. destruct Hx as [Hx|Hx]; [left; apply atan_increasing; assumption | subst; right; reflexivity]. }
    apply sin_ge_0; [assumption|]. pose proof PI_RGT_0. lra.
Qed.

Definition uniform_step_factor (n_1 n_2 : R) (p1 p2 : vec3) : Cx * Cx :=
  let dr := sqrt ((vx p2 - vx p1) * (vx p2 - vx p1) + (vy p2 - vy p1) * (vy p2 - vy p1)) in
  let dz := Rabs (vz p2 - vz p1) in
  let th := atan (dr / dz) in
  (refl_s n_1 n_2 (cos th) (cos2_of (n_1 / n_2 * sin th)), refl_p n_1 n_2 (cos th) (cos2_of (n_1 / n_2 * sin th))).

Lemma uniform_step_value self n_1 r_s r_p p1 p2 :
  UniformRayTracePath_fresnel_step self n_1 r_s r_p p1 p2
  = if Reqb (vz p2) (fst (UIce_valid_range (UPath_ice self)))
    then let f := uniform_step_factor n_1 (UniformIce_index_below (UPath_ice self)) p1 p2 in Some (cmul r_s (fst f), cmul r_p (snd f))
    else if Reqb (vz p2) (snd (UIce_valid_range (UPath_ice self)))
    then let f := uniform_step_factor n_1 (UniformIce_index_above (UPath_ice self)) p1 p2 in Some (cmul r_s (fst f), cmul r_p (snd f))
    else None.
Proof.
  unfold UniformRayTracePath_fresnel_step, uniform_step_factor, refl_s, refl_p, cos2_of. cbv zeta. simpl fst; simpl snd.
  destruct (Reqb (vz p2) (fst _)).
  - match goal with |- context [Rleb ?a 1] => destruct (Rleb a 1) end; reflexivity.
  - destruct (Reqb (vz p2) (snd _)); [|reflexivity].
    match goal with |- context [Rleb ?a 1] => destruct (Rleb a 1) end; reflexivity.
Qed.

Lemma uniform_step_factor_le_1 n_1 n_2 p1 p2 : 0 < n_1 -> 0 < n_2 -> vz p1 <> vz p2 ->
  cabs2 (fst (uniform_step_factor n_1 n_2 p1 p2)) <= 1 /\ cabs2 (snd (uniform_step_factor n_1 n_2 p1 p2)) <= 1.
Proof.
  intros H1 H2 Hz. unfold uniform_step_factor. cbv zeta. simpl fst; simpl snd.
  set (dr := sqrt _). set (dz := Rabs _).
  assert (Hdz : 0 < dz) by (unfold dz; apply Rabs_pos_lt; lra).
  assert (Hdr : 0 <= dr) by (unfold dr; apply sqrt_pos).
  assert (Hq : 0 <= dr / dz) by (apply Rmult_le_pos; [assumption | left; apply Rinv_0_lt_compat; assumption]).
  destruct (atan_cos_sin _ Hq) as [Hc Hs].
  assert (Hs2 : 0 <= n_1 / n_2 * sin (atan (dr / dz))).
  { apply Rmult_le_pos; [|assumption]. apply Rlt_le, Rdiv_lt_0_compat; assumption. }
  destruct (reflection_le_1 n_1 n_2 _ _ H1 H2 Hc Hs2) as (A & B & _). split; assumption.
Qed.

Lemma uniform_step_le self n_1 r_s r_p p1 p2 r_s' r_p' :
  0 < n_1 -> 0 < UniformIce_index_below (UPath_ice self) -> 0 < UniformIce_index_above (UPath_ice self) ->
  vz p1 <> vz p2 ->
  UniformRayTracePath_fresnel_step self n_1 r_s r_p p1 p2 = Some (r_s', r_p') ->
  cabs2 r_s' <= cabs2 r_s /\ cabs2 r_p' <= cabs2 r_p.
Proof.
  intros H1 Hb Ha Hz. rewrite uniform_step_value.
  assert (G : forall n_2, 0 < n_2 ->
    Some (cmul r_s (fst (uniform_step_factor n_1 n_2 p1 p2)), cmul r_p (snd (uniform_step_factor n_1 n_2 p1 p2))) = Some (r_s', r_p') ->
    cabs2 r_s' <= cabs2 r_s /\ cabs2 r_p' <= cabs2 r_p).
  { intros n_2 H2 E. inversion E; subst. rewrite !cabs2_mul.
    destruct (uniform_step_factor_le_1 n_1 n_2 p1 p2 H1 H2 Hz) as [A B].
    pose proof (cabs2_nonneg r_s). pose proof (cabs2_nonneg r_p).
    split; (eapply Rle_trans; [apply Rmult_le_compat_l; eassumption | lra]). }
  destruct (Reqb (vz p2) (fst _)); [apply G; assumption|].
  destruct (Reqb (vz p2) (snd _)); [apply G; assumption | discriminate].
Qed.

(* whole fold: starting from (1, 1), the product stays within the unit disc *)
Lemma uniform_fresnel_le_1 self points r :
  0 < UPath_n0 self -> 0 < UniformIce_index_below (UPath_ice self) -> 0 < UniformIce_index_above (UPath_ice self) ->
  (forall p1 p2, In (p1, p2) (cons_pairs points) -> vz p1 <> vz p2) ->
  uniform_fresnel self points = Some r -> cabs2 (fst r) <= 1 /\ cabs2 (snd r) <= 1.
Proof.
  intros H0 Hb Ha Hz. unfold uniform_fresnel.
  assert (G : forall l acc, (forall p1 p2, In (p1, p2) l -> vz p1 <> vz p2) ->
            cabs2 (fst acc) <= 1 /\ cabs2 (snd acc) <= 1 ->
            fold_left (fun acc pp => match acc with None => None | Some (r_s, r_p) =>
                         UniformRayTracePath_fresnel_step self (UPath_n0 self) r_s r_p (fst pp) (snd pp) end) l (Some acc) = Some r ->
            cabs2 (fst r) <= 1 /\ cabs2 (snd r) <= 1).
  { induction l as [|[p1 p2] t IH]; intros acc Hl Hacc E; simpl in E.
    - inversion E; subst; assumption.
    - destruct acc as [r_s r_p].
      destruct (UniformRayTracePath_fresnel_step self (UPath_n0 self) r_s r_p p1 p2) as [[r_s' r_p']|] eqn:S.
      + apply (IH (r_s', r_p')); [intros; apply Hl; right; assumption| |exact E].
        destruct (uniform_step_le self _ _ _ _ _ _ _ H0 Hb Ha (Hl p1 p2 (or_introl eq_refl)) S) as [A B].
        simpl in *. lra.
      + exfalso. clear -E. induction t; simpl in E; [discriminate | auto]. }
  intros E. apply (G (removelast (cons_pairs points)) (c_one, c_one)); [| unfold c_one, cabs2, cre, cim; simpl; lra | exact E].
  intros p1 p2 Hin. apply Hz.
  clear -Hin. revert Hin. generalize (cons_pairs points). intros l.
  induction l as [|a [|b t] IH]; simpl; intros H; [destruct H | destruct H |].
  destruct H as [H|H]; [left; assumption | right; apply IH; assumption].
Qed.

(* ---------------------------------------------------------------------------------------
   LayeredRayTracePath.fresnel: the angle of incidence the code reconstructs *)
Definition layered_theta (rz1 : R) : R := if Rltb (sign rz1) 0 then PI - acos rz1 else acos rz1.

Lemma layered_theta_cos_sin rz1 : -1 <= rz1 <= 1 -> rz1 <> 0 ->
  0 < cos (layered_theta rz1) /\ 0 <= sin (layered_theta rz1).
Proof.
  intros Hr Hn. unfold layered_theta, sign.
  pose proof PI_RGT_0 as HPI. pose proof (acos_bound rz1) as AB.
  destruct (Rltb rz1 0) eqn:E1.
  - apply Rltb_true in E1.
    assert (T : Rltb (-1) 0 = true) by (apply Rltb_true; lra). rewrite T.
    rewrite Rtrigo_facts.cos_pi_minus, Rtrigo_facts.sin_pi_minus, cos_acos by lra.
    split; [lra|]. apply sin_ge_0; lra.
  - apply Rltb_false in E1.
    destruct (Rltb 0 rz1) eqn:E2.
    + assert (T : Rltb 1 0 = false) by (apply Rltb_false; lra). rewrite T.
      apply Rltb_true in E2. rewrite cos_acos by lra. split; [lra|]. apply sin_ge_0; lra.
    + apply Rltb_false in E2. lra.
Qed.

Lemma layered_reflect_value n_1 n_2 rz1 f_s f_p :
  LayeredRayTracePath_fresnel_reflect n_1 n_2 rz1 f_s f_p
  = let th := layered_theta rz1 in
    (cmul f_s (refl_s n_1 n_2 (cos th) (cos2_of (n_1 / n_2 * sin th))),
     cmul f_p (refl_p n_1 n_2 (cos th) (cos2_of (n_1 / n_2 * sin th)))).
Proof.
  unfold LayeredRayTracePath_fresnel_reflect, layered_theta, refl_s, refl_p, cos2_of. cbv zeta.
  destruct (Rltb (sign rz1) 0); match goal with |- context [Rleb ?a 1] => destruct (Rleb a 1) end; reflexivity.
Qed.

Lemma layered_transmit_value n_1 n_2 rz1 f_s f_p :
  LayeredRayTracePath_fresnel_transmit n_1 n_2 rz1 f_s f_p
  = let th := layered_theta rz1 in
    (cmul f_s (trans_s n_1 n_2 (cos th) (cos2_of (n_1 / n_2 * sin th))),
     cmul f_p (trans_p n_1 n_2 (cos th) (cos2_of (n_1 / n_2 * sin th)))).
Proof.
  unfold LayeredRayTracePath_fresnel_transmit, layered_theta, trans_s, trans_p, cos2_of. cbv zeta.
  destruct (Rltb (sign rz1) 0); match goal with |- context [Rleb ?a 1] => destruct (Rleb a 1) end;
    repeat f_equal; ring.
Qed.

Lemma layered_reflect_le n_1 n_2 rz1 f_s f_p : 0 < n_1 -> 0 < n_2 -> -1 <= rz1 <= 1 -> rz1 <> 0 ->
  cabs2 (fst (LayeredRayTracePath_fresnel_reflect n_1 n_2 rz1 f_s f_p)) <= cabs2 f_s /\
  cabs2 (snd (LayeredRayTracePath_fresnel_reflect n_1 n_2 rz1 f_s f_p)) <= cabs2 f_p.
Proof.
  intros H1 H2 Hr Hn. rewrite layered_reflect_value. cbv zeta. simpl fst; simpl snd.
  destruct (layered_theta_cos_sin rz1 Hr Hn) as [Hc Hs].
  assert (Hs2 : 0 <= n_1 / n_2 * sin (layered_theta rz1)).
  { apply Rmult_le_pos; [|assumption]. apply Rlt_le, Rdiv_lt_0_compat; assumption. }
  destruct (reflection_le_1 n_1 n_2 _ _ H1 H2 Hc Hs2) as (A & B & _).
  rewrite !cabs2_mul. pose proof (cabs2_nonneg f_s). pose proof (cabs2_nonneg f_p).
  split; (eapply Rle_trans; [apply Rmult_le_compat_l; eassumption | lra]).
Qed.

(* transmission into an equal or higher index: amplitude coefficients at most 1 *)
Lemma transmission_le_1 n_1 n_2 cos_1 sin_1 :
  0 < n_1 -> n_1 <= n_2 -> 0 < cos_1 -> 0 <= sin_1 -> cos_1 * cos_1 + sin_1 * sin_1 = 1 ->
  cabs2 (trans_s n_1 n_2 cos_1 (cos2_of (n_1 / n_2 * sin_1))) <= 1 /\
  cabs2 (trans_p n_1 n_2 cos_1 (cos2_of (n_1 / n_2 * sin_1))) <= 1.
Proof.
  intros H1 H12 Hc Hs Hcs.
  assert (H2 : 0 < n_2) by lra.
  assert (Hq : 0 < n_1 / n_2 <= 1).
  { split; [apply Rdiv_lt_0_compat; assumption|]. apply Rmult_le_reg_r with n_2; [assumption|].
    unfold Rdiv. rewrite Rmult_assoc, Rinv_l by lra. lra. }
  set (q := n_1 / n_2) in *.
  assert (Hs1 : sin_1 <= 1) by nra.
  assert (Hs2 : q * sin_1 <= 1) by nra.
  unfold cos2_of. assert (E : Rleb (q * sin_1) 1 = true) by (apply Rleb_true; assumption). rewrite E.
  set (c2 := sqrt (1 - (q * sin_1) ^ 2)).
  assert (Hc2 : cos_1 <= c2).
  { unfold c2. rewrite <- (sqrt_Rsqr cos_1) by lra. apply sqrt_le_1_alt. unfold Rsqr.
    assert (Hqs0 : q * sin_1 <= sin_1) by nra.
    assert (Hqs1 : 0 <= q * sin_1) by nra.
    assert (Hqs : (q * sin_1) ^ 2 <= sin_1 * sin_1) by (simpl; nra). lra. }
  assert (D : forall A B, 0 < A + B -> cabs2 (cdiv (cofR (2 * n_1 * cos_1)) (cadd (cofR A) (cscale B (cofR 1))))
                                  = (2 * n_1 * cos_1) * (2 * n_1 * cos_1) / ((A + B) * (A + B))).
  { intros A B HAB.
    assert (DD : cabs2 (cadd (cofR A) (cscale B (cofR 1))) = (A + B) * (A + B))
      by (unfold cabs2, cadd, cscale, cofR, cre, cim; simpl; ring).
    rewrite cabs2_div by (rewrite DD; nra). rewrite DD.
    unfold cabs2, cofR, cre, cim; simpl. f_equal. ring. }
  assert (K : forall n c, cscale n (cofR c) = cscale (n * c) (cofR 1))
    by (intros; unfold cscale, cofR, cre, cim; simpl; f_equal; ring).
  unfold trans_s, trans_p. rewrite (K n_2 c2), (K n_1 c2).
  assert (P1 : 0 < n_1 * cos_1) by nra. assert (P2 : 0 < n_2 * cos_1) by nra.
  assert (P3 : 0 < c2) by lra.
  assert (Q1 : 0 < n_2 * c2) by (apply Rmult_lt_0_compat; lra).
  assert (Q2 : 0 < n_1 * c2) by (apply Rmult_lt_0_compat; lra).
  assert (L1 : n_1 * cos_1 <= n_2 * c2) by (apply Rmult_le_compat; lra).
  assert (L2 : n_1 * cos_1 <= n_2 * cos_1) by (apply Rmult_le_compat_r; lra).
  assert (L3 : n_1 * cos_1 <= n_1 * c2) by (apply Rmult_le_compat_l; lra).
  assert (Fin : forall a u v, 0 < a -> 0 < u -> 0 < v -> 2 * a <= u + v ->
            2 * a * (2 * a) / ((u + v) * (u + v)) <= 1).
  { intros a u v Pa Pu Pv Le.
    assert (0 < (u + v) * (u + v)) by (apply Rmult_lt_0_compat; lra).
    apply Rmult_le_reg_r with ((u + v) * (u + v)); [assumption|].
    unfold Rdiv. rewrite Rmult_assoc, Rinv_l by lra.
    assert (2 * a * (2 * a) <= (u + v) * (u + v)) by (apply Rmult_le_compat; lra). lra. }
  split.
  - rewrite D by lra. replace (2 * n_1 * cos_1) with (2 * (n_1 * cos_1)) by ring. apply Fin; lra.
  - rewrite D by lra. replace (2 * n_1 * cos_1) with (2 * (n_1 * cos_1)) by ring. apply Fin; lra.
Qed.

(* with the impedance / beam-area factor n_2 cos_2 / (n_1 cos_1) the transmitted POWER
   fraction never exceeds 1, whatever the indices *)
Lemma transmission_power_le_1 n_1 n_2 cos_1 c2 :
  0 < n_1 -> 0 < n_2 -> 0 < cos_1 -> 0 < c2 ->
  (n_2 * c2) / (n_1 * cos_1) * cabs2 (trans_s n_1 n_2 cos_1 (cofR c2)) <= 1 /\
  (n_2 * c2) / (n_1 * cos_1) * cabs2 (trans_p n_1 n_2 cos_1 (cofR c2)) <= 1.
Proof.
  intros H1 H2 Hc Hc2.
  assert (D : forall A B, 0 < A + B -> cabs2 (cdiv (cofR (2 * n_1 * cos_1)) (cadd (cofR A) (cscale B (cofR 1))))
                                  = (2 * n_1 * cos_1) * (2 * n_1 * cos_1) / ((A + B) * (A + B))).
  { intros A B HAB.
    assert (DD : cabs2 (cadd (cofR A) (cscale B (cofR 1))) = (A + B) * (A + B))
      by (unfold cabs2, cadd, cscale, cofR, cre, cim; simpl; ring).
    rewrite cabs2_div by (rewrite DD; nra). rewrite DD.
    unfold cabs2, cofR, cre, cim; simpl. f_equal. ring. }
  assert (K : forall n c, cscale n (cofR c) = cscale (n * c) (cofR 1))
    by (intros; unfold cscale, cofR, cre, cim; simpl; f_equal; ring).
  unfold trans_s, trans_p. rewrite (K n_2 c2), (K n_1 c2).
  assert (P1 : 0 < n_1 * cos_1) by nra. assert (P2 : 0 < n_2 * cos_1) by nra.
  assert (P3 : 0 < n_2 * c2) by nra. assert (P4 : 0 < n_1 * c2) by nra.
  assert (AMGM : forall u v, 0 < u -> 0 < v -> 4 * u * v / ((u + v) * (u + v)) <= 1).
  { intros u v Pu Pv.
    assert (0 < (u + v) * (u + v)) by (apply Rmult_lt_0_compat; lra).
    apply Rmult_le_reg_r with ((u + v) * (u + v)); [assumption|].
    unfold Rdiv. rewrite Rmult_assoc, Rinv_l by lra.
    pose proof (Rle_0_sqr (u - v)) as S. unfold Rsqr in S. lra. }
  split.
  - rewrite D by lra.
    replace (n_2 * c2 / (n_1 * cos_1) * (2 * n_1 * cos_1 * (2 * n_1 * cos_1) / ((n_1 * cos_1 + n_2 * c2) * (n_1 * cos_1 + n_2 * c2))))
      with (4 * (n_1 * cos_1) * (n_2 * c2) / ((n_1 * cos_1 + n_2 * c2) * (n_1 * cos_1 + n_2 * c2))) by (field; lra).
    apply AMGM; assumption.
  - rewrite D by lra.
    replace (n_2 * c2 / (n_1 * cos_1) * (2 * n_1 * cos_1 * (2 * n_1 * cos_1) / ((n_2 * cos_1 + n_1 * c2) * (n_2 * cos_1 + n_1 * c2))))
      with (4 * (n_2 * cos_1) * (n_1 * c2) / ((n_2 * cos_1 + n_1 * c2) * (n_2 * cos_1 + n_1 * c2))) by (field; lra).
    apply AMGM; assumption.
Qed.

(* the clause "Fresnel coefficient of magnitude at most 1" is false for the layered
   transmission amplitude into a lower index: normal incidence from n = 1.78 into n = 1.40 *)
Lemma layered_transmit_exceeds_1 :
  1 < cabs2 (fst (LayeredRayTracePath_fresnel_transmit 1.78 1.40 1 c_one c_one)).
Proof.
  rewrite layered_transmit_value. cbv zeta. simpl fst.
  assert (TH : layered_theta 1 = 0).
  { unfold layered_theta, sign.
    assert (A : Rltb 1 0 = false) by (apply Rltb_false; lra). rewrite A.
    assert (B : Rltb 0 1 = true) by (apply Rltb_true; lra). rewrite B, A. apply acos_1. }
  rewrite TH, cos_0, sin_0.
  unfold cos2_of. rewrite Rmult_0_r.
  assert (E : Rleb 0 1 = true) by (apply Rleb_true; lra). rewrite E.
  replace (1 - 0 ^ 2) with 1 by ring. rewrite sqrt_1.
  rewrite cabs2_mul. unfold trans_s.
  assert (DD : cabs2 (cadd (cofR (1.78 * 1)) (cscale 1.40 (cofR 1))) = 3.18 * 3.18)
    by (unfold cabs2, cadd, cscale, cofR, cre, cim; simpl; lra).
  rewrite cabs2_div by (rewrite DD; lra). rewrite DD.
  unfold c_one, cabs2, cofR, cre, cim; simpl.
  apply Rmult_lt_reg_r with (3.18 * 3.18); [lra|].
  replace (1 * 3.18 * 3.18) with (3.18 * 3.18) by lra.
  unfold Rdiv. rewrite !Rmult_assoc, Rinv_l by lra. lra.
Qed.
