(* List / integer-index lemmas used by the IO model proofs (C11, C12). *)
From Coq Require Import List ZArith Bool Lia.
Import ListNotations.
Open Scope Z_scope.

Definition zlen' {A} (l : list A) : Z := Z.of_nat (length l).

Lemma firstn_app_exact : forall {A} (l x : list A), firstn (length l) (l ++ x) = l.
Proof.
  intros. rewrite firstn_app, Nat.sub_diag, firstn_all. simpl. apply app_nil_r.
Qed.

Lemma skipn_app_exact : forall {A} (l x : list A), skipn (length l) (l ++ x) = x.
Proof.
  intros. rewrite skipn_app, Nat.sub_diag, skipn_all. reflexivity.
Qed.

Lemma firstn_app_le : forall {A} n (l x : list A), (n <= length l)%nat -> firstn n (l ++ x) = firstn n l.
Proof.
  intros. rewrite firstn_app. replace (n - length l)%nat with 0%nat by lia. simpl. apply app_nil_r.
Qed.

Lemma skipn_firstn_app : forall {A} (a b : nat) (l x : list A),
  (a + b <= length l)%nat -> firstn b (skipn a (l ++ x)) = firstn b (skipn a l).
Proof.
  intros. rewrite skipn_app. replace (a - length l)%nat with 0%nat by lia. simpl.
  apply firstn_app_le. rewrite skipn_length. lia.
Qed.

Lemma nth_firstn_skipn : forall {A} (l : list A) (a n i : nat) d,
  (i < n)%nat -> (a + n <= length l)%nat -> nth i (firstn n (skipn a l)) d = nth (a + i) l d.
Proof.
  intros A l a n i d Hi Hl.
  revert l Hl. induction a; intros l Hl; simpl.
  - revert l n Hi Hl. induction i; intros l n Hi Hl; destruct n; try lia; destruct l; simpl in *; try lia; auto.
    apply IHi; lia.
  - destruct l; simpl in *; try lia. apply IHa. lia.
Qed.

Lemma repeat_length' : forall {A} (x : A) n, length (repeat x n) = n.
Proof. intros. apply repeat_length. Qed.

Lemma nth_repeat' : forall {A} (x : A) n i, nth i (repeat x n) x = x.
Proof. induction n; destruct i; simpl; auto. Qed.

Lemma map_nth_in : forall {A B} (f : A -> B) l i d d', (i < length l)%nat -> nth i (map f l) d' = f (nth i l d).
Proof.
  intros A B f l. induction l; intros i d d' H; simpl in *; try lia. destruct i; auto. apply IHl. lia.
Qed.

Lemma seq_map_nth : forall {A} (l : list A) d, map (fun i => nth i l d) (seq 0 (length l)) = l.
Proof.
  intros A l d. induction l; simpl; auto. f_equal. rewrite <- seq_shift, map_map. exact IHl.
Qed.
