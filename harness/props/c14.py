"""C14: interactions conserve energy, cross sections consistent, event trees well formed.

gen    tools/gen_particle.py translates GQRSInteraction / CTWInteraction (choose_interaction,
       choose_inelasticity, cross sections, lengths, choose_shower_fractions) to Coq over R.
prove  coq/Props/C14.v (formula clauses over R for all draws / energies; tree clauses for all
       add_children sequences).
corr   (a) generated definitions run as OCaml floats vs the implementation under scripted
           numpy.random (model variates = implementation variates);
       (b) the generated _choose_secondary_fractions vs the implementation (scripted rand+poisson streams);
       (c) hand model of Event vs the real Event class on random histories (vm_compute, exact).
probe  the property itself on the implementation (real draws, extreme draws, sum rules,
       monotonicity, lengths, tree consistency with an independent reference tree).
"""
import importlib
import json
import math
import os
import sys
from unittest import mock

import numpy as np

from harness import common, realextract as rx
from harness.common import REPO, ROOT

sys.path.insert(0, os.path.join(ROOT, "tools"))

PIN_FILE = os.path.join(ROOT, "harness", "pins", "C14.json")
PINNED = ["Event.__init__", "Event.add_children",
          "Event.get_children", "Event.get_parent", "Event.get_from_level", "Event.__iter__", "Event.__len__"]
PIDS = {"nu_e": 12, "nu_e_bar": -12, "nu_mu": 14, "nu_mu_bar": -14, "nu_tau": 16, "nu_tau_bar": -16}
MODELS = {"GQRS": "GQRSInteraction", "CTW": "CTWInteraction"}
TINY = 2.0 ** -53


def gen_files(scratch):
    import gen_particle
    importlib.reload(gen_particle)
    text, hashes = gen_particle.generate(REPO)
    return {"Gen_particle": text}, hashes


def current_pins():
    from py2coq import ast_pin
    return {k: ast_pin(REPO, "pyrex/particle.py", k) for k in PINNED}


# ---------------------------------------------------------------------------- scripted numpy.random
class Script:
    """Replacement for numpy.random.rand / numpy.random.poisson: hands out the scripted values."""

    def __init__(self, us, ns=(), fallback=None):
        self.us, self.ns, self.iu, self.inn = list(us), list(ns), 0, 0
        self.fallback = fallback          # random.Random continuing the streams (plain uniform draws)

    def rand(self, *a):
        if a:
            raise TypeError("scripted rand() takes no arguments")
        if self.iu >= len(self.us):
            if self.fallback is None:
                raise IndexError("scripted uniform stream exhausted")
            self.us.append(self.fallback.random())
        v = self.us[self.iu]
        self.iu += 1
        return v

    def poisson(self, lam=1.0, size=None):
        if size is not None:
            raise TypeError("scripted poisson() is scalar")
        if self.inn >= len(self.ns):
            if self.fallback is None:
                raise IndexError("scripted poisson stream exhausted")
            self.ns.append(self.fallback.choice([0, 0, 1]))
        v = self.ns[self.inn]
        self.inn += 1
        return v

    def __enter__(self):
        self.p = [mock.patch("numpy.random.rand", self.rand), mock.patch("numpy.random.poisson", self.poisson)]
        for p in self.p:
            p.start()
        return self

    def __exit__(self, *a):
        for p in self.p:
            p.stop()


class Recorder:
    """Lets the real numpy.random.rand / poisson run and records what they returned (for replays)."""

    def __enter__(self):
        self.us, self.ns = [], []
        r0, p0 = np.random.rand, np.random.poisson

        def rand(*a):
            v = r0(*a)
            if not a:
                self.us.append(float(v))
            return v

        def poisson(*a, **k):
            v = p0(*a, **k)
            if np.ndim(v) == 0:
                self.ns.append(int(v))
            return v
        self.p = [mock.patch("numpy.random.rand", rand), mock.patch("numpy.random.poisson", poisson)]
        for p in self.p:
            p.start()
        return self

    def __exit__(self, *a):
        for p in self.p:
            p.stop()


def model_class(pp, model, secondaries, log=None):
    base = getattr(pp, MODELS[model])
    ns = {"include_secondaries": secondaries}
    if log is not None:
        def _choose_secondary_fractions(self, lepton_energy, energy_index):
            r = base._choose_secondary_fractions(self, lepton_energy, energy_index)
            log.append((float(lepton_energy), int(energy_index), float(r[0]), float(r[1])))
            return r
        ns["_choose_secondary_fractions"] = _choose_secondary_fractions
    return type(base.__name__ + "_probe", (base,), ns)


def rand_u(rng, special=0.15):
    x = rng.random()
    if x < special:
        return rng.choice([0.0, TINY, 1.0 - TINY, 1.0 - 2 * TINY, 0.5, 1e-12, 1 - 1e-9])
    if x < special + 0.15:
        return 1.0 - rng.random() * 10 ** rng.uniform(-6, -1)
    return rng.random()


def rand_energy(rng):
    x = rng.random()
    if x < 0.1:
        return rng.choice([1e3, 1e12, 1e6, 1e9])
    return float(10 ** rng.uniform(3, 12))


# ---------------------------------------------------------------------------- OCaml literals
def _pos(n):
    bits = bin(n)[3:]
    e = "M.XH"
    for b in bits:
        e = "(M.%s %s)" % ("XI" if b == "1" else "XO", e)
    return e


def ocz(n):
    n = int(n)
    return "M.Z0" if n == 0 else ("(M.Zpos %s)" % _pos(n) if n > 0 else "(M.Zneg %s)" % _pos(-n))


def oclist(xs, f=rx.ocf):
    return "[" + "; ".join(f(x) for x in xs) + "]"


def mk_inter(kind, pid, energy, y, sec):
    return "{M.inter_kind=%s; M.inter_pid=%s; M.inter_energy=%s; M.inter_inelasticity=%s; M.inter_include_secondaries=%s}" % (
        ocz(kind), ocz(pid), rx.ocf(energy), rx.ocf(y), "true" if sec else "false")


OCAML_EXTRA = r'''
let rec natint = function M.O -> 0 | M.S n -> 1 + natint n
let rec pint = function M.XH -> 1 | M.XO q -> 2 * pint q | M.XI q -> 2 * pint q + 1
let zint = function M.Z0 -> 0 | M.Zpos q -> pint q | M.Zneg q -> - (pint q)
let proo = function None -> print_string "None\n" | Some None -> print_string "inf inf\n" | Some (Some (a, b)) -> Printf.printf "%h %h\n" a b
(* the it-th logged call of _choose_secondary_fractions; nan when the arguments differ *)
let sec_of tbl = fun it le ei ->
  let i = natint it in
  if i >= Array.length tbl then (nan, nan) else
  let (l, e, a, b) = tbl.(i) in if le = l && zint ei = e then (a, b) else (nan, nan)
'''


def tabs_prelude(pp):
    """OCaml definition `tabs` : the SecTables record filled with the implementation's module-level tables."""
    out, fields = [], []
    for nm in sorted(vars(pp)):
        if nm.startswith("_int_"):
            out.append("let a%s = [|%s|]" % (nm, "; ".join(rx.ocf(float(v)) for v in getattr(pp, nm))))
            fields.append("M.tab%s = (fun z -> a%s.(zint z))" % (nm, nm))
        elif nm.startswith("_y_cum_"):
            out.append("let a%s = [|%s|]" % (nm, "; ".join(oclist([float(v) for v in row]) for row in getattr(pp, nm))))
            fields.append("M.tab%s = (fun z -> a%s.(zint z))" % (nm, nm))
    out.append("let tabs = {%s}" % "; ".join(fields))
    return "\n".join(out) + "\n"


def close(a, b, rel, abs_):
    a, b = float(a), float(b)
    if math.isnan(a) or math.isnan(b):
        return False
    if math.isinf(a) or math.isinf(b):
        return a == b
    return abs(a - b) <= abs_ + rel * max(abs(a), abs(b))


# ---------------------------------------------------------------------------- correspondence (a)+(b): formulas
def one_interaction(pp, model, pidname, energy, kind, secondaries, us, ns, fallback_seed=None):
    """Build a real Particle under a scripted stream.  Returns dict with everything observed."""
    import random
    log = []
    cls = model_class(pp, model, secondaries, log)
    s = Script(us, ns, None if fallback_seed is None else random.Random(fallback_seed))
    out = {"model": model, "pid": pidname, "energy": energy, "kind_in": kind, "secondaries": secondaries,
           "us": list(us), "ns": list(ns)}
    try:
        with s, np.errstate(all="ignore"):
            p = pp.Particle(pidname, (0, 0, -100), (0, 0, 1), energy, interaction_model=cls, interaction_type=kind)
        i = p.interaction
        out.update(ok=True, kind=int(i.kind.value), y=float(i.inelasticity), em=float(i.em_frac), had=float(i.had_frac),
                   sigma=float(i.cross_section), total=float(i.total_cross_section),
                   length=float(i.interaction_length), total_length=float(i.total_interaction_length))
    except TypeError as e:
        # 1000 rejected secondary draws: choose_shower_fractions returned None
        out.update(ok=False, exc="TypeError", msg=str(e))
    except Exception as e:
        out.update(ok=False, exc=type(e).__name__, msg=str(e))
    out.update(used_u=s.iu, used_n=s.inn, sec_log=log, us_used=s.us[:s.iu], ns_used=s.ns[:s.inn])
    return out


def corr_formulas(ctx, pp, escalate):
    rng = ctx.rng
    n = ctx.n(220, 4000) * (3 if escalate else 1)
    cases, checks = [], []
    dist = {"model": {}, "pid": {}, "kind_in": {}, "secondaries": {}, "retries": 0, "exhausted": 0, "special_draws": 0}
    scen = []
    for i in range(n):
        model = rng.choice(list(MODELS))
        pidname = rng.choice(list(PIDS))
        kind = rng.choice([None, None, "cc", "nc"])
        secondaries = rng.random() < 0.7
        energy = rand_energy(rng)
        us = [rand_u(rng) for _ in range(3)]
        # secondary draws: biased high now and then so that energy conservation rejects some tries
        hi = rng.random() < 0.35
        us += [(1 - rng.random() * 0.02) if (hi and rng.random() < 0.8) else rand_u(rng, 0.05) for _ in range(120)]
        ns = [rng.choice([0, 0, 1, 1, 2, 3, 5]) for _ in range(30)]
        scen.append((model, pidname, energy, kind, secondaries, us, ns))
    # one scripted exhaustion of the 1000 tries (every draw gives y close to 1 for both showers)
    scen.append(("CTW", "nu_mu", 1e9, "cc", True, [0.9, 0.5] + [0.0, 1 - 1e-9, 0.999, 1 - 1e-10] * 1001, [1, 0, 1] * 1001))
    for (model, pidname, energy, kind, secondaries, us, ns) in scen:
        o = one_interaction(pp, model, pidname, energy, kind, secondaries, us, ns, fallback_seed=len(cases))
        pid = PIDS[pidname]
        pre = "M." + rx.ocaml_name(model)
        dist["model"][model] = dist["model"].get(model, 0) + 1
        dist["pid"][pidname] = dist["pid"].get(pidname, 0) + 1
        dist["kind_in"][str(kind)] = dist["kind_in"].get(str(kind), 0) + 1
        dist["secondaries"][str(secondaries)] = dist["secondaries"].get(str(secondaries), 0) + 1
        dist["retries"] += 1 if len(o["sec_log"]) > 1 else 0
        dist["special_draws"] += sum(1 for u in us[:3] if u in (0.0, TINY, 1 - TINY, 1 - 2 * TINY))
        key = (model, pidname, energy, kind, secondaries, tuple(us[:3]), tuple(ns[:3]))
        meta = {k: o[k] for k in ("model", "pid", "energy", "kind_in", "secondaries")}
        meta["us"] = us[:8]
        meta["ns"] = ns[:6]
        if not o["ok"] and not (o.get("exc") == "TypeError" and len(o["sec_log"]) == 1000):
            ctx.fail("crash:%s:%s:%r:%s:%s:%r" % (model, pidname, energy, kind, secondaries, us[:3]),
                     "generating an interaction raised %s(%s) for %s" % (o.get("exc"), o.get("msg"), json.dumps(meta)),
                     {"kind": "interaction", **meta, "us_full": o["us_used"], "ns_full": o["ns_used"]})
            continue
        iu = 0
        # interaction type
        if kind is None:
            u = us[iu]
            iu += 1
            cases.append("prz (%s_choose_interaction %s %s)" % (pre, mk_inter(0, pid, energy, 0.0, secondaries), rx.ocf(u)))
        kval = o["kind"] if o["ok"] else {"cc": 1, "nc": 2}[kind or "cc"]
        if kind is None:
            checks.append(("kind", key, meta, (float(kval),), 0, 0))
        # inelasticity
        if model == "GQRS":
            cases.append("pr (%s_choose_inelasticity %s %s)" % (pre, mk_inter(kval, pid, energy, 0.0, secondaries), rx.ocf(us[iu])))
            iu += 1
        else:
            cases.append("pro (%s_choose_inelasticity %s %s %s)" % (pre, mk_inter(kval, pid, energy, 0.0, secondaries), rx.ocf(us[iu]), rx.ocf(us[iu + 1])))
            iu += 2
        if o["ok"]:
            y = o["y"]
            checks.append(("inelasticity", key, meta, (y,), 1e-10, 1e-13))
        else:
            # exhausted case: the object does not exist; take y from the logged lepton energy
            y = 1.0 - o["sec_log"][0][0] / energy
            checks.append(("inelasticity", key, meta, (y,), 1e-9, 1e-12))
        # shower fractions, with the logged results of _choose_secondary_fractions as `sec`
        tbl = "[|" + "; ".join("(%s, %d, %s, %s)" % (rx.ocf(l), e, rx.ocf(a), rx.ocf(b)) for (l, e, a, b) in o["sec_log"]) + "|]"
        if o["ok"]:
            inter = mk_inter(kval, pid, energy, y, secondaries)
            cases.append("proo (%s_choose_shower_fractions %s (sec_of %s))" % (pre, inter, tbl))
            checks.append(("shower_fractions", key, meta, (o["em"], o["had"]), 1e-13, 1e-300))
        else:
            dist["exhausted"] += 1
            y_impl = 1.0 - o["sec_log"][0][0] / energy
            # lepton energy must be reproduced exactly for the table lookup: search the y that does
            inter = mk_inter(kval, pid, energy, _y_for_lepton(energy, o["sec_log"][0][0], y_impl), secondaries)
            cases.append("proo (%s_choose_shower_fractions %s (sec_of %s))" % (pre, inter, tbl))
            checks.append(("shower_fractions", key, meta, (float("inf"), float("inf")), 0, 0))
        if o["ok"]:
            inter = mk_inter(kval, pid, energy, y, secondaries)
            for fn, val in (("cross_section", o["sigma"]), ("total_cross_section", o["total"]),
                            ("interaction_length", o["length"]), ("total_interaction_length", o["total_length"])):
                cases.append("pro (%s_%s %s)" % (pre, fn, inter))
                checks.append((fn, key, meta, (val,), 1e-9, 0))
    # (b) direct calls of _choose_secondary_fractions
    nsec = ctx.n(160, 3000) * (4 if escalate else 1)
    knots = []
    for arr in (pp._y_cum_muon_brems, pp._y_cum_tauon_pn, pp._y_cum_tauon_edecay, pp._y_cum_tauon_hadrdecay):
        for ei in (0, 3, 6):
            knots += [float(v) for v in arr[ei][::17]]
    for i in range(nsec):
        pidname = rng.choice(["nu_mu", "nu_mu_bar", "nu_tau", "nu_tau_bar", "nu_tau", "nu_e"])
        pid = PIDS[pidname]
        ei = rng.randrange(7)
        le = float(rng.choice([1.0, 10 ** rng.uniform(0, 21), 0.0, 3.5e8]))
        nsd = [rng.choice([0, 0, 1, 2, 3, 6]) for _ in range(3)]
        ntot = sum(nsd)
        us = [(rng.choice(knots) if rng.random() < 0.12 else rand_u(rng, 0.1)) for _ in range(2 * ntot + 2)]
        s = Script(us, nsd)
        obj = pp.Particle(pidname, (0, 0, 0), (0, 0, 1), 1e9, interaction_model=pp.Interaction).interaction
        inter = getattr(pp, "GQRSInteraction").__new__(pp.GQRSInteraction)
        inter.particle = obj.particle
        try:
            with s, np.errstate(all="ignore"):
                em, had = inter._choose_secondary_fractions(le, ei)
        except Exception as e:
            ctx.fail("sec-crash:%s:%d:%r:%r" % (pidname, ei, nsd, us[:4]), "_choose_secondary_fractions raised %r" % (e,),
                     {"kind": "secondary", "pid": pidname, "ei": ei, "le": le, "ns": nsd, "us": us})
            continue
        cases.append("pr2 (M.gQRS_choose_secondary_fractions %s tabs %s %s %s %s)" % (
            mk_inter(1, pid, 1e9, 0.0, True), rx.ocf(le), ocz(ei), oclist(nsd, ocz), oclist(us)))
        meta = {"pid": pidname, "energy_index": ei, "lepton_energy": le, "ns": nsd, "us": us[:10], "consumed": s.iu}
        checks.append(("secondary_fractions", ("sec", pidname, ei, le, tuple(nsd), tuple(us)), meta, (float(em), float(had)), 1e-12, 0))
    fns = []
    for m in MODELS:
        fns += ["%s_%s" % (m, f) for f in ("choose_interaction", "choose_inelasticity", "cross_section", "total_cross_section",
                                           "interaction_length", "total_interaction_length", "choose_shower_fractions")]
    fns += ["GQRS_choose_secondary_fractions", "mkInter", "mkSecTables"]
    old = rx.OCAML_PRELUDE
    rx.OCAML_PRELUDE = old + OCAML_EXTRA + tabs_prelude(pp)
    try:
        res = rx.run(ctx, "From PyrexGen Require Import Gen_particle.", fns, cases, name="particle")
    finally:
        rx.OCAML_PRELUDE = old
    bad = {}
    for r, (fn, key, meta, exp, rel, abs_) in zip(res, checks):
        ctx.case(key=(fn,) + tuple(key), sample={"fn": fn, "case": meta, "model": r, "impl": exp})
        ok = isinstance(r, tuple) and len(r) == len(exp) and all(
            (x == e) if (rel == 0 and abs_ == 0) or math.isinf(e) else close(x, e, rel, abs_) for x, e in zip(r, exp))
        if not ok:
            bad[fn] = bad.get(fn, 0) + 1
            if bad[fn] <= 2:
                ctx.oblige("corr:formula:%s" % fn, False, "generated model and implementation disagree: model=%r impl=%r at %s" % (
                    r, exp, json.dumps(meta, default=str)))
    ctx.oblige("corr:formulas(%d model evaluations)" % len(cases), not bad, "disagreements per function: %s" % bad)
    ctx.extra["corr_formula_distribution"] = dist
    ctx.extra["corr_formula_tolerance"] = ("same operation order in model and implementation, so only libm differences (exp/log/pow/sin <= 2 ulp) "
                                           "propagate: kind exact; inelasticity rel 1e-10 + abs 1e-13 (cancellation c_1 + (...) with |c_1| <= 4.1); "
                                           "shower fractions rel 1e-13 (given the same inelasticity and the logged secondaries); cross sections and "
                                           "lengths rel 1e-9 (10**p with |p| <= 40 amplifies a 2 ulp error of p by |p| ln 10); secondaries rel 1e-12")
    return not bad


def _y_for_lepton(energy, lepton, y0):
    """A float y with energy*(1-y) == lepton exactly (y0 is within a few ulp)."""
    y = y0
    for _ in range(200):
        v = energy * (1 - y)
        if v == lepton:
            return y
        y = np.nextafter(y, 0.0 if v < lepton else 2.0)
    return y0


# ---------------------------------------------------------------------------- correspondence (c): event tree
class Bound(Exception):
    """An implementation call sequence exceeded a size or time bound."""


class Watchdog:
    """Wall-clock guard (signal.setitimer): `with Watchdog(seconds)` raises Bound inside the block when it
    runs longer; nests (the outer deadline stays armed).  Long single C calls cannot be interrupted, which is
    why sizes are bounded separately after every implementation call."""
    stack = []

    def __init__(self, seconds, what="case"):
        self.seconds, self.what = seconds, what

    @staticmethod
    def _fire(signum, frame):
        import time
        now = time.time()
        due = [w for w in Watchdog.stack if w.deadline <= now + 1e-3]
        w = due[0] if due else Watchdog.stack[-1]
        raise (HarnessTimeout if w.what == "run" else Bound)("time bound of %.0f s for one %s exceeded" % (w.seconds, w.what))

    @staticmethod
    def _arm():
        import signal
        import time
        if not Watchdog.stack:
            signal.setitimer(signal.ITIMER_REAL, 0)
            return
        nxt = min(w.deadline for w in Watchdog.stack)
        signal.signal(signal.SIGALRM, Watchdog._fire)
        signal.setitimer(signal.ITIMER_REAL, max(nxt - time.time(), 0.01))

    def __enter__(self):
        import time
        self.deadline = time.time() + self.seconds
        Watchdog.stack.append(self)
        Watchdog._arm()
        return self

    def __exit__(self, *a):
        Watchdog.stack.remove(self)
        Watchdog._arm()


class HarnessTimeout(Exception):
    pass


class RefTree:
    """Independent reference: parent map and child lists kept by the harness."""

    def __init__(self, roots):
        self.roots = list(roots)
        self.nodes = list(roots)
        self.parent = {r: None for r in roots}
        self.children = {r: [] for r in roots}

    def add(self, parent, cs):
        for c in cs:
            self.nodes.append(c)
            self.parent[c] = parent
            self.children[c] = []
            self.children[parent].append(c)

    def level(self, n):
        cur = list(self.roots)
        for _ in range(max(n, 0)):
            cur = [c for p in cur for c in self.children[p]]
        return cur


def lit_list(xs):
    return "[" + "; ".join(lit_list(x) if isinstance(x, list) else str(x) for x in xs) + "]"


class EventDriver:
    """One real Event driven through recorded operations; every call is size-bounded."""

    def __init__(self, pp, rec):
        self.pp, self.made, self.ident = pp, {}, {}
        roots = rec["roots"]
        self.ev = pp.Event(self.particle(0)) if rec.get("single_root") and len(roots) == 1 else pp.Event([self.particle(i) for i in roots])

    def particle(self, i):
        if i not in self.made:
            o = self.pp.Particle(("nu_e", "nu_mu", "nu_tau", "e", "mu_plus")[i % 5], (0, 0, -i), (0, 0, 1), 1e6 + i,
                                 interaction_model=self.pp.Interaction)
            self.made[i] = o
            self.ident[id(o)] = i
        return self.made[i]

    fresh = True      # maintained by run_ops: only fresh histories are inside the property

    def cap(self):
        # fresh particles: no accessor can return more particles than exist.  After a particle was re-added
        # (outside the property) cycles are legitimate and level lists grow geometrically: generous cap, and
        # exceeding it only ends the history
        return 4 * len(self.made) + 8 if self.fresh else 5000

    def ids(self, objs, what):
        objs = list(objs) if not isinstance(objs, list) else objs
        if len(objs) > self.cap():
            raise Bound("%s returned %d particles, the event was given %d" % (what, len(objs), len(self.made)))
        return [self.ident[id(o)] for o in objs]

    def snapshot(self):
        """Full state of the object: roots, flat list, child index lists (read directly, no method call)."""
        ev = self.ev
        if len(ev._all) > self.cap() or sum(len(c) for c in ev._children) > self.cap() or len(ev._children) > self.cap():
            raise Bound("internal lists grew to %d particles / %d child indices for %d particles given to the event" % (
                len(ev._all), sum(len(c) for c in ev._children), len(self.made)))
        return ([self.ident[id(o)] for o in ev.roots], [self.ident[id(o)] for o in ev._all], [list(c) for c in ev._children])

    # accessors, each returning a canonical answer
    def children(self, p):
        try:
            return ("list", self.ids(self.ev.get_children(self.particle(p)), "get_children(%d)" % p))
        except ValueError:
            return "err"

    def parent(self, p):
        try:
            r = self.ev.get_parent(self.particle(p))
        except ValueError:
            return "err"
        return ("opt", None if r is None else self.ident[id(r)])

    def level(self, k):
        try:
            return ("list", self.ids(self.ev.get_from_level(k), "get_from_level(%d)" % k))
        except ValueError:
            return "err"

    def iterate(self):
        out = []
        for o in self.ev:
            out.append(o)
            if len(out) > self.cap():
                raise Bound("iteration yields more than %d particles for %d given" % (self.cap(), len(self.made)))
        return ("list", self.ids(out, "iteration"))

    def length(self):
        return ("nat", len(self.ev))

    def add(self, parent, cs, form):
        objs = [self.particle(c) for c in cs]
        if form == "single" and len(objs) != 1:
            form = "list"
        arg = objs[0] if form == "single" else (tuple(objs) if form == "tuple" else objs)
        try:
            self.ev.add_children(self.particle(parent), arg)
        except ValueError:
            return "err"
        return ("nat", len(self.ev))

    def do(self, op):
        k = op[0]
        if k == "add":
            return self.add(op[1], op[2], op[3])
        if k == "children":
            return self.children(op[1])
        if k == "parent":
            return self.parent(op[1])
        if k == "level":
            return self.level(op[1])
        if k == "iter":
            return self.iterate()
        return self.length()


def mirror_add(st, parent, cs):
    """Python mirror of Model/EventTree.v add_children on a state (roots, all, children); None = rejected.
    (The mirror itself is tied to the Coq model: the final state of every history is compared exactly.)"""
    roots, al, ch = st
    if parent not in al:
        return None
    pi = al.index(parent)
    start = len(al)
    ch2 = [list(c) for c in ch] + [[] for _ in cs]
    ch2[pi] = ch2[pi] + list(range(start, start + len(cs)))
    return (list(roots), al + list(cs), ch2)


def answer_text(a):
    if a == "err":
        return "AErr"
    if a[0] == "list":
        return "AList %s" % lit_list(a[1])
    if a[0] == "opt":
        return "AOpt None" if a[1] is None else "AOpt (Some %d)" % a[1]
    return "ANat %d" % a[1]


def op_text(op):
    k = op[0]
    if k == "add":
        return "HAdd %d %s" % (op[1], lit_list(op[2]))
    if k == "children":
        return "HAsk (QChildren %d)" % op[1]
    if k == "parent":
        return "HAsk (QParent %d)" % op[1]
    if k == "level":
        return "HAsk (QLevel (%d)%%Z)" % op[1]
    return "HAsk QIter" if k == "iter" else "HAsk QLen"


def gen_history(rng, max_nodes, fresh_only, shape):
    """A recorded history (pure: which adds are accepted follows from which particles are in the event)."""
    nroots = {"two_roots": 2, "chain": 1}.get(shape, rng.choice([1, 1, 2, 3, 4] if fresh_only else [1, 1, 2, 3, 4, 0]))
    roots = list(range(nroots))
    next_id = nroots
    present = list(roots)
    kids = {r: [] for r in roots}
    ops = []
    fresh = True
    for _ in range(rng.randint(4, 60)):
        x = rng.random()
        if x < (0.55 if shape != "random" else 0.45) and len(present) < max_nodes and (present or not fresh_only):
            y = rng.random()
            nonfirst = [c for p in present for c in kids.get(p, [])[1:]]
            if (y < 0.08 and shape == "random") or not present:
                parent, next_id = next_id, next_id + 1            # not in the event (id never used again)
            elif shape == "chain" and y < 0.85:
                parent = present[-1]
            elif shape in ("second_sibling", "two_roots") and nonfirst and y < 0.75:
                parent = rng.choice(nonfirst)                      # a non-first particle of its level gets children
            elif shape == "two_roots" and y < 0.9:
                parent = 1
            elif y < 0.55:
                parent = present[-rng.randint(1, min(4, len(present)))]
            else:
                parent = rng.choice(present)
            form = rng.choice(["single", "list", "list", "tuple", "empty"] if shape == "random" else ["single", "list", "list", "tuple"])
            k = {"single": 1, "empty": 0}.get(form, rng.randint(1, 3 if shape == "chain" else 4))
            cs = list(range(next_id, next_id + k))
            if not fresh_only and cs and present and rng.random() < 0.06:
                cs[rng.randrange(len(cs))] = rng.choice(present)
            next_id += k
            ops.append(["add", parent, cs, form])
            if parent in kids:
                if any(c in kids for c in cs) or len(set(cs)) != len(cs):
                    fresh = False
                for c in cs:
                    kids.setdefault(c, [])
                    kids[parent].append(c)
                present += cs
        else:
            z = rng.random()
            if present and rng.random() < 0.9:
                p = rng.choice(present)
            else:
                p, next_id = next_id, next_id + 1
            if z < 0.25:
                ops.append(["children", p])
            elif z < 0.5:
                ops.append(["parent", p])
            elif z < 0.82:
                ops.append(["level", rng.choice([-1, 0, 0, 1, 1, 2, 2, 3, 3, 4, 5, 7])])
            elif z < 0.93:
                ops.append(["iter"])
            else:
                ops.append(["len"])
    return {"roots": roots, "single_root": nroots == 1 and rng.random() < 0.5, "ops": ops, "fresh": fresh, "shape": shape}


def tree_property(d, ref, watch_state=True):
    """The property as stated, judged with the harness's own reference tree (fresh particles only).
    With watch_state every accessor call is also required to leave (roots, _all, _children) unchanged;
    the first accessor that changes it is reported together with its first visible consequence."""
    bad = []
    s0 = d.snapshot() if watch_state else None

    def unchanged(label):
        if watch_state and not bad and d.snapshot() != s0:
            after = d.snapshot()
            later = tree_property(d, ref, watch_state=False)
            bad.append("the read %s changed the state of the event from %s to %s%s" % (
                label, list(s0), list(after), ("; afterwards " + later[0]) if later else ""))
            return False
        return True
    it = d.iterate()[1]
    if not unchanged("iteration"):
        return bad
    if sorted(it) != sorted(ref.nodes) or len(set(it)) != len(it):
        bad.append("iteration returns %s, the event holds %s (each exactly once expected)" % (it, sorted(ref.nodes)))
    if d.length()[1] != len(ref.nodes):
        bad.append("len(event)=%d, %d particles were added" % (d.length()[1], len(ref.nodes)))
    for q in ref.nodes:
        ch = d.children(q)
        if not unchanged("get_children(%d)" % q):
            return bad
        ch = ch[1] if ch != "err" else None
        if ch is None or sorted(ch) != sorted(ref.children[q]) or len(set(ch)) != len(ch):
            bad.append("get_children(%d)=%s, expected the set %s" % (q, ch, ref.children[q]))
        par = d.parent(q)
        if not unchanged("get_parent(%d)" % q):
            return bad
        if par == "err" or par[1] != ref.parent[q]:
            bad.append("get_parent(%d)=%s, expected %s" % (q, par if par == "err" else par[1], ref.parent[q]))
        for c in ch or []:
            pc = d.parent(c)
            if pc == "err" or pc[1] != q:
                bad.append("%d is in get_children(%d) but get_parent(%d)=%s" % (c, q, c, pc if pc == "err" else pc[1]))
        if len(bad) > 3:
            return bad[:3]
    seen = []
    for lv in range(len(ref.nodes) + 2):
        l = d.level(lv)
        if not unchanged("get_from_level(%d)" % lv):
            return bad
        l = l[1] if l != "err" else None
        if l is None or sorted(l) != sorted(ref.level(lv)):
            bad.append("get_from_level(%d)=%s, expected the set %s" % (lv, l, ref.level(lv)))
            break
        if not l:
            break
        seen += l
    if not bad and sorted(seen) != sorted(ref.nodes):
        bad.append("levels do not partition the particles: levels give %s, event holds %s" % (sorted(seen), sorted(ref.nodes)))
    l0 = d.level(0)
    if l0 == "err" or l0[1] != ref.roots:
        bad.append("level 0 is not the roots")
    return bad[:3]


def run_ops(pp, rec, seconds=20.0, battery=True):
    """Execute a recorded history on a real Event.  After EVERY operation (reads included): the full state
    (roots, _all, _children) is recorded, a read must leave it unchanged, and (fresh histories) every accessor
    is compared with the reference tree.  Returns (answers, states, failure text or None)."""
    answers, states, failure = [], [], None
    step = -1
    fresh = True
    try:
        with Watchdog(seconds, "history"):
            d = EventDriver(pp, rec)
            ref = RefTree(rec["roots"])
            fresh = True
            present = set(rec["roots"])
            before = d.snapshot()
            for step, op in enumerate(rec["ops"]):
                a = d.do(op)
                after = d.snapshot()
                answers.append(a)
                states.append(after)
                if op[0] == "add":
                    want = mirror_add(before, op[1], op[2])
                    if (want is None) != (a == "err") or (want is not None and tuple(want) != tuple(after)) or (want is None and after != before):
                        failure = failure or ("step %d: after %s the state (roots, _all, _children) is %s, the model gives %s" % (
                            step, op, list(after), "ValueError and no change" if want is None else list(want)))
                    if a != "err":
                        if op[1] not in present:
                            failure = failure or "step %d: add_children(%d, %s) was accepted although %d is not in the event" % (step, op[1], op[2], op[1])
                            fresh = False
                        elif fresh and not any(c in present for c in op[2]) and len(set(op[2])) == len(op[2]):
                            ref.add(op[1], op[2])
                        else:
                            fresh = False
                        d.fresh = fresh
                        present.update(op[2])
                    elif op[1] in present:
                        failure = failure or "step %d: add_children(%d, %s) raised ValueError although %d is in the event" % (step, op[1], op[2], op[1])
                elif after != before:
                    failure = failure or ("step %d: the read operation %s changed the state of the event: roots/_all/_children were %s and are %s" % (
                        step, op, list(before), list(after)))
                if battery and fresh and not failure:
                    bad = tree_property(d, ref)
                    after2 = d.snapshot()
                    if bad:
                        failure = "after step %d (%s): %s" % (step, op, bad[0])
                    elif after2 != after:
                        failure = "after step %d (%s): reading every accessor changed the state of the event: %s -> %s" % (step, op, list(after), list(after2))
                if failure:
                    break
                before = d.snapshot()
    except Bound as e:
        if fresh:
            failure = failure or "step %d (%s): %s" % (step, rec["ops"][step] if 0 <= step < len(rec["ops"]) else "init", e)
        else:
            # a re-added particle made a cycle: outside the property; keep the executed prefix only
            del rec["ops"][len(answers):]
            rec["truncated"] = str(e)
    except HarnessTimeout:
        raise
    except Exception as e:
        failure = failure or "step %d (%s): raised %r" % (step, rec["ops"][step] if 0 <= step < len(rec["ops"]) else "init", e)
    return answers, states, failure


def shrink_record(pp, rec, budget=15.0):
    """Greedy minimisation of a failing history (drop operations, then children), time-bounded."""
    import time
    t0 = time.time()
    cur = dict(rec)

    def fails(r):
        return run_ops(pp, r, seconds=10.0)[2] is not None
    if not fails(cur):
        return rec
    changed = True
    while changed and time.time() - t0 < budget:
        changed = False
        for i in range(len(cur["ops"]) - 1, -1, -1):
            if time.time() - t0 > budget:
                break
            cand = dict(cur, ops=cur["ops"][:i] + cur["ops"][i + 1:])
            if fails(cand):
                cur, changed = cand, True
        for i in range(len(cur["ops"])):
            o = cur["ops"][i]
            if o[0] != "add" or time.time() - t0 > budget:
                continue
            for j in range(len(o[2]) - 1, -1, -1):
                no = [o[0], o[1], o[2][:j] + o[2][j + 1:], "list" if o[3] == "single" else o[3]]
                cand = dict(cur, ops=cur["ops"][:i] + [no] + cur["ops"][i + 1:])
                if fails(cand):
                    cur, changed, o = cand, True, no
    return cur


def corr_tree(ctx, pp, escalate):
    import time
    rng = ctx.rng
    ntrees = ctx.n(300, 6000) * (3 if escalate else 1)
    budget = ctx.n(30.0, 240.0)
    t0 = time.time()
    exprs, expect, records = [], [], []
    dist = {"histories": 0, "ops": 0, "adds": 0, "reads": 0, "rejected_adds": 0, "non_fresh_histories": 0, "shapes": {}, "forms": {},
            "state_comparisons": 0, "witnesses": 0}
    for i in range(ntrees):
        if time.time() - t0 > budget:
            dist["stopped_after_budget_s"] = budget
            break
        fresh_only = rng.random() < 0.6
        shape = rng.choice(["random", "random", "random", "chain", "second_sibling", "second_sibling", "two_roots"])
        rec = gen_history(rng, ctx.n(40, 60), fresh_only, shape)
        answers, states, failure = run_ops(pp, rec)
        dist["histories"] += 1
        dist["shapes"][shape] = dist["shapes"].get(shape, 0) + 1
        dist["ops"] += len(rec["ops"])
        dist["adds"] += sum(1 for o in rec["ops"] if o[0] == "add")
        dist["reads"] += sum(1 for o in rec["ops"] if o[0] != "add")
        dist["non_fresh_histories"] += 0 if rec["fresh"] else 1
        dist["rejected_adds"] += sum(1 for o, a in zip(rec["ops"], answers) if o[0] == "add" and a == "err")
        dist["state_comparisons"] += len(states)
        for o in rec["ops"]:
            if o[0] == "add":
                dist["forms"][o[3]] = dist["forms"].get(o[3], 0) + 1
        if failure:
            if dist["witnesses"] < 3:
                dist["witnesses"] += 1
                small = shrink_record(pp, rec)
                what = run_ops(pp, small, seconds=10.0)[2] or failure
                ctx.fail("tree:%s" % json.dumps({k: small[k] for k in ("roots", "single_root", "ops")}, sort_keys=True)[:300],
                         "event tree inconsistent: history %s (roots %s): %s" % (json.dumps(small["ops"])[:500], small["roots"], what[:700]),
                         {"kind": "tree", "history": small, "what": [what], "found_in": rec})
            if dist["witnesses"] >= 3 and sum(1 for r in records) > 20:
                break
            continue           # the implementation's answers are not comparable beyond the failure
        # model: the same interleaved history with the full state observed after every operation
        hops, exp = [], []
        for o, a in zip(rec["ops"], answers):
            hops.append(op_text(o))
            exp.append(answer_text(a))
        if states:
            st = states[-1]
            hops.append("HAsk QState")
            exp.append("AState %s %s %s" % (lit_list(st[0]), lit_list(st[1]), lit_list(st[2])))
        exprs.append("first_mismatch (run_history (init %s) [%s]) [%s] 0" % (lit_list(rec["roots"]), "; ".join(hops), "; ".join(exp)))
        expect.append("[" + "; ".join(exp) + "]")
        records.append((rec, "run_history (init %s) [%s]" % (lit_list(rec["roots"]), "; ".join(hops))))
    imports = "From Coq Require Import List ZArith.\nFrom PyrexModel Require Import EventTree.\nImport ListNotations.\n"
    vals = ctx.coq_eval_exprs(imports, exprs, chunk=200) if exprs else []
    bad = 0
    for v, e, (rec, full) in zip(vals, expect, records):
        ctx.case(key=json.dumps(rec, sort_keys=True), nontrivial=len(rec["ops"]) > 3,
                 sample={"history": rec, "first_mismatch": v, "impl": e[:300]})
        if common.norm_coq(v) != "None":
            bad += 1
            if bad <= 3:
                try:
                    mv = ctx.coq_eval_exprs(imports, [full])[0]
                except Exception as ex:
                    mv = repr(ex)[:300]
                ctx.oblige("corr:tree:history", False, "Event and Model/EventTree.v disagree (first differing answer: %s; answers alternate operation / state) on history %s: implementation %s model %s" % (
                    v, json.dumps(rec)[:600], e[:600], mv[:600]))
                ctx.extra.setdefault("tree_disagreements", []).append({"history": rec, "impl": e, "model": mv})
    ctx.oblige("corr:tree(%d histories, state compared after every operation)" % len(exprs), bad == 0 and (len(exprs) > 0 or dist["witnesses"] > 0),
               "%d histories disagree" % bad)
    ctx.extra["corr_tree_distribution"] = dist
    return bad == 0 and dist["witnesses"] == 0


# ---------------------------------------------------------------------------- probes on the implementation
def probes(ctx, pp, heavy):
    rng = ctx.rng
    np.random.seed(ctx.seed % (2 ** 32))
    ndraw = ctx.n(60, 1500) if not heavy else ctx.n(400, 1500)
    energies = [1e3, 1e12] + [float(10 ** e) for e in np.linspace(3.3, 11.7, ctx.n(5, 12))]
    stats = {"draws": 0, "extreme": 0}
    sum_tol = 1 + 4.5e-16
    for model in MODELS:
        for pidname, pid in PIDS.items():
            for secondaries in (True, False):
                cls = model_class(pp, model, secondaries)
                for energy in energies:
                    nc = 0
                    for d in range(ndraw):
                        try:
                            with Recorder() as rec, np.errstate(all="ignore"):
                                p = pp.Particle(pidname, (0, 0, -100), (0, 0, 1), energy, interaction_model=cls)
                        except TypeError:
                            continue      # 1000 rejected secondary draws (documented, excluded)
                        check_interaction(ctx, p, model, pidname, energy, secondaries,
                                          {"model": model, "pid": pidname, "energy": energy, "kind_in": None, "secondaries": secondaries,
                                           "real_draws": True, "us_full": rec.us, "ns_full": rec.ns}, sum_tol)
                        nc += p.interaction.kind.value == 2
                        stats["draws"] += 1
                        ctx.case(key=("probe", model, pidname, energy, secondaries, d), nontrivial=False)
                    # supplementary: NC frequency against the model's fraction (6 sigma: false alarm < 2e-9)
                    if ndraw >= 400:
                        eps = math.log10(energy)
                        frac = 1 - 0.6865254 if model == "GQRS" else 0.252162 + 0.0256 * math.log(eps - 1.76)
                        sd = math.sqrt(frac * (1 - frac) / ndraw)
                        if abs(nc / ndraw - frac) > 6.5 * sd + 1.0 / ndraw:
                            ctx.fail("nc-frequency:%s:%s:%r" % (model, pidname, energy),
                                     "%s %s at %r GeV: %d of %d draws neutral current, model fraction %.4f" % (model, pidname, energy, nc, ndraw, frac),
                                     {"kind": "nc_frequency", "model": model, "pid": pidname, "energy": energy, "n": ndraw, "seed": ctx.seed})
    # extreme draws (any random stream): 0, 2^-53, 1-2^-53 ... in every position
    ext = [0.0, TINY, 1e-300, 1 - TINY, 1 - 2 * TINY, 0.5]
    for model in MODELS:
        for pidname in PIDS:
            for kind in ("cc", "nc", None):
                for secondaries in (True, False):
                    for energy in ((1e3, 1e6, 3.3e7, 1e9, 1e12) if ctx.thorough else (1e3, 3.3e7, 1e12)):
                        for u0 in ext:
                            for u1 in ext:
                                us = [u0, u1, rng.choice(ext)] + [rng.choice(ext + [rng.random()]) for _ in range(60)]
                                ns = [rng.choice([0, 1, 2]) for _ in range(12)]
                                o = one_interaction(pp, model, pidname, energy, kind, secondaries, us, ns, fallback_seed=stats["extreme"])
                                stats["extreme"] += 1
                                meta = {"model": model, "pid": pidname, "energy": energy, "kind_in": kind, "secondaries": secondaries,
                                        "us_full": o["us_used"], "ns_full": o["ns_used"]}
                                if not o["ok"]:
                                    if o.get("exc") == "TypeError" and len(o["sec_log"]) == 1000:
                                        continue
                                    ctx.fail("crash:%s:%s:%r:%s:%s:%r" % (model, pidname, energy, kind, secondaries, us[:3]),
                                             "generating an interaction raised %s(%s) for %s" % (o.get("exc"), o.get("msg"), json.dumps(meta)[:500]),
                                             {"kind": "interaction", **meta})
                                    continue
                                check_values(ctx, o["kind"], o["y"], o["em"], o["had"], model, pidname, energy, secondaries, meta, sum_tol)
    ctx.extra["probe_counts"] = stats
    # cross sections: positive, increasing on a log grid, CC+NC = total (default model), lengths
    from scipy import constants
    grid = [float(v) for v in np.logspace(3, 12, ctx.n(181, 1801))]
    default = pp.NeutrinoInteraction
    if default is not pp.CTWInteraction:
        ctx.oblige("probe:default-model-is-CTW", False, "NeutrinoInteraction is %r" % default)
    for model, cname in list(MODELS.items()) + [("default", None)]:
        cls = default if cname is None else getattr(pp, cname)
        for pidname in PIDS:
            prev = None
            for energy in grid:
                vals = {}
                for kind in ("cc", "nc"):
                    with Script([0.5] * 400, [0] * 30), np.errstate(all="ignore"):
                        p = pp.Particle(pidname, (0, 0, 0), (0, 0, 1), energy, interaction_model=cls, interaction_type=kind)
                    i = p.interaction
                    vals[kind] = (float(i.cross_section), float(i.total_cross_section), float(i.interaction_length), float(i.total_interaction_length))
                ctx.case(key=("sigma", model, pidname, energy), nontrivial=False)
                scc, tot, lcc, ltot = vals["cc"]
                snc, tot2, lnc, _ = vals["nc"]
                meta = {"kind": "sigma", "model": model, "pid": pidname, "energy": energy}
                for nm, v in (("cc", scc), ("nc", snc), ("total", tot)):
                    if not (v > 0 and math.isfinite(v)):
                        ctx.fail("sigma-positive:%s:%s:%r:%s" % (model, pidname, energy, nm), "%s %s cross section (%s) at %r GeV is %r" % (model, pidname, nm, energy, v), meta)
                if prev is not None:
                    for nm, a, b in (("cc", prev[0], scc), ("nc", prev[1], snc), ("total", prev[2], tot)):
                        if not b > a:
                            ctx.fail("sigma-monotone:%s:%s:%r:%s" % (model, pidname, energy, nm),
                                     "%s %s cross section (%s) does not increase: %r at %r GeV, %r at %r GeV" % (model, pidname, nm, a, prev[3], b, energy),
                                     {**meta, "energy_prev": prev[3]})
                prev = (scc, snc, tot, energy)
                if cls is default and not close(scc + snc, tot, 4 * 2.0 ** -52, 0):
                    ctx.fail("sum-rule:%s:%r" % (pidname, energy), "default model: sigma_cc + sigma_nc = %r but total = %r for %s at %r GeV" % (scc + snc, tot, pidname, energy), meta)
                for nm, s_, l_ in (("cc", scc, lcc), ("nc", snc, lnc), ("total", tot, ltot)):
                    want = 1.0 / (constants.N_A * s_)
                    if not close(l_, want, 4 * 2.0 ** -52, 0):
                        ctx.fail("length:%s:%s:%r:%s" % (model, pidname, energy, nm), "%s %s interaction length (%s) %r != 1/(N_A sigma) = %r at %r GeV" % (model, pidname, nm, l_, want, energy), meta)


def check_interaction(ctx, p, model, pidname, energy, secondaries, meta, sum_tol):
    i = p.interaction
    check_values(ctx, int(i.kind.value), float(i.inelasticity), float(i.em_frac), float(i.had_frac), model, pidname, energy, secondaries,
                 meta or {"model": model, "pid": pidname, "energy": energy, "secondaries": secondaries, "seed": ctx.seed, "real_draws": True}, sum_tol)


def check_values(ctx, kind, y, em, had, model, pidname, energy, secondaries, meta, sum_tol):
    tag = "%s:%s:%r:%s" % (model, pidname, energy, secondaries)
    rep = {"kind": "interaction", **meta, "observed": {"kind": kind, "y": y, "em": em, "had": had}}
    if kind not in (1, 2):
        ctx.fail("kind:" + tag, "interaction kind %r is neither CC nor NC" % kind, rep)
        return
    if not (0 <= y <= 1):
        ctx.fail("inelasticity-range:" + tag, "inelasticity %r outside [0,1] (%s)" % (y, json.dumps(meta, default=str)[:300]), rep)
    if not (em >= 0 and had >= 0):
        ctx.fail("fraction-negative:" + tag, "shower fractions em=%r had=%r (y=%r) (%s)" % (em, had, y, json.dumps(meta, default=str)[:300]), rep)
    if not (em + had <= sum_tol):
        ctx.fail("fraction-sum:" + tag, "em+had = %r > 1 (em=%r had=%r y=%r)" % (em + had, em, had, y), rep)
    if kind == 2 and not (em == 0 and had == y):
        ctx.fail("nc-fractions:" + tag, "neutral current: (em, had) = (%r, %r), expected (0, y=%r)" % (em, had, y), rep)
    if kind == 1 and pidname in ("nu_e", "nu_e_bar") and not (abs(em + had - 1) <= 2.3e-16 and had == y):
        ctx.fail("cc-electron-fractions:" + tag, "charged-current electron neutrino: em+had = %r (em=%r had=%r y=%r), expected exactly 1" % (em + had, em, had, y), rep)



# published distributions, typed here independently of the source (CTW 2011 eqs. 8, 14-18; GQRS as in icemc)
def ctw_c1(low, kind, pid, eps):
    if low:
        a0, a1, a2, a3 = 0.0, 0.0941, 4.72, 0.456
    elif kind == 1:
        a0, a1, a2, a3 = (-0.008, 0.26, 3.0, 1.7) if pid > 0 else (-0.0026, 0.085, 4.1, 1.7)
    else:
        a0, a1, a2, a3 = -0.005, 0.23, 3.0, 1.7
    return a0 - a1 * math.exp(-(eps - a2) / a3)


def distribution_probes(ctx, pp):
    """Deterministic: with the uniform variate r scripted, the returned inelasticity y must satisfy
    F(y) = r for the published cumulative distribution F, and the CC/NC choice must flip exactly at
    the published neutral-current fraction."""
    rs = [0.0, TINY, 1e-9, 1e-3, 0.01, 0.1, 0.25, 0.5, 0.75, 0.9, 0.99, 1 - 1e-6, 1 - 1e-12, 1 - TINY]
    energies = [1e3, 3e4, 1e6, 2.2e7, 1e9, 4.7e10, 1e12]
    for pidname, pid in PIDS.items():
        for energy in energies:
            eps = math.log10(energy)
            # CC/NC threshold
            for model, thr_nc in (("CTW", 0.252162 + 0.0256 * math.log(eps - 1.76)), ("GQRS", None)):
                for d in (-1e-9, 1e-9):
                    u = (thr_nc if model == "CTW" else 0.6865254) + d
                    o = one_interaction(pp, model, pidname, energy, None, False, [u, 0.5, 0.5, 0.5], [], fallback_seed=1)
                    want = (2 if d < 0 else 1) if model == "CTW" else (1 if d < 0 else 2)
                    ctx.case(key=("threshold", model, pidname, energy, d), nontrivial=False)
                    if not o["ok"] or o["kind"] != want:
                        ctx.fail("nc-threshold:%s:%s:%r:%r" % (model, pidname, energy, d),
                                 "%s %s at %r GeV: draw %r gives interaction kind %r, the published neutral-current fraction %s demands %r" % (
                                     model, pidname, energy, u, o.get("kind"), thr_nc if model == "CTW" else "1-0.6865254", want),
                                 {"kind": "interaction", "model": model, "pid": pidname, "energy": energy, "kind_in": None, "secondaries": False,
                                  "us_full": [u, 0.5, 0.5, 0.5], "ns_full": []})
            for kind, kname in ((1, "cc"), (2, "nc")):
                for r in rs:
                    # GQRS
                    o = one_interaction(pp, "GQRS", pidname, energy, kname, False, [r, 0.5, 0.5], [], fallback_seed=1)
                    ctx.case(key=("cdf", "GQRS", pidname, energy, kname, r), nontrivial=False)
                    if o["ok"]:
                        y = o["y"]
                        back = (math.exp(-y ** 0.4) - 1 / math.e) / (1 - 1 / math.e) if y >= 0 else float("nan")
                        if not abs(back - r) <= 1e-9:
                            ctx.fail("gqrs-cdf:%s:%r:%s:%r" % (pidname, energy, kname, r),
                                     "GQRS inelasticity %r for draw r=%r: the published distribution gives r back as %r" % (y, r, back),
                                     {"kind": "interaction", "model": "GQRS", "pid": pidname, "energy": energy, "kind_in": kname, "secondaries": False,
                                      "us_full": [r, 0.5, 0.5], "ns_full": []})
                    # CTW, both regions (u1 = 0 selects the low-y region whenever it has positive probability)
                    thr = 0.128 * math.sin(-0.197 * (eps - 21.8))
                    for u1 in (0.0, 0.999):
                        low = u1 < thr
                        o = one_interaction(pp, "CTW", pidname, energy, kname, False, [u1, r, 0.5, 0.5], [], fallback_seed=1)
                        ctx.case(key=("cdf", "CTW", pidname, energy, kname, r, u1), nontrivial=False)
                        if not o["ok"]:
                            continue
                        y = o["y"]
                        c1 = ctw_c1(low, kind, pid, eps)
                        c2 = 2.55 - 0.0949 * eps
                        ymin, ymax = (0.0, 1e-3) if low else (1e-3, 1.0)
                        if low:
                            pw = 1 - 1 / c2
                            F = ((y - c1) ** pw - (ymin - c1) ** pw) / ((ymax - c1) ** pw - (ymin - c1) ** pw) if y > c1 else float("nan")
                            # conditioning of F near y=0 where (y-c1) ~ -c1 is tiny
                            tol = 1e-7 + 64 * 2.0 ** -52 * abs(c1) / max((ymax - c1) ** pw - (ymin - c1) ** pw, 1e-300) * (abs(c1) ** (pw - 1))
                        else:
                            F = math.log((y - c1) / (ymin - c1)) / math.log((ymax - c1) / (ymin - c1)) if y > c1 else float("nan")
                            tol = 1e-7
                        if not (ymin <= y <= ymax) or not abs(F - r) <= tol:
                            ctx.fail("ctw-cdf:%s:%r:%s:%r:%r" % (pidname, energy, kname, r, u1),
                                     "CTW inelasticity %r for draws (u1=%r, r=%r) in the %s-y region [%r, %r]: published cumulative distribution F(y) = %r, expected r" % (
                                         y, u1, r, "low" if low else "high", ymin, ymax, F),
                                     {"kind": "interaction", "model": "CTW", "pid": pidname, "energy": energy, "kind_in": kname, "secondaries": False,
                                      "us_full": [u1, r, 0.5, 0.5], "ns_full": []})




# ---------------------------------------------------------------------------- read-assign-read histories
N_A = 6.02214076e23
QUANTITIES = ("cross_section", "total_cross_section", "interaction_length", "total_interaction_length")
CTW_TABLE = {  # CTW 2011 table III, typed independently of the source: (sign of pid, kind) -> c0..c4
    (1, 1): (-1.826, -17.31, -6.406, 1.431, -17.91), (1, 2): (-1.826, -17.31, -6.448, 1.431, -18.61),
    (-1, 1): (-1.033, -15.95, -7.247, 1.569, -17.72), (-1, 2): (-1.033, -15.95, -7.296, 1.569, -18.30)}
GQRS_TABLE = {(1, 1): 5.53e-36, (1, 2): 2.31e-36, (-1, 1): 5.52e-36, (-1, 2): 2.29e-36, (1, 0): 7.84e-36, (-1, 0): 7.80e-36}


def reference_quantity(model, q, kind, pid, energy):
    """The quantity for the CURRENT state from the published formulas (independent of the source)."""
    sgn = 1 if pid > 0 else -1

    def sigma(k):
        if model == "GQRS":
            return GQRS_TABLE[(sgn, k)] * energy ** 0.363
        c0, c1, c2, c3, c4 = CTW_TABLE[(sgn, k)]
        L = math.log(math.log10(energy) - c0)
        return 10 ** (c1 + c2 * L + c3 * L * L + c4 / L)
    if model == "GQRS":
        tot = GQRS_TABLE[(sgn, 0)] * energy ** 0.363
    else:
        tot = sigma(1) + sigma(2)
    return {"cross_section": sigma(kind), "total_cross_section": tot,
            "interaction_length": 1 / (N_A * sigma(kind)), "total_interaction_length": 1 / (N_A * tot)}[q]


def run_state_history(pp, model, start, ops):
    """Execute a history of reads and public assignments on ONE real Particle / Interaction.
    Returns the first failure text or None.  Every read is judged against the published formula for
    the current state and against a freshly built interaction with that state."""
    import random
    cls = pp.NeutrinoInteraction if model == "default" else getattr(pp, MODELS[model])
    fmodel = "CTW" if model == "default" else model
    kinds = {"cc": 1, "nc": 2}

    def build(pidname, energy, kind):
        with Script([0.5] * 6, [0] * 6, random.Random(7)), np.errstate(all="ignore"):
            return pp.Particle(pidname, (0, 0, -10), (0, 0, 1), energy, interaction_model=cls, interaction_type=kind)
    st = dict(start)
    p = build(st["pid"], st["energy"], st["kind"])
    for i, op in enumerate(ops):
        if op[0] == "read":
            q = op[1]
            got = float(getattr(p.interaction, q))
            want = reference_quantity(fmodel, q, kinds[st["kind"]], PIDS[st["pid"]], st["energy"])
            fresh = float(getattr(build(st["pid"], st["energy"], st["kind"]).interaction, q))
            if not close(got, want, 1e-9, 0) or got != fresh:
                return ("step %d: %s = %r for the current state (%s, %s, %r GeV), but the published formula gives %r and a fresh %s interaction "
                        "with that state gives %r" % (i, q, got, st["pid"], st["kind"], st["energy"], want, model, fresh))
        elif op[0] == "set":
            attr, val = op[1], op[2]
            if attr == "kind":
                p.interaction.kind = {"enum": getattr(p.interaction.Type, {"cc": "charged_current", "nc": "neutral_current"}[val]),
                                      "str": val, "int": kinds[val]}[op[3]]
                st["kind"] = val
            elif attr == "pid":
                p.id = {"str": val, "int": PIDS[val], "enum": getattr(pp.Particle.Type, val)}[op[3]]
                st["pid"] = val
            elif attr == "energy":
                p.energy = val
                st["energy"] = val
            else:       # inelasticity, em_frac, had_frac: plain attributes that no cross section depends on
                setattr(p.interaction, attr, val)
    return None


def history_probes(ctx, pp):
    rng = ctx.rng
    pidnames = list(PIDS)

    def other(cur, options):
        return rng.choice([o for o in options if o != cur])

    def change(st, attr):
        if attr == "kind":
            return ["set", "kind", other(st["kind"], ["cc", "nc"]), rng.choice(["enum", "str", "int"])]
        if attr == "pid":
            return ["set", "pid", other(st["pid"], pidnames), rng.choice(["enum", "str", "int"])]
        if attr == "energy":
            return ["set", "energy", float(10 ** rng.uniform(3, 12))]
        return ["set", attr, rng.random()]
    attrs = ["kind", "pid", "energy", "inelasticity", "em_frac", "had_frac"]
    hist = []
    # systematic: read q, assign a, read q  (and every other quantity) for every attribute and quantity
    for model in ("GQRS", "CTW", "default"):
        for a in attrs:
            for q in QUANTITIES:
                st = {"pid": rng.choice(pidnames), "kind": rng.choice(["cc", "nc"]), "energy": float(10 ** rng.uniform(3, 12))}
                ops = [["read", q], change(st, a), ["read", q]] + [["read", q2] for q2 in QUANTITIES if q2 != q]
                hist.append((model, st, ops))
    # random interleavings
    for _ in range(ctx.n(60, 1500)):
        model = rng.choice(["GQRS", "CTW", "default"])
        st = {"pid": rng.choice(pidnames), "kind": rng.choice(["cc", "nc"]), "energy": float(10 ** rng.uniform(3, 12))}
        cur, ops = dict(st), []
        for _ in range(rng.randint(3, 12)):
            if rng.random() < 0.55:
                ops.append(["read", rng.choice(QUANTITIES)])
            else:
                o = change(cur, rng.choice(attrs))
                ops.append(o)
                if o[1] in cur:
                    cur[o[1]] = o[2]
        ops.append(["read", rng.choice(QUANTITIES)])
        hist.append((model, st, ops))
    nbad = 0
    for model, st, ops in hist:
        ctx.case(key=("state-history", model, json.dumps(st, sort_keys=True), json.dumps(ops)), nontrivial=True)
        try:
            bad = run_state_history(pp, model, st, ops)
        except Exception as e:
            bad = "raised %r" % (e,)
        if bad and nbad < 3:
            nbad += 1
            # shrink: drop operations while the failure persists
            cur = list(ops)
            i = len(cur) - 1
            while i >= 0:
                cand = cur[:i] + cur[i + 1:]
                try:
                    b2 = run_state_history(pp, model, st, cand)
                except Exception as e:
                    b2 = "raised %r" % (e,)
                if b2:
                    cur, bad = cand, b2
                i -= 1
            ctx.fail("state-history:%s:%s:%s" % (model, json.dumps(st, sort_keys=True), json.dumps(cur)),
                     "%s interaction, start %s, history %s: %s" % (model, json.dumps(st), json.dumps(cur), bad),
                     {"kind": "state_history", "model": model, "start": st, "ops": cur})
    ctx.extra["state_histories"] = {"histories": len(hist), "attributes_assigned": attrs, "quantities": list(QUANTITIES)}


# ---------------------------------------------------------------------------- supplementary statistics (thorough tier)
def published_cdf(model, low, kind, pid, eps, y):
    """Cumulative distribution of the inelasticity, integrated analytically from the published densities
    (typed here independently of the source): CTW 2011 eqs. 14-18 per region, GQRS as in icemc."""
    if model == "GQRS":
        return 1 - (math.exp(-y ** 0.4) - 1 / math.e) / (1 - 1 / math.e)
    c1 = ctw_c1(low, kind, pid, eps)
    if low:
        pw = 1 - 1 / (2.55 - 0.0949 * eps)
        return ((y - c1) ** pw - (0.0 - c1) ** pw) / ((1e-3 - c1) ** pw - (0.0 - c1) ** pw)
    return math.log((y - c1) / (1e-3 - c1)) / math.log((1 - c1) / (1e-3 - c1))


def ks_distance(ys, F):
    ys = sorted(ys)
    n = len(ys)
    d = 0.0
    for i, y in enumerate(ys):
        f = F(y)
        d = max(d, abs(f - i / n), abs(f - (i + 1) / n))
    return d


def ks_sample(pp, spec, n, seed):
    """n values of choose_inelasticity / choose_interaction with uniform variates from a seeded generator."""
    rs = np.random.RandomState(seed)
    cls = getattr(pp, MODELS[spec["model"]])
    with Script([0.5] * 8, [0] * 8):
        p = pp.Particle(spec["pid"], (0, 0, 0), (0, 0, 1), spec["energy"], interaction_model=model_class(pp, spec["model"], False),
                        interaction_type=spec.get("kind", "cc"))
    inter = p.interaction
    r = rs.random_sample(2 * n)
    if spec["what"] == "inelasticity" and spec["model"] == "CTW" and spec.get("u1") is not None:
        r[0::2] = spec["u1"]
    it = iter(r.tolist())
    out = []
    with mock.patch("numpy.random.rand", lambda: next(it)):
        if spec["what"] == "inelasticity":
            for _ in range(n):
                out.append(float(inter.choose_inelasticity()))
                if spec["model"] == "GQRS":
                    next(it)
        else:
            for _ in range(n):
                out.append(int(inter.choose_interaction().value))
                next(it)
    return out


def ks_specs():
    specs = []
    for pid in ("nu_mu", "nu_mu_bar"):
        for kind in ("cc", "nc"):
            for energy in (1e6, 1e9, 1e12):
                for u1 in (0.0, 0.999):
                    specs.append({"what": "inelasticity", "model": "CTW", "pid": pid, "kind": kind, "energy": energy, "u1": u1})
    for energy in (1e6, 1e9, 1e12):
        specs.append({"what": "low_fraction", "model": "CTW", "pid": "nu_e", "kind": "cc", "energy": energy})
    for energy in (1e4, 1e10):
        specs.append({"what": "inelasticity", "model": "GQRS", "pid": "nu_tau", "kind": "cc", "energy": energy})
    for model in MODELS:
        for pid in ("nu_e", "nu_e_bar"):
            for energy in (1e3, 1e7, 1e12):
                specs.append({"what": "choice", "model": model, "pid": pid, "energy": energy})
    return specs


def ks_evaluate(pp, spec, n, seed):
    """Returns (statistic, description) for one specification."""
    eps = math.log10(spec["energy"])
    pid = PIDS[spec["pid"]]
    kind = {"cc": 1, "nc": 2}[spec.get("kind", "cc")]
    thr = 0.128 * math.sin(-0.197 * (eps - 21.8))
    if spec["what"] == "inelasticity":
        ys = ks_sample(pp, spec, n, seed)
        if spec["model"] == "GQRS":
            return ks_distance(ys, lambda y: published_cdf("GQRS", False, kind, pid, eps, y)), "KS distance to the GQRS distribution"
        low = spec["u1"] < thr
        lo, hi = (0.0, 1e-3) if low else (1e-3, 1.0)
        if any(not (lo <= y <= hi) for y in ys):
            return 1.0, "a sample lies outside the %s-y region" % ("low" if low else "high")
        return (ks_distance(ys, lambda y: published_cdf("CTW", low, kind, pid, eps, y)),
                "KS distance to the published %s-y distribution (CTW eqs. 14-18)" % ("low" if low else "high"))
    if spec["what"] == "low_fraction":
        ys = ks_sample(pp, dict(spec, what="inelasticity", u1=None), n, seed)
        frac = sum(1 for y in ys if y <= 1e-3) / n
        return abs(frac - max(thr, 0.0)), "|frequency of the low-y region - 0.128 sin(-0.197 (eps - 21.8))| (frequency %.4f)" % frac
    ks = ks_sample(pp, spec, n, seed)
    frac = sum(1 for k in ks if k == 2) / n
    want = (1 - 0.6865254) if spec["model"] == "GQRS" else 0.252162 + 0.0256 * math.log(eps - 1.76)
    return abs(frac - want), "|neutral-current frequency - published fraction %.4f| (frequency %.4f)" % (want, frac)


def ks_probes(ctx, pp):
    """Supplementary, thorough tier only.  Dvoretzky-Kiefer-Wolfowitz / Hoeffding: for n i.i.d. uniform
    variates P(statistic > e) <= 2 exp(-2 n e^2); with T tests and e = sqrt(ln(2 T / 1e-9) / (2 n)) the
    false-alarm probability of the whole probe is below 1e-9 per run.  Seeds are scripted (VERIF_SEED)."""
    specs = ks_specs()
    n = 20000
    bound = math.sqrt(math.log(2 * len(specs) / 1e-9) / (2 * n))
    worst = 0.0
    for k, spec in enumerate(specs):
        seed = (ctx.seed * 1000003 + k) % (2 ** 32)
        stat, what = ks_evaluate(pp, spec, n, seed)
        worst = max(worst, stat)
        ctx.case(key=("ks", json.dumps(spec, sort_keys=True)), nontrivial=True)
        if stat > bound:
            ctx.fail("ks:%s" % json.dumps(spec, sort_keys=True),
                     "statistical evidence (n=%d seeded draws, false-alarm probability < 1e-9 per run): %s = %.4f exceeds %.4f for %s" % (
                         n, what, stat, bound, json.dumps(spec)),
                     {"kind": "ks", "spec": spec, "n": n, "seed": seed, "bound": bound, "statistic": stat})
    ctx.extra["ks_probe"] = {"tests": len(specs), "n": n, "bound": round(bound, 5), "largest_statistic": round(worst, 5),
                             "false_alarm_probability_per_run": "< 1e-9 (DKW / Hoeffding, union bound)"}


# ---------------------------------------------------------------------------- entry points
def run(ctx):
    # a check always terminates with a verdict: overall deadline (raises HarnessTimeout -> reported by main)
    with Watchdog(ctx.n(420.0, 1700.0), "run"):
        _run(ctx)


def _run(ctx):
    import pyrex.particle as pp
    ctx.rule = ("formula correspondence: (model, neutrino type, energy in 1e3..1e12 GeV incl. both ends, forced/chosen interaction type, secondaries on/off, "
                "scripted uniform + Poisson streams incl. 0, 2^-53, 1-2^-53 and draws that make energy conservation reject tries); non-trivial = distinct tuples; "
                "secondaries: direct calls with every energy index, table knots as draws; trees: random add_children histories (single/list/tuple/empty, nested, "
                "absent parents, occasional re-added particles) interleaved with every query, compared exactly; probes judge the property on the implementation")
    ctx.trusted += ["Coq 8.16.1 kernel; Coquelicot (is_derive)",
                    "tools/py2coq.py + tools/gen_particle.py (translator: meaning of the NumPy whitelist, raise -> option, retry loop -> retry_loop, enum values read from the class bodies)",
                    "harness/realextract.py extraction directives (R -> OCaml float), used for the correspondence only",
                    "Model/EventTree.v is hand-written: pinned by AST hash, validated by exact correspondence"]
    ctx.assumptions += ["theorems are over the real numbers; binary64 rounding is covered by the numeric correspondence and the probes only",
                        "numpy.random.rand() returns values in [0,1); numpy.random.poisson returns non-negative integers (opaque draws)",
                        "1000 consecutive rejected secondary draws make choose_shower_fractions return None (Interaction.__init__ then raises TypeError): "
                        "stated in the theorems as the `Some None` outcome, excluded from the bounds",
                        "event-tree theorems assume that accepted add_children calls add particles that are new to the event and pairwise distinct "
                        "(fresh Particle objects); without it iteration repeats a particle (iter_twice_when_not_fresh_refuted)",
                        "secondary tables are arbitrary lists (the data files are not part of the model)"]
    pins = current_pins()
    recorded = json.load(open(PIN_FILE)) if os.path.exists(PIN_FILE) else {}
    changed = [k for k in pins if recorded.get(k) != pins[k]]
    ctx.extra["pins"] = {"current": pins, "changed_since_validation": changed}
    esc_sec = False
    esc_tree = any(k.startswith("Event.") for k in changed)
    gen_ok = True
    try:
        files, hashes = gen_files(ctx.scratch)
        for k, v in files.items():
            ctx.write_gen(k, v)
        ctx.oblige("gen:Gen_particle", True)
        ctx.extra["translated_functions"] = hashes
    except Exception as e:
        ctx.oblige("gen:Gen_particle", False, "translation failed (fail-closed): %s" % e)
        gen_ok = False
    import time
    t = [time.time()]

    def lap(name):
        t.append(time.time())
        ctx.extra.setdefault("phase_seconds", {})[name] = round(t[-1] - t[-2], 1)
    ok = False
    if gen_ok:
        ok = ctx.coq_build("C14")
    lap("gen+prove")
    if gen_ok:
        try:
            ok &= corr_formulas(ctx, pp, esc_sec or not ok)
        except Exception as e:
            ctx.oblige("corr:formulas", False, repr(e)[-1500:])
            ok = False
    lap("corr_formulas")
    try:
        ok &= corr_tree(ctx, pp, esc_tree)
    except Exception as e:
        ctx.oblige("corr:tree", False, repr(e)[-1500:])
        ok = False
    lap("corr_tree")
    probes(ctx, pp, heavy=(not ok) or ctx.thorough or bool(changed))
    distribution_probes(ctx, pp)
    history_probes(ctx, pp)
    lap("probes")
    if ctx.thorough:
        ks_probes(ctx, pp)
        lap("ks_probes")


def replay(ctx, obj):
    import pyrex.particle as pp
    print(json.dumps(obj, indent=1, default=str)[:3000])
    k = obj.get("kind")
    if k == "interaction" and "us_full" in obj:
        o = one_interaction(pp, obj["model"], obj["pid"], obj["energy"], obj.get("kind_in"), obj["secondaries"],
                            obj["us_full"] + [0.5] * 4000, obj.get("ns_full", []) + [0] * 3000)
        print("implementation:", {a: o.get(a) for a in ("ok", "exc", "msg", "kind", "y", "em", "had", "sigma", "total", "length")})
        return 1
    if k == "interaction":
        np.random.seed(obj.get("seed", 0) % (2 ** 32))
        cls = model_class(pp, obj["model"], obj["secondaries"])
        worst = None
        for _ in range(20000):
            p = pp.Particle(obj["pid"], (0, 0, -100), (0, 0, 1), obj["energy"], interaction_model=cls)
            i = p.interaction
            if not (0 <= i.inelasticity <= 1 and i.em_frac >= 0 and i.had_frac >= 0 and i.em_frac + i.had_frac <= 1 + 4.5e-16):
                worst = (i.kind, i.inelasticity, i.em_frac, i.had_frac)
                break
        print("implementation (fresh draws):", worst)
        return 1
    if k == "state_history":
        bad = run_state_history(pp, obj["model"], obj["start"], obj["ops"])
        print("implementation:", bad or "history consistent")
        return 1 if bad else 0
    if k == "ks":
        stat, what = ks_evaluate(pp, obj["spec"], obj["n"], obj["seed"])
        print("implementation: %s = %.5f (bound %.5f)" % (what, stat, obj["bound"]))
        return 1 if stat > obj["bound"] else 0
    if k == "sigma":
        for kind in ("cc", "nc"):
            cls = pp.NeutrinoInteraction if obj["model"] == "default" else getattr(pp, MODELS[obj["model"]])
            for e in [obj.get("energy_prev"), obj["energy"]]:
                if e is None:
                    continue
                p = pp.Particle(obj["pid"], (0, 0, 0), (0, 0, 1), e, interaction_model=cls, interaction_type=kind)
                i = p.interaction
                print(kind, e, "sigma", i.cross_section, "total", i.total_cross_section, "L", i.interaction_length, "1/(N_A sigma)",
                      1 / (6.02214076e23 * i.cross_section))
        return 1
    if k == "tree":
        rec = obj["history"]
        answers, states, failure = run_ops(pp, rec)
        for o, a_, st in zip(rec["ops"], answers, states):
            print(o, "->", a_, " state:", st)
        print("implementation:", failure or "history consistent")
        return 1 if failure else 0
    if k == "secondary":
        inter = pp.GQRSInteraction.__new__(pp.GQRSInteraction)
        inter.particle = pp.Particle(obj["pid"], (0, 0, 0), (0, 0, 1), 1e9, interaction_model=pp.Interaction)
        with Script(obj["us"], obj["ns"]):
            print("implementation:", inter._choose_secondary_fractions(obj["le"], obj["ei"]))
        return 1
    return 1
