(* Hand model of the parts of pyrex/earth_model.py that the translator cannot express
   (pinned by AST hash in harness/pins/C15.json, validated by correspondence in
   harness/props/c15.py).  No proofs here.

   PREM.density:
       r = np.array(r)
       radius_bounds = np.concatenate(([0], self.radii))
       conditions = list((lower<=r) & (r<upper) for lower, upper in
                         zip(radius_bounds[:-1], radius_bounds[1:]))
       return np.piecewise(r/self.earth_radius, conditions, self.densities)

   tail of PREM.slant_depth (after  ts = np.linspace(0, 1, <n>)):
       xs = endpoint[0] + ts * distance * direction[0]     (ys, zs alike)
       rs = np.sqrt(xs**2 + ys**2 + zs**2)
       rhos = self.density(rs)
       return 100 * trapezoid(rhos*distance, ts)                                   *)
From Coq Require Import Reals List Bool ZArith.
From PyrexLib Require Import RealPrims.
Import ListNotations.
Open Scope R_scope.

(* np.piecewise treats scalar entries of funclist as constant functions *)
Definition const_funs (cs : list R) : list (R -> R) := map (fun (c : R) (_ : R) => c) cs.

(* np.piecewise(x, condlist, funclist) with len(funclist) = len(condlist): the output starts
   as 0 and, for k = 0, 1, ..., is overwritten by funclist[k](x) where condlist[k] holds
   (so the LAST true condition wins). *)
Fixpoint piecewise (conds : list bool) (funs : list (R -> R)) (x acc : R) : R :=
  match conds, funs with
  | c :: cs, f :: fs => piecewise cs fs x (if c then f x else acc)
  | _, _ => acc
  end.

(* (lower<=r) & (r<upper) for consecutive entries of [0] + radii *)
Fixpoint shell_conds (lower : R) (radii : list R) (r : R) : list bool :=
  match radii with
  | [] => []
  | upper :: rest => (Rleb lower r && Rltb r upper) :: shell_conds upper rest r
  end.

Definition shell_density (radii : list R) (dens : list (R -> R)) (earth_radius r : R) : R :=
  piecewise (shell_conds 0 radii r) dens (r / earth_radius) 0.

(* array input: np.piecewise works entry by entry *)
Definition shell_density_array (radii : list R) (dens : list (R -> R)) (earth_radius : R) (rs : list R) : list R :=
  map (shell_density radii dens earth_radius) rs.

(* np.linspace(0, 1, n): n points i * (1/(n-1)), i = 0..n-1  (n = 1 gives [0], n <= 0 gives []);
   the index is carried as a real counter x = 0, 1, 2, ... *)
Fixpoint lin_go (x h : R) (n : nat) : list R :=
  match n with
  | O => []
  | S m => x * h :: lin_go (x + 1) h m
  end.
Definition linspace01 (n : Z) : list R := lin_go 0 (/ IZR (n - 1)) (Z.to_nat n).

(* radius of the sample point at parameter t on the chord e + t*L*d *)
Definition chord_radius (e d : vec3) (L t : R) : R :=
  sqrt ((vx e + t * L * vx d) ^ 2 + (vy e + t * L * vy d) ^ 2 + (vz e + t * L * vz d) ^ 2).

Definition chord_integral (dens : R -> R) (e d : vec3) (L : R) (n : Z) : R :=
  let ts := linspace01 n in
  100 * trapz ts (map (fun t => dens (chord_radius e d L t) * L) ts).
