(* Hand model of how UniformRayTracer.solutions instantiates its solution_class
   (UniformRayTracePath.__init__): the path copies the tracer's endpoints and ice, stores the launch
   angle and the reflection count, direct := (reflections == 0).  Pinned with the other hand models. *)
From Coq Require Import Reals List Bool ZArith.
From PyrexLib Require Import RealPrims ListR.
From PyrexGen Require Import Gen_ice Gen_uniform.
From PyrexModel Require Import UniformPath.
Import ListNotations.
Open Scope R_scope.

Definition mk_path (t : UTracer) (theta : R) (k : nat) : UPath :=
  mkUPath (UTracer_from_point t) (UTracer_to_point t) theta (UTracer_ice t) (Nat.eqb k 0) k.

Definition t_lo (t : UTracer) : R := fst (UIce_valid_range (UTracer_ice t)).
Definition t_hi (t : UTracer) : R := snd (UIce_valid_range (UTracer_ice t)).

(* the list `sols` built by UniformRayTracer.solutions for a tracer class with the given max_reflections *)
Definition tracer_solution_params (t : UTracer) (max_reflections : nat) : list (R * nat) :=
  uniform_solutions (UniformRayTracer_exists t) (t_lo t) (t_hi t) (UniformRayTracer_z0 t) (UniformRayTracer_z1 t)
                    (UniformRayTracer_rho t) (UIce_index_above (UTracer_ice t)) (UIce_index_below (UTracer_ice t))
                    max_reflections.
Definition tracer_solutions (t : UTracer) (max_reflections : nat) : list UPath :=
  map (fun tk => mk_path t (fst tk) (snd tk)) (tracer_solution_params t max_reflections).

(* self._points of a path, as the translated members see it *)
Definition path_points (p : UPath) : option (list vec3) :=
  uniform_points (UPath_from_point p) (UPath_to_point p) (UPath_theta0 p)
                 (fst (UIce_valid_range (UPath_ice p))) (snd (UIce_valid_range (UPath_ice p)))
                 (UPath_direct p) (UPath_reflections p) (UniformRayTracePath_rho p) (UniformRayTracePath_phi p).
