(* C12: every way of reading or continuing a file yields the same event stream.
   Statements only, about the executable model coq/Model/IOModel.v of EventIterator (chunk
   loading as written: min start / max row end / split by each event's own index start), HDF5Reader.__iter__/__getitem__, append-mode open and FileGenerator; proofs in
   Proofs/IO_reader.v and Proofs/C12_proofs.v.

   read_obs st i is the specification reader: per table, the rows [start_i, start_i+len_i)
   named by the index table (NA when the table holds no data).  `readable st` = the writer
   invariant + particles group present + at least one event; every file produced by any
   add/reopen history under a particles-recording configuration with >= 1 accepted add is
   readable (files_readable). *)
From Coq Require Import List ZArith Bool.
From PyrexModel Require Import IOModel.
From PyrexProofs Require Import IO_writer IO_reader C11_proofs C12_proofs IO_filegen IO_analysis IO_iterator.
Import ListNotations.
Open Scope Z_scope.

Theorem files_readable : forall o d hd ops, records_particles o = true ->
  1 <= n_events (run o d hd ops) -> readable (run o d hd ops).
Proof. exact run_readable. Qed.
Print Assumptions files_readable.

(* iteration with every chunk size (slice_range None or any k >= 1) is the sequential pass *)
Theorem iter_eq_spec : forall st k, readable st -> (forall k', k = Some k' -> 1 <= k') ->
  reader_iter st k = inr (spec_events st (zseq (n_events st))).
Proof. exact iter_eq_spec_lemma. Qed.
Print Assumptions iter_eq_spec.

(* f[i] for every i in -n..n-1 is event (i mod n) of the sequential pass *)
Theorem getitem_int_eq_spec : forall st key, readable st -> - n_events st <= key < n_events st ->
  getitem_int st key = inr (read_all_obs st (key mod n_events st)).
Proof. exact getitem_int_lemma. Qed.
Print Assumptions getitem_int_eq_spec.

(* f[a:b:s] for every in-range 0 <= a' < b' <= n (each bound spelled non-negative, negative or
   omitted), every step >= 1 and every reader chunk size is events a', a'+s, ... < b' *)
Theorem getitem_slice_eq_spec : forall st k a b s, readable st ->
  (forall k', k = Some k' -> 1 <= k') ->
  let n := n_events st in
  let a' := norm_bound n a 0 in
  let b' := norm_bound n b n in
  0 <= a' -> a' < b' -> b' <= n -> 1 <= dflt s 1 ->
  getitem_slice st k a b s = inr (spec_events st (map (fun j => a' + j * dflt s 1) (zseq (nsel a' b' (dflt s 1))))).
Proof. exact getitem_slice_lemma. Qed.
Print Assumptions getitem_slice_eq_spec.

(* the chunk loader itself: what _load_data stores for position c of a chunk is the
   specification read of event ss + c*step, for every table, chunk and step *)
Theorem load_data_eq_spec : forall st ss se step c, inv st -> ana_ok st -> 0 <= ss -> ss < se -> se <= n_events st -> 1 <= step ->
  0 <= c -> ss + c * step < se ->
  load_data st ss se step = inr (chunk_of st ss se step) /\
  ev_obs st (chunk_of st ss se step) c = read_all_obs st (ss + c * step).
Proof. intros. split; [apply load_data_ok | apply ev_obs_spec]; assumption. Qed.
Print Assumptions load_data_eq_spec.

(* the loader's block-and-split formula returns each selected event's own slice for ANY index
   entries that address rows inside the dataset -- no ordering, contiguity or completeness of the
   entries is needed; this covers datasets indexed for only some events in arbitrary order
   (analysis datasets filled with add_analysis_indices), see analysis_pass below for their place in the state machine *)
Theorem load_split_any_index : forall (rws : list row) (ti : list (Z * Z)),
  (forall c, In c ti -> 0 <= fst c /\ 0 <= snd c /\ fst c + snd c <= zlen rws) ->
  let tmp_start := list_min (map fst ti) in
  let tmp_end := list_max (map (fun c => fst c + snd c) ti) in
  let tmp := py_slice rws tmp_start tmp_end in
  map (fun c => py_slice tmp (fst c - tmp_start) (fst c - tmp_start + snd c)) ti =
  map (fun c => py_slice rws (fst c) (fst c + snd c)) ti.
Proof. exact load_formula. Qed.
Print Assumptions load_split_any_index.

(* ---- the iterator as an object: op histories ----
   An EventIterator made from in-range (start, stop, step) and any slice_range k >= 1, driven by
   ANY history of next() / iter() calls (for loops, list(), islice are such histories): the j-th
   next() delivers event a + j*step of the slice -- the specification data in every table and
   total_events_thrown = floor((a+j*step+1) * total_thrown / n) -- while that index is < stop, and
   StopIteration from then on; iter() delivers nothing and does not move the position.  Hence the
   delivered indices are exactly the slice's indices in order, each once, whatever the chunk size. *)
Theorem iterator_histories : forall st k a b s it ops s0 e0 p0, inv st -> ana_ok st -> 1 <= k ->
  iter_init st a b s = inr (s0, e0, p0) -> it_new st k a b s = inr it -> reads_ok s0 e0 p0 0 ops ->
  it_run st it ops = inr (spec_run st s0 e0 p0 0 ops).
Proof. exact it_run_spec. Qed.
Print Assumptions iterator_histories.

(* (the op alphabet also has IRead = reading every accessor of the current event again: it reports the
   event delivered by the last next(), index a+(j-1)*step, however many chunk loads, iter() calls
   or other reads happened since; reads_ok only asks that some event has been delivered) *)

(* two live iterators over one opened file driven by one interleaved history: each delivers and
   re-reads exactly what its own sub-history gives on its own -- operations on one iterator never
   change what the other, or an event it already delivered, reports; with iterator_histories both
   sub-histories are the specification streams *)
Theorem two_live_iterators : forall st ops i1 i2 os, it_run2 st i1 i2 ops = inr os ->
  it_run st i1 (proj true ops) = inr (proj_out true ops os) /\
  it_run st i2 (proj false ops) = inr (proj_out false ops os).
Proof. exact two_iterators_independent. Qed.
Print Assumptions two_live_iterators.

(* the indices a history delivers are strictly increasing (no repetition, no reordering) *)
Theorem delivered_in_order : forall ops a stop step j, 1 <= step ->
  forall i1 i2 d, (i1 < i2)%nat -> (i2 < length (delivered a stop step j ops))%nat ->
  nth i1 (delivered a stop step j ops) d < nth i2 (delivered a stop step j ops) d.
Proof. exact delivered_increasing. Qed.
Print Assumptions delivered_in_order.

(* ---- analysis datasets as part of the state machine ----
   read_all_obs st i = (read_obs st i, read_ana st i): the six writer tables and the analysis
   dataset (rows [start, start+len) of the NEWEST index entry written for event i, Rows [] for an
   event without entry, NA / Crash when the dataset / its index column does not exist).  All the
   access-path theorems above are stated for read_all_obs, for every readable file, whose
   analysis entries (ana_ok) may address any in-bounds rows for any subset of events in any order. *)

(* an analysis pass (create_analysis_dataset, then add_analysis_indices for existing events and
   rows inside the dataset, in any order, possibly overwriting) keeps the file readable and does
   not change what the six writer tables read *)
Theorem analysis_pass : forall st xs, readable st -> ana_wf st -> aops_ok st xs ->
  readable (ana_apply st xs) /\ n_events (ana_apply st xs) = n_events st /\
  (forall i, read_obs (ana_apply st xs) i = read_obs st i).
Proof. exact analysis_pass_lemma. Qed.
Print Assumptions analysis_pass.

(* add_analysis_indices(name, gi, s, l): event gi now owns rows [s, s+l); every other event keeps
   its entry *)
Theorem analysis_index : forall st gi s l i, a_ex (ana st) = true ->
  acell (ana_step st (AIndex gi s l)) i = (if i =? gi then (s, l) else acell st i) /\
  a_rows (ana (ana_step st (AIndex gi s l))) = a_rows (ana st) /\
  a_col (ana (ana_step st (AIndex gi s l))) = true.
Proof. exact analysis_index_lemma. Qed.
Print Assumptions analysis_index.

(* every file the writer produces is a valid starting point for an analysis pass, and add()
   never touches the analysis dataset *)
Theorem writer_files_accept_analysis : forall o d hd ops, records_particles o = true -> ana_wf (run o d hd ops).
Proof. exact run_ana_wf. Qed.
Print Assumptions writer_files_accept_analysis.

(* a file written in several append-mode sessions is the file written in one session *)
Theorem append_eq_single : forall o d hd ops1 ops2, records_particles o = true ->
  run o d hd (ops1 ++ Reopen :: ops2) = run o d hd (ops1 ++ ops2).
Proof. exact append_eq_single_lemma. Qed.
Print Assumptions append_eq_single.

(* append-mode open recovers exactly the counters of the writer that closed the file *)
Theorem reopen_recovers_counters : forall st, inv st -> reopen st = st.
Proof. exact reopen_id. Qed.
Print Assumptions reopen_recovers_counters.

(* FileGenerator(files, slice_range=k) followed by create_event() until it raises: for every list
   of replayable files (readable, particles dataset non-empty) and every k >= 1 the calls return,
   in order across files and chunks, every stored event's particles together with the running
   count (thrown total of the completed files + the proportional count inside the current file,
   exact integer arithmetic), the count after the last event is the sum of the files'
   total_thrown, and the next call raises StopIteration *)
Theorem filegen_replays : forall files k, 1 <= k -> Forall gen_ok files -> files <> [] ->
  exists items, filegen files k = inr (items, Some EStop) /\
    items = all_items 0 files /\
    map fst items = flat_map (fun f => map (particle_tags_of f) (zseq (n_events f))) files /\
    (forall d, snd (last items d) = sumtv files).
Proof. exact filegen_replays_full. Qed.
Print Assumptions filegen_replays.

(* files written by any add/reopen history are replayable once an accepted add recorded a particle *)
Theorem files_replayable : forall o d hd ops, records_particles o = true ->
  1 <= n_events (run o d hd ops) -> get (rowsOf (run o d hd ops)) P <> [] -> gen_ok (run o d hd ops).
Proof. exact run_gen_ok. Qed.
Print Assumptions files_replayable.

(* non-vacuity: a 4-event file written in two sessions with a rejected add in between *)
Theorem example_file : readable (run ex12_opts 2 true ex12_ops) /\ n_events (run ex12_opts 2 true ex12_ops) = 4.
Proof. exact ex12_readable. Qed.
Print Assumptions example_file.
