"""setup_cmd: regenerate every generated Coq file from /repo, then build the whole development."""
import importlib
import os
import pkgutil
import shutil
import sys
import tempfile

from harness import common
import harness.props


def main():
    scratch = tempfile.mkdtemp(prefix="verif-setup-", dir=os.path.dirname(common.SCRATCH) if os.path.isdir(os.path.dirname(common.SCRATCH)) else None)
    rc_all = 0
    try:
        for m in sorted(pkgutil.iter_modules(harness.props.__path__), key=lambda m: m.name):
            mod = importlib.import_module("harness.props." + m.name)
            if hasattr(mod, "gen_files"):
                try:
                    files, _ = mod.gen_files(scratch)
                except Exception as e:
                    print("gen failed for %s: %s" % (m.name, e))
                    rc_all = 1
                    continue
                with common.CoqLock():
                    for k, v in files.items():
                        common.write_if_changed(os.path.join(common.COQ, "Gen", k + ".v"), v)
        with common.CoqLock():
            common.ensure_makefile()
            rc, out = common.sh("timeout 3000 make -j%d" % common.NPROC, cwd=common.COQ, timeout=3100)
            print(out[-3000:])
            rc_all |= rc
        for f in os.listdir(os.path.join(common.ROOT, "tools")):
            if f == "build_ocaml.sh":
                rc, out = common.sh("sh tools/build_ocaml.sh", cwd=common.ROOT, timeout=900)
                print(out[-2000:])
                rc_all |= rc
    finally:
        shutil.rmtree(scratch, ignore_errors=True)
    sys.exit(1 if rc_all else 0)


if __name__ == "__main__":
    main()
