#!/bin/sh
# confirm + detect every finished round-2 seed that has not been processed yet
cd /verif
for d in /tmp/seed2/out/C*/m? /tmp/seed3/out/C*/m? /tmp/seed4/out/C*/m? /tmp/seed5/out/C*/m? /tmp/seed6/out/C*/m? /tmp/seed7/out/C*/m?; do
  [ -f "$d/meta.json" ] || continue
  id=$(basename $(dirname $d)); m=$(basename $d); r=r2; case $d in /tmp/seed3/*) r=r3;; /tmp/seed4/*) r=r4;; /tmp/seed5/*) r=r5;; /tmp/seed6/*) r=r6;; /tmp/seed7/*) r=r7;; esac; name="${id}_$r$m"
  [ -d "seeded/$name" ] && [ -f "seeded/$name/detect.json" ] && continue
  if [ ! -d "seeded/$name" ]; then python3 tools/seed.py confirm $id $m $d $r$m 2>&1 | cut -c1-80; fi
  [ -d "seeded/$name" ] && python3 tools/seed.py detect $name >/dev/null 2>&1
done
python3 tools/seed_status.py | grep "_r[234567]"
