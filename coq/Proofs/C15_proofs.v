(* C15: Earth density and slant depth.  Lemmas about the definitions generated from
   pyrex/earth_model.py (Gen/Gen_earth.v) and the hand model Model/EarthModel.v. *)
From Coq Require Import Reals List Bool ZArith Lra Lia Psatz.
From Coquelicot Require Import Coquelicot.
From PyrexLib Require Import RealPrims Prem_reference Trapz.
From PyrexModel Require Import EarthModel.
From PyrexGen Require Import Gen_earth.
Import ListNotations.
Open Scope R_scope.

(* ================================================================ density = reference *)
Ltac decide_cmp :=
  repeat match goal with
  | |- context [Rleb ?a ?b] =>
      first [ replace (Rleb a b) with true by (symmetry; apply Rleb_true; lra)
            | replace (Rleb a b) with false by (symmetry; apply Rleb_false; lra) ]
  | |- context [Rltb ?a ?b] =>
      first [ replace (Rltb a b) with true by (symmetry; apply Rltb_true; lra)
            | replace (Rltb a b) with false by (symmetry; apply Rltb_false; lra) ]
  end.

Lemma prem_radius_eq : PREM_earth_radius = prem_radius.
Proof. unfold PREM_earth_radius, prem_radius. lra. Qed.

Ltac prem_leaf :=
  unfold PREM_density, shell_density, PREM_radii, PREM_densities;
  cbn [shell_conds piecewise];
  unfold PREM_earth_radius in *; decide_cmp; cbn [andb];
  try reflexivity.

Ltac poly_leaf :=
  try replace (6371 * 1000) with 6371000 by lra;
  match goal with |- context [?r / 6371000] => generalize (r / 6371000) end;
  let x := fresh "x" in intro x;
  replace (x ^ 2) with (x * x) by ring; replace (x ^ 3) with (x * x * x) by ring;
  generalize (x * x * x); generalize (x * x); intros; lra.

Lemma prem_density_is_reference_lemma : is_reference_density prem_radius prem_shells PREM_density.
Proof.
  intro r. split; [|split].
  - intro H. prem_leaf.
  - unfold prem_radius. intro H. prem_leaf.
  - unfold prem_shells, prem_radius.
    repeat (apply List.Forall_cons; [cbn [s_lo s_hi]; intros [H1 H2]; prem_leaf; unfold shell_value; cbn [s_c0 s_c1 s_c2 s_c3]; poly_leaf|]).
    apply List.Forall_nil.
Qed.

Lemma prem_shells_tile : tiles 0 prem_radius prem_shells.
Proof. unfold prem_shells, prem_radius; cbn [tiles s_lo s_hi]. repeat split; lra. Qed.

Lemma sqrt_core_bounds : 3464101 < sqrt 12000000000000 < 3464102.
Proof.
  assert (A : sqrt (3464101 * 3464101) < sqrt 12000000000000) by (apply sqrt_lt_1_alt; lra).
  assert (B : sqrt 12000000000000 < sqrt (3464102 * 3464102)) by (apply sqrt_lt_1_alt; lra).
  rewrite sqrt_square in A by lra. rewrite sqrt_square in B by lra. lra.
Qed.

Lemma cmc_radius_eq : CoreMantleCrustModel_earth_radius = cmc_radius.
Proof. unfold CoreMantleCrustModel_earth_radius, cmc_radius. lra. Qed.

Ltac cmc_leaf :=
  unfold CoreMantleCrustModel_density, shell_density, CoreMantleCrustModel_radii, CoreMantleCrustModel_densities, const_funs;
  cbn [shell_conds piecewise map];
  unfold CoreMantleCrustModel_earth_radius in *;
  pose proof sqrt_core_bounds;
  decide_cmp; cbn [andb]; try reflexivity.

Lemma cmc_density_is_reference_lemma : is_reference_density cmc_radius cmc_shells CoreMantleCrustModel_density.
Proof.
  intro r. split; [|split].
  - intro H. cmc_leaf.
  - unfold cmc_radius. intro H. cmc_leaf.
  - unfold cmc_shells, cmc_radius.
    repeat (apply List.Forall_cons; [cbn [s_lo s_hi]; intros [H1 H2]; cmc_leaf; unfold shell_value; cbn [s_c0 s_c1 s_c2 s_c3]; lra|]).
    apply List.Forall_nil.
Qed.

Lemma cmc_shells_tile : tiles 0 cmc_radius cmc_shells.
Proof. unfold cmc_shells, cmc_radius; cbn [tiles s_lo s_hi]. pose proof sqrt_core_bounds. repeat split; lra. Qed.

(* ================================================================ slant depth *)
(* ---------------------------------------------------------------- geometry: the spec side *)
Definition shift (R0 : R) (p : vec3) : vec3 := (vx p, vy p, vz p + R0).
Definition disc (R0 : R) (e d : vec3) : R := (vdot e d) ^ 2 - vdot e e + R0 ^ 2.
Definition exit_distance (R0 : R) (e d : vec3) : R := - vdot e d + sqrt (disc R0 e d).
(* number of integration cells: int(L/step), plus one when L is not a multiple of step *)
Definition n_cells (L step : R) : Z :=
  let n := Rtrunc (L / step) in if negb (Reqb (Rmod L step) 0) then (n + 1)%Z else n.
Definition slant_spec (dens : R -> R) (R0 : R) (p dir : vec3) (step : R) : R :=
  let e := shift R0 p in
  let d := vnormalize dir in
  if Rleb (disc R0 e d) 0 then 0
  else if Rleb (exit_distance R0 e d) 0 then 0
  else chord_integral dens e d (exit_distance R0 e d) (n_cells (exit_distance R0 e d) step + 1).

Lemma prem_slant_structure p dir step :
  PREM_slant_depth p dir step = slant_spec PREM_density PREM_earth_radius p dir step.
Proof. reflexivity. Qed.
Lemma cmc_slant_structure p dir step :
  CoreMantleCrustModel_slant_depth p dir step = slant_spec CoreMantleCrustModel_density CoreMantleCrustModel_earth_radius p dir step.
Proof. reflexivity. Qed.

(* ---------------------------------------------------------------- vectors *)
Definition vzero : vec3 := (0, 0, 0).

Lemma vdot_self_pos v : v <> vzero -> 0 < vdot v v.
Proof.
  destruct v as [[x y] z]. unfold vzero, vdot, vx, vy, vz; simpl. intro H.
  destruct (Req_dec x 0) as [Hx|Hx]; [|nra].
  destruct (Req_dec y 0) as [Hy|Hy]; [|nra].
  destruct (Req_dec z 0) as [Hz|Hz]; [|nra].
  subst. exfalso. apply H. reflexivity.
Qed.

Lemma vnorm_pos v : v <> vzero -> 0 < vnorm v.
Proof. intro H. unfold vnorm. apply sqrt_lt_R0. apply vdot_self_pos; assumption. Qed.

Lemma vnorm_sq v : vnorm v * vnorm v = vdot v v.
Proof.
  unfold vnorm. apply sqrt_sqrt. destruct v as [[x y] z]. unfold vdot, vx, vy, vz; simpl. nra.
Qed.

Lemma vnormalize_nonzero v : v <> vzero -> vnormalize v = vscale (/ vnorm v) v.
Proof.
  intro H. unfold vnormalize. pose proof (vnorm_pos v H).
  destruct (Reqb (vnorm v) 0) eqn:E; [apply Reqb_true in E; lra|reflexivity].
Qed.

Lemma vnormalize_unit v : v <> vzero -> vdot (vnormalize v) (vnormalize v) = 1.
Proof.
  intro H. rewrite vnormalize_nonzero by assumption.
  pose proof (vnorm_pos v H) as Hp. pose proof (vnorm_sq v) as Hs.
  destruct v as [[x y] z]. unfold vscale, vdot, vx, vy, vz in *; simpl in *.
  set (n := vnorm (x, y, z)) in *.
  replace (/ n * x * (/ n * x) + / n * y * (/ n * y) + / n * z * (/ n * z))
    with ((x * x + y * y + z * z) / (n * n)) by (field; lra).
  rewrite <- Hs. field. lra.
Qed.

Lemma vscale_nonzero k v : k <> 0 -> v <> vzero -> vscale k v <> vzero.
Proof.
  intros Hk Hv Hc. apply Hv. destruct v as [[x y] z]. unfold vscale, vzero, vx, vy, vz in *; simpl in *.
  injection Hc; intros H3 H2 H1.
  destruct (Rmult_integral _ _ H1); [contradiction|].
  destruct (Rmult_integral _ _ H2); [contradiction|].
  destruct (Rmult_integral _ _ H3); [contradiction|]. subst. reflexivity.
Qed.

Lemma classic_vzero (v : vec3) : v = vzero \/ v <> vzero.
Proof.
  destruct v as [[x y] z]. unfold vzero.
  destruct (Req_dec x 0); [|right; intro E; inversion E; contradiction].
  destruct (Req_dec y 0); [|right; intro E; inversion E; contradiction].
  destruct (Req_dec z 0); [|right; intro E; inversion E; contradiction].
  subst; left; reflexivity.
Qed.

Lemma vnorm_scale k v : 0 < k -> vnorm (vscale k v) = k * vnorm v.
Proof.
  intro Hk. unfold vnorm.
  replace (vdot (vscale k v) (vscale k v)) with (k * k * vdot v v)
    by (destruct v as [[x y] z]; unfold vdot, vscale, vx, vy, vz; simpl; ring).
  rewrite sqrt_mult_alt by nra. rewrite sqrt_square by lra. reflexivity.
Qed.

(* the result does not depend on the length of the direction vector *)
Lemma vnormalize_scale k v : 0 < k -> vnormalize (vscale k v) = vnormalize v.
Proof.
  intro Hk. destruct (classic_vzero v) as [Hz|Hz].
  - subst. unfold vnormalize, vscale, vzero, vx, vy, vz; simpl.
    replace (k * 0) with 0 by ring. reflexivity.
  - rewrite (vnormalize_nonzero v Hz).
    rewrite (vnormalize_nonzero (vscale k v)) by (apply vscale_nonzero; [lra|assumption]).
    rewrite vnorm_scale by assumption. pose proof (vnorm_pos v Hz).
    destruct v as [[x y] z]. unfold vscale, vx, vy, vz; simpl.
    set (n := vnorm (x, y, z)) in *.
    f_equal; [f_equal|]; field; lra.
Qed.

(* ---------------------------------------------------------------- exit point on the sphere *)
Definition along (e d : vec3) (t : R) : vec3 := vadd e (vscale t d).

Lemma along_sq e d t : vdot d d = 1 ->
  vdot (along e d t) (along e d t) = vdot e e + 2 * t * vdot e d + t * t.
Proof.
  intro H. destruct e as [[ex ey] ez], d as [[dx dy] dz].
  unfold along, vadd, vscale, vdot, vx, vy, vz in *; simpl in *.
  replace (t * t) with (t * t * (dx * dx + dy * dy + dz * dz)) by (rewrite H; ring). ring.
Qed.

(* |e + t d|^2 - R0^2 = (t + e.d)^2 - disc *)
Lemma along_sq_disc R0 e d t : vdot d d = 1 ->
  vdot (along e d t) (along e d t) - R0 ^ 2 = (t + vdot e d) ^ 2 - disc R0 e d.
Proof. intro H. rewrite along_sq by assumption. unfold disc. ring. Qed.

Lemma exit_on_sphere_sq R0 e d : vdot d d = 1 -> 0 <= disc R0 e d ->
  vdot (along e d (exit_distance R0 e d)) (along e d (exit_distance R0 e d)) = R0 ^ 2.
Proof.
  intros Hd HD. pose proof (along_sq_disc R0 e d (exit_distance R0 e d) Hd) as H.
  unfold exit_distance in *.
  replace (- vdot e d + sqrt (disc R0 e d) + vdot e d) with (sqrt (disc R0 e d)) in H by ring.
  replace (sqrt (disc R0 e d) ^ 2) with (disc R0 e d) in H by (simpl; rewrite Rmult_1_r, sqrt_sqrt; [reflexivity|assumption]).
  lra.
Qed.

Lemma chord_radius_along e d L t : chord_radius e d L t = sqrt (vdot (along e d (t * L)) (along e d (t * L))).
Proof.
  unfold chord_radius, along, vadd, vscale, vdot. destruct e as [[ex ey] ez], d as [[dx dy] dz].
  unfold vx, vy, vz; simpl. f_equal. ring.
Qed.

(* the last sample point (t = 1) of the chord lies on the sphere of radius R0 *)
Lemma exit_on_sphere_lemma R0 e d : 0 < R0 -> vdot d d = 1 -> 0 <= disc R0 e d ->
  chord_radius e d (exit_distance R0 e d) 1 = R0.
Proof.
  intros HR Hd HD. rewrite chord_radius_along. rewrite Rmult_1_l.
  rewrite exit_on_sphere_sq by assumption.
  replace (R0 ^ 2) with (R0 * R0) by ring. apply sqrt_square. lra.
Qed.

(* ---------------------------------------------------------------- zero when the chord misses *)
Lemma slant_zero_cases dens R0 p dir step :
  disc R0 (shift R0 p) (vnormalize dir) <= 0 \/ exit_distance R0 (shift R0 p) (vnormalize dir) <= 0 ->
  slant_spec dens R0 p dir step = 0.
Proof.
  intros [H|H]; unfold slant_spec; cbv zeta.
  - replace (Rleb (disc R0 (shift R0 p) (vnormalize dir)) 0) with true by (symmetry; apply Rleb_true; assumption).
    reflexivity.
  - destruct (Rleb (disc R0 (shift R0 p) (vnormalize dir)) 0); [reflexivity|].
    replace (Rleb (exit_distance R0 (shift R0 p) (vnormalize dir)) 0) with true by (symmetry; apply Rleb_true; assumption).
    reflexivity.
Qed.

(* geometric form: a half-line that has no point strictly inside the sphere gives 0 *)
Lemma zero_when_missing_lemma dens R0 p dir step :
  dir <> vzero ->
  (forall t, 0 < t -> R0 ^ 2 <= vdot (along (shift R0 p) (vnormalize dir) t) (along (shift R0 p) (vnormalize dir) t)) ->
  slant_spec dens R0 p dir step = 0.
Proof.
  intros Hdir Hout. apply slant_zero_cases.
  set (e := shift R0 p) in *. set (d := vnormalize dir) in *.
  assert (Hd : vdot d d = 1) by (apply vnormalize_unit; assumption).
  destruct (Rle_dec (disc R0 e d) 0) as [|HD]; [left; assumption|].
  destruct (Rle_dec (exit_distance R0 e d) 0) as [|HL]; [right; assumption|].
  exfalso. apply Rnot_le_lt in HD. apply Rnot_le_lt in HL.
  set (s := sqrt (disc R0 e d)) in *.
  assert (Hs : 0 < s) by (apply sqrt_lt_R0; assumption).
  assert (Hss : s * s = disc R0 e d) by (apply sqrt_sqrt; lra).
  set (L := exit_distance R0 e d) in *.
  assert (HLs : L + vdot e d = s) by (unfold L, exit_distance; fold s; ring).
  (* a point strictly between max(0, L - 2s) and L *)
  set (t := L - Rmin L s / 2).
  assert (Hmin1 : Rmin L s <= L) by apply Rmin_l.
  assert (Hmin2 : Rmin L s <= s) by apply Rmin_r.
  assert (Hmin3 : 0 < Rmin L s) by (apply Rmin_glb_lt; assumption).
  assert (Ht : 0 < t) by (unfold t; lra).
  specialize (Hout t Ht).
  pose proof (along_sq_disc R0 e d t Hd) as H.
  assert (Hin : (t + vdot e d) ^ 2 < disc R0 e d).
  { replace (t + vdot e d) with (s - Rmin L s / 2) by (unfold t; lra).
    rewrite <- Hss. nra. }
  lra.
Qed.

(* ---------------------------------------------------------------- direction length *)
Lemma direction_scale_invariant_lemma dens R0 p dir step k : 0 < k ->
  slant_spec dens R0 p (vscale k dir) step = slant_spec dens R0 p dir step.
Proof. intro Hk. unfold slant_spec. rewrite vnormalize_scale by assumption. reflexivity. Qed.

(* ---------------------------------------------------------------- azimuth *)
Definition rotz (a : R) (v : vec3) : vec3 :=
  (cos a * vx v - sin a * vy v, sin a * vx v + cos a * vy v, vz v).

Lemma rotz_dot a u v : vdot (rotz a u) (rotz a v) = vdot u v.
Proof.
  destruct u as [[ux uy] uz], v as [[x y] z]. unfold rotz, vdot, vx, vy, vz; simpl.
  pose proof (sin2_cos2 a) as H. unfold Rsqr in H.
  replace ((cos a * ux - sin a * uy) * (cos a * x - sin a * y) + (sin a * ux + cos a * uy) * (sin a * x + cos a * y) + uz * z)
    with ((sin a * sin a + cos a * cos a) * (ux * x + uy * y) + uz * z) by ring.
  rewrite H. ring.
Qed.

Lemma rotz_shift a R0 p : shift R0 (rotz a p) = rotz a (shift R0 p).
Proof. destruct p as [[x y] z]. reflexivity. Qed.

Lemma rotz_scale a k v : rotz a (vscale k v) = vscale k (rotz a v).
Proof.
  destruct v as [[x y] z]. unfold rotz, vscale, vx, vy, vz; simpl. f_equal; try f_equal; ring.
Qed.

Lemma rotz_add a u v : rotz a (vadd u v) = vadd (rotz a u) (rotz a v).
Proof.
  destruct u as [[ux uy] uz], v as [[x y] z]. unfold rotz, vadd, vx, vy, vz; simpl. f_equal; try f_equal; ring.
Qed.

Lemma rotz_norm a v : vnorm (rotz a v) = vnorm v.
Proof. unfold vnorm. rewrite rotz_dot. reflexivity. Qed.

Lemma rotz_normalize a v : vnormalize (rotz a v) = rotz a (vnormalize v).
Proof.
  unfold vnormalize. rewrite rotz_norm.
  destruct (Reqb (vnorm v) 0); [reflexivity|]. symmetry. apply rotz_scale.
Qed.

Lemma rotz_chord_radius a e d L t : chord_radius (rotz a e) (rotz a d) L t = chord_radius e d L t.
Proof.
  rewrite !chord_radius_along. f_equal. unfold along.
  rewrite <- rotz_scale, <- rotz_add. apply rotz_dot.
Qed.

Lemma rotz_disc a R0 e d : disc R0 (rotz a e) (rotz a d) = disc R0 e d.
Proof. unfold disc. rewrite !rotz_dot. reflexivity. Qed.

Lemma rotz_exit a R0 e d : exit_distance R0 (rotz a e) (rotz a d) = exit_distance R0 e d.
Proof. unfold exit_distance. rewrite rotz_disc, rotz_dot. reflexivity. Qed.

Lemma chord_integral_ext dens e d e' d' L n :
  (forall t, chord_radius e' d' L t = chord_radius e d L t) ->
  chord_integral dens e' d' L n = chord_integral dens e d L n.
Proof.
  intro H. unfold chord_integral. cbv zeta. f_equal. f_equal.
  apply map_ext. intro t. rewrite H. reflexivity.
Qed.

(* rotating endpoint and direction together about the vertical leaves the result unchanged *)
Lemma azimuth_invariant_lemma dens R0 p dir step a :
  slant_spec dens R0 (rotz a p) (rotz a dir) step = slant_spec dens R0 p dir step.
Proof.
  unfold slant_spec. cbv zeta. rewrite rotz_shift, rotz_normalize, rotz_disc, rotz_exit.
  destruct (Rleb (disc R0 (shift R0 p) (vnormalize dir)) 0); [reflexivity|].
  destruct (Rleb (exit_distance R0 (shift R0 p) (vnormalize dir)) 0); [reflexivity|].
  apply chord_integral_ext. intro t. apply rotz_chord_radius.
Qed.

(* an endpoint on the vertical axis: the azimuth of the direction alone does not matter *)
Lemma azimuth_invariant_on_axis_lemma dens R0 z dir step a :
  slant_spec dens R0 (0, 0, z) (rotz a dir) step = slant_spec dens R0 (0, 0, z) dir step.
Proof.
  rewrite <- (azimuth_invariant_lemma dens R0 (0, 0, z) dir step a).
  f_equal. unfold rotz, vx, vy, vz; simpl. f_equal; try f_equal; ring.
Qed.

(* ---------------------------------------------------------------- chord length vs dip *)
(* b = e.d is |e| times the cosine of the angle between the direction and the local vertical:
   a chord that dips deeper has a smaller b.  The exit distance decreases with b ... *)
Lemma chord_monotone_length R0 e d1 d2 :
  vdot e e <= R0 ^ 2 -> vdot e d2 <= vdot e d1 ->
  exit_distance R0 e d1 <= exit_distance R0 e d2.
Proof.
  intros Hin Hb. unfold exit_distance, disc.
  set (b1 := vdot e d1) in *. set (b2 := vdot e d2) in *. set (c := R0 ^ 2 - vdot e e).
  assert (Hc : 0 <= c) by (unfold c; lra).
  replace (b1 ^ 2 - vdot e e + R0 ^ 2) with (b1 * b1 + c) by (unfold c; ring).
  replace (b2 ^ 2 - vdot e e + R0 ^ 2) with (b2 * b2 + c) by (unfold c; ring).
  set (s1 := sqrt (b1 * b1 + c)). set (s2 := sqrt (b2 * b2 + c)).
  assert (H1 : s1 * s1 = b1 * b1 + c) by (apply sqrt_sqrt; nra).
  assert (H2 : s2 * s2 = b2 * b2 + c) by (apply sqrt_sqrt; nra).
  assert (P1 : 0 <= s1) by apply sqrt_pos. assert (P2 : 0 <= s2) by apply sqrt_pos.
  (* s1 >= |b1|, s2 >= |b2| and (s1 - s2)(s1 + s2) = (b1 - b2)(b1 + b2) *)
  assert (A1 : b1 <= s1) by nra. assert (A1' : - b1 <= s1) by nra.
  assert (A2 : b2 <= s2) by nra. assert (A2' : - b2 <= s2) by nra.
  destruct (Rle_dec (s1 - s2) (b1 - b2)) as [|Hn]; [lra|].
  apply Rnot_le_lt in Hn. exfalso.
  assert (E : (s1 - s2) * (s1 + s2) = (b1 - b2) * (b1 + b2)) by nra.
  destruct (Req_dec (s1 + s2) 0) as [Z|NZ].
  - assert (s1 = 0) by lra. assert (s2 = 0) by lra. nra.
  - assert (0 < s1 + s2) by lra. nra.
Qed.

(* ... and the closest approach to the centre of a descending chord, sqrt(|e|^2 - b^2), shrinks *)
Lemma closest_approach e d t : vdot d d = 1 ->
  vdot e e - (vdot e d) ^ 2 <= vdot (along e d t) (along e d t).
Proof.
  intro H. rewrite along_sq by assumption.
  pose proof (Rle_0_sqr (t + vdot e d)) as Q. unfold Rsqr in Q.
  generalize dependent (vdot e d). intros b Q. simpl. nra.
Qed.

Lemma closest_approach_attained e d : vdot d d = 1 ->
  vdot (along e d (- vdot e d)) (along e d (- vdot e d)) = vdot e e - (vdot e d) ^ 2.
Proof. intro H. rewrite along_sq by assumption. ring. Qed.

Lemma chord_monotone_depth e d1 d2 :
  vdot e d2 <= vdot e d1 -> vdot e d1 <= 0 ->
  vdot e e - (vdot e d2) ^ 2 <= vdot e e - (vdot e d1) ^ 2.
Proof. intros. nra. Qed.

(* on the axis the dip is measured by the vertical component of the unit direction *)
Lemma chord_monotone_axis_lemma R0 z d1 d2 :
  0 <= z + R0 -> z <= 0 -> vz d2 <= vz d1 ->
  exit_distance R0 (shift R0 (0, 0, z)) d1 <= exit_distance R0 (shift R0 (0, 0, z)) d2.
Proof.
  intros H1 H2 H3. apply chord_monotone_length.
  - unfold shift, vdot, vx, vy, vz; simpl. nra.
  - unfold shift, vdot, vx, vy, vz; simpl. destruct d1 as [[a1 b1] c1], d2 as [[a2 b2] c2]; simpl in *. nra.
Qed.

(* ---------------------------------------------------------------- the step arithmetic *)
Lemma floor_spec x : IZR (Rfloor_Z x) <= x < IZR (Rfloor_Z x) + 1.
Proof.
  unfold Rfloor_Z. rewrite minus_IZR. destruct (archimed x) as [H1 H2]. lra.
Qed.

(* n_cells L step = ceil(L / step): the least integer k with L / step <= k; at least one cell *)
Lemma n_cells_is_ceil L step : 0 < step -> 0 < L ->
  (1 <= n_cells L step)%Z /\ IZR (n_cells L step) - 1 < L / step <= IZR (n_cells L step).
Proof.
  intros Hs HL. unfold n_cells. cbv zeta.
  assert (Hq : 0 < L / step) by (apply Rdiv_lt_0_compat; assumption).
  unfold Rtrunc. replace (Rltb (L / step) 0) with false by (symmetry; apply Rltb_false; lra).
  pose proof (floor_spec (L / step)) as [F1 F2].
  set (fl := Rfloor_Z (L / step)) in *.
  assert (Hmod : Rmod L step = step * (L / step - IZR fl)).
  { unfold Rmod, Rfloor. fold fl. field. lra. }
  destruct (Reqb (Rmod L step) 0) eqn:E; cbn [negb].
  - apply Reqb_true in E. rewrite Hmod in E.
    assert (Hq' : L / step = IZR fl) by nra.
    split; [|lra].
    assert (0 < IZR fl) by lra. apply lt_IZR in H. lia.
  - assert (Hne : Rmod L step <> 0).
    { intro C. apply Reqb_true in C. rewrite C in E. discriminate. }
    assert (Hq' : L / step <> IZR fl).
    { intro C. apply Hne. rewrite Hmod, C. ring. }
    rewrite plus_IZR. split; [|lra].
    assert (-1 < IZR fl) by lra. apply lt_IZR in H. lia.
Qed.

(* so the integration cells are no longer than the requested step *)
Lemma mesh_le_step_lemma L step : 0 < step -> 0 < L -> L / IZR (n_cells L step) <= step.
Proof.
  intros Hs HL. destruct (n_cells_is_ceil L step Hs HL) as (H1 & _ & H3).
  assert (Hk : 0 < IZR (n_cells L step)) by (apply IZR_lt; lia).
  apply (Rmult_le_reg_r (IZR (n_cells L step))); [assumption|].
  replace (L / IZR (n_cells L step) * IZR (n_cells L step)) with L by (field; lra).
  apply (Rmult_le_compat_r step) in H3; [|lra].
  replace (L / step * step) with L in H3 by (field; lra). lra.
Qed.

(* ---------------------------------------------------------------- uniform partition *)
Definition grid (h : R) (a n : nat) : list R := map (fun i : nat => INR i * h) (seq a n).
Fixpoint sumR (l : list R) : R := match l with [] => 0 | x :: r => x + sumR r end.

Lemma cell_sum_grid h : forall n a bs, length bs = n ->
  cell_sum (grid h a (S n)) bs = h * sumR bs.
Proof.
  induction n as [|n IH]; intros a bs Hl.
  - destruct bs; [|discriminate]. simpl. ring.
  - destruct bs as [|b bs]; [discriminate|]. injection Hl as Hl.
    specialize (IH (S a) bs Hl).
    change (grid h a (S (S n))) with (INR a * h :: grid h (S a) (S n)).
    change (grid h (S a) (S n)) with (INR (S a) * h :: grid h (S (S a)) n) in *.
    change (cell_sum (INR a * h :: INR (S a) * h :: grid h (S (S a)) n) (b :: bs))
      with ((INR (S a) * h - INR a * h) * b + cell_sum (INR (S a) * h :: grid h (S (S a)) n) bs).
    rewrite IH. rewrite S_INR. simpl. ring.
Qed.

Lemma lin_go_grid h : forall n a, lin_go (INR a) h n = grid h a n.
Proof.
  induction n as [|n IH]; intro a; [reflexivity|].
  change (lin_go (INR a) h (S n)) with (INR a * h :: lin_go (INR a + 1) h n).
  change (grid h a (S n)) with (INR a * h :: grid h (S a) n).
  rewrite <- S_INR, IH. reflexivity.
Qed.

Lemma linspace01_grid k : (1 <= k)%Z ->
  linspace01 (k + 1) = grid (/ IZR k) 0 (S (Z.to_nat k)).
Proof.
  intro Hk. unfold linspace01. replace (k + 1 - 1)%Z with k by lia.
  replace (Z.to_nat (k + 1)) with (S (Z.to_nat k)) by lia.
  change 0 with (INR 0) at 1. apply lin_go_grid.
Qed.

Lemma grid_last h : forall n a, last (grid h (S a) n) (INR a * h) = INR (a + n) * h.
Proof.
  induction n as [|n IH]; intro a.
  - simpl. rewrite Nat.add_0_r. reflexivity.
  - change (grid h (S a) (S n)) with (INR (S a) * h :: grid h (S (S a)) n).
    rewrite last_cons. rewrite IH. f_equal. f_equal. lia.
Qed.

Lemma scale_bounds g xs L : 0 <= L -> forall ms Ms,
  cells_bounded g xs ms Ms ->
  cells_bounded (fun t => g t * L) xs (map (fun b => b * L) ms) (map (fun b => b * L) Ms).
Proof.
  intro HL. induction xs as [|x0 xs IH]; intros ms Ms H.
  - simpl in *. destruct H; subst; split; reflexivity.
  - destruct xs as [|x1 xs].
    + simpl in *. destruct H; subst; split; reflexivity.
    + destruct ms as [|m ms]; [simpl in H; tauto|]. destruct Ms as [|M Ms]; [simpl in H; tauto|].
      simpl in H. destruct H as (Hle & Hb & Hrest).
      change (cells_bounded (fun t => g t * L) (x0 :: x1 :: xs) (map (fun b => b * L) (m :: ms)) (map (fun b => b * L) (M :: Ms)))
        with (x0 <= x1 /\ (forall t, x0 <= t <= x1 -> m * L <= g t * L <= M * L) /\
              cells_bounded (fun t => g t * L) (x1 :: xs) (map (fun b => b * L) ms) (map (fun b => b * L) Ms)).
      split; [assumption|]. split.
      * intros t Ht. specialize (Hb t Ht). nra.
      * apply IH. assumption.
Qed.

Lemma cell_sum_scale xs L : forall bs, cell_sum xs (map (fun b => b * L) bs) = L * cell_sum xs bs.
Proof.
  induction xs as [|x0 xs IH]; intro bs.
  - simpl. ring.
  - destruct xs as [|x1 xs]; [simpl; ring|].
    destruct bs as [|b bs]; [simpl; ring|].
    change (cell_sum (x0 :: x1 :: xs) (map (fun b => b * L) (b :: bs)))
      with ((x1 - x0) * (b * L) + cell_sum (x1 :: xs) (map (fun b => b * L) bs)).
    change (cell_sum (x0 :: x1 :: xs) (b :: bs)) with ((x1 - x0) * b + cell_sum (x1 :: xs) bs).
    rewrite IH. ring.
Qed.

Lemma cells_bounded_length g xs : forall ms Ms, cells_bounded g xs ms Ms ->
  length ms = pred (length xs) /\ length Ms = pred (length xs).
Proof.
  induction xs as [|x0 xs IH]; intros ms Ms H.
  - simpl in *. destruct H; subst; split; reflexivity.
  - destruct xs as [|x1 xs].
    + simpl in *. destruct H; subst; split; reflexivity.
    + destruct ms as [|m ms]; [simpl in H; tauto|]. destruct Ms as [|M Ms]; [simpl in H; tauto|].
      simpl in H. destruct H as (_ & _ & Hrest). destruct (IH ms Ms Hrest) as [A B].
      simpl in *. split; congruence.
Qed.

(* ---------------------------------------------------------------- Darboux bracket of the chord integral *)
Definition along_density (dens : R -> R) (e d : vec3) (L : R) (t : R) : R := dens (chord_radius e d L t).

Lemma chord_integral_in_bracket dens e d L k ms Ms :
  (1 <= k)%Z -> 0 <= L ->
  cells_bounded (along_density dens e d L) (linspace01 (k + 1)) ms Ms ->
  100 * (L / IZR k) * sumR ms <= chord_integral dens e d L (k + 1) <= 100 * (L / IZR k) * sumR Ms.
Proof.
  intros Hk HL Hb. unfold chord_integral. cbv zeta.
  pose proof (scale_bounds _ _ L HL _ _ Hb) as Hb'.
  pose proof (trapz_in_darboux_bracket _ _ _ _ Hb') as [T1 T2].
  rewrite !cell_sum_scale in *.
  destruct (cells_bounded_length _ _ _ _ Hb) as [L1 L2].
  rewrite linspace01_grid in * by assumption.
  assert (Hlen : length (grid (/ IZR k) 0 (S (Z.to_nat k))) = S (Z.to_nat k))
    by (unfold grid; rewrite map_length, seq_length; reflexivity).
  rewrite Hlen in L1, L2. simpl pred in L1, L2.
  rewrite (cell_sum_grid _ _ _ _ L1) in T1. rewrite (cell_sum_grid _ _ _ _ L2) in T2.
  assert (Hkr : 0 < IZR k) by (apply IZR_lt; lia).
  unfold along_density in *.
  replace (100 * (L / IZR k) * sumR ms) with (100 * (L * (/ IZR k * sumR ms))) by (field; lra).
  replace (100 * (L / IZR k) * sumR Ms) with (100 * (L * (/ IZR k * sumR Ms))) by (field; lra).
  lra.
Qed.

(* the column density 100 * L * int_0^1 rho(r(t)) dt lies in the same bracket *)
Lemma column_density_in_bracket dens e d L k ms Ms :
  (1 <= k)%Z -> 0 <= L ->
  cells_bounded (along_density dens e d L) (linspace01 (k + 1)) ms Ms ->
  ex_RInt (along_density dens e d L) 0 1 ->
  100 * (L / IZR k) * sumR ms <= 100 * L * RInt (along_density dens e d L) 0 1 <= 100 * (L / IZR k) * sumR Ms.
Proof.
  intros Hk HL Hb Hex.
  destruct (cells_bounded_length _ _ _ _ Hb) as [L1 L2].
  rewrite linspace01_grid in * by assumption.
  assert (Hlen : length (grid (/ IZR k) 0 (S (Z.to_nat k))) = S (Z.to_nat k))
    by (unfold grid; rewrite map_length, seq_length; reflexivity).
  rewrite Hlen in L1, L2. simpl pred in L1, L2.
  assert (Hkr : 0 < IZR k) by (apply IZR_lt; lia).
  assert (H0 : INR 0 * / IZR k = 0) by (simpl; ring).
  assert (Hg : grid (/ IZR k) 0 (S (Z.to_nat k)) = 0 :: grid (/ IZR k) 1 (Z.to_nat k)).
  { change (grid (/ IZR k) 0 (S (Z.to_nat k))) with (INR 0 * / IZR k :: grid (/ IZR k) 1 (Z.to_nat k)).
    rewrite H0. reflexivity. }
  assert (Hlast : last (grid (/ IZR k) 1 (Z.to_nat k)) 0 = 1).
  { replace (last (grid (/ IZR k) 1 (Z.to_nat k)) 0) with (last (grid (/ IZR k) 1 (Z.to_nat k)) (INR 0 * / IZR k))
      by (rewrite H0; reflexivity).
    rewrite grid_last. rewrite Nat.add_0_l. rewrite INR_IZR_INZ, Z2Nat.id by lia. field. lra. }
  rewrite Hg in Hb.
  pose proof (rint_in_darboux_bracket _ _ _ _ _ Hb) as HI.
  rewrite Hlast in HI. specialize (HI Hex).
  rewrite <- Hg in HI.
  rewrite (cell_sum_grid _ _ _ _ L1), (cell_sum_grid _ _ _ _ L2) in HI.
  replace (100 * (L / IZR k) * sumR ms) with (100 * L * (/ IZR k * sumR ms)) by (field; lra).
  replace (100 * (L / IZR k) * sumR Ms) with (100 * L * (/ IZR k * sumR Ms)) by (field; lra).
  destruct HI as [I1 I2]. split; apply Rmult_le_compat_l; try lra; nra.
Qed.

(* ---------------------------------------------------------------- discretisation error of slant_depth *)
Lemma slant_hit dens R0 p dir step :
  0 < disc R0 (shift R0 p) (vnormalize dir) -> 0 < exit_distance R0 (shift R0 p) (vnormalize dir) ->
  slant_spec dens R0 p dir step =
  chord_integral dens (shift R0 p) (vnormalize dir) (exit_distance R0 (shift R0 p) (vnormalize dir))
    (n_cells (exit_distance R0 (shift R0 p) (vnormalize dir)) step + 1).
Proof.
  intros HD HL. unfold slant_spec. cbv zeta.
  replace (Rleb (disc R0 (shift R0 p) (vnormalize dir)) 0) with false by (symmetry; apply Rleb_false; assumption).
  replace (Rleb (exit_distance R0 (shift R0 p) (vnormalize dir)) 0) with false by (symmetry; apply Rleb_false; assumption).
  reflexivity.
Qed.

(* |slant_depth - column density| <= 100 * step * (sum of the density oscillations over the cells),
   for ANY per-cell bounds of the density along the chord: no smoothness is needed, jumps at shell
   boundaries are covered, and the bound shrinks linearly with the step *)
Lemma slant_discretisation_error_lemma dens R0 p dir step ms Ms :
  0 < step ->
  let e := shift R0 p in let d := vnormalize dir in let L := exit_distance R0 e d in
  0 < disc R0 e d -> 0 < L ->
  cells_bounded (along_density dens e d L) (linspace01 (n_cells L step + 1)) ms Ms ->
  ex_RInt (along_density dens e d L) 0 1 ->
  Rabs (slant_spec dens R0 p dir step - 100 * L * RInt (along_density dens e d L) 0 1)
    <= 100 * step * (sumR Ms - sumR ms).
Proof.
  intros Hs e d L. subst L d e. cbv beta. intros HD HL Hb Hex.
  rewrite slant_hit by assumption.
  set (LL := exit_distance R0 (shift R0 p) (vnormalize dir)) in *.
  destruct (n_cells_is_ceil LL step Hs HL) as (Hk & _ & _).
  pose proof (mesh_le_step_lemma LL step Hs HL) as Hmesh.
  set (k := n_cells LL step) in *.
  pose proof (chord_integral_in_bracket dens _ _ LL k ms Ms Hk (Rlt_le _ _ HL) Hb) as [T1 T2].
  pose proof (column_density_in_bracket dens _ _ LL k ms Ms Hk (Rlt_le _ _ HL) Hb Hex) as [I1 I2].
  assert (Hkr : 0 < IZR k) by (apply IZR_lt; lia).
  assert (Hh : 0 < LL / IZR k) by (apply Rdiv_lt_0_compat; assumption).
  set (h := LL / IZR k) in *.
  set (T := chord_integral dens (shift R0 p) (vnormalize dir) LL (k + 1)) in *.
  set (I := 100 * LL * RInt (along_density dens (shift R0 p) (vnormalize dir) LL) 0 1) in *.
  clearbody T I h. clear Hb Hex.
  assert (Hsum : sumR ms <= sumR Ms) by nra.
  assert (Hprod : 0 <= (step - h) * (sumR Ms - sumR ms)) by (apply Rmult_le_pos; lra).
  apply Rabs_le. split; nra.
Qed.

(* there is at least one cell, so no cell is longer than the chord either: for chords shorter than
   the step the error is bounded by 100 * L * (sum of oscillations), not merely 100 * step * ... *)
Lemma slant_discretisation_error_chord_lemma dens R0 p dir step ms Ms :
  0 < step ->
  let e := shift R0 p in let d := vnormalize dir in let L := exit_distance R0 e d in
  0 < disc R0 e d -> 0 < L ->
  cells_bounded (along_density dens e d L) (linspace01 (n_cells L step + 1)) ms Ms ->
  ex_RInt (along_density dens e d L) 0 1 ->
  Rabs (slant_spec dens R0 p dir step - 100 * L * RInt (along_density dens e d L) 0 1)
    <= 100 * L * (sumR Ms - sumR ms).
Proof.
  intros Hs e d L. subst L d e. cbv beta. intros HD HL Hb Hex.
  rewrite slant_hit by assumption.
  set (LL := exit_distance R0 (shift R0 p) (vnormalize dir)) in *.
  destruct (n_cells_is_ceil LL step Hs HL) as (Hk & _ & _).
  assert (Hmesh : LL / IZR (n_cells LL step) <= LL).
  { assert (Hk1 : 1 <= IZR (n_cells LL step)) by (apply IZR_le; assumption).
    apply (Rmult_le_reg_r (IZR (n_cells LL step))); [lra|].
    replace (LL / IZR (n_cells LL step) * IZR (n_cells LL step)) with LL by (field; lra). nra. }
  set (k := n_cells LL step) in *.
  pose proof (chord_integral_in_bracket dens _ _ LL k ms Ms Hk (Rlt_le _ _ HL) Hb) as [T1 T2].
  pose proof (column_density_in_bracket dens _ _ LL k ms Ms Hk (Rlt_le _ _ HL) Hb Hex) as [I1 I2].
  assert (Hkr : 0 < IZR k) by (apply IZR_lt; lia).
  assert (Hh : 0 < LL / IZR k) by (apply Rdiv_lt_0_compat; assumption).
  set (h := LL / IZR k) in *.
  set (T := chord_integral dens (shift R0 p) (vnormalize dir) LL (k + 1)) in *.
  set (I := 100 * LL * RInt (along_density dens (shift R0 p) (vnormalize dir) LL) 0 1) in *.
  clearbody T I h. clear Hb Hex.
  assert (Hsum : sumR ms <= sumR Ms) by nra.
  assert (Hprod : 0 <= (LL - h) * (sumR Ms - sumR ms)) by (apply Rmult_le_pos; lra).
  apply Rabs_le. split; nra.
Qed.

(* ---------------------------------------------------------------- non-vacuity *)
Example hit_example :
  (0, 0, -2) <> vzero /\
  0 < disc PREM_earth_radius (shift PREM_earth_radius (0, 0, -1000)) (vnormalize (0, 0, -2)) /\
  0 < exit_distance PREM_earth_radius (shift PREM_earth_radius (0, 0, -1000)) (vnormalize (0, 0, -2)).
Proof.
  assert (Hn : (0, 0, -2) <> vzero) by (unfold vzero; intro E; injection E; lra).
  assert (Hv : vnormalize (0, 0, -2) = (0, 0, -1)).
  { rewrite vnormalize_nonzero by assumption.
    assert (Hm : vnorm (0, 0, -2) = 2).
    { unfold vnorm, vdot, vx, vy, vz; simpl. replace (0 * 0 + 0 * 0 + -2 * -2) with (2 * 2) by ring.
      apply sqrt_square. lra. }
    rewrite Hm. unfold vscale, vx, vy, vz; simpl. f_equal; try f_equal; lra. }
  split; [assumption|]. rewrite Hv.
  unfold disc, exit_distance, disc, shift, vdot, vx, vy, vz, PREM_earth_radius; simpl.
  match goal with |- 0 < ?D /\ _ => replace D with (6371000 * 6371000) by ring end.
  split; [nra|].
  rewrite sqrt_square by lra. lra.
Qed.

Example miss_example dens step :
  slant_spec dens PREM_earth_radius (0, 0, 10) (0, 0, 1) step = 0.
Proof.
  apply zero_when_missing_lemma.
  - unfold vzero; intro E; injection E; lra.
  - intros t Ht.
    assert (Hv : vnormalize (0, 0, 1) = (0, 0, 1)).
    { rewrite vnormalize_nonzero by (unfold vzero; intro E; injection E; lra).
      assert (Hm : vnorm (0, 0, 1) = 1).
      { unfold vnorm, vdot, vx, vy, vz; simpl. replace (0 * 0 + 0 * 0 + 1 * 1) with (1 * 1) by ring.
        apply sqrt_square. lra. }
      rewrite Hm. unfold vscale, vx, vy, vz; simpl. f_equal; try f_equal; lra. }
    rewrite Hv. unfold along, shift, vadd, vscale, vdot, vx, vy, vz, PREM_earth_radius; simpl. nra.
Qed.

Example bracket_example : cells_bounded (fun _ : R => 2) [0; 1 / 2; 1] [2; 2] [2; 2].
Proof. simpl. repeat split; lra. Qed.

(* ---------------------------------------------------------------- endpoints outside the sphere *)
(* the code integrates from the endpoint to the EXIT point; when the endpoint is outside the sphere the
   chord first runs through vacuum up to the entry distance -e.d - sqrt(disc): there the radius exceeds
   R (density 0), between entry and exit it is below R *)
Definition entry_distance (R0 : R) (e d : vec3) : R := - vdot e d - sqrt (disc R0 e d).

Lemma chord_outside_before_entry R0 e d s : 0 < R0 -> vdot d d = 1 -> 0 <= disc R0 e d ->
  s < entry_distance R0 e d -> R0 < sqrt (vdot (along e d s) (along e d s)).
Proof.
  intros HR Hd HD Hs. unfold entry_distance in Hs.
  pose proof (along_sq_disc R0 e d s Hd) as H.
  set (q := sqrt (disc R0 e d)) in *.
  assert (Hq : q * q = disc R0 e d) by (apply sqrt_sqrt; assumption).
  assert (Hq0 : 0 <= q) by apply sqrt_pos.
  assert (R0 * R0 < vdot (along e d s) (along e d s)) by nra.
  apply Rle_lt_trans with (sqrt (R0 * R0)); [rewrite sqrt_square; lra|]. apply sqrt_lt_1_alt. nra.
Qed.

Lemma chord_inside_between R0 e d s : 0 < R0 -> vdot d d = 1 -> 0 <= disc R0 e d ->
  entry_distance R0 e d < s < exit_distance R0 e d -> sqrt (vdot (along e d s) (along e d s)) < R0.
Proof.
  intros HR Hd HD Hs. unfold entry_distance, exit_distance in Hs.
  pose proof (along_sq_disc R0 e d s Hd) as H.
  set (q := sqrt (disc R0 e d)) in *.
  assert (Hq : q * q = disc R0 e d) by (apply sqrt_sqrt; assumption).
  assert (Hq0 : 0 <= q) by apply sqrt_pos.
  assert (Hpos : 0 <= vdot (along e d s) (along e d s)).
  { destruct (along e d s) as [[a b] c]. unfold vdot, vx, vy, vz; simpl. nra. }
  assert (vdot (along e d s) (along e d s) < R0 * R0) by nra.
  apply Rlt_le_trans with (sqrt (R0 * R0)); [apply sqrt_lt_1_alt; lra|rewrite sqrt_square; lra].
Qed.

(* so the vacuum part of the sampled chord contributes density 0 (PREM and core-mantle-crust) *)
Lemma prem_vacuum_zero_lemma e d t : vdot d d = 1 -> 0 <= disc PREM_earth_radius e d ->
  t * exit_distance PREM_earth_radius e d < entry_distance PREM_earth_radius e d ->
  along_density PREM_density e d (exit_distance PREM_earth_radius e d) t = 0.
Proof.
  intros Hd HD Ht. unfold along_density. rewrite chord_radius_along.
  assert (HR : 0 < PREM_earth_radius) by (unfold PREM_earth_radius; lra).
  pose proof (chord_outside_before_entry _ e d _ HR Hd HD Ht) as H.
  destruct (prem_density_is_reference_lemma (sqrt (vdot (along e d (t * exit_distance PREM_earth_radius e d)) (along e d (t * exit_distance PREM_earth_radius e d))))) as (_ & Hout & _).
  apply Hout. rewrite <- prem_radius_eq. lra.
Qed.

Lemma cmc_vacuum_zero_lemma e d t : vdot d d = 1 -> 0 <= disc CoreMantleCrustModel_earth_radius e d ->
  t * exit_distance CoreMantleCrustModel_earth_radius e d < entry_distance CoreMantleCrustModel_earth_radius e d ->
  along_density CoreMantleCrustModel_density e d (exit_distance CoreMantleCrustModel_earth_radius e d) t = 0.
Proof.
  intros Hd HD Ht. unfold along_density. rewrite chord_radius_along.
  assert (HR : 0 < CoreMantleCrustModel_earth_radius) by (unfold CoreMantleCrustModel_earth_radius; lra).
  pose proof (chord_outside_before_entry _ e d _ HR Hd HD Ht) as H.
  destruct (cmc_density_is_reference_lemma (sqrt (vdot (along e d (t * exit_distance CoreMantleCrustModel_earth_radius e d)) (along e d (t * exit_distance CoreMantleCrustModel_earth_radius e d))))) as (_ & Hout & _).
  apply Hout. rewrite <- cmc_radius_eq. lra.
Qed.

(* an endpoint outside the sphere whose direction enters it: 0 < entry < exit *)
Example outside_endpoint_example :
  0 < entry_distance PREM_earth_radius (shift PREM_earth_radius (0, 0, 1000)) (0, 0, -1) /\
  entry_distance PREM_earth_radius (shift PREM_earth_radius (0, 0, 1000)) (0, 0, -1)
    < exit_distance PREM_earth_radius (shift PREM_earth_radius (0, 0, 1000)) (0, 0, -1).
Proof.
  unfold entry_distance, exit_distance, disc, shift, vdot, vx, vy, vz, PREM_earth_radius; simpl.
  match goal with |- context [sqrt ?D] => replace D with (6371000 * 6371000) by ring end.
  rewrite sqrt_square by lra. lra.
Qed.
