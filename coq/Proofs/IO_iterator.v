(* The EventIterator as an object with an explicit position: for EVERY history of next / iter
   calls the delivered events are exactly the slice's indices a, a+step, ... in order, each once,
   with the specification data and total_events_thrown, then StopIteration for ever. *)
From Coq Require Import List ZArith Bool Lia.
From PyrexLib Require Import IOLists.
From PyrexModel Require Import IOModel.
From PyrexProofs Require Import IO_writer IO_reader C11_proofs C12_proofs.
Import ListNotations.
Open Scope Z_scope.

(* specification: position j counts the next() calls made so far; iter() does not move it *)
Fixpoint spec_run (st : wstate) (a stop step j : Z) (ops : list iop) : list iout :=
  match ops with
  | [] => []
  | IIter :: r => ONone :: spec_run st a stop step j r
  | IRead :: r =>
    (* reading the current event again: the event delivered by the last next() (index a+(j-1)*step) *)
    OEv (thrown_upto st (a + (j - 1) * step)) (read_all_obs st (a + (j - 1) * step)) :: spec_run st a stop step j r
  | INext :: r =>
    (if stop <=? a + j * step then OStop
     else OEv (thrown_upto st (a + j * step)) (read_all_obs st (a + j * step)))
    :: spec_run st a stop step (j + 1) r
  end.

(* a history only re-reads an event that has been delivered (after a next() that found an event) *)
Fixpoint reads_ok (a stop step j : Z) (ops : list iop) : Prop :=
  match ops with
  | [] => True
  | IIter :: r => reads_ok a stop step j r
  | IRead :: r => (1 <= j /\ a + (j - 1) * step < stop) /\ reads_ok a stop step j r
  | INext :: r => reads_ok a stop step (j + 1) r
  end.

Lemma it_thrown_eq : forall st it, it_thrown st it = thrown_upto st (it_event_number it).
Proof. reflexivity. Qed.

Lemma it_run_spec_gen : forall st k a stop step, inv st -> ana_ok st -> 1 <= k -> 1 <= step -> 0 <= a ->
  stop <= n_events st ->
  forall ops c ss se data j, good st step c ss se data -> 0 <= j -> (c + 1) * step + ss = a + j * step ->
  (1 <= j -> a + (j - 1) * step < stop -> 0 <= c /\ ss + c * step < se) ->
  reads_ok a stop step j ops ->
  it_run st (mkIt k stop step c ss se data) ops = inr (spec_run st a stop step j ops).
Proof.
  intros st k a stop step I Hok Hk Hs Ha Hstop. induction ops as [|x r IH]; intros c ss se data j G Hj Hpos Hcur Hr; simpl; auto.
  destruct x; simpl.
  - (* next *)
    unfold it_next. simpl. rewrite Hpos.
    destruct G as [G0 [G1 [G2 G3]]].
    destruct (stop <=? a + j * step) eqn:E1.
    + apply Z.leb_le in E1.
      rewrite (IH (c + 1) ss se data (j + 1)); [reflexivity | | lia | lia | | exact Hr].
      * split; [lia|]. split; [lia|]. split; [lia|]. exact G3.
      * intros _ Hlt. replace (j + 1 - 1) with j in Hlt by lia. lia.
    + apply Z.leb_gt in E1. set (ev := a + j * step) in *.
      assert (Hev : 0 <= ev) by (unfold ev; nia).
      destruct (se <=? ev) eqn:E2.
      * apply Z.leb_le in E2.
        assert (Hlt : ev < Z.min (ev + k) (n_events st)) by lia.
        rewrite (load_data_ok st ev _ step I) by lia.
        rewrite (IH 0 ev (Z.min (ev + k) (n_events st)) (chunk_of st ev (Z.min (ev + k) (n_events st)) step) (j + 1)).
        -- rewrite it_thrown_eq. unfold it_event_number. simpl.
           rewrite (ev_obs_spec st ev _ step 0 I Hok) by lia.
           replace (0 * step + ev) with ev by lia. replace (ev + 0 * step) with ev by lia. reflexivity.
        -- split; [lia|]. split; [lia|]. split; [lia|]. intros c' Hc' Hlt'. apply ev_obs_spec; auto; lia.
        -- lia.
        -- unfold ev. lia.
        -- intros _ _. lia.
        -- exact Hr.
      * apply Z.leb_gt in E2.
        rewrite (IH (c + 1) ss se data (j + 1)); [| | lia | lia | intros _ _; unfold ev in *; lia | exact Hr].
        -- rewrite it_thrown_eq. unfold it_event_number. simpl.
           rewrite (G3 (c + 1)) by lia.
           replace ((c + 1) * step + ss) with ev by (unfold ev; lia).
           replace (ss + (c + 1) * step) with ev by (unfold ev; lia). reflexivity.
        -- split; [lia|]. split; [lia|]. split; [lia|]. exact G3.
  - (* iter *)
    rewrite (IH c ss se data j G Hj Hpos Hcur Hr). reflexivity.
  - (* read the current event again *)
    destruct Hr as [[Hj1 Hlt] Hr]. destruct (Hcur Hj1 Hlt) as [Hc0 Hin].
    destruct G as [G0 [G1 [G2 G3]]].
    rewrite (IH c ss se data j (conj G0 (conj G1 (conj G2 G3))) Hj Hpos Hcur Hr).
    rewrite it_thrown_eq. unfold it_event_number. simpl.
    rewrite (G3 c Hc0 Hin).
    replace (c * step + ss) with (a + (j - 1) * step) by lia.
    replace (ss + c * step) with (a + (j - 1) * step) by lia. reflexivity.
Qed.

(* every history on an iterator made from in-range arguments *)
Theorem it_run_spec : forall st k a b s it ops s0 e0 p0, inv st -> ana_ok st -> 1 <= k ->
  iter_init st a b s = inr (s0, e0, p0) -> it_new st k a b s = inr it -> reads_ok s0 e0 p0 0 ops ->
  it_run st it ops = inr (spec_run st s0 e0 p0 0 ops).
Proof.
  intros st k a b s it ops s0 e0 p0 I Hok Hk Hi Hn Hr. unfold it_new in Hn. rewrite Hi in Hn. inversion Hn; subst it.
  destruct (iter_init_ok _ _ _ _ _ _ _ Hi) as [A [B [C _]]].
  apply it_run_spec_gen; auto; try lia.
  split; [lia|]. split; [lia|]. split; [lia|]. intros c' Hc' Hlt. nia.
Qed.

(* two live iterators over one file: what each delivers is its own history's result, whatever the
   other one does in between (ops on one never change what the other, or an event it already
   delivered, reports) *)
Definition proj (w : bool) (ops : list (bool * iop)) : list iop :=
  map snd (filter (fun x => Bool.eqb (fst x) w) ops).
Fixpoint proj_out (w : bool) (ops : list (bool * iop)) (os : list iout) : list iout :=
  match ops, os with
  | (w', _) :: r, o :: os' => if Bool.eqb w' w then o :: proj_out w r os' else proj_out w r os'
  | _, _ => []
  end.

Theorem two_iterators_independent : forall st ops i1 i2 os, it_run2 st i1 i2 ops = inr os ->
  it_run st i1 (proj true ops) = inr (proj_out true ops os) /\
  it_run st i2 (proj false ops) = inr (proj_out false ops os).
Proof.
  intros st. induction ops as [|[w x] r IH]; intros i1 i2 os H; simpl in H.
  - inversion H. split; reflexivity.
  - destruct w; simpl in H.
    + destruct (it_op st i1 x) as [e|[it' o]] eqn:E; [discriminate|].
      destruct (it_run2 st it' i2 r) as [e|os'] eqn:E2; [discriminate|]. inversion H; subst os.
      destruct (IH _ _ _ E2) as [A B]. unfold proj. simpl. fold (proj true r). fold (proj false r).
      rewrite E, A. split; [reflexivity | exact B].
    + destruct (it_op st i2 x) as [e|[it' o]] eqn:E; [discriminate|].
      destruct (it_run2 st i1 it' r) as [e|os'] eqn:E2; [discriminate|]. inversion H; subst os.
      destruct (IH _ _ _ E2) as [A B]. unfold proj. simpl. fold (proj true r). fold (proj false r).
      rewrite E, B. split; [exact A | reflexivity].
Qed.

(* the indices delivered by a history: a + j*step for j = 0, 1, ... (one per next call that finds
   an event), strictly increasing -- in order and without repetition by construction *)
Fixpoint delivered (a stop step j : Z) (ops : list iop) : list Z :=
  match ops with
  | [] => []
  | IIter :: r => delivered a stop step j r
  | IRead :: r => delivered a stop step j r
  | INext :: r => (if stop <=? a + j * step then [] else [a + j * step]) ++ delivered a stop step (j + 1) r
  end.

Lemma delivered_lower : forall ops a stop step j x, 1 <= step -> In x (delivered a stop step j ops) -> a + j * step <= x.
Proof.
  induction ops as [|o r IH]; intros a stop step j x Hs Hin; simpl in Hin; [contradiction|].
  destruct o.
  - apply in_app_or in Hin. destruct Hin as [Hin|Hin].
    + destruct (stop <=? a + j * step); [contradiction|]. destruct Hin as [H|[]]. lia.
    + pose proof (IH _ _ _ _ _ Hs Hin). nia.
  - apply (IH _ _ _ _ _ Hs Hin).
  - apply (IH _ _ _ _ _ Hs Hin).
Qed.

Theorem delivered_increasing : forall ops a stop step j, 1 <= step ->
  forall i1 i2 d, (i1 < i2)%nat -> (i2 < length (delivered a stop step j ops))%nat ->
  nth i1 (delivered a stop step j ops) d < nth i2 (delivered a stop step j ops) d.
Proof.
  induction ops as [|o r IH]; intros a stop step j Hs i1 i2 d H12 Hlen; simpl in *; [lia|].
  destruct o; [| apply IH; auto | apply IH; auto].
  destruct (stop <=? a + j * step); simpl in *; [apply IH; auto|].
  destruct i2; [lia|]. destruct i1.
  - assert (Hin : In (nth i2 (delivered a stop step (j + 1) r) d) (delivered a stop step (j + 1) r)) by (apply nth_In; lia).
    pose proof (delivered_lower _ _ _ _ _ _ Hs Hin). nia.
  - apply IH; auto; lia.
Qed.

(* non-vacuity: next, next, iter, next, iter, next... on f[0:4:2] of the 4-event example file *)
Example ex_hist : match history (run ex12_opts 2 true ex12_ops) (Some 3) false (Some 0) (Some 4) (Some 2)
                          [INext; IIter; INext; IIter; INext; INext] with
                  | inr os => map (fun o => match o with OEv t _ => t | OStop => -1 | ONone => -2 end) os
                  | inl _ => [] end = [1; -2; 3; -2; -1; -1].
Proof. vm_compute. reflexivity. Qed.
