(* C09, structural part: cache invariants, waveforms = filter, is_hit, clear,
   history independence (noiseless, invalidating caches), noise master persistence.
   All statements are for arbitrary histories (induction over op lists). *)
From Coq Require Import List QArith ZArith Bool Lia.
From PyrexLib Require Import Interp.
From PyrexModel Require Import AntennaModel AntennaSpec.
Import ListNotations.

(* ------------------------------------------------------------------ list helpers *)
Lemma skipn_all_eq : forall (A : Type) (l : list A) n, n = length l -> skipn n l = [].
Proof. intros. subst. apply skipn_all. Qed.

Lemma firstn_app_le : forall (A : Type) (l l' : list A) n, (n <= length l)%nat -> firstn n (l ++ l') = firstn n l.
Proof.
  intros A l l' n H. rewrite firstn_app. replace (n - length l)%nat with 0%nat by lia.
  simpl. apply app_nil_r.
Qed.

Lemma filter_combine_map : forall (A : Type) (f : A -> bool) (l : list A),
  map fst (filter snd (combine l (map f l))) = filter f l.
Proof.
  intros A f l. induction l as [|a l IH]; simpl; auto.
  destruct (f a); simpl; rewrite IH; reflexivity.
Qed.

Lemma fold_snoc_map : forall (A B : Type) (f : A -> B) (l : list A) (acc : list B),
  fold_left (fun tr w => tr ++ [f w]) l acc = acc ++ map f l.
Proof.
  intros A B f l. induction l as [|a l IH]; intros acc; simpl.
  - symmetry. apply app_nil_r.
  - rewrite IH. rewrite <- app_assoc. reflexivity.
Qed.

(* ------------------------------------------------------------------ frames *)
Lemma ensure_master_frame : forall st ts st' m,
  ensure_master st ts = (st', m) ->
  signals st' = signals st /\ all_waves st' = all_waves st /\ triggers st' = triggers st.
Proof.
  unfold ensure_master. intros st ts st' m H.
  destruct (noise_master st); inversion H; subst; simpl; auto.
Qed.

Lemma fw_frame : forall c st ts st' w,
  full_waveform c st ts = (st', w) ->
  signals st' = signals st /\ all_waves st' = all_waves st /\ triggers st' = triggers st
  /\ s_times w = ts.
Proof.
  unfold full_waveform. intros c st ts st' w H.
  destruct (noisy c).
  - destruct (ensure_master st (long_times (signals st) ts)) as [st2 m] eqn:E.
    inversion H; subst. apply ensure_master_frame in E. simpl. tauto.
  - inversion H; subst. simpl. tauto.
Qed.

Lemma fw_noiseless : forall c st ts, noisy c = false ->
  full_waveform c st ts = (st, fw_pure c (signals st) ts).
Proof. intros c st ts H. unfold full_waveform, fw_pure. rewrite H. reflexivity. Qed.

Lemma make_noise_frame : forall c st ts st' w,
  make_noise c st ts = (st', w) ->
  signals st' = signals st /\ all_waves st' = all_waves st /\ triggers st' = triggers st.
Proof.
  unfold make_noise. intros c st ts st' w H.
  destruct (ensure_master st ts) as [st2 m] eqn:E. inversion H; subst.
  apply ensure_master_frame in E. exact E.
Qed.

(* ------------------------------------------------------------------ the catch-up loop *)
Lemma wave_step_frame : forall c st s,
  signals (wave_step c st s) = signals st /\ triggers (wave_step c st s) = triggers st /\
  exists w, all_waves (wave_step c st s) = all_waves st ++ [w] /\ s_times w = s_times s.
Proof.
  intros c st s. unfold wave_step.
  destruct (full_waveform c st (s_times s)) as [st' w] eqn:E.
  apply fw_frame in E. destruct E as (E1 & E2 & E3 & E4). simpl.
  repeat split; auto. exists w. rewrite E2. auto.
Qed.

Lemma catch_up_frame : forall c todo st,
  signals (fold_left (wave_step c) todo st) = signals st /\
  triggers (fold_left (wave_step c) todo st) = triggers st /\
  exists ws, all_waves (fold_left (wave_step c) todo st) = all_waves st ++ ws /\
             map s_times ws = map s_times todo.
Proof.
  intros c todo. induction todo as [|s todo IH]; intros st; simpl.
  - repeat split; auto. exists []. rewrite app_nil_r. auto.
  - destruct (IH (wave_step c st s)) as (I1 & I2 & ws & I3 & I4).
    destruct (wave_step_frame c st s) as (W1 & W2 & w & W3 & W4).
    rewrite I1, I2, W1, W2. repeat split; auto.
    exists (w :: ws). rewrite I3, W3, <- app_assoc. simpl. rewrite W4, I4. auto.
Qed.

Lemma catch_up_noiseless : forall c, noisy c = false -> forall todo st,
  fold_left (wave_step c) todo st =
  set_caches st (all_waves st ++ map (fun s => fw_pure c (signals st) (s_times s)) todo) (triggers st).
Proof.
  intros c Hn todo. induction todo as [|s todo IH]; intros st; simpl.
  - rewrite app_nil_r. destruct st; reflexivity.
  - rewrite IH. unfold wave_step. rewrite fw_noiseless by exact Hn. simpl.
    unfold set_caches. simpl. rewrite <- app_assoc. reflexivity.
Qed.

(* ------------------------------------------------------------------ general cache invariant *)
Definition GInv (c : config) (st : astate) : Prop :=
  (length (triggers st) <= length (all_waves st))%nat /\
  (length (all_waves st) <= length (signals st))%nat /\
  triggers st = map (trig c) (firstn (length (triggers st)) (all_waves st)) /\
  map s_times (all_waves st) = map s_times (firstn (length (all_waves st)) (signals st)).

Lemma GInv_init : forall c, GInv c a_init.
Proof. intro c. unfold GInv, a_init. simpl. repeat split; auto. Qed.

Lemma GInv_same_caches : forall c st st',
  signals st' = signals st -> all_waves st' = all_waves st -> triggers st' = triggers st ->
  GInv c st -> GInv c st'.
Proof. unfold GInv. intros c st st' H1 H2 H3 H. rewrite H1, H2, H3. exact H. Qed.

Lemma map_times_firstn_skipn : forall (l : list signal) n ws,
  (n <= length l)%nat ->
  map s_times ws = map s_times (skipn n l) ->
  forall aw, length aw = n -> map s_times aw = map s_times (firstn n l) ->
  map s_times (aw ++ ws) = map s_times (firstn (length (aw ++ ws)) l).
Proof.
  intros l n ws Hn Hws aw Hlen Haw.
  assert (Hl : length ws = length (skipn n l)).
  { rewrite <- (map_length s_times ws), Hws, map_length. reflexivity. }
  rewrite skipn_length in Hl.
  rewrite app_length, Hlen, Hl. replace (n + (length l - n))%nat with (length l) by lia.
  rewrite firstn_all. rewrite map_app, Haw, Hws, <- map_app, firstn_skipn. reflexivity.
Qed.

Lemma all_waveforms_GInv : forall c st st' l,
  GInv c st -> all_waveforms c st = (st', l) ->
  GInv c st' /\ signals st' = signals st /\ l = all_waves st' /\
  length (all_waves st') = length (signals st).
Proof.
  intros c st st' l (G1 & G2 & G3 & G4) H. unfold all_waveforms in H.
  set (st0 := if invalidate c && negb (Nat.eqb (length (all_waves st)) (length (signals st)))
              then set_caches st [] [] else st) in *.
  assert (G0 : GInv c st0 /\ signals st0 = signals st /\ noise_master st0 = noise_master st).
  { unfold st0. destruct (invalidate c && negb (Nat.eqb (length (all_waves st)) (length (signals st)))).
    - unfold GInv, set_caches. simpl. repeat split; auto. lia.
    - repeat split; auto. }
  destruct G0 as ((K1 & K2 & K3 & K4) & Ks & Kn).
  destruct (catch_up_frame c (skipn (length (all_waves st0)) (signals st0)) st0) as (F1 & F2 & ws & F3 & F4).
  inversion H; subst st' l. clear H.
  assert (Hlen : length (all_waves (fold_left (wave_step c) (skipn (length (all_waves st0)) (signals st0)) st0))
                 = length (signals st0)).
  { rewrite F3, app_length.
    assert (length ws = length (skipn (length (all_waves st0)) (signals st0))).
    { rewrite <- (map_length s_times ws), F4, map_length. reflexivity. }
    rewrite H, skipn_length. lia. }
  split; [|split; [rewrite F1; exact Ks|split; [reflexivity|rewrite Hlen, Ks; reflexivity]]].
  - unfold GInv. rewrite F1, F2. repeat split.
    + rewrite F3, app_length. lia.
    + rewrite Hlen. lia.
    + rewrite F3. rewrite firstn_app_le by exact K1. exact K3.
    + rewrite F3. apply map_times_firstn_skipn with (n := length (all_waves st0)); auto.
Qed.

Lemma waveforms_GInv : forall c st st' l,
  GInv c st -> waveforms c st = (st', l) ->
  GInv c st' /\ signals st' = signals st /\
  l = filter (trig c) (snd (all_waveforms c st)) /\
  triggers st' = map (trig c) (all_waves st') /\
  all_waves st' = snd (all_waveforms c st).
Proof.
  intros c st st' l G H. unfold waveforms in H.
  destruct (all_waveforms c st) as [st1 aw] eqn:E.
  destruct (all_waveforms_GInv _ _ _ _ G E) as ((K1 & K2 & K3 & K4) & Ks & Kl & Klen).
  rewrite fold_snoc_map in H. subst aw.
  assert (T : triggers st1 ++ map (trig c) (skipn (length (triggers st1)) (all_waves st1))
              = map (trig c) (all_waves st1)).
  { rewrite K3 at 1. rewrite <- map_app, firstn_skipn. reflexivity. }
  rewrite T in H. inversion H; subst st' l. clear H. simpl.
  split; [|split; [exact Ks|split; [apply filter_combine_map|split; reflexivity]]].
  unfold GInv, set_caches. simpl. rewrite map_length. repeat split; auto.
  rewrite firstn_all. reflexivity.
Qed.

(* every operation preserves the invariant *)
Lemma step_GInv : forall c st o, GInv c st -> GInv c (fst (step c st o)).
Proof.
  intros c st o G. destruct o; unfold step.
  - (* Receive *)
    destruct G as (G1 & G2 & G3 & G4). unfold GInv, receive. simpl.
    rewrite app_length. repeat split; auto; try lia.
    rewrite firstn_app_le by exact G2. exact G4.
  - destruct (all_waveforms c st) as [st' l] eqn:E. cbn [fst].
    apply (all_waveforms_GInv _ _ _ _ G E).
  - destruct (waveforms c st) as [st' l] eqn:E. cbn [fst].
    apply (waveforms_GInv _ _ _ _ G E).
  - unfold is_hit. destruct (waveforms c st) as [st' l] eqn:E. cbn [fst].
    apply (waveforms_GInv _ _ _ _ G E).
  - (* IsHitMC *)
    unfold is_hit_mc_truth. destruct (negb (noisy c)).
    + unfold is_hit. destruct (waveforms c st) as [st' l] eqn:E. cbn [fst].
      apply (waveforms_GInv _ _ _ _ G E).
    + destruct (waveforms c st) as [st1 ws] eqn:E.
      pose proof (waveforms_GInv _ _ _ _ G E) as (G1 & _).
      clear E G. revert st1 G1. induction ws as [|w ws IH]; intros st1 G1; cbn [mc_loop fst]; auto.
      destruct (make_noise c st1 (s_times w)) as [st2 nzs] eqn:E2.
      pose proof (make_noise_frame _ _ _ _ _ E2) as (F1 & F2 & F3).
      assert (G2 : GInv c st2) by (apply (GInv_same_caches c st1); auto).
      destruct (negb (trig c nzs)); cbn [fst]; auto.
  - destruct (full_waveform c st times) as [st' w] eqn:E. cbn [fst].
    apply fw_frame in E. destruct E as (E1 & E2 & E3 & _). apply (GInv_same_caches c st); auto.
  - unfold is_hit_during. destruct (full_waveform c st times) as [st' w] eqn:E. cbn [fst].
    apply fw_frame in E. destruct E as (E1 & E2 & E3 & _). apply (GInv_same_caches c st); auto.
  - destruct (make_noise c st times) as [st' w] eqn:E. cbn [fst].
    apply make_noise_frame in E. destruct E as (E1 & E2 & E3). apply (GInv_same_caches c st); auto.
  - unfold GInv, clear. simpl. repeat split; auto.
  - exact G.
Qed.

Lemma run_fst_app : forall c h st, final c st h = fold_left (fun s o => fst (step c s o)) h st.
Proof.
  intros c h. induction h as [|o h IH]; intros st; unfold final in *; simpl; auto.
  destruct (step c st o) as [st1 r] eqn:E1. specialize (IH st1).
  destruct (run c st1 h) as [st2 rs]. simpl in *. exact IH.
Qed.

Lemma final_GInv : forall c h st, GInv c st -> GInv c (final c st h).
Proof.
  intros c h. induction h as [|o h IH]; intros st G; rewrite run_fst_app in *; simpl; auto.
  rewrite <- run_fst_app. apply IH. apply step_GInv. exact G.
Qed.

(* ------------------------------------------------------------------ signals = received *)
Lemma all_waveforms_signals : forall c st, signals (fst (all_waveforms c st)) = signals st.
Proof.
  intros c st. unfold all_waveforms. cbn [fst].
  match goal with |- context [fold_left (wave_step c) ?t ?s] =>
    destruct (catch_up_frame c t s) as (F1 & _); rewrite F1 end.
  destruct (invalidate c && negb (Nat.eqb (length (all_waves st)) (length (signals st)))); reflexivity.
Qed.

Lemma waveforms_signals : forall c st, signals (fst (waveforms c st)) = signals st.
Proof.
  intros c st. unfold waveforms. pose proof (all_waveforms_signals c st) as H.
  destruct (all_waveforms c st) as [st1 aw]. cbn [fst] in *. unfold set_caches. simpl. exact H.
Qed.

Lemma mc_loop_signals : forall c ws st, signals (fst (mc_loop c st ws)) = signals st.
Proof.
  intros c ws. induction ws as [|w ws IH]; intros st; cbn [mc_loop fst]; auto.
  destruct (make_noise c st (s_times w)) as [st2 nzs] eqn:E2.
  apply make_noise_frame in E2. destruct E2 as (F1 & _).
  destruct (negb (trig c nzs)); cbn [fst]; [exact F1|]. rewrite IH. exact F1.
Qed.

Lemma step_signals : forall c st o,
  signals (fst (step c st o)) =
  match o with Receive s => signals st ++ [s] | Clear _ => [] | _ => signals st end.
Proof.
  intros c st o. destruct o; unfold step.
  - reflexivity.
  - pose proof (all_waveforms_signals c st). destruct (all_waveforms c st). exact H.
  - pose proof (waveforms_signals c st). destruct (waveforms c st). exact H.
  - unfold is_hit. pose proof (waveforms_signals c st). destruct (waveforms c st). exact H.
  - unfold is_hit_mc_truth. destruct (negb (noisy c)).
    + unfold is_hit. pose proof (waveforms_signals c st). destruct (waveforms c st). exact H.
    + pose proof (waveforms_signals c st). destruct (waveforms c st) as [st1 ws]. cbn [fst] in H.
      pose proof (mc_loop_signals c ws st1) as H2. destruct (mc_loop c st1 ws). cbn [fst] in *. congruence.
  - destruct (full_waveform c st times) as [st' w] eqn:E. apply fw_frame in E. cbn [fst]. tauto.
  - unfold is_hit_during. destruct (full_waveform c st times) as [st' w] eqn:E. apply fw_frame in E. cbn [fst]. tauto.
  - destruct (make_noise c st times) as [st' w] eqn:E. apply make_noise_frame in E. cbn [fst]. tauto.
  - reflexivity.
  - reflexivity.
Qed.

Lemma final_cons : forall c st o h, final c st (o :: h) = final c (fst (step c st o)) h.
Proof. intros. rewrite !run_fst_app. reflexivity. Qed.

Lemma final_app : forall c st h1 h2, final c st (h1 ++ h2) = final c (final c st h1) h2.
Proof. intros. rewrite !run_fst_app. apply fold_left_app. Qed.

Lemma final_signals : forall c h st, signals (final c st h) = received_from (signals st) h.
Proof.
  intros c h. induction h as [|o h IH]; intros st.
  - reflexivity.
  - rewrite final_cons, IH, step_signals. destruct o; reflexivity.
Qed.

(* ------------------------------------------------------------------ strong invariant
   (noiseless, caches invalidated on change): the cache holds exactly the waveforms of
   the signal prefix it was computed for, each containing ALL signals of that prefix *)
Definition SInv (c : config) (st : astate) : Prop :=
  all_waves st = all_pure c (firstn (length (all_waves st)) (signals st)).

Lemma all_pure_length : forall c sigs, length (all_pure c sigs) = length sigs.
Proof. intros. unfold all_pure. apply map_length. Qed.

Lemma all_waveforms_strong : forall c st, noisy c = false -> invalidate c = true ->
  GInv c st -> SInv c st ->
  snd (all_waveforms c st) = all_pure c (signals st) /\
  all_waves (fst (all_waveforms c st)) = all_pure c (signals st) /\
  SInv c (fst (all_waveforms c st)).
Proof.
  intros c st Hn Hi G S. unfold all_waveforms. cbn [fst snd]. rewrite Hi. cbn [andb].
  destruct (Nat.eqb (length (all_waves st)) (length (signals st))) eqn:E; cbn [negb].
  - apply Nat.eqb_eq in E. rewrite skipn_all_eq by exact E. cbn [fold_left].
    unfold SInv in *. rewrite E, firstn_all in S. rewrite S.
    repeat split; auto. rewrite all_pure_length, firstn_all. reflexivity.
  - rewrite catch_up_noiseless by exact Hn. unfold set_caches. simpl.
    unfold SInv. simpl. fold (all_pure c (signals st)).
    repeat split; auto. rewrite all_pure_length, firstn_all. reflexivity.
Qed.

Definition pure_answer (c : config) (sigs : list signal) (q : op) : out :=
  match q with
  | AllWaveforms => OSigs (all_pure c sigs)
  | Waveforms => OSigs (filter (trig c) (all_pure c sigs))
  | IsHit | IsHitMC => OBool (negb (Nat.eqb (length (filter (trig c) (all_pure c sigs))) 0))
  | FullWaveform ts => OSig (fw_pure c sigs ts)
  | IsHitDuring ts => OBool (trig c (fw_pure c sigs ts))
  | Signals => OSigs sigs
  | _ => ONone
  end.

Lemma waveforms_strong : forall c st, noisy c = false -> invalidate c = true ->
  GInv c st -> SInv c st ->
  snd (waveforms c st) = filter (trig c) (all_pure c (signals st)) /\
  SInv c (fst (waveforms c st)).
Proof.
  intros c st Hn Hi G S.
  destruct (waveforms c st) as [st' l] eqn:E.
  destruct (waveforms_GInv _ _ _ _ G E) as (_ & Hs & Hl & _ & Haw).
  destruct (all_waveforms_strong c st Hn Hi G S) as (A1 & A2 & A3).
  cbn [fst snd]. split.
  - rewrite Hl, A1. reflexivity.
  - unfold SInv. rewrite Haw, A1, Hs, all_pure_length, firstn_all. reflexivity.
Qed.

Lemma step_answer : forall c st q, noisy c = false -> invalidate c = true ->
  GInv c st -> SInv c st -> is_query q = true ->
  snd (step c st q) = pure_answer c (signals st) q.
Proof.
  intros c st q Hn Hi G S Hq. destruct q; try discriminate; unfold step, pure_answer.
  - pose proof (all_waveforms_strong c st Hn Hi G S) as (A1 & _).
    destruct (all_waveforms c st). cbn [snd] in *. congruence.
  - pose proof (waveforms_strong c st Hn Hi G S) as (A1 & _).
    destruct (waveforms c st). cbn [snd] in *. congruence.
  - unfold is_hit. pose proof (waveforms_strong c st Hn Hi G S) as (A1 & _).
    destruct (waveforms c st). cbn [snd] in *. congruence.
  - unfold is_hit_mc_truth. rewrite Hn. cbn [negb]. unfold is_hit.
    pose proof (waveforms_strong c st Hn Hi G S) as (A1 & _).
    destruct (waveforms c st). cbn [snd] in *. congruence.
  - rewrite fw_noiseless by exact Hn. reflexivity.
  - unfold is_hit_during. rewrite fw_noiseless by exact Hn. reflexivity.
  - reflexivity.
Qed.

Lemma step_SInv : forall c st o, noisy c = false -> invalidate c = true ->
  GInv c st -> SInv c st -> SInv c (fst (step c st o)).
Proof.
  intros c st o Hn Hi G S. destruct o; unfold step.
  - unfold SInv, receive in *. simpl. destruct G as (_ & G2 & _).
    rewrite firstn_app_le by exact G2. exact S.
  - pose proof (all_waveforms_strong c st Hn Hi G S) as (_ & _ & A3).
    destruct (all_waveforms c st). exact A3.
  - pose proof (waveforms_strong c st Hn Hi G S) as (_ & A3).
    destruct (waveforms c st). exact A3.
  - unfold is_hit. pose proof (waveforms_strong c st Hn Hi G S) as (_ & A3).
    destruct (waveforms c st). exact A3.
  - unfold is_hit_mc_truth. rewrite Hn. cbn [negb]. unfold is_hit.
    pose proof (waveforms_strong c st Hn Hi G S) as (_ & A3).
    destruct (waveforms c st). exact A3.
  - rewrite fw_noiseless by exact Hn. exact S.
  - unfold is_hit_during. rewrite fw_noiseless by exact Hn. exact S.
  - destruct (make_noise c st times) as [st' w] eqn:E. apply make_noise_frame in E.
    destruct E as (E1 & E2 & E3). cbn [fst]. unfold SInv in *. rewrite E1, E2. exact S.
  - unfold SInv, clear. reflexivity.
  - exact S.
Qed.

Lemma final_SInv : forall c h st, noisy c = false -> invalidate c = true ->
  GInv c st -> SInv c st -> GInv c (final c st h) /\ SInv c (final c st h).
Proof.
  intros c h. induction h as [|o h IH]; intros st Hn Hi G S.
  - split; assumption.
  - rewrite final_cons. apply IH; auto. apply step_GInv; auto. apply step_SInv; auto.
Qed.

Lemma SInv_fresh : forall c sigs, SInv c (fresh sigs) /\ GInv c (fresh sigs).
Proof. intros. unfold SInv, GInv, fresh. simpl. repeat split; auto. lia. Qed.

Lemma fresh_answer_pure : forall c sigs q, noisy c = false -> invalidate c = true ->
  is_query q = true -> fresh_answer c sigs q = pure_answer c sigs q.
Proof.
  intros c sigs q Hn Hi Hq. unfold fresh_answer.
  destruct (SInv_fresh c sigs) as (S & G).
  rewrite (step_answer c (fresh sigs) q Hn Hi G S Hq). reflexivity.
Qed.

(* observable answers depend on the received signals only *)
Lemma history_independent_lemma : forall c h q,
  noisy c = false -> invalidate c = true -> is_query q = true ->
  snd (step c (final c a_init h) q) = fresh_answer c (received h) q.
Proof.
  intros c h q Hn Hi Hq.
  assert (S0 : SInv c a_init) by reflexivity.
  destruct (final_SInv c h a_init Hn Hi (GInv_init c) S0) as (G & S).
  rewrite (step_answer c _ q Hn Hi G S Hq), final_signals.
  rewrite fresh_answer_pure by assumption. reflexivity.
Qed.

Lemma same_received_same_answers_lemma : forall c h1 h2 q,
  noisy c = false -> invalidate c = true -> is_query q = true ->
  received h1 = received h2 ->
  snd (step c (final c a_init h1) q) = snd (step c (final c a_init h2) q).
Proof.
  intros. rewrite !history_independent_lemma by assumption. congruence.
Qed.

(* ------------------------------------------------------------------ the four bookkeeping clauses *)
Lemma cache_prefix_inv_lemma : forall c h, GInv c (final c a_init h).
Proof. intros. apply final_GInv. apply GInv_init. Qed.

Lemma one_wave_per_signal_lemma : forall c h,
  let l := snd (all_waveforms c (final c a_init h)) in
  length l = length (received h) /\ map s_times l = map s_times (received h).
Proof.
  intros c h. cbn zeta.
  pose proof (cache_prefix_inv_lemma c h) as G.
  destruct (all_waveforms c (final c a_init h)) as [st' l] eqn:E.
  destruct (all_waveforms_GInv _ _ _ _ G E) as ((_ & _ & _ & K4) & Ks & Kl & Klen).
  cbn [snd]. subst l. rewrite final_signals in *. fold (received h) in *.
  split; [exact Klen|]. rewrite K4, Klen, Ks, firstn_all. reflexivity.
Qed.

Lemma waveforms_are_filter_lemma : forall c h,
  snd (waveforms c (final c a_init h)) =
  filter (trig c) (snd (all_waveforms c (final c a_init h))).
Proof.
  intros c h. pose proof (cache_prefix_inv_lemma c h) as G.
  destruct (waveforms c (final c a_init h)) as [st' l] eqn:E.
  destruct (waveforms_GInv _ _ _ _ G E) as (_ & _ & Hl & _). exact Hl.
Qed.

Lemma is_hit_iff_lemma : forall c st,
  snd (is_hit c st) = true <-> snd (waveforms c st) <> [].
Proof.
  intros c st. unfold is_hit. destruct (waveforms c st) as [st' l]. cbn [snd].
  destruct l; simpl; split; intro H; congruence.
Qed.

Lemma clear_resets_lemma : forall c h r,
  let st := final c a_init (h ++ [Clear r]) in
  signals st = [] /\ all_waves st = [] /\ triggers st = [] /\
  (r = true -> noise_master st = None) /\
  (forall q, noisy c = false -> invalidate c = true -> is_query q = true ->
     snd (step c st q) = snd (step c a_init q)).
Proof.
  intros c h r. cbn zeta. rewrite final_app.
  remember (final c a_init h) as st0. unfold final. simpl.
  repeat split; auto.
  - intros ->. reflexivity.
  - intros q Hn Hi Hq.
    assert (G : GInv c (clear st0 r)) by (unfold GInv, clear; simpl; repeat split; auto).
    assert (S : SInv c (clear st0 r)) by reflexivity.
    rewrite (step_answer c _ q Hn Hi G S Hq).
    rewrite (step_answer c a_init q Hn Hi (GInv_init c) eq_refl Hq). reflexivity.
Qed.

(* ------------------------------------------------------------------ noise master persistence *)
Lemma ensure_master_some : forall st ts m, noise_master st = Some m -> ensure_master st ts = (st, m).
Proof. intros st ts m H. unfold ensure_master. rewrite H. reflexivity. Qed.

Lemma fw_master : forall c st ts m, noise_master st = Some m ->
  noise_master (fst (full_waveform c st ts)) = Some m.
Proof.
  intros c st ts m H. unfold full_waveform. destruct (noisy c).
  - rewrite (ensure_master_some _ _ _ H). exact H.
  - exact H.
Qed.

Lemma make_noise_master : forall c st ts m, noise_master st = Some m ->
  make_noise c st ts = (st, mkSig ts (map (nz c (fst m) (snd m)) ts)).
Proof. intros c st ts m H. unfold make_noise. rewrite (ensure_master_some _ _ _ H). reflexivity. Qed.

Lemma catch_up_master : forall c todo st m, noise_master st = Some m ->
  noise_master (fold_left (wave_step c) todo st) = Some m.
Proof.
  intros c todo. induction todo as [|s todo IH]; intros st m H; simpl; auto.
  apply IH. unfold wave_step. pose proof (fw_master c st (s_times s) m H) as F.
  destruct (full_waveform c st (s_times s)). cbn [fst] in F. simpl. exact F.
Qed.

Lemma all_waveforms_master : forall c st m, noise_master st = Some m ->
  noise_master (fst (all_waveforms c st)) = Some m.
Proof.
  intros c st m H. unfold all_waveforms. cbn [fst]. apply catch_up_master.
  destruct (invalidate c && negb (Nat.eqb (length (all_waves st)) (length (signals st)))); exact H.
Qed.

Lemma waveforms_master : forall c st m, noise_master st = Some m ->
  noise_master (fst (waveforms c st)) = Some m.
Proof.
  intros c st m H. unfold waveforms. pose proof (all_waveforms_master c st m H) as F.
  destruct (all_waveforms c st). cbn [fst] in *. simpl. exact F.
Qed.

Lemma mc_loop_master : forall c ws st m, noise_master st = Some m ->
  noise_master (fst (mc_loop c st ws)) = Some m.
Proof.
  intros c ws. induction ws as [|w ws IH]; intros st m H; cbn [mc_loop fst]; auto.
  rewrite (make_noise_master c st (s_times w) m H).
  destruct (negb (trig c _)); cbn [fst]; auto.
Qed.

Lemma step_master : forall c st o m, noise_master st = Some m -> o <> Clear true ->
  noise_master (fst (step c st o)) = Some m.
Proof.
  intros c st o m H Ho. destruct o; unfold step.
  - exact H.
  - pose proof (all_waveforms_master c st m H). destruct (all_waveforms c st). assumption.
  - pose proof (waveforms_master c st m H). destruct (waveforms c st). assumption.
  - unfold is_hit. pose proof (waveforms_master c st m H). destruct (waveforms c st). assumption.
  - unfold is_hit_mc_truth. destruct (negb (noisy c)).
    + unfold is_hit. pose proof (waveforms_master c st m H). destruct (waveforms c st). assumption.
    + pose proof (waveforms_master c st m H) as F. destruct (waveforms c st) as [st1 ws]. cbn [fst] in F.
      pose proof (mc_loop_master c ws st1 m F) as F2. destruct (mc_loop c st1 ws). exact F2.
  - pose proof (fw_master c st times m H). destruct (full_waveform c st times). assumption.
  - unfold is_hit_during. pose proof (fw_master c st times m H). destruct (full_waveform c st times). assumption.
  - rewrite (make_noise_master c st times m H). exact H.
  - destruct reset_noise; [congruence|]. exact H.
  - exact H.
Qed.

Lemma noise_fixed_until_reset_lemma : forall c h st m,
  noise_master st = Some m -> no_reset h ->
  noise_master (final c st h) = Some m /\
  forall ts, snd (make_noise c (final c st h) ts) = mkSig ts (map (nz c (fst m) (snd m)) ts).
Proof.
  intros c h. induction h as [|o h IH]; intros st m H Hr.
  - change (final c st []) with st.
    split; [exact H|]. intros ts. rewrite (make_noise_master c _ ts m H). reflexivity.
  - rewrite final_cons. apply IH.
    + apply step_master; auto. apply Hr. left; reflexivity.
    + intros o' Ho'. apply Hr. right; exact Ho'.
Qed.

(* a master is drawn at the first need and then stays: after the first make_noise *)
Lemma make_noise_creates_master : forall c st ts, exists m, noise_master (fst (make_noise c st ts)) = Some m.
Proof.
  intros c st ts. unfold make_noise, ensure_master. destruct (noise_master st) eqn:E; simpl.
  - exists p. exact E.
  - eexists. reflexivity.
Qed.
