(* C11: theorems about arbitrary add / reopen histories of the writer model. *)
From Coq Require Import List ZArith Bool Lia.
From PyrexLib Require Import IOLists.
From PyrexModel Require Import IOModel.
From PyrexProofs Require Import IO_writer.
Import ListNotations.
Open Scope Z_scope.

Definition run_from (o : opts) (d : Z) (hd : bool) (st : wstate) (ops : list op) : wstate :=
  fold_left (step o d hd) ops st.

Lemma rp_records : forall o a, records_particles o = true -> records o a OP = true.
Proof.
  intros o a H. unfold records_particles in H. apply andb_true_iff in H. destruct H as [H _].
  apply andb_true_iff in H. destruct H as [H1 H2]. unfold records. simpl. rewrite H1.
  apply negb_true_iff in H2. rewrite H2. reflexivity.
Qed.

Lemma step_inv : forall o d hd st x, records_particles o = true -> inv st -> inv (step o d hd st x).
Proof.
  intros o d hd st x Hrp I. destruct x as [a|]; simpl.
  - destruct (add o d hd st a) as [st' oc] eqn:Ha. simpl. destruct oc.
    + apply (add_acc _ _ _ _ _ _ I (rp_records o a Hrp) Ha).
    + apply (add_rej _ _ _ _ _ _ _ I Ha).
  - rewrite reopen_id; auto.
Qed.

Lemma run_from_inv : forall o d hd ops st, records_particles o = true -> inv st -> inv (run_from o d hd st ops).
Proof.
  intros o d hd ops. induction ops as [|x r IH]; intros st Hrp I; simpl; auto.
  apply IH; auto. apply step_inv; auto.
Qed.

Theorem run_inv : forall o d hd ops, records_particles o = true -> inv (run o d hd ops).
Proof. intros. apply run_from_inv; auto. apply inv_init. Qed.

(* all events of table t, read by the specification reader *)
Definition events_rows (st : wstate) (t : tid) : list (list row) :=
  map (fun c => py_slice (rows st t) (fst c) (fst c + snd c)) (colOf (idx st) t).

Lemma chain_in : forall l lo n c, chain lo l n -> In c l -> lo <= fst c /\ 0 <= snd c /\ fst c + snd c <= n.
Proof.
  induction l; simpl; intros lo n c Hc Hin; [contradiction|].
  destruct Hc as [H1 [H2 H3]]. destruct Hin as [Hin|Hin].
  - subst c. pose proof (chain_lo_le _ _ _ H3). lia.
  - destruct (IHl _ _ _ H3 Hin) as [A [B C]]. lia.
Qed.

Lemma events_rows_acc : forall o d hd st a st' t,
  inv st -> records o a OP = true -> add o d hd st a = (st', Acc) ->
  events_rows st' t = events_rows st t ++ [expected o a t].
Proof.
  intros o d hd st a st' t I HP Ha.
  destruct (add_acc _ _ _ _ _ _ I HP Ha) as [Hr [[r [Hi Hc]] _]].
  unfold events_rows. rewrite Hi, colOf_app, map_app. simpl. f_equal.
  - apply map_ext_in. intros c Hin. rewrite Hr.
    destruct (chain_in _ _ _ _ (inv_chain _ I t) Hin) as [A [B C]].
    apply py_slice_app_in; lia.
  - rewrite Hc, Hr. simpl. rewrite py_slice_app_end. reflexivity.
Qed.

Lemma events_rows_rej : forall o d hd st a st' e t,
  inv st -> add o d hd st a = (st', Rej e) -> events_rows st' t = events_rows st t.
Proof.
  intros o d hd st a st' e t I Ha.
  destruct (add_rej _ _ _ _ _ _ _ I Ha) as [Hr [_ [Hi _]]].
  unfold events_rows, rows. rewrite Hr, Hi. reflexivity.
Qed.

Lemma roundtrip_from : forall o d hd t ops st, records_particles o = true -> inv st ->
  events_rows (run_from o d hd st ops) t =
  events_rows st t ++ map (fun a => expected o a t) (accepted_from o d hd st ops).
Proof.
  intros o d hd t ops. induction ops as [|x r IH]; intros st Hrp I; simpl.
  - rewrite app_nil_r. reflexivity.
  - destruct x as [a|]; simpl.
    + destruct (add o d hd st a) as [st' oc] eqn:Ha. simpl. destruct oc.
      * rewrite IH; auto; [| apply (add_acc _ _ _ _ _ _ I (rp_records o a Hrp) Ha)].
        rewrite (events_rows_acc _ _ _ _ _ _ t I (rp_records o a Hrp) Ha). simpl.
        rewrite <- app_assoc. reflexivity.
      * rewrite IH; auto; [| apply (add_rej _ _ _ _ _ _ _ I Ha)].
        rewrite (events_rows_rej _ _ _ _ _ _ _ t I Ha). reflexivity.
    + rewrite reopen_id by auto. apply IH; auto.
Qed.

(* the events read back are, table by table, exactly what the accepted adds recorded *)
Theorem roundtrip_lemma : forall o d hd ops t, records_particles o = true ->
  events_rows (run o d hd ops) t = map (fun a => expected o a t) (accepted o d hd ops).
Proof.
  intros o d hd ops t H. unfold run, accepted. fold (run_from o d hd init_state ops).
  rewrite (roundtrip_from o d hd t ops init_state H inv_init). reflexivity.
Qed.

(* read_event i is the i-th entry of events_rows ([] beyond the end) *)
Lemma read_event_nth : forall st i t, 0 <= i ->
  read_event st i t = nth (Z.to_nat i) (events_rows st t) [].
Proof.
  intros st i t Hi. unfold read_event, cell, events_rows, colOf, nthZ.
  destruct (i <? 0) eqn:E; [lia|].
  destruct (Nat.lt_ge_cases (Z.to_nat i) (length (idx st))) as [Hlt|Hge].
  - rewrite map_map. rewrite (map_nth_in _ _ _ zero_cells) by auto. reflexivity.
  - rewrite (nth_overflow (idx st)) by auto.
    rewrite nth_overflow by (rewrite !map_length; auto).
    unfold zero_cells. rewrite get_per_all. simpl. apply py_slice_empty. lia.
Qed.

Theorem roundtrip_event_lemma : forall o d hd ops t i, records_particles o = true -> 0 <= i ->
  read_event (run o d hd ops) i t =
  match nth_error (accepted o d hd ops) (Z.to_nat i) with
  | Some a => expected o a t
  | None => []
  end.
Proof.
  intros o d hd ops t i Hrp Hi. rewrite read_event_nth by auto. rewrite roundtrip_lemma by auto.
  remember (accepted o d hd ops) as l. clear Heql. remember (Z.to_nat i) as k. clear Heqk Hi.
  revert k. induction l; intros k; destruct k; simpl; auto.
Qed.

Lemma n_events_from : forall o d hd ops st, records_particles o = true -> inv st ->
  n_events (run_from o d hd st ops) = n_events st + zlen (accepted_from o d hd st ops).
Proof.
  intros o d hd ops. induction ops as [|x r IH]; intros st Hrp I; simpl.
  - unfold zlen. simpl. lia.
  - destruct x as [a|]; simpl.
    + destruct (add o d hd st a) as [st' oc] eqn:Ha. simpl. destruct oc.
      * destruct (add_acc _ _ _ _ _ _ I (rp_records o a Hrp) Ha) as [_ [[rw [Hi _]] [_ [_ [_ I']]]]].
        rewrite IH; auto. unfold n_events. rewrite Hi, zlen_app. unfold zlen. simpl length. lia.
      * destruct (add_rej _ _ _ _ _ _ _ I Ha) as [_ [_ [Hi [_ [_ I']]]]].
        rewrite IH; auto. unfold n_events. rewrite Hi. reflexivity.
    + rewrite reopen_id by auto. apply IH; auto.
Qed.

Theorem len_eq_accepted_lemma : forall o d hd ops, records_particles o = true ->
  n_events (run o d hd ops) = zlen (accepted o d hd ops).
Proof.
  intros o d hd ops H. unfold run, accepted. fold (run_from o d hd init_state ops).
  rewrite (n_events_from o d hd ops init_state H inv_init). reflexivity.
Qed.

Lemma cell_col : forall st i t, 0 <= i -> i < n_events st ->
  cell (idx st) i t = nth (Z.to_nat i) (colOf (idx st) t) (0, 0).
Proof.
  intros st i t H0 H1. unfold cell, colOf, nthZ, n_events, zlen in *.
  destruct (i <? 0) eqn:E; [lia|]. rewrite (map_nth_in _ _ _ zero_cells) by lia. reflexivity.
Qed.

Theorem index_in_bounds_lemma : forall o d hd ops i t, records_particles o = true ->
  let st := run o d hd ops in
  0 <= i < n_events st ->
  0 <= fst (cell (idx st) i t) /\ 0 <= snd (cell (idx st) i t) /\
  fst (cell (idx st) i t) + snd (cell (idx st) i t) <= zlen (get (rowsOf st) t).
Proof.
  intros o d hd ops i t Hrp st Hi. pose proof (run_inv o d hd ops Hrp) as I. fold st in I.
  rewrite cell_col by lia.
  apply (chain_nth _ _ _ _ (inv_chain _ I t)). unfold colOf. rewrite map_length.
  unfold n_events, zlen in Hi. lia.
Qed.

Theorem starts_monotone_lemma : forall o d hd ops i j t, records_particles o = true ->
  let st := run o d hd ops in
  0 <= i -> i < j -> j < n_events st ->
  fst (cell (idx st) i t) + snd (cell (idx st) i t) <= fst (cell (idx st) j t).
Proof.
  intros o d hd ops i j t Hrp st Hi Hij Hj. pose proof (run_inv o d hd ops Hrp) as I. fold st in I.
  rewrite !cell_col by lia.
  apply (chain_order _ _ _ _ _ (inv_chain _ I t)); [lia|]. unfold colOf. rewrite map_length.
  unfold n_events, zlen in Hj. lia.
Qed.

(* a rejected add, after any history, changes no event and not the event count *)
Theorem rejected_add_preserves_lemma : forall o d hd ops a st' e, records_particles o = true ->
  add o d hd (run o d hd ops) a = (st', Rej e) ->
  n_events st' = n_events (run o d hd ops) /\
  (forall i t, read_event st' i t = read_event (run o d hd ops) i t) /\
  cntOf st' = cntOf (run o d hd ops) /\ thrown st' = thrown (run o d hd ops).
Proof.
  intros o d hd ops a st' e Hrp Ha. pose proof (run_inv o d hd ops Hrp) as I.
  destruct (add_rej _ _ _ _ _ _ _ I Ha) as [Hr [Hc [Hi [_ [Ht _]]]]].
  split; [unfold n_events; rewrite Hi; reflexivity|]. split; auto.
  intros i t. unfold read_event. rewrite Hr, Hi. reflexivity.
Qed.

(* and the events added after it are unaffected as well: the stream is the one of the history
   without the rejected call *)
Theorem rejected_add_transparent_lemma : forall o d hd ops1 a ops2 st' e t, records_particles o = true ->
  add o d hd (run o d hd ops1) a = (st', Rej e) ->
  events_rows (run o d hd (ops1 ++ Add a :: ops2)) t =
  events_rows (run o d hd ops1) t ++ map (fun b => expected o b t) (accepted_from o d hd st' ops2).
Proof.
  intros o d hd ops1 a ops2 st' e t Hrp Ha. pose proof (run_inv o d hd ops1 Hrp) as I.
  unfold run at 1. rewrite fold_left_app. simpl. fold (run o d hd ops1). rewrite Ha. simpl.
  fold (run_from o d hd st' ops2).
  rewrite roundtrip_from; auto; [| apply (add_rej _ _ _ _ _ _ _ I Ha)].
  rewrite (events_rows_rej _ _ _ _ _ _ _ t I Ha). reflexivity.
Qed.

(* total_thrown is the sum over the accepted adds *)
Lemma tv_from : forall o d hd ops st, records_particles o = true -> inv st ->
  tv (run_from o d hd st ops) = tv st + fold_right Z.add 0 (map a_thrown (accepted_from o d hd st ops)).
Proof.
  intros o d hd ops. induction ops as [|x r IH]; intros st Hrp I; simpl.
  - lia.
  - destruct x as [a|]; simpl.
    + destruct (add o d hd st a) as [st' oc] eqn:Ha. simpl. destruct oc.
      * destruct (add_acc _ _ _ _ _ _ I (rp_records o a Hrp) Ha) as [_ [_ [_ [Ht [_ I']]]]].
        rewrite (IH st' Hrp I'). assert (Hv : tv st' = tv st + a_thrown a) by (unfold tv at 1; rewrite Ht; reflexivity).
        rewrite Hv. simpl. lia.
      * destruct (add_rej _ _ _ _ _ _ _ I Ha) as [_ [_ [_ [_ [Ht I']]]]].
        rewrite (IH st' Hrp I'). assert (Hv : tv st' = tv st) by (unfold tv; rewrite Ht; reflexivity).
        rewrite Hv. reflexivity.
    + rewrite reopen_id by auto. apply IH; auto.
Qed.

Theorem total_thrown_lemma : forall o d hd ops, records_particles o = true ->
  tv (run o d hd ops) = fold_right Z.add 0 (map a_thrown (accepted o d hd ops)).
Proof.
  intros o d hd ops H. unfold run, accepted. fold (run_from o d hd init_state ops).
  rewrite (tv_from o d hd ops init_state H inv_init). reflexivity.
Qed.

(* ------------------------------------------------------------------ non-vacuity *)
Definition ex_opts : opts := mkOpts true true true true true true (RBool true).
Definition ex_a1 : add_in := mkAdd [1; 2] (TDict (Some true) [(4, XBool true)]) [[11; 12]; [13]] (Some [[15]; [16; 17]]) PolOk [18; 0] 1 FNone.
Definition ex_bad : add_in := mkAdd [3] (TBool true) [[21]; [22]] (Some [[25]; [26]]) PolOuter [28; 29] 1 FNone.
Definition ex_a2 : add_in := mkAdd [4] (TBool false) [[31]; []] (Some [[35]; []]) PolOk [0; 39] 2 FNone.
Definition ex_ops : list op := [Add ex_a1; Add ex_bad; Reopen; Add ex_a2; Add ex_bad].

Example ex_rp : records_particles ex_opts = true.
Proof. reflexivity. Qed.
Example ex_accepted : accepted ex_opts 2 true ex_ops = [ex_a1; ex_a2].
Proof. vm_compute. reflexivity. Qed.
Example ex_events : n_events (run ex_opts 2 true ex_ops) = 2 /\
  read_event (run ex_opts 2 true ex_ops) 0 W = [[11; 13]; [12; 0]] /\
  read_event (run ex_opts 2 true ex_ops) 1 W = [] /\
  read_event (run ex_opts 2 true ex_ops) 1 P = [[4]] /\
  read_event (run ex_opts 2 true ex_ops) 0 M = [[19]; [16]].
Proof. vm_compute. repeat split; reflexivity. Qed.
Example ex_rejected : snd (add ex_opts 2 true (run ex_opts 2 true [Add ex_a1]) ex_bad) = Rej EValue.
Proof. vm_compute. reflexivity. Qed.
