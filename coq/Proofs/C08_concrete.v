(* C08 with C05's concrete filter: the linearity and energy statements without hypotheses. *)
From Coq Require Import Reals List Bool ZArith.
From PyrexLib Require Import RealPrims Vec3Facts CPair SignalAlg.
From PyrexModel Require Import ButterModel AntennaResponseModel.
From PyrexGen Require Import Gen_antenna.
From PyrexProofs Require Import C08_proofs FilterBridge.
Import ListNotations.
Open Scope R_scope.

Lemma response_linear_and_energy_concrete_stmt :
  (forall self dir pol fr a b x y,
     well_formed x -> sg_times y = sg_times x -> sg_type y = sg_type x -> length (sg_values y) = length (sg_values x) ->
     Antenna_apply_response (sig_filter_of concrete_filter) self (sig_lincomb a b x y) dir pol fr
     = opt_lincomb a b (Antenna_apply_response (sig_filter_of concrete_filter) self x dir pol fr)
                       (Antenna_apply_response (sig_filter_of concrete_filter) self y dir pol fr)) /\
  (forall self dir pol fr a b x y,
     well_formed x -> sg_times y = sg_times x -> sg_type y = sg_type x -> length (sg_values y) = length (sg_values x) ->
     DipoleAntenna_apply_response (sig_filter_of concrete_filter) self (sig_lincomb a b x y) dir pol fr
     = opt_lincomb a b (DipoleAntenna_apply_response (sig_filter_of concrete_filter) self x dir pol fr)
                       (DipoleAntenna_apply_response (sig_filter_of concrete_filter) self y dir pol fr)) /\
  (forall pos z x eff fc bw eh s dir pol fr o,
     0 < fc - bw / 2 -> 0 < bw -> well_formed s ->
     DipoleAntenna_apply_response (sig_filter_of concrete_filter) (dipole_of_params pos z x eff fc bw eh) s dir pol fr = Some o ->
     exists k, sg_values o = map (Rmult k) (concrete_filter (sg_times s) (sg_values s)
                  (fun f => DipoleAntenna_frequency_response (dipole_of_params pos z x eff fc bw eh) f) fr)
               /\ energy (sg_values o) <= k * k * energy (sg_values s)).
Proof.
  split; [exact (antenna_response_linear concrete_filter concrete_filter_length concrete_filter_linear)|].
  split; [exact (dipole_response_linear concrete_filter concrete_filter_length concrete_filter_linear)|].
  exact (dipole_energy_bound concrete_filter concrete_filter_passive).
Qed.
