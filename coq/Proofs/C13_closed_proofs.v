(* C13, closed box: the exit-point theorems also hold for vertices ON the boundary of the box
   (faces, edges, corners), with the vertex weakly between the two points (s <= 0 <= t). *)
From Coq Require Import Reals List Bool ZArith Lra Lia Psatz.
From PyrexLib Require Import RealPrims.
From PyrexModel Require Import GeneratorModel.
From PyrexGen Require Import Gen_generation.
From PyrexProofs Require Import C13_proofs.
Import ListNotations.
Open Scope R_scope.

Definition good_point_c dx dy dz v d (behind : bool) (p : vec3) : Prop :=
  exists s, (if behind then s <= 0 else 0 <= s) /\ p = line_point v d s /\ box_on_boundary dx dy dz p.
Definition box_inv_c dx dy dz v d (st : box_state) : Prop :=
  (forall p, fst st = Some p -> good_point_c dx dy dz v d true p) /\
  (forall p, snd st = Some p -> good_point_c dx dy dz v d false p).

Lemma box_face_inv_c dx dy dz v d c m st : (c < 3)%nat ->
  box_closed dx dy dz v -> box_inv_c dx dy dz v d st ->
  box_inv_c dx dy dz v d (fst (box_face dx dy dz v d c m st)).
Proof.
  intros Hc Hin Hinv. unfold box_face.
  destruct (Reqb (vnth d c) 0) eqn:E0; [assumption|].
  assert (Hd : vnth d c <> 0) by (intro Z; apply Reqb_true in Z; rewrite Z in E0; discriminate).
  set (side := if m then snd (box_sides dx dy dz c) else fst (box_sides dx dy dz c)).
  set (s := (side - vnth v c) / vnth d c).
  change (vx v + vx d * s, vy v + vy d * s, vz v + vz d * s) with (line_point v d s).
  cbv zeta. cbn [fst].
  destruct (box_valid dx dy dz c (line_point v d s)) eqn:V; [|assumption].
  pose proof (box_valid_spec _ _ _ _ _ V) as Hothers.
  pose proof (Hin c Hc) as [Hlo Hhi]. unfold lo_side, hi_side in Hlo, Hhi.
  assert (Hpc : vnth (line_point v d s) c = side) by (rewrite vnth_line; unfold s; field; assumption).
  assert (Hsd : s * vnth d c = side - vnth v c) by (unfold s; field; assumption).
  assert (Hbd : box_on_boundary dx dy dz (line_point v d s)).
  { split.
    - intros i Hi. destruct (Nat.eq_dec i c) as [->|Hne]; [|apply Hothers; assumption].
      rewrite Hpc. unfold lo_side, hi_side, side. destruct m; lra.
    - exists c. split; [assumption|]. rewrite Hpc. unfold lo_side, hi_side, side. destruct m; [right|left]; reflexivity. }
  destruct Hinv as [I1 I2].
  destruct (Rltb ((if m then 1 else -1) * vnth d c) 0) eqn:Es.
  - apply Rltb_true in Es. split; cbn [fst snd]; [|assumption].
    intros p Hp. injection Hp as <-. exists s. split; [|split; [reflexivity|assumption]].
    unfold side in Hsd. destruct m; nra.
  - apply Rltb_false in Es. split; cbn [fst snd]; [assumption|].
    intros p Hp. injection Hp as <-. exists s. split; [|split; [reflexivity|assumption]].
    unfold side in Hsd. destruct m.
    + assert (0 < vnth d c) by lra. nra.
    + assert (vnth d c < 0) by lra. nra.
Qed.


Lemma box_loop_sound_c dx dy dz v d : box_closed dx dy dz v ->
  forall faces st en ex, List.Forall (fun f => (fst f < 3)%nat) faces -> box_inv_c dx dy dz v d st ->
  box_loop dx dy dz v d faces st = Some (en, ex) ->
  good_point_c dx dy dz v d true en /\ good_point_c dx dy dz v d false ex.
Proof.
  intros Hin. induction faces as [|[c m] rest IH]; intros st en ex Hf Hinv H; [discriminate|].
  inversion Hf as [|? ? Hc Hr]; subst. cbn [box_loop] in H.
  pose proof (box_face_inv_c dx dy dz v d c m st Hc Hin Hinv) as Hinv'.
  destruct (box_face dx dy dz v d c m st) as [st' ret] eqn:E. cbn [fst] in Hinv'.
  destruct ret.
  - destruct st' as [[a|] [b|]]; cbn [both_some] in H; try discriminate.
    injection H as <- <-. destruct Hinv' as [A B]. split; [apply A|apply B]; reflexivity.
  - apply (IH st'); assumption.
Qed.


Lemma exit_points_box_sound_closed_lemma dx dy dz v d en ex :
  box_closed dx dy dz v ->
  box_exit_points dx dy dz v d = Some (en, ex) ->
  good_point_c dx dy dz v d true en /\ good_point_c dx dy dz v d false ex.
Proof.
  intros Hin H. apply (box_loop_sound_c dx dy dz v d Hin box_faces (None, None)); try assumption.
  - unfold box_faces. repeat constructor; cbn; lia.
  - split; intros p Hp; discriminate.
Qed.

Lemma sides_of_closed dx dy dz v i : box_closed dx dy dz v -> (i < 3)%nat ->
  fst (box_sides dx dy dz i) <= vnth v i <= snd (box_sides dx dy dz i).
Proof. intros H Hi. apply (H i Hi). Qed.

(* the face through which the line enters last (largest negative parameter) is a valid entry *)
Lemma entering_face_valid_c dx dy dz v d i :
  box_closed dx dy dz v -> (i < 3)%nat -> vnth d i <> 0 ->
  (forall j, In j [0%nat; 1%nat; 2%nat] -> vnth d j <> 0 ->
     face_scale dx dy dz v d j (enter_m d j) <= face_scale dx dy dz v d i (enter_m d i)) ->
  assigning_face dx dy dz v d true (i, enter_m d i).
Proof.
  intros Hin Hi Hd Hmax. unfold assigning_face. cbn [fst snd]. split; [assumption|].
  set (s := face_scale dx dy dz v d i (enter_m d i)).
  assert (Hsd : forall j, (j < 3)%nat -> vnth d j <> 0 ->
            face_scale dx dy dz v d j (enter_m d j) * vnth d j = face_side dx dy dz j (enter_m d j) - vnth v j)
    by (intros j _ Hj; unfold face_scale; field; assumption).
  assert (Hs : s <= 0).
  { pose proof (Hsd i Hi Hd) as Q. fold s in Q. pose proof (sides_of_closed dx dy dz v i Hin Hi) as [A B].
    unfold face_side, enter_m in Q. destruct (Rltb (vnth d i) 0) eqn:E.
    - apply Rltb_true in E. nra.
    - apply Rltb_false in E. assert (0 < vnth d i) by lra. nra. }
  split.
  - unfold box_valid. apply forallb_forall. intros j Hj. apply orb_true_iff.
    destruct (Nat.eq_dec j i) as [->|Hne]; [left; apply Nat.eqb_refl|right].
    apply negb_true_iff, orb_false_iff. rewrite Rltb_false, Rgtb_false, vnth_line.
    pose proof (proj1 (in_012 j) Hj) as Hj3.
    pose proof (sides_of_closed dx dy dz v j Hin Hj3) as [A B].
    destruct (Req_dec (vnth d j) 0) as [Z|NZ]; [rewrite Z; lra|].
    pose proof (Hmax j Hj NZ) as M. fold s in M. pose proof (Hsd j Hj3 NZ) as Q.
    unfold face_side, enter_m in Q, M. destruct (Rltb (vnth d j) 0) eqn:E.
    + apply Rltb_true in E. split; nra.
    + apply Rltb_false in E. assert (0 < vnth d j) by lra. split; nra.
  - unfold enter_m. destruct (Rltb (vnth d i) 0) eqn:E.
    + apply Rltb_true in E. apply Rltb_true. lra.
    + apply Rltb_false in E. apply Rltb_true. lra.
Qed.

Lemma exiting_face_valid_c dx dy dz v d i :
  box_closed dx dy dz v -> (i < 3)%nat -> vnth d i <> 0 ->
  (forall j, In j [0%nat; 1%nat; 2%nat] -> vnth d j <> 0 ->
     - face_scale dx dy dz v d j (exit_m d j) <= - face_scale dx dy dz v d i (exit_m d i)) ->
  assigning_face dx dy dz v d false (i, exit_m d i).
Proof.
  intros Hin Hi Hd Hmax. unfold assigning_face. cbn [fst snd]. split; [assumption|].
  set (s := face_scale dx dy dz v d i (exit_m d i)).
  assert (Hsd : forall j, (j < 3)%nat -> vnth d j <> 0 ->
            face_scale dx dy dz v d j (exit_m d j) * vnth d j = face_side dx dy dz j (exit_m d j) - vnth v j)
    by (intros j _ Hj; unfold face_scale; field; assumption).
  assert (Hs : 0 <= s).
  { pose proof (Hsd i Hi Hd) as Q. fold s in Q. pose proof (sides_of_closed dx dy dz v i Hin Hi) as [A B].
    unfold face_side, exit_m in Q. destruct (Rltb (vnth d i) 0) eqn:E; cbn [negb] in Q.
    - apply Rltb_true in E. nra.
    - apply Rltb_false in E. assert (0 < vnth d i) by lra. nra. }
  split.
  - unfold box_valid. apply forallb_forall. intros j Hj. apply orb_true_iff.
    destruct (Nat.eq_dec j i) as [->|Hne]; [left; apply Nat.eqb_refl|right].
    apply negb_true_iff, orb_false_iff. rewrite Rltb_false, Rgtb_false, vnth_line.
    pose proof (proj1 (in_012 j) Hj) as Hj3.
    pose proof (sides_of_closed dx dy dz v j Hin Hj3) as [A B].
    destruct (Req_dec (vnth d j) 0) as [Z|NZ]; [rewrite Z; lra|].
    pose proof (Hmax j Hj NZ) as M. fold s in M. pose proof (Hsd j Hj3 NZ) as Q.
    unfold face_side, exit_m in Q, M. destruct (Rltb (vnth d j) 0) eqn:E; cbn [negb] in Q, M.
    + apply Rltb_true in E. split; nra.
    + apply Rltb_false in E. assert (0 < vnth d j) by lra. split; nra.
  - unfold exit_m. destruct (Rltb (vnth d i) 0) eqn:E; cbn [negb].
    + apply Rltb_true in E. apply Rltb_false. lra.
    + apply Rltb_false in E. apply Rltb_false. lra.
Qed.


(* totality on the closed box *)
Lemma exit_points_box_total_closed_lemma dx dy dz v d :
  box_closed dx dy dz v -> (exists k, (k < 3)%nat /\ vnth d k <> 0) ->
  box_exit_points dx dy dz v d <> None.
Proof.
  intros Hin (k & Hk & Hdk). unfold box_exit_points.
  assert (Pdec : forall i, vnth d i <> 0 \/ ~ vnth d i <> 0) by (intro i; destruct (Req_dec (vnth d i) 0); [right|left]; tauto).
  apply box_loop_total; [reflexivity| |]; right.
  - destruct (finite_max (fun j => face_scale dx dy dz v d j (enter_m d j)) (fun j => vnth d j <> 0) Pdec [0%nat; 1%nat; 2%nat])
      as [Hn|(i & Hi & Pi & Hmax)]; [exfalso; apply (Hn k); [apply in_012; assumption|assumption]|].
    exists (i, enter_m d i). split; [apply face_in_faces, in_012; assumption|].
    apply entering_face_valid_c; try assumption. apply in_012; assumption.
  - destruct (finite_max (fun j => - face_scale dx dy dz v d j (exit_m d j)) (fun j => vnth d j <> 0) Pdec [0%nat; 1%nat; 2%nat])
      as [Hn|(i & Hi & Pi & Hmax)]; [exfalso; apply (Hn k); [apply in_012; assumption|assumption]|].
    exists (i, exit_m d i). split; [apply face_in_faces, in_012; assumption|].
    apply exiting_face_valid_c; try assumption. apply in_012; assumption.
Qed.


Lemma exit_points_box_closed_lemma dx dy dz v d :
  box_closed dx dy dz v -> (exists k, (k < 3)%nat /\ vnth d k <> 0) ->
  exists en ex, box_exit_points dx dy dz v d = Some (en, ex) /\
                good_point_c dx dy dz v d true en /\ good_point_c dx dy dz v d false ex.
Proof.
  intros Hin Hd. pose proof (exit_points_box_total_closed_lemma dx dy dz v d Hin Hd) as T.
  destruct (box_exit_points dx dy dz v d) as [[en ex]|] eqn:E; [|contradiction].
  exists en, ex. split; [reflexivity|]. apply exit_points_box_sound_closed_lemma; assumption.
Qed.

(* a vertex on a face that the direction crosses is itself the exit (leaving) or the entry (entering) point *)
Lemma line_point_0 v d : line_point v d 0 = v.
Proof. destruct v as [[x y] z]. unfold line_point, vx, vy, vz; simpl. f_equal; [f_equal|]; ring. Qed.

Lemma vertex_is_exit_lemma dx dy dz v d ex c : (c < 3)%nat ->
  good_point_c dx dy dz v d false ex ->
  (vnth v c = hi_side dx dy dz c /\ 0 < vnth d c) \/ (vnth v c = lo_side dx dy dz c /\ vnth d c < 0) ->
  ex = v.
Proof.
  intros Hc (t & Ht & -> & (Hcl & _)) H. specialize (Hcl c Hc). rewrite vnth_line in Hcl.
  assert (t = 0) by (destruct H as [[A B]|[A B]]; nra). subst t. apply line_point_0.
Qed.

Lemma vertex_is_entry_lemma dx dy dz v d en c : (c < 3)%nat ->
  good_point_c dx dy dz v d true en ->
  (vnth v c = hi_side dx dy dz c /\ vnth d c < 0) \/ (vnth v c = lo_side dx dy dz c /\ 0 < vnth d c) ->
  en = v.
Proof.
  intros Hc (t & Ht & -> & (Hcl & _)) H. specialize (Hcl c Hc). rewrite vnth_line in Hcl.
  assert (t = 0) by (destruct H as [[A B]|[A B]]; nra). subst t. apply line_point_0.
Qed.

Example boundary_vertex_example : box_closed 2 2 2 (0, 0, 0) /\ vnth (0, 0, 0) 2 = hi_side 2 2 2 2.
Proof.
  split.
  - intros i Hi. destruct i as [|[|[|i]]]; try lia; unfold lo_side, hi_side, box_sides, vnth, vx, vy, vz; simpl; lra.
  - unfold hi_side, box_sides, vnth, vz; simpl. reflexivity.
Qed.
