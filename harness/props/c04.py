"""C04: Signals keep times and values aligned, copy independently and combine pointwise.

Coq: Model/SignalModel.v (heap model, as written), Lib/InterpQ.v (np.interp), Proofs/C04_*.v,
Props/C04.v.  Correspondence: random operation histories are generated WHILE being executed on
real pyrex Signal / EmptySignal / FunctionSignal objects (and trivial subclasses); the same
op list is replayed on the executable model with vm_compute and after EVERY op the complete
observable state is compared exactly: result kind (new object / same object / exception kind),
class, value type, times, values, component parameters of every live object, the contents of
every caller-held array and the memory-sharing pattern between all arrays (np.shares_memory).
In-place writes into result arrays / argument arrays are ops of the history, so aliasing shows
up as a changed operand.  Independent of the model the harness also judges the property as
stated on each step (oracle(): one value per sample, no shared mutable containers, pointwise
sum, type table, exact interpolation with Fractions).
"""
import ast
import itertools
import json
import os
import re
from fractions import Fraction

import numpy as np

from harness import common

IMPORTS = ("From Coq Require Import List QArith Qabs ZArith Bool.\n"
           "From PyrexLib Require Import InterpQ.\nFrom PyrexModel Require Import SignalModel.\n"
           "Import ListNotations.\nOpen Scope Q_scope.\n")

VT_NAMES = ["undefined", "voltage", "field", "power"]
CLS_NAMES = ["Sig", "Empty", "Fun"]
ERR_CODES = {"ValueError": (3, 0), "TypeError": (3, 1), "IndexError": (3, 2)}


# ------------------------------------------------------------------ implementation side
def _classes():
    from pyrex.signals import Signal, EmptySignal, FunctionSignal

    class SubSignal(Signal):
        """trivial user subclass"""

    class SubEmpty(EmptySignal):
        """trivial user subclass"""

    class SubFunction(FunctionSignal):
        """trivial user subclass"""
    return Signal, EmptySignal, FunctionSignal, SubSignal, SubEmpty, SubFunction


def frac(x):
    """exact rational value (a Fraction is kept as it is: converting it to float first would round)"""
    return x if isinstance(x, Fraction) else Fraction(float(x))


def qpair(x):
    f = frac(x)
    return (f.numerator, f.denominator)


def span(x):
    """number of bits between the leading bit and the last fractional bit of a dyadic"""
    f = frac(x)
    if f == 0:
        return 0
    return max(abs(f.numerator).bit_length(), 1) + (f.denominator.bit_length() - 1)


def pow2(x):
    f = frac(x)
    return f > 0 and (f.numerator & (f.numerator - 1)) == 0 and (f.denominator & (f.denominator - 1)) == 0 \
        and (f.numerator == 1 or f.denominator == 1)


def make_fn(spec):
    kind, a, b, c = spec[:4]
    scalar_only = len(spec) > 4 and bool(spec[4])
    a, b, c = float(Fraction(*a)), float(Fraction(*b)), float(Fraction(*c))
    if kind == "affine":
        f = lambda t: a * t + b
    elif kind == "quad":
        f = lambda t: a * (t * t) + b
    elif kind == "abs":
        f = lambda t: a * np.abs(t - c) + b
    else:
        raise ValueError(kind)
    if not scalar_only:
        return f

    def g(t):
        # a function written for one time at a time (math.*, float(t), `if t < 0`): it rejects arrays, so the
        # signal has to evaluate it sample by sample
        return f(float(t))
    return g


def vt_input(code, form, Signal):
    """different spellings accepted by the value_type setter for the same enum member"""
    if form == "enum":
        return [Signal.Type.undefined, Signal.Type.voltage, Signal.Type.field, Signal.Type.power][code]
    if form == "int":
        return code
    if form == "str":
        return ["unknown", "voltage", "field", "power"][code]
    if form == "none" and code == 0:
        return None
    return [Signal.Type.undefined, Signal.Type.voltage, Signal.Type.field, Signal.Type.power][code]


class Impl:
    """Executes ops on real pyrex objects and observes them."""

    def __init__(self):
        (self.Signal, self.EmptySignal, self.FunctionSignal,
         self.SubSignal, self.SubEmpty, self.SubFunction) = _classes()
        self.objs = []
        self.ext = []

    def cls_of(self, o):
        t = type(o)
        table = {self.Signal: (0, False), self.SubSignal: (0, True), self.EmptySignal: (1, False),
                 self.SubEmpty: (1, True), self.FunctionSignal: (2, False), self.SubFunction: (2, True)}
        return table.get(t, (9, False))

    def scalar(self, q, form):
        v = Fraction(*q)
        if form == "int" and v.denominator == 1:
            return int(v)
        if form == "np":
            return np.float64(float(v))
        return float(v)

    def step(self, op):
        """returns out code (k, id)"""
        k = op["op"]
        # ops that refer to objects / arrays which do not exist, and writes into the times array of a
        # FunctionSignal (in-place array mutation is not a public operation, see C06) are skipped
        for f, pool in (("i", self.objs), ("j", self.objs), ("ta", self.ext), ("a", self.ext)):
            if f in op and not (0 <= op[f] < len(pool)):
                return (4, 0)
        if k == "mk" and op["cls"] == 0 and not (0 <= op["va"] < len(self.ext)):
            return (4, 0)
        if k == "poketimes" and self.cls_of(self.objs[op["i"]])[0] == 2:
            return (4, 0)
        if k == "pokevals" and self.cls_of(self.objs[op["i"]])[0] != 0:
            return (4, 0)
        if k == "setbuf" and self.cls_of(self.objs[op["i"]])[0] != 2:
            return (4, 0)
        try:
            r = self._do(op)
        except IndexError:
            return ERR_CODES["IndexError"]
        except TypeError:
            return ERR_CODES["TypeError"]
        except ValueError:
            return ERR_CODES["ValueError"]
        if r is None:
            return (2, 0)
        for i, o in enumerate(self.objs):
            if o is r:
                return (1, i)
        self.objs.append(r)
        return (0, len(self.objs) - 1)

    def _do(self, op):
        k = op["op"]
        O, E = self.objs, self.ext
        if k == "newarr":
            E.append(np.array([float(Fraction(*q)) for q in op["xs"]], dtype=float))
            return None
        def typed(a, how):
            """the same numbers handed over as the caller's float array, a list of floats, an integer array
            (np.arange-like) or a list of Python ints"""
            if how == "int":
                return a.astype(int)
            if how == "intlist":
                return [int(x) for x in a]
            if how == "list":
                return a.tolist()
            return a
        if k == "mk":
            t = E[op["ta"]]
            targ = typed(t, op.get("ttype") or ("list" if op.get("aslist") else None))
            vt = vt_input(op["vt"], op.get("vtform", "enum"), self.Signal)
            if op["cls"] == 0:
                v = E[op["va"]]
                varg = typed(v, op.get("vtype") or ("list" if op.get("aslist") else None))
                return (self.SubSignal if op["sub"] else self.Signal)(targ, varg, vt)
            if op["cls"] == 1:
                return (self.SubEmpty if op["sub"] else self.EmptySignal)(targ, vt)
            return (self.SubFunction if op["sub"] else self.FunctionSignal)(targ, make_fn(op["fn"]), vt)
        if k == "copy":
            return O[op["i"]].copy()
        if k == "add":
            return O[op["i"]] + O[op["j"]]
        if k == "radd":
            return op["k"] + O[op["i"]]
        if k == "mul":
            return O[op["i"]] * self.scalar(op["q"], op.get("qform"))
        if k == "rmul":
            return self.scalar(op["q"], op.get("qform")) * O[op["i"]]
        if k == "div":
            return O[op["i"]] / self.scalar(op["q"], op.get("qform"))
        if k == "imul":
            x = O[op["i"]]
            x *= self.scalar(op["q"], op.get("qform"))
            return x
        if k == "idiv":
            x = O[op["i"]]
            x /= self.scalar(op["q"], op.get("qform"))
            return x
        if k == "with_times":
            t = E[op["ta"]]
            return O[op["i"]].with_times(typed(t, op.get("ttype") or ("list" if op.get("aslist") else None)))
        if k == "shift":
            return O[op["i"]].shift(self.scalar(op["q"], op.get("qform")))
        if k == "settype":
            O[op["i"]].value_type = vt_input(op["vt"], op.get("vtform", "enum"), self.Signal)
            return None
        if k == "setbuf":
            return O[op["i"]].set_buffers(leading=float(Fraction(*op["lead"])), trailing=float(Fraction(*op["trail"])))
        if k == "pokearr":
            E[op["a"]][op["k"]] = float(Fraction(*op["q"]))
            return None
        if k == "poketimes":
            O[op["i"]].times[op["k"]] = float(Fraction(*op["q"]))
            return None
        if k == "pokevals":
            O[op["i"]].values[op["k"]] = float(Fraction(*op["q"]))
            return None
        raise KeyError(k)

    # ---- observation
    def obs_obj(self, o):
        c, sub = self.cls_of(o)
        try:
            vt = o.value_type.value
        except Exception:
            vt = 9
        times = o.times
        tl = [qpair(x) for x in np.asarray(times, dtype=float).ravel()] if isinstance(times, np.ndarray) else "times-not-ndarray:%s" % type(times).__name__
        try:
            vals = o.values
            vl = [qpair(x) for x in np.asarray(vals, dtype=float).ravel()] if np.ndim(vals) == 1 else "values-ndim-%d" % np.ndim(vals)
        except Exception as e:
            vl = "values-raise:%s" % type(e).__name__
        comps = []
        if c == 2:
            try:
                for t0, fac, buf in zip(o._t0s, o._factors, o._buffers):
                    comps.append((qpair(t0), qpair(fac), qpair(buf[0]), qpair(buf[1])))
                if not (len(o._functions) == len(o._t0s) == len(o._factors) == len(o._buffers) == len(o._filters)):
                    comps = "component-lists-of-different-length"
            except Exception as e:
                comps = "comps-raise:%s" % type(e).__name__
        return (c, sub, vt, tl, vl, comps)

    def holders(self):
        """arrays in the model's order: ext arrays, then per object times (+ values unless FunctionSignal)"""
        hs = [("ext", a) for a in self.ext]
        per = []
        for o in self.objs:
            c, _ = self.cls_of(o)
            h = [o.times]
            if c != 2:
                h.append(o.values)
            per.append(h)
        return hs, per

    def sharing(self):
        """for every holder (model order) the position of the first holder sharing memory with it"""
        hs, per = self.holders()
        flat = [a for _, a in hs] + [a for h in per for a in h]
        labels = []
        for i, a in enumerate(flat):
            lab = i
            for j in range(i):
                b = flat[j]
                if a is b or (isinstance(a, np.ndarray) and isinstance(b, np.ndarray) and np.shares_memory(a, b)):
                    lab = j
                    break
            labels.append(lab)
        return (labels, len(hs), [len(h) for h in per])

    def observe(self):
        return ([self.obs_obj(o) for o in self.objs],
                [[qpair(x) for x in a] for a in self.ext],
                self.sharing())

    def containers(self, o):
        """ids of every mutable container reachable from a signal (arrays by data pointer)"""
        ids = {}
        c, _ = self.cls_of(o)
        if c == 2:
            for name in ("_functions", "_t0s", "_buffers", "_factors", "_filters"):
                l = getattr(o, name)
                ids[id(l)] = name
                if name in ("_buffers", "_filters"):
                    for k, inner in enumerate(l):
                        ids[id(inner)] = "%s[%d]" % (name, k)
        return ids


HM, HP = 2305843009213693951, 1000003


def flat_obs(obs):
    """same flattening as SignalModel.flat_state; None when the observation contains an error marker"""
    objs, exts, (labels, ne, per) = obs
    out = [len(objs)]
    for (c, sub, vt, tl, vl, comps) in objs:
        if isinstance(tl, str) or isinstance(vl, str) or isinstance(comps, str):
            return None
        out += [c, 1 if sub else 0, vt, len(tl)]
        for n, d in tl:
            out += [n, d]
        out.append(len(vl))
        for n, d in vl:
            out += [n, d]
        out.append(len(comps))
        for cp in comps:
            for n, d in cp:
                out += [n, d]
    out.append(len(exts))
    for a in exts:
        out.append(len(a))
        for n, d in a:
            out += [n, d]
    out.append(len(labels))
    out += labels
    return out


def py_hash(obs):
    fl = flat_obs(obs)
    if fl is None:
        return -1
    h = 7
    for x in fl:
        h = (h * HP + x) & HM
    return h


def sharing_struct(sh):
    labels, ne, per = sh
    out, pos = [], ne
    for n in per:
        out.append(labels[pos:pos + n])
        pos += n
    return canon_labels(labels[:ne], out)


# ------------------------------------------------------------------ oracle: property as stated
def exact_interp(x, xp, fp):
    """the statement's re-gridding rule with Fractions (xp strictly increasing)"""
    if x < xp[0] or x > xp[-1]:
        return Fraction(0)
    for j in range(len(xp)):
        if x == xp[j]:
            return fp[j]
    for j in range(len(xp) - 1):
        if xp[j] < x < xp[j + 1]:
            return fp[j] + (fp[j + 1] - fp[j]) * (x - xp[j]) / (xp[j + 1] - xp[j])
    return None


def fr_list(a):
    return [frac(x) for x in np.asarray(a, dtype=float)]


class Sem:
    """What every live object IS according to the property text, tracked by the harness independently of the
    classes the implementation returns: 'sampled' (stored values, re-gridded by interpolation), 'empty' (zero,
    neutral in sums) or 'fun' (function-backed: a list of components [function spec, offset, factor], re-gridded
    by exact re-evaluation).  Rules: constructors fix the kind; copies, re-gridded and scaled signals keep it;
    the empty signal is neutral in a sum (empty + x and x + empty are x); fun + fun is fun with both component
    lists; a sum with a sampled signal is sampled (FunctionSignal.__add__ documents that it is evaluated)."""

    def __init__(self):
        self.s = []

    def snapshot(self):
        return [dict(e, comps=[list(c) for c in e.get("comps", [])]) for e in self.s]

    @staticmethod
    def clone(e):
        return dict(e, comps=[list(c) for c in e.get("comps", [])])

    def update(self, op, outc):
        k = op["op"]
        S = self.s
        q = Fraction(*op["q"]) if "q" in op else None
        i = op.get("i")
        if outc[0] == 0:                        # a new object
            if outc[1] != len(S):
                S += [{"k": "unknown"}] * (outc[1] - len(S))
            if k == "mk":
                e = {"k": ["sampled", "empty", "fun"][op["cls"]]}
                if op["cls"] == 2:
                    e["comps"] = [[tuple(op["fn"]), Fraction(0), Fraction(1)]]
            elif k in ("copy", "with_times"):
                e = self.clone(S[i])
            elif k == "add":
                a, b = S[op["i"]], S[op["j"]]
                if a["k"] == "empty":
                    e = self.clone(b)
                elif b["k"] == "empty":
                    e = self.clone(a)
                elif a["k"] == "fun" and b["k"] == "fun":
                    e = {"k": "fun", "comps": [list(c) for c in a["comps"]] + [list(c) for c in b["comps"]]}
                elif "unknown" in (a["k"], b["k"]):
                    e = {"k": "unknown"}
                else:
                    e = {"k": "sampled"}
            elif k in ("mul", "rmul", "div"):
                e = self.clone(S[i])
                if e["k"] == "fun":
                    for c in e["comps"]:
                        c[2] = c[2] * q if k != "div" else c[2] / q
                elif e["k"] == "empty":
                    e = {"k": "sampled"}           # zeros, stored
            else:
                e = {"k": "unknown"}
            S.append(e)
        elif k in ("imul", "idiv") and outc[0] == 1 and S[i]["k"] == "fun":
            for c in S[i]["comps"]:
                c[2] = c[2] * q if k == "imul" else c[2] / q
        elif k in ("imul", "idiv") and outc[0] == 0:
            pass
        elif k == "shift" and outc[0] == 2 and S[i]["k"] == "fun":
            for c in S[i]["comps"]:
                c[1] = c[1] + q


def fun_exact(comps, xs):
    out = []
    for x in xs:
        tot = Fraction(0)
        for f, t0, fac in comps:
            u = x - t0
            g = u if f[0] == "affine" else (u * u if f[0] == "quad" else abs(u - Fraction(*f[3])))
            tot += (Fraction(*f[1]) * g + Fraction(*f[2])) * fac
        out.append(tot)
    return out


def oracle(impl, op, before, outc, fnspecs={}, sem_before=None, sem_after=None):
    """Judge one executed step against the property text, independently of the Coq model.
    before: dict with snapshots taken before the op.  Returns list of complaint strings."""
    bad = []
    O = impl.objs
    if outc == (4, 0):
        return bad
    # one value per time sample, always, for every live object
    for i, o in enumerate(O):
        try:
            if len(o.values) != len(o.times):
                bad.append("object %d holds %d values for %d time samples" % (i, len(o.values), len(o.times)))
        except Exception as e:
            if impl.cls_of(o)[0] != 2 or len(o.times) >= 2:
                bad.append("object %d: values cannot be read (%s)" % (i, type(e).__name__))
    # a function-backed signal holds, at every sample, the sum over its components of factor * f(t - t0)
    # (whatever its buffers are, as long as no filter is set): exact on the generated data.  Which objects are
    # function-backed is decided by the property (Sem), not by the class the implementation happened to return
    for i, o in enumerate(O):
        e = sem_after[i] if sem_after is not None and i < len(sem_after) else None
        if e is None or e["k"] != "fun" or len(o.times) < 2 or not isinstance(o.times, np.ndarray):
            continue
        try:
            got = fr_list(o.values)
        except Exception:
            continue
        want = fun_exact(e["comps"], fr_list(o.times))
        if got != want:
            bad.append("function-backed object %d (%s) does not hold its function's values at its own sample times "
                       "(first difference at sample %d)" % (i, type(o).__name__,
                                                             [a != b for a, b in zip(got, want)].index(True) if len(got) == len(want) else -1))
    k = op["op"]
    new = O[outc[1]] if outc[0] == 0 else None
    # results share no mutable state with operands or arguments
    if new is not None:
        nid = outc[1]
        arrs_new = [new.times] + ([new.values] if impl.cls_of(new)[0] != 2 else [])
        for i, o in enumerate(O):
            if i == nid:
                continue
            for a in [o.times] + ([o.values] if impl.cls_of(o)[0] != 2 else []):
                for b in arrs_new:
                    if a is b or (isinstance(a, np.ndarray) and isinstance(b, np.ndarray) and np.shares_memory(a, b)):
                        bad.append("result %d shares an array with object %d" % (nid, i))
            common_ids = set(impl.containers(o)) & set(impl.containers(new))
            if common_ids:
                bad.append("result %d shares component list %s with object %d" % (
                    nid, sorted(impl.containers(new)[c] for c in common_ids), i))
        for a_i, a in enumerate(impl.ext):
            for b in arrs_new:
                if a is b or (isinstance(b, np.ndarray) and np.shares_memory(a, b)):
                    bad.append("result %d shares memory with caller array %d" % (nid, a_i))
        if not isinstance(new.times, np.ndarray):
            bad.append("result %d: times is %s, not an array" % (nid, type(new.times).__name__))
    # an operation that builds a new signal (copy, sum, scaled signal, re-gridded signal) leaves every
    # existing signal as it was
    if k in ("copy", "add", "mul", "rmul", "div", "with_times") and outc[0] in (0, 3):
        for i in range(len(before["times"])):
            o = O[i]
            try:
                now = (fr_list(o.times), fr_list(o.values), o.value_type.value,
                       [(frac(b[0]), frac(b[1])) for b in o._buffers] if impl.cls_of(o)[0] == 2 else None)
            except Exception:
                continue
            was = (before["times"][i], before["values"][i], before["vt"][i], before["bufs"][i])
            if was[1] is not None and now != was:
                bad.append("operand/bystander object %d was modified by %s" % (i, k))
    if k == "mk" and new is not None:
        # the constructor keeps the given times and holds the given values zero-padded / truncated to that length,
        # whatever the types of the arguments (float arrays, lists, integer arrays, lists of ints)
        t_in = before["ext"][op["ta"]]
        if fr_list(new.times) != t_in:
            bad.append("constructed signal does not keep the given times")
        if op["cls"] == 0:
            v_in = before["ext"][op["va"]]
            want = (v_in + [Fraction(0)] * len(t_in))[:len(t_in)]
            if fr_list(new.values) != want:
                bad.append("constructed signal does not hold the given values zero-padded / truncated to its grid "
                           "(argument types: times %s, values %s)" % (op.get("ttype") or "float", op.get("vtype") or "float"))
        if op["cls"] == 1 and any(v != 0 for v in fr_list(new.values)):
            bad.append("constructed empty signal is not zero")
    if k == "radd" and op["k"] == 0 and outc != (1, op["i"]):
        bad.append("0 + signal did not return the signal itself")
    if k == "add":
        ta, tb = before["times"][op["i"]], before["times"][op["j"]]
        va, vb = before["vt"][op["i"]], before["vt"][op["j"]]
        should = (ta == tb) and (va == 0 or vb == 0 or va == vb)
        if should != (outc[0] == 0):
            bad.append("addition %s although grids %s and types %s/%s" % (
                "accepted" if outc[0] == 0 else "refused", "equal" if ta == tb else "differ", VT_NAMES[va], VT_NAMES[vb]))
        if new is not None and should:
            want = [x + y for x, y in zip(before["values"][op["i"]], before["values"][op["j"]])]
            if fr_list(new.values) != want:
                bad.append("sum is not pointwise")
            if fr_list(new.times) != ta:
                bad.append("sum lives on a different grid")
            if new.value_type.value != (vb if va == 0 else va):
                bad.append("sum has value type %s" % new.value_type)
    if k in ("mul", "rmul", "div") and new is not None:
        q = Fraction(*op["q"])
        want = [x * q if k != "div" else x / q for x in before["values"][op["i"]]]
        if fr_list(new.values) != want:
            bad.append("scaling did not multiply every value")
        if new.value_type.value != before["vt"][op["i"]] or fr_list(new.times) != before["times"][op["i"]]:
            bad.append("scaling changed grid or type")
    if k in ("imul", "idiv") and outc[0] == 1:
        q = Fraction(*op["q"])
        want = [x * q if k == "imul" else x / q for x in before["values"][op["i"]]]
        if fr_list(O[op["i"]].values) != want:
            bad.append("in-place scaling did not multiply every value")
    if k == "copy" and new is not None:
        i = op["i"]
        if (fr_list(new.times), fr_list(new.values), new.value_type.value) != (before["times"][i], before["values"][i], before["vt"][i]):
            bad.append("copy differs from original")
    if k == "with_times" and new is not None:
        i = op["i"]
        nt = before["ext"][op["ta"]]
        c = before["cls"][i]
        if sem_before is not None and i < len(sem_before) and sem_before[i]["k"] in ("sampled", "empty", "fun"):
            c = {"sampled": 0, "empty": 1, "fun": 2}[sem_before[i]["k"]]
        if fr_list(new.times) != nt:
            bad.append("re-gridded signal not on the requested grid")
        if c == 0 and before["strict"][i]:
            want = [exact_interp(x, before["times"][i], before["values"][i]) for x in nt]
            if fr_list(new.values) != want:
                bad.append("re-gridding is not stored value / linear interpolation / zero outside")
        if c == 1 and any(v != 0 for v in fr_list(new.values)):
            bad.append("re-gridded empty signal is not zero")
        if c == 2:
            comps = sem_before[i]["comps"] if sem_before is not None and sem_before[i]["k"] == "fun" else \
                [[f, t0, fac] for f, t0, fac in before["fns"][i]]
            want = fun_exact(comps, nt)
            if len(nt) >= 2 and fr_list(new.values) != want:
                bad.append("re-gridded function-backed signal (%s) does not re-evaluate its function exactly"
                           % before["clsname"][i])
    return bad


# ------------------------------------------------------------------ generator
def q_of(x):
    f = Fraction(x)
    return [f.numerator, f.denominator]


class Gen:
    def __init__(self, rng, impl, max_ops, malformed=False, bias=None):
        self.rng, self.impl, self.max_ops, self.malformed = rng, impl, max_ops, malformed
        self.bias = bias      # "decimal": mostly decimal-step grids and function-backed signals on them
        self.fns = {}      # object index -> list of (fnspec, ) per component: tracked for the oracle

    def grid(self, kind=None):
        r = self.rng
        if kind is None and self.bias == "decimal" and r.random() < 0.8:
            kind = "decimal"
        kind = kind or r.choice(["small", "small", "small", "tiny", "huge", "neg", "irregular", "empty", "ns", "ns", "ns_ms", "decimal", "decimal", "descending", "unsorted", "repeated"])
        if kind == "empty":
            return []
        if kind in ("descending", "unsorted", "repeated"):
            # grids the constructor accepts although they are not increasing: stored values must survive copies and sums
            base = [Fraction(r.randint(-8, 8), r.choice([1, 2])) + i * Fraction(r.choice([1, 2]), r.choice([1, 2])) for i in range(r.choice([2, 3, 4, 6]))]
            if kind == "descending":
                return base[::-1]
            if kind == "unsorted":
                r.shuffle(base)
                return base
            return base[:1] + base + base[-1:]
        if kind == "decimal":
            return self.decimal_grid()
        if kind in ("ns", "ns_ms"):
            # realistic sampling: dt = 2^-30 s (0.93 ns) or half / twice that, starting near 0 or near 1 ms
            n = r.choice([2, 3, 4, 5, 6, 8])
            dt = Fraction(1, 2 ** 30) * r.choice([Fraction(1, 2), 1, 1, 2])
            start = (Fraction(r.randint(-8, 8), 2 ** 30) if kind == "ns" else Fraction(1, 2 ** 10) + Fraction(r.randint(-4, 4), 2 ** 30))
            return [start + i * dt for i in range(n)]
        n = r.choice([1, 2, 2, 3, 4, 5, 6, 8]) if kind != "tiny" else r.choice([1, 2])
        dt = Fraction(r.choice([1, 1, 2, 4]), r.choice([1, 1, 2, 4]))
        start = {"small": Fraction(r.randint(-8, 8), r.choice([1, 2, 4])), "tiny": Fraction(r.randint(-3, 3)),
                 "huge": Fraction(r.choice([1, -1]) * 2 ** r.choice([20, 30]) + r.randint(-4, 4), 1),
                 "neg": Fraction(-r.randint(10, 300), r.choice([1, 2])),
                 "irregular": Fraction(r.randint(-8, 8), 2)}[kind]
        if kind == "irregular":
            ts, t = [], start
            for _ in range(n):
                ts.append(t)
                t += Fraction(r.choice([1, 2, 4, 8]), r.choice([1, 2, 4]))
            return ts
        return [start + i * dt for i in range(n)]

    DEC_STEPS = [0.1, 0.2, 0.5, 0.05, 0.3, 1e-9, 1e-10, 2.5e-10]

    def decimal_grid(self, dt=None, j0=None, n=None):
        """a grid with a DECIMAL step, written the way users write them (np.linspace between round decimal
        end points, start + dt*arange, np.arange): the samples are not exactly representable, buffer/dt quotients
        round.  Returned as the exact rational values of the floats."""
        r = self.rng
        dt = dt if dt is not None else r.choice(self.DEC_STEPS)
        j0 = j0 if j0 is not None else r.randint(-12, 6)
        n = n if n is not None else r.choice([3, 5, 8, 12, 16])
        a = float(np.round(j0 * dt, 14))
        b = float(np.round((j0 + n - 1) * dt, 14))
        how = r.choice(["linspace", "linspace", "arange_mul", "arange"])
        if how == "linspace":
            arr = np.linspace(a, b, n)
        elif how == "arange_mul":
            arr = a + dt * np.arange(n)
        else:
            arr = np.arange(a, b + dt / 2, dt)
        return [frac(x) for x in arr]

    def dec_ok(self, t):
        """a (nearly) uniform increasing grid with at least two samples that is NOT one of the dyadic grids:
        usable for FunctionSignals whose function is evaluated without rounding (a*t, a*|t| with a = +-2^k)"""
        if len(t) < 2 or self.fun_ok(t):
            return False
        t = [float(x) for x in t]
        dt = t[1] - t[0]
        return dt > 0 and all(abs((b - a) - dt) <= 1e-6 * dt for a, b in zip(t, t[1:])) and max(abs(x) for x in t) < 1e6

    def is_dec(self, o):
        return self.is_fun(o) and isinstance(o.times, np.ndarray) and self.dec_ok(o.times)

    def int_types(self, op):
        """integer-typed arguments (list of ints, np.arange-like int array) where the numbers are integers:
        the time grid always may be integer typed; values only when they are shorter than the grid (they are
        then zero-padded into a float array; an integer value array that is kept would refuse float scaling)"""
        r, E = self.rng, self.impl.ext
        isint = lambda a: len(a) > 0 and all(float(x).is_integer() and abs(x) < 2 ** 40 for x in a)
        if isint(E[op["ta"]]) and r.random() < 0.5:
            op["ttype"] = r.choice(["int", "intlist"])
        if op["op"] == "mk" and op["cls"] == 0 and isint(E[op["va"]]) and len(E[op["va"]]) < len(E[op["ta"]]) and r.random() < 0.5:
            op["vtype"] = r.choice(["int", "intlist"])

    @staticmethod
    def int_times(o):
        return isinstance(o.times, np.ndarray) and o.times.dtype.kind in "iu"

    def perturbed(self, base):
        """a grid of the same length that differs MINUTELY from an existing one: one ulp in one sample, a tiny
        common shift, half a sample / one sample (below 1e-8 s on nanosecond grids), tiny non-uniformity.
        Only exactly representable results are returned (else None)."""
        r = self.rng
        t = [frac(x) for x in base]
        if not t:
            return None
        dt = (t[1] - t[0]) if len(t) >= 2 and t[1] != t[0] else Fraction(1, 2 ** 20)
        kind = r.choice(["ulp", "tinyshift", "halfsample", "onesample", "nonuniform", "relshift"])
        if kind == "ulp":
            k = r.randrange(len(t))
            if t[k] == 0:
                return None
            out = list(t)
            out[k] = frac(np.nextafter(float(t[k]), float("inf") if r.random() < 0.5 else float("-inf")))
        elif kind == "tinyshift":
            out = [x + abs(dt) / 2 ** 20 for x in t]
        elif kind == "halfsample":
            out = [x + dt / 2 for x in t]
        elif kind == "onesample":
            out = [x + dt for x in t]
        elif kind == "relshift":
            # a shift far below 1e-5 * |t|
            m = max(abs(x) for x in t)
            if m == 0:
                return None
            e = 2 ** (m.numerator.bit_length() - m.denominator.bit_length() - 24)
            out = [x + Fraction(e) for x in t]
        else:
            if len(t) < 3:
                return None
            out = [x + (abs(dt) / 2 ** 10 if 0 < i < len(t) - 1 and r.random() < 0.6 else 0) for i, x in enumerate(t)]
        if out == t or any(Fraction(float(x)) != x for x in out):
            return None
        return out

    def values(self, n):
        r = self.rng
        m = r.choice([n, n, n, max(0, n - r.randint(1, 2)), n + r.randint(1, 3), 0, 1])
        return [Fraction(r.randint(-16, 16), r.choice([1, 1, 2, 4])) for _ in range(m)]

    def scal(self):
        return self.rng.choice([Fraction(2), Fraction(-1), Fraction(1, 2), Fraction(3), Fraction(-3, 2), Fraction(4),
                                Fraction(1, 4), Fraction(5, 4), Fraction(0), Fraction(1), Fraction(-2)])

    def divisor(self):
        return self.rng.choice([Fraction(2), Fraction(-1), Fraction(1, 2), Fraction(4), Fraction(-4), Fraction(1, 8), Fraction(1)])

    # predicates on the real state --------------------------------------
    def friendly(self, t):
        t = [frac(x) for x in t]
        return len(t) >= 1 and all(pow2(b - a) and Fraction(1, 16) <= b - a <= 64 for a, b in zip(t, t[1:]))

    def fun_ok(self, t, strict=False):
        """grid usable for a FunctionSignal with exact arithmetic: power-of-two step (1e-12 s .. 16 s), few
        significant bits.  strict: also fine for quadratic functions (second-scale, <= 14 bits)"""
        if len(t) < 2:
            return False
        dt = frac(t[1]) - frac(t[0])
        if not (pow2(dt) and Fraction(1, 2 ** 40) <= dt <= 16 and max(abs(frac(x)) for x in t) <= 1024):
            return False
        if strict:
            return dt >= Fraction(1, 8) and all(span(x) <= 14 for x in t)
        return all(span(x) <= 24 for x in t)

    def has_quad(self, o):
        return any((self.fns.get(id(f)) or ("quad",))[0] == "quad" for f in o._functions)

    @staticmethod
    def near(a, b):
        """same length, not equal, but closer than a loose closeness tolerance"""
        try:
            a, b = np.asarray(a, dtype=float), np.asarray(b, dtype=float)
            return len(a) == len(b) and len(a) > 0 and not np.array_equal(a, b) and bool(np.allclose(a, b, rtol=1e-4, atol=1e-7))
        except Exception:
            return False

    def vspan(self, o):
        try:
            return max([span(x) for x in o.values] + [0])
        except Exception:
            return 99

    def tspan(self, a):
        return max([span(x) for x in a] + [0])

    def is_fun(self, o):
        return self.impl.cls_of(o)[0] == 2

    def pick(self):
        """choose the next op from the current real state (so that data stays exactly representable
        and FunctionSignal grids keep a usable dt); returns op dict or None"""
        r, I = self.rng, self.impl
        O, E = I.objs, I.ext
        if len(E) < 2 or (len(E) < 7 and r.random() < 0.12):
            kind = None
            xs = self.grid(kind) if r.random() < (0.9 if self.bias else 0.6) else self.values(r.choice([1, 2, 3, 4, 5, 6]))
            decs = [np.asarray(o.times, dtype=float) for o in O if self.is_dec(o)] + [a for a in E if self.dec_ok(a)]
            if decs and r.random() < 0.5:
                # a window written independently of the source grid: same decimal step, start at a round decimal
                # time inside / before / after the source span
                src = r.choice(decs)
                dtd = min(self.DEC_STEPS, key=lambda d: abs(d - (src[1] - src[0])))
                j_src = int(round(src[0] / dtd))
                k0 = r.randint(-3, max(1, len(src) - 3))
                n2 = r.randint(2, max(3, len(src) - max(k0, 0) + r.choice([0, 0, 0, 2])))
                xs = self.decimal_grid(dt=dtd, j0=j_src + k0, n=n2)
            elif E and r.random() < 0.35:
                # an almost-equal twin of a grid that is in use (or of any caller array)
                used = [np.asarray(o.times, dtype=float) for o in O if isinstance(o.times, np.ndarray) and len(o.times)] or E
                px = self.perturbed(r.choice(used))
                if px is not None:
                    xs = px
            return {"op": "newarr", "xs": [q_of(x) for x in xs]}
        if len(O) < 2 or (len(O) < 9 and r.random() < 0.22):
            ta = r.randrange(len(E))
            c = r.choice([0, 0, 1, 2, 2])
            if self.bias == "decimal":
                decs = [a for a in range(len(E)) if self.dec_ok(E[a])]
                if decs and r.random() < 0.7:
                    c, ta = 2, r.choice(decs)
            op = {"op": "mk", "cls": c, "sub": r.random() < 0.2, "ta": ta, "va": r.randrange(len(E)),
                  "vt": r.choice([0, 0, 1, 1, 2, 3]), "vtform": r.choice(["enum", "int", "str", "none"]),
                  "aslist": r.random() < 0.15,
                  "fn": [r.choice(["affine", "affine", "quad", "abs"]), q_of(r.randint(-3, 3)), q_of(Fraction(r.randint(-4, 4), r.choice([1, 2]))),
                         q_of(r.randint(-2, 2))]}
            # value arrays keep few significant bits (sums / products of values must stay exact)
            nice = [a for a in range(len(E)) if self.tspan(E[a]) <= 12]
            if not nice:
                return {"op": "newarr", "xs": [q_of(x) for x in self.values(r.choice([2, 3, 4]))]}
            op["va"] = r.choice(nice)
            if c == 2 and r.random() < 0.35:
                op["fn"] = list(op["fn"][:4]) + [True]          # non-vectorisable backing function
            self._int_typing = True
            if r.random() < 0.4 and O:
                # a grid that is almost, but not exactly, the grid of an existing signal
                near = [a for a in range(len(E)) if any(self.near(E[a], p.times) for p in O)]
                if near:
                    ta = op["ta"] = r.choice(near)
            if c == 2 and self.fun_ok(E[op["ta"]]) and not self.fun_ok(E[op["ta"]], strict=True):
                op["fn"][0] = r.choice(["affine", "abs"])
                if frac(E[op["ta"]][1]) - frac(E[op["ta"]][0]) < Fraction(1, 64):
                    op["fn"][2] = q_of(0)      # tiny times: no constant term, values keep few bits
                    op["fn"][3] = q_of(0)
            if c == 2 and self.dec_ok(E[op["ta"]]):
                op["fn"] = [r.choice(["affine", "abs"]), q_of(r.choice([1, -1, 2, Fraction(1, 2)])), q_of(0), q_of(0)] + \
                    ([True] if r.random() < 0.3 else [])
                return op
            if c == 2 and not self.fun_ok(E[ta]):
                oks = [a for a in range(len(E)) if self.fun_ok(E[a])]
                if not oks:
                    return {"op": "newarr", "xs": [q_of(x) for x in self.grid("small") if True] or [q_of(0), q_of(1)]}
                op["ta"] = r.choice(oks)
            if c == 2 and len(E[op["ta"]]) < 2:
                return None
            self.int_types(op)
            return op
        i = r.randrange(len(O))
        o = O[i]
        kinds = ["copy", "add", "add", "add", "radd", "mul", "rmul", "imul", "div", "idiv", "with_times", "with_times",
                 "shift", "settype", "setbuf", "pokearr", "poketimes", "pokevals", "addmatch", "addmatch", "addnear", "addnear",
                 "emptyacc", "emptyacc"]
        k = r.choice(kinds)
        pend = getattr(self, "pending", None)
        if pend is not None and pend < len(O) and r.random() < 0.6:
            # a sum was just formed: re-grid it (mostly onto grids that are not contained in its own span)
            i, o, k = pend, O[pend], "with_times"
        self.pending = None
        if self.bias == "decimal" and r.random() < 0.5:
            fd = [j for j, p in enumerate(O) if self.is_dec(p)]
            if fd:
                i = r.choice(fd)
                o = O[i]
                k = r.choice(["with_times", "with_times", "setbuf", "copy", "imul", "mul"])
        if len(O) >= 10 and k in ("copy", "add", "addmatch", "addnear", "mul", "rmul", "div", "with_times"):
            k = r.choice(["imul", "idiv", "shift", "settype", "pokearr", "poketimes", "pokevals", "radd", "setbuf"])
        qform = r.choice(["float", "int", "np"])
        dec = self.is_dec(o)
        if dec and k in ("mul", "rmul", "imul", "div", "idiv"):
            # powers of two only: every value stays the exactly scaled float
            return {"op": k, "i": i, "q": q_of(r.choice([Fraction(2), Fraction(-1), Fraction(1, 2), Fraction(4), Fraction(1), Fraction(-2)])), "qform": qform}
        if dec and k == "shift":
            return {"op": "shift", "i": i, "q": q_of(0), "qform": "int" if self.int_times(o) else qform}
        if dec and k == "setbuf":
            dtf = float(o.times[1] - o.times[0])
            return {"op": "setbuf", "i": i, "lead": q_of(frac(r.choice([0, 1, 3, 5, 10]) * dtf)), "trail": q_of(frac(r.choice([0, 2, 3, 6]) * dtf))}
        if dec and k == "with_times":
            dto = float(o.times[1] - o.times[0])
            cands = []
            for a in range(len(E)):
                if not self.dec_ok(E[a]) or abs((E[a][1] - E[a][0]) - dto) > 1e-6 * dto:
                    continue
                if abs(E[a][0] - o.times[0]) > 60 * dto or abs(E[a][-1] - o.times[-1]) > 60 * dto:
                    continue
                if E[a][0] >= o.times[0] and E[a][-1] <= o.times[-1]:
                    # buffers = float differences: keep only windows where they are the exact differences
                    if frac(E[a][0] - o.times[0]) != frac(E[a][0]) - frac(o.times[0]) or \
                            frac(o.times[-1] - E[a][-1]) != frac(o.times[-1]) - frac(E[a][-1]):
                        continue
                cands.append(a)
            if not cands:
                return None
            wop = {"op": "with_times", "i": i, "ta": r.choice(cands), "aslist": r.random() < 0.15}
            self.int_types(wop)
            return wop
        if k in ("add", "addmatch"):
            # a sum involving a decimal-grid FunctionSignal on the same grid would add rounded numbers
            pass
        if k == "copy":
            return {"op": "copy", "i": i}
        def inexact_sum(a_, b_):
            """both on the same grid, one a decimal-grid FunctionSignal, the other not empty: the float sum rounds"""
            if not (len(a_.times) == len(b_.times) and np.array_equal(a_.times, b_.times)):
                return False
            return (self.is_dec(a_) and I.cls_of(b_)[0] != 1) or (self.is_dec(b_) and I.cls_of(a_)[0] != 1)
        if k == "add":
            j = r.randrange(len(O))
            return None if inexact_sum(o, O[j]) else {"op": "add", "i": i, "j": j}
        if k == "emptyacc":
            # an EmptySignal accumulator on the grid of an existing signal (`sum([EmptySignal(t), f, ...])`,
            # `w = EmptySignal(t); w += f`): create it, the additions follow through addmatch
            src = [p for p in O if isinstance(p.times, np.ndarray) and len(p.times)]
            funs = [p for p in src if self.is_fun(p)]
            p_ = r.choice(funs if funs and r.random() < 0.7 else src) if src else None
            if p_ is None:
                return None
            match = [a for a in range(len(E)) if len(E[a]) == len(p_.times) and np.array_equal(E[a], p_.times)]
            if not match:
                return {"op": "newarr", "xs": [q_of(frac(x)) for x in p_.times]}
            return {"op": "mk", "cls": 1, "sub": r.random() < 0.2, "ta": r.choice(match), "va": 0, "vt": r.choice([0, 0, p_.value_type.value]),
                    "vtform": "enum", "fn": ["affine", q_of(1), q_of(0), q_of(0)]}
        if k == "addmatch":
            # prefer a partner on the same grid so that additions are mostly accepted
            same = [j for j, p in enumerate(O) if len(p.times) == len(o.times) and np.array_equal(p.times, o.times)
                    and not inexact_sum(o, p)]
            if not same:
                return None
            empties = [j for j in same if I.cls_of(O[j])[0] == 1]
            j = r.choice(empties) if empties and r.random() < 0.45 else r.choice(same)
            # both operand orders: accumulator first (sum / +=) and accumulator last
            return {"op": "add", "i": j, "j": i} if r.random() < 0.5 else {"op": "add", "i": i, "j": j}
        if k == "addnear":
            # a partner whose grid differs minutely: must be refused, in either operand order
            nearj = [j for j, p in enumerate(O) if self.near(p.times, o.times)]
            if not nearj:
                return None
            j = r.choice(nearj)
            return {"op": "add", "i": i, "j": j} if r.random() < 0.5 else {"op": "add", "i": j, "j": i}
        if k == "radd":
            return {"op": "radd", "i": i, "k": r.choice([0, 0, 0, 1, -2])}
        if k in ("mul", "rmul", "imul"):
            q = self.scal()
            if self.vspan(o) > 30 or (self.is_fun(o) and max(span(f) for f in o._factors) > 16):
                q = r.choice([Fraction(1), Fraction(-1), Fraction(0)])
            return {"op": k, "i": i, "q": q_of(q), "qform": qform}
        if k in ("div", "idiv"):
            q = self.divisor()
            if self.vspan(o) > 30 or (self.is_fun(o) and max(span(f) for f in o._factors) > 16):
                q = Fraction(-1)
            return {"op": k, "i": i, "q": q_of(q), "qform": qform}
        if k == "with_times":
            c = I.cls_of(o)[0]
            if c == 0:
                if not (self.friendly(o.times) and self.vspan(o) <= 24) and len(o.times) > 0:
                    return None
                cands = [a for a in range(len(E)) if all(abs(frac(x) - frac(o.times[0])) < 2 ** 33 and frac(x).denominator <= 64 for x in E[a])] \
                    if len(o.times) else list(range(len(E)))
            elif c == 2:
                t = o.times
                dto = frac(t[1]) - frac(t[0])
                strict = self.has_quad(o)
                cands = []
                for a in range(len(E)):
                    if not self.fun_ok(E[a], strict=strict):
                        continue
                    dtn = frac(E[a][1]) - frac(E[a][0])
                    if dto > 0 and Fraction(1, 8) <= dtn / dto <= 8 and abs(frac(E[a][0]) - frac(t[0])) <= 40 * dtn and \
                            abs(frac(E[a][-1]) - frac(t[-1])) <= 40 * dtn:
                        cands.append(a)
                if r.random() < 0.1:
                    cands += [a for a in range(len(E)) if len(E[a]) == 0]
            else:
                cands = list(range(len(E)))
            if not cands:
                return None
            wop = {"op": "with_times", "i": i, "ta": r.choice(cands), "aslist": r.random() < 0.15}
            self.int_types(wop)
            return wop
        if k == "shift":
            q = Fraction(r.randint(-12, 12), r.choice([1, 1, 2, 4, 8]))
            if self.tspan(o.times) > 38:
                q = Fraction(r.randint(-4, 4))
            if self.is_fun(o) and (max(abs(frac(x)) for x in o.times) > 900 or max(span(x) for x in o._t0s) > 12):
                q = Fraction(0)
            if self.is_fun(o) and len(o.times) >= 2 and abs(frac(o.times[1]) - frac(o.times[0])) < Fraction(1, 64):
                q = Fraction(r.randint(-12, 12)) * abs(frac(o.times[1]) - frac(o.times[0]))   # shift by whole samples
            if any(Fraction(float(x) + float(q)) != frac(x) + q for x in o.times):
                q = Fraction(0)          # e.g. a grid with a one-ulp perturbation: the shifted times would round
            if self.int_times(o):
                # an integer time array cannot take a float in place (NumPy casting rule, not modelled): whole steps
                return {"op": "shift", "i": i, "q": q_of(Fraction(int(q))), "qform": "int"}
            return {"op": "shift", "i": i, "q": q_of(q), "qform": qform}
        if k == "settype":
            return {"op": "settype", "i": i, "vt": r.randrange(4), "vtform": r.choice(["enum", "int", "str", "none"])}
        if k == "setbuf":
            if not self.is_fun(o):
                return None
            dto = abs(frac(o.times[1]) - frac(o.times[0])) if len(o.times) >= 2 else Fraction(1)
            return {"op": "setbuf", "i": i, "lead": q_of(Fraction(r.randint(0, 12), r.choice([1, 2, 4])) * dto),
                    "trail": q_of(Fraction(r.randint(0, 12), r.choice([1, 2, 4])) * dto)}
        if k == "pokearr":
            a = r.randrange(len(E))
            n = len(E[a])
            kk = r.randrange(n + 1) if self.malformed or n == 0 else r.randrange(n)
            # keep grids usable for FunctionSignals: only move samples from index 2 on, or keep dt
            if kk < 2 and self.fun_ok(E[a]):
                kk = min(2, n - 1) if n > 2 else n + 5
            return {"op": "pokearr", "a": a, "k": kk, "q": q_of(Fraction(r.randint(-40, 40), r.choice([1, 2, 4])))}
        if k == "poketimes":
            n = len(o.times)
            kk = r.randrange(n + 1) if self.malformed or n == 0 else r.randrange(n)
            if self.is_fun(o):
                return None
            return {"op": "poketimes", "i": i, "k": kk,
                    "q": q_of(Fraction(r.randint(-40, 40), 1 if self.int_times(o) else r.choice([1, 2, 4])))}
        if k == "pokevals":
            if I.cls_of(o)[0] != 0:
                return None
            n = len(o.values)
            kk = r.randrange(n + 1) if self.malformed or n == 0 else r.randrange(n)
            return {"op": "pokevals", "i": i, "k": kk, "q": q_of(Fraction(r.randint(-40, 40), r.choice([1, 2, 4])))}
        return None


# ------------------------------------------------------------------ Coq side
def cq(q):
    n, d = q
    return "(Qmake (%d)%%Z %d%%positive)" % (n, d)


def cfn(fn):
    kind, a, b, c = fn[:4]
    if kind == "affine":
        return "(fun t : Q => %s * t + %s)" % (cq(a), cq(b))
    if kind == "quad":
        return "(fun t : Q => %s * (t * t) + %s)" % (cq(a), cq(b))
    return "(fun t : Q => %s * Qabs (t - %s) + %s)" % (cq(a), cq(c), cq(b))


VT_COQ = ["Undef", "Volt", "Field", "Power"]
CLS_COQ = ["Sig", "Empty", "Fun"]


def coq_op(op):
    k = op["op"]
    n = lambda x: "%d%%nat" % x
    if k == "newarr":
        return "ONewArr [%s]" % "; ".join(cq(q) for q in op["xs"])
    if k == "mk":
        return "OMk %s %s %s %s %s %s" % (CLS_COQ[op["cls"]], "true" if op["sub"] else "false", n(op["ta"]), n(op["va"]),
                                           cfn(op["fn"]), VT_COQ[op["vt"]])
    if k == "copy":
        return "OCopy %s" % n(op["i"])
    if k == "add":
        return "OAdd %s %s" % (n(op["i"]), n(op["j"]))
    if k == "radd":
        return "ORadd %s (%d)%%Z" % (n(op["i"]), op["k"])
    if k in ("mul", "rmul", "imul", "div", "idiv"):
        return "%s %s %s" % ({"mul": "OMul", "rmul": "ORmul", "imul": "OImul", "div": "ODiv", "idiv": "OIdiv"}[k], n(op["i"]), cq(op["q"]))
    if k == "with_times":
        return "OWithTimes %s %s" % (n(op["i"]), n(op["ta"]))
    if k == "shift":
        return "OShift %s %s" % (n(op["i"]), cq(op["q"]))
    if k == "settype":
        return "OSetType %s %s" % (n(op["i"]), VT_COQ[op["vt"]])
    if k == "setbuf":
        return "OSetBuffers %s %s %s" % (n(op["i"]), cq(op["lead"]), cq(op["trail"]))
    if k == "pokearr":
        return "OPokeArr %s %s %s" % (n(op["a"]), n(op["k"]), cq(op["q"]))
    if k == "poketimes":
        return "OPokeTimes %s %s %s" % (n(op["i"]), n(op["k"]), cq(op["q"]))
    if k == "pokevals":
        return "OPokeVals %s %s %s" % (n(op["i"]), n(op["k"]), cq(op["q"]))
    raise KeyError(k)


def coq_history(ops):
    return "trace false init [%s]" % "; ".join(coq_op(o) for o in ops)


def coq_compact(ops):
    return "compact_trace false [%s]" % "; ".join(coq_op(o) for o in ops)


def compact_diff(steps, parsed):
    """compare implementation steps with the model's compact trace: (k, id, checksum) per step and
    the complete final state.  Returns None or (step, text)."""
    hs, final = parsed
    if len(hs) != len(steps):
        return (min(len(hs), len(steps)), "trace lengths differ")
    for n, ((k, idv, h), (outc, obs)) in enumerate(zip(hs, steps)):
        if (k, idv) != tuple(outc):
            return (n, "result kind: implementation %s, model %s" % (outc, (k, idv)))
        if h != py_hash(obs):
            return (n, "state after the op differs (checksum)")
    if steps:
        fin = model_trace([(0, 0, final)])[0][1]
        d = first_diff([((0, 0), steps[-1][1])], [((0, 0), fin)])
        if d is not None:
            return (len(steps) - 1, d[1])
    return None


def parse_coq(s):
    s = s.replace(";", ",").replace("true", "True").replace("false", "False")
    return ast.literal_eval(s)


def canon_labels(extc, objc):
    m = {}
    def lab(c):
        if c not in m:
            m[c] = len(m)
        return m[c]
    return ([lab(c) for c in extc], [[lab(c) for c in h] for h in objc])


def model_trace(parsed):
    """convert the parsed Coq trace into the same shape as Impl.observe() per step"""
    steps = []
    for item in parsed:
        k, idv, st = item
        objs, exts, (extc, objc) = st
        mobjs = []
        for o in objs:
            c, sub, vt, times, vals, comps = o
            cl = []
            for cp in comps:
                # ((n,d),(n,d),(n,d),(n,d)) prints with the first pair flattened
                cl.append(((cp[0], cp[1]), tuple(cp[2]), tuple(cp[3]), tuple(cp[4])))
            mobjs.append((c, sub, vt, [tuple(x) for x in times], [tuple(x) for x in vals], cl))
        steps.append(((k, idv), (mobjs, [[tuple(x) for x in a] for a in exts], canon_labels(list(extc), [list(h) for h in objc]))))
    return steps


# ------------------------------------------------------------------ running one history
def snapshot(impl, gen):
    O = impl.objs
    snap = {"times": [], "values": [], "vt": [], "cls": [], "clsname": [type(o).__name__ for o in impl.objs], "strict": [], "fns": [],
            "bufs": [], "ext": [fr_list(a) for a in impl.ext]}
    for i, o in enumerate(O):
        t = fr_list(o.times) if isinstance(o.times, np.ndarray) else None
        snap["times"].append(t)
        try:
            snap["values"].append(fr_list(o.values))
        except Exception:
            snap["values"].append(None)
        snap["vt"].append(o.value_type.value)
        snap["cls"].append(impl.cls_of(o)[0])
        snap["strict"].append(t is not None and len(t) >= 1 and all(a < b for a, b in zip(t, t[1:])))
        snap["bufs"].append([(frac(b[0]), frac(b[1])) for b in o._buffers] if impl.cls_of(o)[0] == 2 else None)
        if impl.cls_of(o)[0] == 2:
            snap["fns"].append([(gen.fns.get(id(f), None), frac(t0), frac(fac)) for f, t0, fac in zip(o._functions, o._t0s, o._factors)])
        else:
            snap["fns"].append(None)
    return snap


def execute(ops_or_gen, rng=None, max_ops=30, malformed=False, fixed_ops=None, bias=None):
    """Run a history on the implementation.  Either generate (fixed_ops None) or replay fixed_ops.
    Returns (ops, per-step [(outcode, observation)], oracle complaints [(step, text)])."""
    impl = Impl()
    gen = Gen(rng, impl, max_ops, malformed, bias) if fixed_ops is None else Gen(None, impl, 0)
    ops, steps, complaints = [], [], []
    sem = Sem()
    gen.sem = sem
    tries = 0
    while (len(ops) < max_ops if fixed_ops is None else len(ops) < len(fixed_ops)):
        if fixed_ops is None:
            tries += 1
            if tries > max_ops * 6:
                break
            try:
                op = gen.pick()
            except (IndexError, ValueError):
                op = None
            if op is None:
                continue
        else:
            op = fixed_ops[len(ops)]
        before = snapshot(impl, gen)
        # remember which python function object belongs to which spec (for the oracle)
        if op["op"] == "poketimes" and 0 <= op["i"] < len(sem.s) and sem.s[op["i"]]["k"] == "fun":
            outc = (4, 0)      # writing into the times array is not a public operation on a function-backed signal
        elif op["op"] == "pokevals" and 0 <= op["i"] < len(sem.s) and sem.s[op["i"]]["k"] in ("fun", "empty"):
            outc = (4, 0)      # nor is writing into the values of a function-backed or empty signal
        else:
            outc = impl.step(op)
        if op["op"] == "mk" and op["cls"] == 2 and outc[0] == 0:
            f = impl.objs[outc[1]]._functions[0]
            gen.fns[id(f)] = tuple(op["fn"])
            gen.keep = getattr(gen, "keep", []) + [f]
        ops.append(op)
        if op["op"] == "add" and outc[0] == 0:
            gen.pending = outc[1]
        obs = impl.observe()
        steps.append((outc, obs))
        try:
            sem_before = sem.snapshot()
            sem.update(op, outc)
            if all(all(f[0] is not None for f in fl) for fl in before["fns"] if fl):
                for c in oracle(impl, op, before, outc, gen.fns, sem_before, sem.s):
                    complaints.append((len(ops) - 1, c))
        except Exception as e:   # an oracle crash must not hide a model comparison
            complaints.append((len(ops) - 1, "oracle raised %s: %s" % (type(e).__name__, e)))
    return ops, steps, complaints


def first_diff(impl_steps, model_steps):
    for s, (a, b) in enumerate(zip(impl_steps, model_steps)):
        if a[0] != b[0]:
            return s, "result kind: implementation %s, model %s" % (a[0], b[0])
        io, ie, ish = a[1]
        mo, me, msh = b[1]
        if len(io) != len(mo):
            return s, "number of live objects %d vs %d" % (len(io), len(mo))
        for i, (x, y) in enumerate(zip(io, mo)):
            names = ["class", "subclass flag", "value type", "times", "values", "components"]
            for f in range(6):
                xv = x[f] if not isinstance(x[f], list) else [tuple(e) for e in x[f]]
                yv = y[f] if not isinstance(y[f], list) else [tuple(e) for e in y[f]]
                if xv != yv:
                    return s, "object %d %s: implementation %s, model %s" % (i, names[f], str(xv)[:300], str(yv)[:300])
        if [[tuple(e) for e in a_] for a_ in ie] != [[tuple(e) for e in a_] for a_ in me]:
            return s, "caller-held arrays differ: implementation %s, model %s" % (str(ie)[:300], str(me)[:300])
        ish = sharing_struct(ish)
        if (list(ish[0]), [list(h) for h in ish[1]]) != (list(msh[0]), [list(h) for h in msh[1]]):
            return s, "memory sharing pattern: implementation %s, model %s" % (ish, msh)
    if len(impl_steps) != len(model_steps):
        return min(len(impl_steps), len(model_steps)), "trace lengths differ"
    return None


def describe(op):
    return json.dumps(op, sort_keys=True)


def key_of(ops, step):
    """stable key of a failing history: the op kinds up to the failing step"""
    return "hist:" + ",".join(o["op"] for o in ops[:step + 1])[-160:]


def shrink(ops, still_fails, budget=40):
    """drop ops while the failure persists (indices in later ops are renumbered implicitly by
    re-running: an op that refers to a missing object simply raises / is skipped, so we only keep a
    candidate when it still fails in the same way)"""
    cur = list(ops)
    i = len(cur) - 1
    while i >= 0 and budget > 0:
        cand = cur[:i] + cur[i + 1:]
        budget -= 1
        try:
            if cand and still_fails(cand):
                cur = cand
        except Exception:
            pass
        i -= 1
    return cur


# ------------------------------------------------------------------ fixed / exhaustive cases
def exhaustive_pairs():
    """operand class x value type pairs: (3 classes x 2 sub flags) x 4 types, squared, each as one
    short history ending in an addition, followed by scaling, copy and in-place writes"""
    hs = []
    combos = [(c, sub, vt) for c in range(3) for sub in (False, True) for vt in range(4)]
    for (c1, s1, v1), (c2, s2, v2) in itertools.product(combos, combos):
        if s1 and s2:
            continue
        fn1 = ["affine", [2, 1], [1, 1], [0, 1]]
        fn2 = ["abs", [1, 1], [-1, 2], [1, 1]]
        ops = [{"op": "newarr", "xs": [[0, 1], [1, 2], [1, 1], [3, 2]]},
               {"op": "newarr", "xs": [[3, 1], [-1, 2], [4, 1]]},
               {"op": "mk", "cls": c1, "sub": s1, "ta": 0, "va": 1, "vt": v1, "fn": fn1, "vtform": "enum"},
               {"op": "mk", "cls": c2, "sub": s2, "ta": 0, "va": 0, "vt": v2, "fn": fn2, "vtform": "str"},
               {"op": "add", "i": 0, "j": 1},
               {"op": "add", "i": 1, "j": 0},
               # both sums re-gridded onto a grid that is wider and finer than their own
               {"op": "newarr", "xs": [[-1, 2], [0, 1], [1, 4], [1, 2], [1, 1], [5, 4], [3, 2], [2, 1]]},
               {"op": "with_times", "i": 2, "ta": 2},
               {"op": "with_times", "i": 3, "ta": 2},
               {"op": "poketimes", "i": 2, "k": 3, "q": [9, 1]},
               {"op": "pokearr", "a": 0, "k": 2, "q": [5, 4]},
               {"op": "pokevals", "i": 2, "k": 0, "q": [7, 1]},
               {"op": "imul", "i": 2, "q": [3, 2], "qform": "float"},
               {"op": "shift", "i": 3, "q": [1, 2], "qform": "float"},
               {"op": "radd", "i": 2, "k": 0},
               {"op": "add", "i": 2, "j": 3}]
        hs.append(ops)
    return hs


def exhaustive_near():
    """every operand-class pair on two grids of equal length that differ minutely (nanosecond grids shifted by
    half a sample / one sample / 2^-50 s, near 1 ms; for sampled signals also one ulp in one sample and tiny
    non-uniformity): the sum must be refused in both operand orders, and accepted on the exactly equal grid"""
    hs = []
    ns = Fraction(1, 2 ** 30)
    A = [i * ns for i in range(5)]
    ms = [Fraction(1, 2 ** 10) + i * ns for i in range(5)]
    sec = [Fraction(i, 2) for i in range(5)]
    ulp = lambda x: Fraction(float(np.nextafter(float(x), float("inf"))))
    variants = [("half-sample", A, [x + ns / 2 for x in A], True), ("one-sample", A, [x + ns for x in A], True),
                ("2^-50", A, [x + Fraction(1, 2 ** 50) for x in A], True),
                ("1ms-half-sample", ms, [x + ns / 2 for x in ms], True),
                ("1ms-2^-40", ms, [x + Fraction(1, 2 ** 40) for x in ms], True),
                ("ulp-one-sample", A, A[:3] + [ulp(A[3])] + A[4:], False),
                ("ulp-seconds", sec, sec[:2] + [ulp(sec[2])] + sec[3:], False),
                ("seconds-2^-30", sec, [x + Fraction(1, 2 ** 30) for x in sec], False),
                ("non-uniform", A, [A[0], A[1] + ns / 1024, A[2], A[3] - ns / 512, A[4]], False)]
    for name, g1, g2, fun_too in variants:
        for c1 in range(3):
            for c2 in range(3):
                if (c1 == 2 or c2 == 2) and not fun_too:
                    # a FunctionSignal needs a regular grid with few bits; it sits on the unperturbed grid
                    if c2 == 2:
                        continue
                fn = ["affine", [2, 1], [0, 1], [0, 1]]
                hs.append([{"op": "newarr", "xs": [q_of(x) for x in g1]},
                           {"op": "newarr", "xs": [q_of(x) for x in g2]},
                           {"op": "newarr", "xs": [[3, 1], [-1, 2], [4, 1], [1, 1], [2, 1]]},
                           {"op": "mk", "cls": c1, "sub": False, "ta": 0, "va": 2, "vt": 1, "fn": fn, "vtform": "enum"},
                           {"op": "mk", "cls": c2, "sub": c1 == c2, "ta": 1, "va": 2, "vt": 0, "fn": fn, "vtform": "enum"},
                           {"op": "mk", "cls": c2 if c2 != 2 or fun_too else 0, "sub": False, "ta": 0, "va": 2, "vt": 1, "fn": fn, "vtform": "enum"},
                           {"op": "add", "i": 0, "j": 1},
                           {"op": "add", "i": 1, "j": 0},
                           {"op": "add", "i": 0, "j": 2},
                           {"op": "add", "i": 2, "j": 0}])
    return hs


def regrid_suite():
    """every source class x every relation between the source grid and the target grid (same grid; same length
    and end points but other interior samples; contained; wider; finer; disjoint on either side; one point; empty;
    half a sample off), for dyadic grids and -- function-backed signals -- decimal-step grids with windows starting
    k samples inside the source (written independently as np.linspace between round decimals) and set_buffers(k*dt);
    vectorised and non-vectorisable backing functions, before and after a shift"""
    F = Fraction
    hs = []
    src = [F(0), F(1), F(2), F(4), F(5)]
    usrc = [F(0), F(1, 2), F(1), F(3, 2), F(2), F(5, 2)]
    vals = [F(3), F(-1, 2), F(4), F(1), F(2), F(-3)]
    def targets(g):
        lo, hi = g[0], g[-1]
        inner = sorted(set([lo, hi] + [lo + (hi - lo) * F(k, 8) for k in (1, 3, 6)] ))
        same_ends = [lo] + [x + F(1, 4) for x in g[1:-1]] + [hi]
        return [list(g), same_ends, [g[1], g[1] + F(1, 4), g[2], g[-2]], [lo - 1, lo] + list(g[1:]) + [hi + F(1, 2), hi + 2],
                inner, [lo - 3, lo - 2, lo - F(3, 2)], [hi + F(1, 2), hi + 1], [g[2]], [], [x + F(1, 4) for x in g]]
    for cls in range(3):
        for sub in (False, True):
            g = usrc if cls == 2 else src
            for fnv in ([["affine", [2, 1], [1, 1], [0, 1]], ["abs", [1, 1], [-1, 2], [1, 1], True], ["quad", [1, 1], [0, 1], [0, 1], True]] if cls == 2 else [None]):
                ops = [{"op": "newarr", "xs": [q_of(x) for x in g]}, {"op": "newarr", "xs": [q_of(x) for x in vals[:len(g)]]},
                       {"op": "mk", "cls": cls, "sub": sub, "ta": 0, "va": 1, "vt": 1, "vtform": "enum",
                        "fn": fnv or ["affine", [1, 1], [0, 1], [0, 1]]}]
                for n_t, t in enumerate(targets(g)):
                    if cls == 2 and len(t) < 2 and len(t) != 0:
                        continue
                    ops.append({"op": "newarr", "xs": [q_of(x) for x in t]})
                    ops.append({"op": "with_times", "i": 0, "ta": 2 + n_t if not (cls == 2) else len([o for o in ops if o["op"] == "newarr"]) - 1})
                # the same after a shift of the source by 3/4 (function-backed: the time origin moves along)
                ops.append({"op": "shift", "i": 0, "q": [3, 4], "qform": "float"})
                ops.append({"op": "with_times", "i": 0, "ta": 0})
                ops.append({"op": "with_times", "i": 0, "ta": 2})
                hs.append(ops)
    # decimal steps (function-backed, rounding-free functions a*t / a*|t|)
    for dt, j0, n in ((0.1, -10, 19), (0.2, -5, 17), (1e-9, -10, 19)):
        srcg = np.linspace(float(np.round(j0 * dt, 14)), float(np.round((j0 + n - 1) * dt, 14)), n)
        for fnv in (["affine", [1, 1], [0, 1], [0, 1]], ["abs", [2, 1], [0, 1], [0, 1], True]):
            ops = [{"op": "newarr", "xs": [q_of(frac(x)) for x in srcg]},
                   {"op": "mk", "cls": 2, "sub": False, "ta": 0, "va": 0, "vt": 0, "vtform": "enum", "fn": fnv}]
            na = 1
            for k0 in (3, 5, 6, 10):
                m = n - k0 - 2
                if m < 3:
                    continue
                win = np.linspace(float(np.round((j0 + k0) * dt, 14)), float(np.round((j0 + k0 + m - 1) * dt, 14)), m)
                if frac(win[0] - srcg[0]) != frac(win[0]) - frac(srcg[0]) or frac(srcg[-1] - win[-1]) != frac(srcg[-1]) - frac(win[-1]) \
                        or win[0] < srcg[0] or win[-1] > srcg[-1]:
                    continue        # the buffers would not be the exact differences
                ops.append({"op": "newarr", "xs": [q_of(frac(x)) for x in win]})
                ops.append({"op": "with_times", "i": 0, "ta": na})
                na += 1
            for k in (3, 5):
                ops.append({"op": "copy", "i": 0})
                ncopy = 1 + sum(1 for o in ops if o["op"] in ("with_times", "copy")) - 1
                ops.append({"op": "setbuf", "i": ncopy, "lead": q_of(frac(k * dt)), "trail": q_of(frac(2 * dt))})
            hs.append(ops)
    return hs


def constructor_suite():
    """constructor pad / truncate branches x argument typings (float array, list, int array, list of ints) for the
    time grid and for the values (integer-typed values where they are shorter than the grid), each followed by a copy,
    a whole-sample shift and a sum with itself"""
    hs = []
    grid = [[k, 1] for k in range(-2, 4)]
    for vals in ([[1, 2], [-3, 4], [5, 2]], [[7, 1], [-2, 1]], [[1, 4]] * 6, [[1, 2]] * 8, []):
        for ttype in (None, "list", "int", "intlist"):
            for vtype in (None, "list") + (("int", "intlist") if all(v[1] == 1 for v in vals) and len(vals) < len(grid) and vals else ()):
                op = {"op": "mk", "cls": 0, "sub": False, "ta": 0, "va": 1, "vt": 1, "vtform": "enum", "fn": ["affine", [1, 1], [0, 1], [0, 1]]}
                if ttype:
                    op["ttype"] = ttype
                if vtype:
                    op["vtype"] = vtype
                hs.append([{"op": "newarr", "xs": grid}, {"op": "newarr", "xs": vals}, op, {"op": "copy", "i": 0},
                           {"op": "shift", "i": 0, "q": [2, 1], "qform": "int"}, {"op": "add", "i": 1, "j": 1},
                           {"op": "mk", "cls": 2, "sub": False, "ta": 0, "va": 0, "vt": 0, "vtform": "enum", "fn": ["affine", [1, 2], [1, 1], [0, 1]],
                            **({"ttype": ttype} if ttype else {})},
                           {"op": "mk", "cls": 1, "sub": False, "ta": 0, "va": 0, "vt": 0, "vtform": "enum", "fn": ["affine", [1, 2], [1, 1], [0, 1]],
                            **({"ttype": ttype} if ttype else {})}])
    return hs


def copy_suite():
    """copies and everything built on copies (EmptySignal + s in both orders, sum([...]), scaling) on ANY grid the
    constructor accepts: descending, unsorted, repeated samples, a single sample, negative / huge times"""
    F = Fraction
    grids = {"descending": [F(3), F(2), F(1), F(0)], "unsorted": [F(1), F(-2), F(5, 2), F(0), F(7)],
             "repeated": [F(0), F(0), F(1), F(1), F(2)], "single": [F(-3, 2)], "descending-2": [F(1), F(-1)],
             "huge-descending": [F(2 ** 30 + 2), F(2 ** 30), F(-2 ** 20)]}
    hs = []
    for name, g in grids.items():
        vals = [F(5, 2), F(-1), F(4), F(1, 4), F(-3)][:len(g)]
        for vt in (0, 2):
            hs.append([{"op": "newarr", "xs": [q_of(x) for x in g]}, {"op": "newarr", "xs": [q_of(x) for x in vals]},
                       {"op": "mk", "cls": 0, "sub": False, "ta": 0, "va": 1, "vt": vt, "vtform": "enum", "fn": ["affine", [1, 1], [0, 1], [0, 1]]},
                       {"op": "mk", "cls": 1, "sub": False, "ta": 0, "va": 1, "vt": 0, "vtform": "enum", "fn": ["affine", [1, 1], [0, 1], [0, 1]]},
                       {"op": "copy", "i": 0}, {"op": "copy", "i": 1},
                       {"op": "add", "i": 1, "j": 0}, {"op": "add", "i": 0, "j": 1}, {"op": "add", "i": 1, "j": 1},
                       {"op": "radd", "i": 1, "k": 0}, {"op": "add", "i": 4, "j": 2},
                       {"op": "mul", "i": 4, "q": [3, 2], "qform": "float"}, {"op": "copy", "i": 7},
                       {"op": "pokevals", "i": 2, "k": 0, "q": [9, 1]}, {"op": "shift", "i": 4, "q": [1, 2], "qform": "float"}])
    return hs


def load_corpus():
    d = os.path.join(common.ROOT, "corpus", "C04")
    out = []
    if os.path.isdir(d):
        for f in sorted(os.listdir(d)):
            if f.endswith(".json"):
                out.append(json.load(open(os.path.join(d, f)))["ops"])
    return out


# ------------------------------------------------------------------ check entry points
def run(ctx):
    ctx.rule = ("op histories (<= 30 ops: newarr, Signal/EmptySignal/FunctionSignal (+subclass) construction with "
                "padding/truncation, copy, add, 0+s, k+s, mul/rmul/imul/div/idiv, with_times, shift, value_type "
                "assignment, set_buffers, in-place writes into argument / times / values arrays) generated while "
                "executing on real pyrex objects from the seeded PRNG; exact dyadic data; compared after every op "
                "with the vm_compute trace of Model/SignalModel.v (result kind, every object, every caller array, "
                "np.shares_memory pattern); exhaustive operand class x subclass x value type pairs; malformed "
                "stream: out-of-range writes, empty grids, k+s with k<>0; realistic nanosecond grids (dt 2^-30 s, near 0 and near "
                "1 ms) and minutely differing twins of grids in use (one ulp in one sample, 2^-20 dt shift, half / one sample, "
                "tiny non-uniformity) with additions across them in both orders, exhaustively for every operand-class pair; non-trivial = distinct op-kind sequences")
    ctx.trusted += ["Coq 8.16.1 kernel; vm_compute for the model traces",
                    "harness/props/c04.py: executor, observation (np.shares_memory, id() of component lists), Fraction oracle",
                    "NumPy float64 arithmetic is exact on the generated dyadic data (magnitudes bounded by the generator)"]
    ctx.assumptions += [
        "value arrays are float arrays (integer dtype promotion rules of in-place operators are not modelled)",
        "scaling arguments are numbers (scalars); division by zero is outside the model",
        "re-gridding a sampled signal is specified for strictly increasing original times (np.interp precondition)",
        "FunctionSignal grids have at least two samples with non-zero spacing (values needs dt); resample, envelope, "
        "filter_frequencies are not part of this property's model",
        "the five component lists of a FunctionSignal are modelled by value; their identity is checked on the Python side only"]
    ok = ctx.coq_build("C04")
    rng = ctx.rng
    histories = []          # (tag, ops, impl_steps, complaints)
    for ops in load_corpus():
        o, st, comp = execute(None, fixed_ops=ops)
        histories.append(("corpus", o, st, comp))
    ex = exhaustive_pairs()
    if not ctx.thorough:
        # quick tier: a deterministic third of the pairs (rotating with the seed) + all same-class pairs
        ex = [h for n, h in enumerate(ex) if n % 3 == ctx.seed % 3 or h[2]["cls"] == h[3]["cls"]]
    for ops in ex:
        o, st, comp = execute(None, fixed_ops=ops)
        histories.append(("pairs", o, st, comp))
    for ops in regrid_suite():
        o, st, comp = execute(None, fixed_ops=ops)
        histories.append(("regrid-suite", o, st, comp))
    for ops in copy_suite():
        o, st, comp = execute(None, fixed_ops=ops)
        histories.append(("copy-suite", o, st, comp))
    for ops in constructor_suite():
        o, st, comp = execute(None, fixed_ops=ops)
        histories.append(("constructor-suite", o, st, comp))
    near = exhaustive_near()
    n_refused = 0
    for ops in near:
        o, st, comp = execute(None, fixed_ops=ops)
        histories.append(("near-grids", o, st, comp))
        n_refused += sum(1 for s_ in st[6:8] if s_[0] == (3, 0))
    ctx.oblige("corr:minutely-different-grids-refused", n_refused == 2 * len(near),
               "%d of %d sums over minutely different grids were refused" % (n_refused, 2 * len(near)))
    ctx.extra["near_equal_grid_pairs"] = {"histories": len(near), "refused_sums": n_refused, "expected_refused": 2 * len(near)}
    n_rand = ctx.n(70, 3500)
    for n in range(n_rand):
        biased = (n % 4 == 1)
        o, st, comp = execute(None, rng=rng, max_ops=rng.choice([10, 18] if biased else [8, 15, 30, 30]), malformed=(n % 6 == 5),
                              bias=("decimal" if biased else None))
        histories.append(("random", o, st, comp))
    # model side
    exprs = [coq_compact(h[1]) for h in histories]
    traces = None
    try:
        vals = ctx.coq_eval_exprs(IMPORTS, exprs, chunk=max(20, len(exprs) // 8 + 1))
        traces = [parse_coq(v) for v in vals]
        ctx.oblige("corr:model-evaluated", True)
    except Exception as e:
        ctx.oblige("corr:model-evaluated", False, str(e)[-1500:])
    kinds, errs, sizes, nontriv = {}, {}, {}, 0
    disagreements = 0
    for n, (tag, ops, steps, complaints) in enumerate(histories):
        for o_, s_ in zip(ops, steps):
            kinds[o_["op"]] = kinds.get(o_["op"], 0) + 1
            if s_[0][0] == 3:
                errs[str(s_[0])] = errs.get(str(s_[0]), 0) + 1
        sizes[len(ops)] = sizes.get(len(ops), 0) + 1
        ctx.case(key=tuple((o_["op"], o_.get("cls"), o_.get("vt")) for o_ in ops), nontrivial=len(ops) > 3,
                 sample={"tag": tag, "ops": ops[:12]} if n % 97 == 0 else None)
        d = compact_diff(steps, traces[n]) if traces is not None else None
        n_wit = sum(1 for f_ in ctx.failures if f_["witness"])
        n_nowit = len(ctx.failures) - n_wit
        if (complaints and n_wit >= 4) or (not complaints and d is not None and n_nowit >= 2):
            # enough recorded (room is kept for failures with a witness): only count the rest
            disagreements += 1 if d is not None else 0
            continue
        if d is not None and len(ctx.failures) < 2:
            # full trace for the report
            try:
                full = model_trace(parse_coq(ctx.coq_eval_exprs(IMPORTS, [coq_history(ops)])[0]))
                d = first_diff(steps, full) or d
            except Exception:
                pass
        if complaints:
            step, text = complaints[0]
            small = minimise(ops, "oracle")
            ctx.fail(key_of(small, len(small) - 1) + "|" + text[:60], "after %s: %s" % (describe(ops[step])[:200], text),
                     {"kind": "history", "ops": small, "judged": "property oracle", "complaint": text}, witness=True)
        if d is not None:
            disagreements += 1
            step, text = d
            small = minimise(ops, "model") if not complaints else ops[:step + 1]
            # a model/implementation difference is a violation with witness when the property oracle
            # also objects on the minimised history; otherwise it is a broken correspondence
            _, _, comp2 = execute(None, fixed_ops=small)
            # witness only when the property oracle objects on this history too; a pure model/code
            # difference is a broken correspondence (reported without failing input)
            ctx.fail(key_of(small, len(small) - 1) + "|corr", "implementation and model differ at step %d (%s): %s" % (
                step, describe(ops[step])[:160], text),
                {"kind": "history", "ops": small, "judged": "model", "difference": text}, witness=bool(comp2))
    ctx.oblige("corr:histories-agree", disagreements == 0 and traces is not None,
               "%d of %d histories differ" % (disagreements, len(histories)))
    ctx.extra["correspondence"] = {"histories": len(histories), "disagreements": disagreements,
                                   "op_kinds": kinds, "error_kinds": errs, "history_lengths": sizes,
                                   "exhaustive_pairs": len(ex), "near_equal_grid_histories": len(near), "tolerance": "exact (dyadic rationals)"}
    ctx.extra["search"] = {"ran": True, "oracle": "property text with Fractions: one value per sample, no shared arrays/"
                           "lists between result and operands/arguments, pointwise sum, type table, scaling, exact "
                           "np.interp rule, exact function re-evaluation", "evaluations": sum(len(h[1]) for h in histories)}


def minimise(ops, mode):
    if mode != "oracle":
        return ops
    _, _, comp0 = execute(None, fixed_ops=ops)
    if not comp0:
        return ops
    text0 = comp0[0][1]

    def fails(cand):
        o, st, comp = execute(None, fixed_ops=cand)
        if any(s_[0] == (4, 0) for s_ in st):
            return False
        return bool(comp) and comp[0][1] == text0
    return shrink(ops, fails)


def replay(ctx, obj):
    if obj.get("kind") != "history":
        print("nothing to replay:", json.dumps(obj)[:500])
        return 0
    ops = obj["ops"]
    o, steps, complaints = execute(None, fixed_ops=ops)
    print("history (%d ops):" % len(ops))
    for n, op in enumerate(ops):
        print("  %2d %s -> implementation %s" % (n, describe(op)[:150], steps[n][0]))
    for step, c in complaints:
        print("PROPERTY ORACLE at step %d: %s" % (step, c))
    try:
        vals = ctx.coq_eval_exprs(IMPORTS, [coq_history(ops)])
        mt = model_trace(parse_coq(vals[0]))
        d = first_diff(steps, mt)
        print("model outcome codes:", [m[0] for m in mt])
        print("model vs implementation:", "agree" if d is None else "DIFFER at step %d: %s" % d)
    except Exception as e:
        d = ("?", str(e)[-300:])
        print("model could not be evaluated:", d[1])
    return 1 if (complaints or d is not None) else 0
