#!/usr/bin/env python3
import json, glob, os
ROOT = os.path.dirname(os.path.dirname(os.path.abspath(__file__)))
for d in sorted(glob.glob(os.path.join(ROOT, "seeded", "C*_*m*"))):
    p = os.path.join(d, "detect.json")
    name = os.path.basename(d)
    if not os.path.exists(p):
        print(name, "NOT RUN"); continue
    for k, v in json.load(open(p)).items():
        print(name, k, "detected" if v["detected"] else "MISSED", "witness" if v["witness"] else "no-witness", v["wall_s"], v["summary"][:90])
