"""C07: Askaryan pulses obey their scaling laws and fail gracefully (ZHS, AVZ, ARZ models)."""
import importlib
import json
import math
import os
import sys
from types import SimpleNamespace as NS

import numpy as np

from harness import common, realextract as rx
from harness.common import REPO, ROOT

sys.path.insert(0, os.path.join(ROOT, "tools"))
PIN_FILE = os.path.join(ROOT, "harness", "pins", "C07.json")
EPS = 2.0 ** -52
MODELS = ("ZHS", "AVZ", "ARZ")


def gen_files(scratch):
    import gen_askaryan
    importlib.reload(gen_askaryan)
    text, side = gen_askaryan.generate(REPO)
    return {"Gen_askaryan": text}, side


# ---------------------------------------------------------------------------- implementation access
def cls_of(model):
    import pyrex.askaryan as ask
    return {"ZHS": ask.ZHSAskaryanSignal, "AVZ": ask.AVZAskaryanSignal, "ARZ": ask.ARZAskaryanSignal}[model]


class FixedIce:
    """Stub ice model: the classes use only ice_model.index(depth)."""
    def __init__(self, n):
        self.n = n

    def index(self, z):
        return self.n


def particle(E, em, had, depth=-1000.0):
    return NS(energy=E, vertex=np.array([0.0, 0.0, depth]), id=None, interaction=NS(em_frac=em, had_frac=had))


def impl_values(case, **over):
    """Run the real class on a case dict (optionally with overridden fields); returns ndarray or raises."""
    c = dict(case, **over)
    times = np.asarray(c["times"], dtype=float)
    with np.errstate(all="ignore"):
        sig = cls_of(c["model"])(times, particle(c["E"], c["em"], c["had"]), c["psi"], c["R"],
                                 ice_model=FixedIce(c["n"]), t0=c["t0"])
        return np.array(sig.values, dtype=float)


def theta_c(n):
    return float(np.arccos(1 / n))


# ---------------------------------------------------------------------------- case generation
DT_CHOICES = [2.0 ** -30, 2.0 ** -31, 3 * 2.0 ** -32, 2.0 ** -29, 5 * 2.0 ** -33]   # 0.93, 0.47, 0.70, 1.86, 0.58 ns (dyadic)


def dyadic_grid(rng, N=None, dt=None):
    """Time grid whose entries, and every difference used by the code, are exact in binary64."""
    dt = dt or rng.choice(DT_CHOICES)
    N = N or rng.choice([rng.randint(8, 64), rng.randint(65, 256), 64, 128, 255, 256, 33])
    i0 = rng.randint(-300, 300)
    return [(i0 + i) * dt for i in range(N)], dt, i0


def rand_energy(rng, lo=3.0, hi=12.0):
    while True:
        e = rng.uniform(lo, hi)
        # stay off the branch points of the AVZ hadronic width (log10(E_had/1e3) in {0,2,5,7}) -- see fragile()
        return float(10 ** e)


def rand_fracs(rng):
    k = rng.random()
    if k < 0.15:
        return 1.0, 0.0
    if k < 0.3:
        return 0.0, 1.0
    if k < 0.4:
        y = 2.0 ** -rng.randint(1, 6)
        return 1.0 - y, y
    y = rng.uniform(0.02, 0.98)
    return (1.0 - y, y) if rng.random() < 0.6 else (0.0, y)


def rand_angle(rng, n, model, wide=False):
    tc = theta_c(n)
    k = rng.random()
    if k < 0.15:
        th = tc                                   # exactly on the cone (ARZ: RAC branch)
    elif k < 0.75 or not wide:
        d = rng.choice([-1, 1]) * 10 ** rng.uniform(-2.0, -0.7)     # 0.01 .. 0.2 rad off the cone
        th = tc + d
    else:
        th = rng.uniform(0.05, math.pi - 0.05)
        if abs(th - tc) < 0.01:
            th = tc + 0.01
    return float(th if rng.random() < 0.6 else -th)


def rand_case(rng, model, Nmax=256, wide=False, inside=True):
    times, dt, i0 = dyadic_grid(rng)
    if len(times) > Nmax:
        times = times[:Nmax]
    N = len(times)
    n = rng.choice([1.78, 1.35, 1.5, float(rng.uniform(1.3, 1.8))])
    em, had = rand_fracs(rng)
    E = rand_energy(rng)
    if inside:
        k = rng.randint(N // 8, N - 1 - N // 8)
    else:
        k = rng.choice([rng.randint(-N - N // 2 - 5, 2 * N + N // 2 + 5), rng.randint(-3, 3), N + rng.randint(-3, 3)])
    frac = rng.choice([0.0, 0.0, 0.5, 0.25, 0.875, 0.125])
    t0 = times[0] + (k + frac) * dt
    return {"model": model, "times": times, "dt": dt, "E": E, "em": em, "had": had, "psi": rand_angle(rng, n, model, wide),
            "R": float(rng.choice([1.0, 100.0, 737.5, rng.uniform(1, 5000)])), "n": n, "t0": float(t0)}


# ---------------------------------------------------------------------------- model execution (floats)
def ol(xs):
    return "[" + "; ".join(rx.ocf(x) for x in xs) + "]"


def zlit(k):
    """OCaml expression of a Coq Z."""
    return "(M.Z.of_nat (nat_of_int %d))" % k if k >= 0 else "(M.Z.opp (M.Z.of_nat (nat_of_int %d)))" % (-k)


OC_PRE = r'''
let rec nat_of_int n = if n <= 0 then M.O else M.S (nat_of_int (n - 1))
let prl scale l = Printf.printf "%h" scale; List.iter (fun x -> Printf.printf " %h" x) l; print_newline ()
'''

MODEL_FUNS = ["zhs_values", "zhs_scale", "avz_values", "avz_scale", "arz_values", "arz_scale", "shower_signal", "shower_scale",
              "ARZAskaryanSignal_em_shower_RAC", "ARZAskaryanSignal_had_shower_RAC", "ARZ_em_shower_profile_default",
              "ARZ_had_shower_profile_default", "ARZ_max_length_default", "ARZAskaryanSignal_em_shower_profile",
              "ARZAskaryanSignal_had_shower_profile", "ARZAskaryanSignal_max_length", "ARZAskaryanSignal_oncone_range",
              "AVZ_tmp", "ZHS_e_omega", "Z.of_nat", "Z.opp"]


def model_call(c):
    t = ol(c["times"])
    f = rx.ocf
    emE, hadE = c["E"] * c["em"], c["E"] * c["had"]
    if c["model"] == "ZHS":
        en = c["E"] * (c["em"] + c["had"])
        return "prl (M.zhs_scale %s %s %s %s %s) (M.zhs_values %s %s %s %s %s %s)" % (
            t, f(en), f(c["R"]), f(c["psi"]), f(c["n"]), t, f(en), f(c["R"]), f(c["psi"]), f(c["n"]), f(c["t0"]))
    if c["model"] == "AVZ":
        a = "%s %s %s %s %s %s %s %s" % (t, f(emE), f(hadE), f(c["em"]), f(c["had"]), f(c["R"]), f(c["psi"]), f(c["n"]))
        return "prl (M.avz_scale %s) (M.avz_values %s %s)" % (a, a, f(c["t0"]))
    a = "%s %s %s %s %s %s %s" % (t, f(emE), f(hadE), f(c["R"]), f(c["psi"]), f(c["n"]), f(c["t0"]))
    return "prl (M.arz_scale %s) (M.arz_values %s)" % (a, a)


def run_model(ctx, cases, name):
    old = rx.OCAML_PRELUDE
    rx.OCAML_PRELUDE = old + OC_PRE
    try:
        return rx.run(ctx, "From PyrexGen Require Import Gen_askaryan.\nFrom PyrexModel Require Import AskaryanIndex AskaryanModel.",
                      MODEL_FUNS, cases, name=name)
    finally:
        rx.OCAML_PRELUDE = old
