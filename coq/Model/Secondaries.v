(* Hand model of GQRSInteraction._choose_secondary_fractions (pyrex/particle.py) AS WRITTEN.
   (The translator does not express its data-dependent for loops; the function is pinned by
   AST hash in harness/pins/C14.json and validated by correspondence with scripted
   numpy.random.rand / numpy.random.poisson streams.)  No proofs in this file.

   The module-level tables _y_cum_<lepton>_<process>[energy_index] are parameters (rows
   already selected by energy_index); the Poisson means _int_*[energy_index] only feed
   numpy.random.poisson, whose results are the stream `ns`; numpy.random.rand results are the
   stream `us` (in call order). *)
From Coq Require Import Reals List Bool ZArith.
From PyrexLib Require Import RealPrims PartPrims.
Import ListNotations.
Open Scope R_scope.

Record sec_rows := mkRows {
  mu_brems : list R; mu_epair : list R; mu_pn : list R;
  tau_brems : list R; tau_epair : list R; tau_pn : list R;
  tau_hadrdecay : list R; tau_mudecay : list R; tau_edecay : list R
}.

Inductive shower := EM | HAD | NOSHOWER.

Definition draw (us : list R) : R * list R :=
  match us with u :: t => (u, t) | [] => (0, []) end.

(* y = np.interp(rand_inelasticity, cum_dist, np.linspace(0, 1, len(cum_dist))) *)
Definition sample_y (r : R) (cum_dist : list R) : R :=
  np_interp_last r cum_dist (linspace01 (length cum_dist)).

(* if y*lepton_energy>max(em_max, had_max): if interaction in (...): em_max = ... elif ...: had_max = ... *)
Definition store (sh : shower) (y lepton_energy : R) (m : R * R) : R * R :=
  let '(em_max, had_max) := m in
  if Rgtb (y * lepton_energy) (Rmax em_max had_max) then
    match sh with
    | EM => (y * lepton_energy, had_max)
    | HAD => (em_max, y * lepton_energy)
    | NOSHOWER => (em_max, had_max)
    end
  else (em_max, had_max).

(* for _ in range(n_tot): ... *)
Fixpoint sec_loop (n : nat) (n_brems n_epair n_tot : Z) (brems epair pn : list R)
         (lepton_energy : R) (us : list R) (m : R * R) : (R * R) * list R :=
  match n with
  | O => (m, us)
  | S n' =>
      let '(rand_interaction, us1) := draw us in
      let '(sh, cum_dist) :=
        if Rltb rand_interaction (IZR n_brems / IZR n_tot) then (EM, brems)
        else if Rltb rand_interaction (IZR (n_brems + n_epair) / IZR n_tot) then (EM, epair)
        else (HAD, pn) in
      let '(rand_inelasticity, us2) := draw us1 in
      let y := sample_y rand_inelasticity cum_dist in
      sec_loop n' n_brems n_epair n_tot brems epair pn lepton_energy us2 (store sh y lepton_energy m)
  end.

Definition secondary_fractions (T : sec_rows) (pid : Z) (lepton_energy : R)
           (ns : list Z) (us : list R) : R * R :=
  let n_brems := nth 0 ns 0%Z in
  let n_epair := nth 1 ns 0%Z in
  let n_pn := nth 2 ns 0%Z in
  let n_tot := (n_brems + n_epair + n_pn)%Z in
  if (Z.eqb pid 14 || Z.eqb pid (-14))%bool then
    fst (sec_loop (Z.to_nat n_tot) n_brems n_epair n_tot (mu_brems T) (mu_epair T) (mu_pn T)
                  lepton_energy us (0, 0))
  else if (Z.eqb pid 16 || Z.eqb pid (-16))%bool then
    let '(m, us1) := sec_loop (Z.to_nat n_tot) n_brems n_epair n_tot (tau_brems T) (tau_epair T) (tau_pn T)
                              lepton_energy us (0, 0) in
    (* tau decay, handled just like the others *)
    let '(rand_interaction, us2) := draw us1 in
    let '(sh, cum_dist) :=
      if Rltb rand_interaction 0.65011 then (HAD, tau_hadrdecay T)
      else if Rltb rand_interaction 0.8219 then (NOSHOWER, tau_mudecay T)
      else (EM, tau_edecay T) in
    let '(rand_inelasticity, _) := draw us2 in
    let y := sample_y rand_inelasticity cum_dist in
    store sh y lepton_energy m
  else (0, 0).
