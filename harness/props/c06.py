"""C06: lazily evaluated signals and ray objects never serve stale values.

gen    tools/lazy_table.py (Python ast) -> coq/Gen/Gen_lazy.v: static attributes, attributes read by each
       lazy property, effect paths of every method, for FunctionSignal (+ noise / Askaryan subclasses) and
       every LazyMutableClass subclass of ray_tracing.py / layered_ice.
prove  Props/C06.v: safe_methods_preserve_inv (all tables, all histories), all_methods_safe / deps_covered of
       the generated table (vm_compute), values_eq_eager and the window arithmetic.
corr   (a) core: random synthetic LazyMutableClass subclasses built from random tables (attributes hold
           version stamps) run against Model/LazyModel.v's stamp semantics: stale/fresh pattern compared
           exactly -- ties the hand model of lazy_property/__setattr__/_clear_cache to the real class;
       (b) real FunctionSignal / noise / tracer / path objects under random read-mutate histories: after
           every step every derived quantity is compared with a freshly constructed object holding the
           same defining attributes (exact equality: same float operations), with an independent eager
           evaluation of the FunctionSignal definition, and with the generated table's prediction
           (model says fresh => implementation must be fresh).
"""
import copy
import json
import logging
import math
import os
import sys
from fractions import Fraction

import numpy as np

from harness import common
from harness.common import REPO, ROOT

# hash of the normalised AST of lazy_property + LazyMutableClass that Model/LazyModel.v follows
CORE_PIN = "03e1a152576c4861"

IMPORTS = ("From Coq Require Import String List Bool.\nFrom PyrexModel Require Import LazyModel.\n"
           "From PyrexGen Require Import Gen_lazy.\nImport ListNotations.\nOpen Scope string_scope.\n")


def gen_files(scratch):
    out_json = os.path.join(scratch, "lazy.json")
    tmp_v = os.path.join(scratch, "Gen_lazy.v")
    rc, out = common.sh([sys.executable, "-W", "ignore", os.path.join(ROOT, "tools", "lazy_table.py"), REPO, tmp_v, out_json])
    if rc:
        raise RuntimeError(out[-1500:])
    return {"Gen_lazy": open(tmp_v).read()}, json.load(open(out_json))


# ------------------------------------------------------------------ (a) core correspondence
def random_table(rng):
    attrs = ["a", "b", "c", "_d", "e"][:rng.randint(2, 5)]
    statics = [a for a in attrs if rng.random() < 0.6]
    props = {}
    for p in ["p", "q", "r"][:rng.randint(1, 3)]:
        props[p] = sorted(rng.sample(attrs, rng.randint(1, len(attrs))))
    methods = {}
    for m in ["m0", "m1", "m2", "m3"][:rng.randint(1, 4)]:
        paths = []
        for _ in range(rng.randint(1, 2)):
            path = []
            for _ in range(rng.randint(1, 4)):
                k = rng.choice(["Assign", "Aug", "InPlace", "InPlace", "Clear", "Read"])
                path.append((k, rng.choice(list(props)) if k == "Read" else ("" if k == "Clear" else rng.choice(attrs))))
            paths.append(path)
        methods[m] = paths
    return {"attrs": attrs, "statics": statics, "props": props, "methods": methods}


def build_class(tab):
    """a real LazyMutableClass subclass whose attributes hold [stamp] lists and whose lazy properties
    return the sum of the stamps they read"""
    from pyrex.internal_functions import LazyMutableClass, lazy_property
    ns = {}

    def __init__(self):
        for a in tab["attrs"]:
            object.__setattr__(self, a, [0])
        LazyMutableClass.__init__(self, static_attributes=list(tab["statics"]))
    ns["__init__"] = __init__
    for p, deps in tab["props"].items():
        def mk(deps):
            def fn(self):
                return sum(getattr(self, a)[0] for a in deps)
            return fn
        f = mk(deps)
        f.__name__ = p
        ns[p] = lazy_property(f)
    return type("Synthetic", (LazyMutableClass,), ns)


def run_effect(obj, eff, clock):
    k, a = eff
    if k == "Assign":
        setattr(obj, a, [clock])
    elif k == "Aug":
        cur = getattr(obj, a)
        cur[0] = clock               # in-place part of  obj.a += x
        setattr(obj, a, cur)         # followed by the attribute store
    elif k == "InPlace":
        getattr(obj, a)[0] = clock
    elif k == "Clear":
        obj._clear_cache()
    elif k == "Read":
        getattr(obj, a)


def coq_table(tab, name="T"):
    cs = lambda s: '"%s"' % s
    props = "; ".join("(%s, [%s])" % (cs(p), "; ".join(cs(a) for a in d)) for p, d in tab["props"].items())
    effs = {"Assign": "EAssign %s", "Aug": "EAug %s", "InPlace": "EInPlace %s", "Clear": "EClear", "Read": "ERead %s"}
    ms = "; ".join("(%s, [%s])" % (cs(m), "; ".join("[" + "; ".join((effs[k] % cs(a)) if "%s" in effs[k] else effs[k] for k, a in path) + "]"
                                                     for path in paths)) for m, paths in tab["methods"].items())
    return '{| cname := "%s"; statics := [%s]; props := [%s]; methods := [%s] |}' % (
        name, "; ".join(cs(a) for a in tab["statics"]), props, ms)


def core_case(rng):
    tab = random_table(rng)
    cls = build_class(tab)
    obj = cls()
    hist, pattern = [], []
    clock = 1
    for _ in range(rng.randint(4, 20)):
        r = rng.random()
        if r < 0.4:
            p = rng.choice(list(tab["props"]))
            got = getattr(obj, p)
            want = sum(getattr(obj, a)[0] for a in tab["props"][p])
            pattern.append(("Some", got != want))
            hist.append('HRead "%s"' % p)
        elif r < 0.7:
            a = rng.choice(tab["attrs"])
            setattr(obj, a, [clock])
            pattern.append(None)
            hist.append('HSet "%s"' % a)
        else:
            m = rng.choice(list(tab["methods"]))
            k = rng.randrange(len(tab["methods"][m]))
            for eff in tab["methods"][m][k]:
                run_effect(obj, eff, clock)
            pattern.append(None)
            hist.append('HCall "%s" %d' % (m, k))
        clock += 1
    expr = "hrun0 (%s) [%s]" % (coq_table(tab), "; ".join(hist))
    return tab, hist, pattern, expr


# ------------------------------------------------------------------ (b) real objects
def dyadic_fn(kind, a, b):
    if kind == 0:
        return lambda t: a * t + b
    if kind == 1:
        return lambda t: a * np.abs(t) + b
    return lambda t: np.where(t < 0, a, b) + 0.5 * t


def delay_filter(shift):
    def response(f):
        return np.exp(-2j * np.pi * f * shift)
    response.__name__ = "delay_%s" % shift
    return response


def lowpass(f):
    return 1 / (1 + (np.abs(f) / 0.75) ** 2)


def fresh_function_signal(sig):
    """a newly constructed FunctionSignal with the same defining attributes"""
    from pyrex.signals import FunctionSignal
    new = FunctionSignal(np.array(sig.times, dtype=float), None, sig.value_type)
    new._functions = list(sig._functions)
    new._t0s = list(sig._t0s)
    new._buffers = [list(b) for b in sig._buffers]
    new._factors = list(sig._factors)
    new._filters = [list(g) for g in sig._filters]
    return new


def eager_definition(times, comps):
    """independent eager evaluation of a DEFINITION (times + list of component dicts): sum over components of
    the scaled function on the buffer-extended grid, passed once through the product of the component's
    filters, cropped to `times`"""
    import scipy.fft
    times = np.asarray(times, dtype=float)
    n = len(times)
    dt = times[1] - times[0]
    total = np.zeros(n)
    for c in comps:
        nb = int(math.ceil(Fraction(float(c["lead"])) / Fraction(float(dt))))
        na = int(math.ceil(Fraction(float(c["trail"])) / Fraction(float(dt))))
        grid = np.concatenate((times[0] - dt * np.arange(nb, 0, -1), times, times[-1] + dt * np.arange(1, na + 1)))
        vals = call_fn(c["fn"], grid - c["t0"]) * c["fac"]
        if c["filters"]:
            m = len(vals)
            freqs = scipy.fft.fftfreq(2 * m, d=dt)
            resp = np.ones(2 * m, dtype=complex)
            for f, force_real in c["filters"]:
                if force_real:
                    r = np.array(f(np.abs(freqs)), dtype=complex)
                    r.imag[freqs < 0] *= -1
                else:
                    r = np.array(f(freqs), dtype=complex)
                resp = resp * r
            vals = np.real(scipy.fft.ifft(resp * scipy.fft.fft(np.concatenate((vals, np.zeros(m)))))[:m])
        total += vals[nb:nb + n]
    return total


def eager_values(sig):
    return eager_definition(sig.times, [{"fn": fn, "t0": t0, "lead": b[0], "trail": b[1], "fac": fac, "filters": list(filt)}
                                        for fn, t0, b, fac, filt in zip(sig._functions, sig._t0s, sig._buffers, sig._factors, sig._filters)])


def pulse_fn(kind, c, w, a, b):
    """functions with content outside a short time window, so that leading / trailing buffers matter once
    a filter moves that content into the window"""
    if kind == 0:
        return lambda t: a * np.exp(-((t - c) / w) ** 2) + b * 0.0
    if kind == 1:
        return lambda t: np.where(t < c, float(a), float(b)) + 0.25 * t
    if kind == 2:
        return lambda t: a * np.abs(t - c) + b
    if kind == 3:
        return lambda t: a * np.sin(1.5 * (t - c)) / (1.0 + ((t - c) / w) ** 2)
    # functions written for ONE time at a time (math.*, `if`): they reject arrays, the signal must fall back to
    # evaluating them sample by sample (with the same time origin handling as the vectorised route)
    if kind == 4:
        return lambda t: a * math.exp(-((float(t) - c) / w) ** 2)
    return lambda t: (float(a) if float(t) < c else float(b)) + 0.25 * float(t)


def call_fn(fn, ts):
    """evaluate a backing function on an array of times: at once, or one sample at a time when it rejects arrays"""
    try:
        return np.asarray(fn(ts), dtype=float)
    except (TypeError, ValueError):
        return np.asarray([fn(t) for t in ts], dtype=float)


class TabulatedResponse:
    """a frequency response served from a table the caller keeps (memoised per frequency grid): every call with the
    same frequencies returns THE SAME complex128 array object.  The table must never be modified by the signal
    code, and evaluating a signal twice must give the same values."""

    def __init__(self, delay):
        self.delay, self.tables, self.pristine = delay, {}, {}
        self.__name__ = "tabulated_%s" % delay

    def __call__(self, f):
        f = np.asarray(f, dtype=float)
        key = (len(f), float(f[1]) if len(f) > 1 else 0.0, float(f[-1]) if len(f) else 0.0)
        if key not in self.tables:
            self.tables[key] = np.exp(-2j * np.pi * f * self.delay) / (1 + (np.abs(f) / 1.5) ** 2)
            self.pristine[key] = np.array(self.tables[key])
        return self.tables[key]

    def modified(self):
        return [k for k in self.tables if not np.array_equal(self.tables[k], self.pristine[k])]


def shadow_copy(sh):
    return {"times": np.array(sh["times"], dtype=float), "vt": sh["vt"],
            "comps": [dict(c, filters=list(c["filters"])) for c in sh["comps"]]}


def fresh_from_definition(sh):
    """a newly constructed FunctionSignal holding exactly the given definition"""
    from pyrex.signals import FunctionSignal
    new = FunctionSignal(np.array(sh["times"], dtype=float), None, sh["vt"])
    new._functions = [c["fn"] for c in sh["comps"]]
    new._t0s = [c["t0"] for c in sh["comps"]]
    new._buffers = [[c["lead"], c["trail"]] for c in sh["comps"]]
    new._factors = [c["fac"] for c in sh["comps"]]
    new._filters = [list(c["filters"]) for c in sh["comps"]]
    return new


class FunHistory:
    """Random read/mutate history over SEVERAL live function-backed signals derived from one another.

    Every live object has a shadow DEFINITION kept by the harness (times, value type, per component:
    function, offset, factor, leading/trailing buffer, filter list), updated only by the operation applied
    to THAT object according to the public meaning of the operation -- each object owns its definition,
    exactly as in the Coq models (components by value).  After every operation EVERY live object's values
    are compared with (a) a freshly constructed signal holding its own current attributes (exact: staleness),
    (b) a freshly constructed signal holding its shadow definition and (c) the independent eager evaluation
    of the shadow definition (cross-object effects, wrong definitions)."""
    INPLACE = ["shift", "imul", "idiv", "filter", "filter_real", "set_buffers", "set_buffers_force", "resample",
               "times", "value_type", "set_t0s", "set_factors", "set_buffers_attr"]
    DERIVE = ["copy", "with_times_sub", "with_times_sub", "with_times_super", "with_times_any", "mul_new", "rmul_new",
              "div_new", "add_fun", "add_sibling", "add_empty"]
    MAX_LIVE = 5

    def __init__(self, rng):
        from pyrex.signals import FunctionSignal

        class SubFunctionSignal(FunctionSignal):
            """trivial user subclass"""
        self.Sub = SubFunctionSignal
        self.rng = rng
        self.tables = {}      # tabulated responses kept by the caller
        self.live = []        # list of [object, shadow]
        self.log = []
        self._new_source()
        # filtered from the start most of the time: buffers are invisible for unfiltered signals
        if rng.random() < 0.75:
            self._apply(0, "filter", rng.choice([0.5, 1.0, 2.0, "lowpass"]))

    # ---- construction of a source signal
    def _new_source(self):
        from pyrex.signals import FunctionSignal, FullThermalNoise
        rng = self.rng
        n = rng.choice([6, 8, 12, 16])
        dt = rng.choice([0.25, 0.5, 1.0])
        start = rng.randint(-8, 8) * 0.5
        times = start + dt * np.arange(n)
        vt = rng.choice([None, "voltage", "field"])
        r = rng.random()
        if r < 0.1:
            np.random.seed(rng.randrange(2 ** 31))
            obj = FullThermalNoise(times, (0.25, 1.75), rms_voltage=1.0)
            fn = obj._functions[0]
            vt = "voltage"
        else:
            c = start + rng.randint(-6, n + 6) * dt * rng.choice([1, 0.5])
            fn = pulse_fn(rng.randrange(6), c, rng.choice([0.5, 1.0, 2.0]), rng.choice([-2, -1, 1, 2, 3]), rng.randint(-2, 2))
            obj = (self.Sub if r < 0.3 else FunctionSignal)(times, fn, vt)
        sh = {"times": np.array(times), "vt": vt,
              "comps": [{"fn": fn, "t0": 0, "fac": 1, "lead": 0, "trail": 0, "filters": []}]}
        self._add(obj, sh)
        return len(self.live) - 1

    def _add(self, obj, sh):
        if len(self.live) >= self.MAX_LIVE:
            self.live.pop(self.rng.randrange(len(self.live)))
        self.live.append([obj, sh])

    # ---- one operation on live object i, applied to the implementation AND to that object's shadow only
    def _apply(self, i, op, arg):
        from pyrex.signals import FunctionSignal, EmptySignal
        s, sh = self.live[i]
        if op == "read":
            _ = s.values
        elif op == "shift":
            s.shift(arg)
            sh["times"] = sh["times"] + arg
            for c in sh["comps"]:
                c["t0"] = c["t0"] + arg
        elif op in ("imul", "idiv"):
            if op == "imul":
                s *= arg
            else:
                s /= arg
            self.live[i][0] = s
            for c in sh["comps"]:
                c["fac"] = c["fac"] * arg if op == "imul" else c["fac"] / arg
        elif op in ("filter", "filter_real"):
            if isinstance(arg, str) and arg.startswith("table"):
                # the SAME response object (and table) is re-used for every signal of the history
                f = self.tables.setdefault(arg, TabulatedResponse(float(arg[5:])))
            else:
                f = lowpass if arg == "lowpass" else delay_filter(arg)
            s.filter_frequencies(f, force_real=(op == "filter_real"))
            for c in sh["comps"]:
                c["filters"].append((f, op == "filter_real"))
        elif op in ("set_buffers", "set_buffers_force"):
            s.set_buffers(leading=arg[0], trailing=arg[1], force=(op == "set_buffers_force"))
            for c in sh["comps"]:
                if arg[0] is not None:
                    c["lead"] = arg[0] if op == "set_buffers_force" else max(arg[0], c["lead"])
                if arg[1] is not None:
                    c["trail"] = arg[1] if op == "set_buffers_force" else max(arg[1], c["trail"])
        elif op == "resample":
            s.resample(arg)
            if arg != len(sh["times"]):
                sh["times"] = np.linspace(sh["times"][0], sh["times"][-1], arg)
        elif op == "times":
            new = arg[0] + arg[1] * np.arange(arg[2])
            s.times = new
            sh["times"] = np.array(new)
        elif op == "value_type":
            s.value_type = arg
            sh["vt"] = arg
        elif op == "set_t0s":
            s._t0s = [arg for _ in s._t0s]
            for c in sh["comps"]:
                c["t0"] = arg
        elif op == "set_factors":
            s._factors = [arg for _ in s._factors]
            for c in sh["comps"]:
                c["fac"] = arg
        elif op == "set_buffers_attr":
            s._buffers = [[arg, arg] for _ in s._buffers]
            for c in sh["comps"]:
                c["lead"] = c["trail"] = arg
        # ---- operations that build a new signal: the operand keeps its definition
        elif op == "copy":
            self._add(s.copy(), shadow_copy(sh))
        elif op.startswith("with_times"):
            new = arg
            nsh = shadow_copy(sh)
            nsh["times"] = np.array(new)
            if new[0] >= sh["times"][0] and new[-1] <= sh["times"][-1]:
                for c in nsh["comps"]:
                    c["lead"] = max(new[0] - sh["times"][0], c["lead"])
                    c["trail"] = max(sh["times"][-1] - new[-1], c["trail"])
            self._add(s.with_times(np.array(new)), nsh)
        elif op in ("mul_new", "rmul_new", "div_new"):
            nsh = shadow_copy(sh)
            for c in nsh["comps"]:
                c["fac"] = c["fac"] * arg if op != "div_new" else c["fac"] / arg
            self._add(s * arg if op == "mul_new" else (arg * s if op == "rmul_new" else s / arg), nsh)
        elif op == "add_fun":
            fn = pulse_fn(*arg)
            other = FunctionSignal(np.array(s.times), fn, s.value_type)
            nsh = shadow_copy(sh)
            nsh["comps"].append({"fn": fn, "t0": 0, "fac": 1, "lead": 0, "trail": 0, "filters": []})
            self._add(s + other, nsh)
        elif op == "add_sibling":
            o2, sh2 = self.live[arg]
            nsh = shadow_copy(sh)
            nsh["comps"] += shadow_copy(sh2)["comps"]
            und = lambda v: v in (None, "undefined", 0)
            nsh["vt"] = sh2["vt"] if und(sh["vt"]) else sh["vt"]
            self._add(s + o2, nsh)
        elif op == "add_empty":
            self._add(s + EmptySignal(np.array(s.times)), shadow_copy(sh))
        else:
            raise KeyError(op)

    def step(self):
        rng = self.rng
        i = rng.randrange(len(self.live))
        s, sh = self.live[i]
        r = rng.random()
        op = "read" if r < 0.12 else (rng.choice(self.DERIVE) if r < 0.45 else rng.choice(self.INPLACE))
        dt = float(sh["times"][1] - sh["times"][0])
        n = len(sh["times"])
        arg = None
        if op == "shift":
            arg = rng.randint(-6, 6) * 0.25
        elif op == "imul":
            arg = rng.choice([2.0, -1.0, 0.5, 3.0])
        elif op == "idiv":
            arg = rng.choice([2.0, -4.0, 0.5])
        elif op in ("filter", "filter_real"):
            arg = rng.choice([0.5, 1.0, 2.0, "lowpass", "table0.5", "table1.0", "table0.5"])
            if sum(len(c["filters"]) for c in sh["comps"]) > 6:
                return None
        elif op in ("set_buffers", "set_buffers_force"):
            arg = (rng.choice([None, 0, 0.5, 1.0, 2.0, 3.25]), rng.choice([None, 0, 0.5, 1.5, 4.0]))
        elif op == "resample":
            arg = rng.choice([n, n * 2 - 1 if n <= 16 else n, (n + 1) // 2 if (n % 2 == 1 and n >= 7) else n])
        elif op == "times":
            arg = (rng.randint(-8, 8) * 0.5, rng.choice([0.25, 0.5, 1.0]), rng.choice([6, 7, 8, 12]))
        elif op == "value_type":
            arg = rng.choice(["voltage", "field", "power", None])
        elif op == "set_t0s":
            arg = rng.randint(-4, 4) * 0.5
        elif op == "set_factors":
            arg = rng.choice([1.0, 2.0, -3.0])
        elif op == "set_buffers_attr":
            arg = rng.choice([0, 1.0, 2.5])
        elif op == "with_times_sub":
            if n < 6:
                return None
            k0 = rng.randint(0, n - 4)
            k1 = rng.randint(k0 + 3, n - 1)
            arg = sh["times"][0] + dt * np.arange(k0, k1 + 1)
        elif op == "with_times_super":
            arg = sh["times"][0] + dt * np.arange(-rng.randint(0, 4), n + rng.randint(0, 4))
        elif op == "with_times_any":
            arg = sh["times"][0] + dt * (rng.randint(-6, 6) * rng.choice([1, 0.5]) + np.arange(rng.randint(4, n + 3)))
        elif op in ("mul_new", "rmul_new", "div_new"):
            arg = rng.choice([2.0, -0.5, 4.0])
        elif op == "add_fun":
            arg = (rng.randrange(6), float(sh["times"][0]) + rng.randint(-4, n + 4) * dt, rng.choice([0.5, 1.0]), rng.choice([-1, 1, 2]), rng.randint(-1, 1))
        elif op == "add_sibling":
            same = [j for j, (o2, sh2) in enumerate(self.live)
                    if len(sh2["times"]) == n and np.array_equal(sh2["times"], sh["times"]) and
                    (sh2["vt"] == sh["vt"] or sh2["vt"] is None or sh["vt"] is None) and len(sh2["comps"]) + len(sh["comps"]) <= 6]
            if not same:
                return None
            arg = rng.choice(same)
        self._apply(i, op, arg)
        la = arg.tolist() if isinstance(arg, np.ndarray) else (list(arg) if isinstance(arg, tuple) else arg)
        self.log.append([op, i, la])
        return op

    def check(self):
        """every live object against its own definition; returns None or a description"""
        for name, tab in self.tables.items():
            if tab.modified():
                return "the caller's response table %s was modified by evaluating a signal" % name
        for i, (s, sh) in enumerate(self.live):
            got = np.array(s.values, dtype=float)
            fresh = np.array(fresh_function_signal(s).values, dtype=float)
            if got.shape != fresh.shape or not np.array_equal(got, fresh):
                return "live object %d: values differ from a freshly constructed FunctionSignal with the same attributes (stale cache): %s vs %s" % (
                    i, np.array2string(got[:6], precision=6), np.array2string(fresh[:6], precision=6))
            eager = eager_definition(sh["times"], sh["comps"])
            scale = max(1.0, float(np.max(np.abs(eager))) if len(eager) else 1.0)
            if got.shape != eager.shape or np.max(np.abs(got - eager)) > 1e-9 * scale:
                return ("live object %d: values differ from the eager evaluation of its own definition (as last set through "
                        "operations on that object): %s vs %s; buffers now %s, defined %s" % (
                            i, np.array2string(got[:6], precision=6), np.array2string(eager[:6], precision=6),
                            [[float(x) for x in b] for b in s._buffers], [[float(c["lead"]), float(c["trail"])] for c in sh["comps"]]))
            rebuilt = np.array(fresh_from_definition(sh).values, dtype=float)
            if got.shape != rebuilt.shape or np.max(np.abs(got - rebuilt)) > 1e-9 * scale:
                return "live object %d: values differ from a freshly constructed FunctionSignal holding its own definition: %s vs %s" % (
                    i, np.array2string(got[:6], precision=6), np.array2string(rebuilt[:6], precision=6))
            if not np.array_equal(np.asarray(s.times, dtype=float), sh["times"]):
                return "live object %d: times differ from its own definition" % i
            for name, tab in self.tables.items():
                if tab.modified():
                    return "the caller's response table %s was modified by evaluating live object %d" % (name, i)
        return None


# table-level names of the operations above (for the model's one-directional prediction)
FUN_TABLE_OP = {"rmul_new": ("call", "__rmul__"), "mul_new": ("call", "__mul__"), "div_new": ("call", "__truediv__"),
                "copy": ("call", "copy"), "with_times_sub": ("call", "with_times"), "shift": ("call", "shift"), "imul": ("call", "__imul__"), "idiv": ("call", "__itruediv__"),
                "filter": ("call", "filter_frequencies"), "filter_real": ("call", "filter_frequencies"),
                "set_buffers": ("call", "set_buffers"), "set_buffers_force": ("call", "set_buffers"),
                "resample": ("call", "resample"), "times": ("set", "times"), "value_type": ("set", "value_type"),
                "set_t0s": ("set", "_t0s"), "set_factors": ("set", "_factors"), "set_buffers_attr": ("set", "_buffers")}


def replay_fun(log_ops, seed_state):
    """re-run a recorded FunctionSignal history deterministically (the history records its own PRNG seed)"""
    import random
    logging.disable(logging.CRITICAL)
    rng = random.Random(seed_state)
    h = FunHistory(rng)
    h.rng.randint(6, 22)          # run() draws the history length from the same stream
    out = []
    for _ in range(len(log_ops) + 200):
        if len(h.log) >= len(log_ops):
            break
        h.step()
        bad = h.check()
        out.append((h.log[-1] if h.log else None, bad))
        if bad:
            break
    return out


def cosine_sum(times, freqs, amps, phases, rms):
    """the published definition of FullThermalNoise: rms * sqrt(2/N) * sum_k amp_k cos(2 pi f_k t + phase_k),
    over the basis the object currently publishes (N = its number of frequencies)"""
    t = np.asarray(times, dtype=float)
    tot = np.zeros(len(t))
    for f, a, ph in zip(freqs, amps, phases):
        tot += a * np.cos(2 * np.pi * f * t + ph)
    return tot * np.sqrt(2 / len(freqs)) * rms


def fresh_noise(cls, sig, times0):
    """a newly CONSTRUCTED noise signal with the same public defining attributes (band, rms, basis)"""
    new = cls(np.array(times0), (sig.f_min, sig.f_max), rms_voltage=sig.rms)
    if cls.__name__ == "FullThermalNoise":
        new.freqs = np.array(sig.freqs)
    new.amps = np.array(sig.amps)
    new.phases = np.array(sig.phases)
    if not np.array_equal(new.times, sig.times):
        new.times = np.array(sig.times)
    return new


def noise_cases(ctx, rng):
    """thermal-noise subclasses: public parameter assignments between reads, INCLUDING ones that change the
    number of frequencies (new basis arrays of a different length; for the FFT variant a new band with matching
    amplitude / phase arrays); afterwards values vs a freshly constructed object with the same public
    attributes and (FullThermalNoise) vs the explicit cosine sum over the published basis"""
    from pyrex.signals import FullThermalNoise, FFTThermalNoise
    import scipy.fft
    n_cases = 0
    for cls in (FullThermalNoise, FFTThermalNoise):
        full = cls is FullThermalNoise
        for trial in range(ctx.n(6, 40)):
            np.random.seed(rng.randrange(2 ** 31))
            n = rng.choice([16, 24, 32])
            dt = 0.125
            times0 = np.arange(n) * dt
            sig = cls(times0, (rng.choice([0.5, 1.0]), rng.choice([2.5, 3.5])), rms_voltage=1.0)
            hist = []
            for stepn in range(rng.randint(2, 6)):
                _ = sig.values                                   # fill the cache
                kind = rng.choice(["rms", "amps", "phases", "basis", "basis", "shift", "scale"] + (["freqs"] if full else ["band", "band"]))
                if kind == "rms":
                    sig.rms = sig.rms * rng.choice([2, 0.5, 3])
                elif kind == "amps":
                    sig.amps = np.array(sig.amps) * rng.choice([2, 0.5])
                elif kind == "phases":
                    sig.phases = np.array(sig.phases) + 0.5
                elif kind == "freqs":
                    sig.freqs = np.array(sig.freqs) + 0.25
                elif kind == "shift":
                    sig.shift(rng.randint(-4, 4) * dt)
                elif kind == "scale":
                    sig *= rng.choice([2.0, -0.5])
                elif kind == "basis" and full:
                    # a basis with a DIFFERENT number of frequencies
                    m = max(1, len(sig.freqs) + rng.choice([-3, -1, 2, 5]))
                    sig.freqs = np.linspace(sig.f_min, sig.f_max, m, endpoint=False)
                    sig.amps = np.random.rayleigh(1 / np.sqrt(2), size=m)
                    sig.phases = np.random.rand(m) * 2 * np.pi
                elif kind in ("band", "basis"):
                    # FFT variant: the basis is the set of FFT bins inside [f_min, f_max]: move the band, then
                    # publish amplitude / phase arrays of the matching (different) length
                    sig.f_min = rng.choice([0.25, 0.5, 1.0, 1.5])
                    sig.f_max = rng.choice([2.0, 2.5, 3.0, 3.75])
                    allf = scipy.fft.rfftfreq(n, dt)
                    m = int(np.count_nonzero((allf >= sig.f_min) & (allf <= sig.f_max)))
                    sig.amps = np.random.rayleigh(1 / np.sqrt(2), size=m)
                    sig.phases = np.random.rand(m) * 2 * np.pi
                hist.append(kind)
                n_cases += 1
                ctx.case(key=("noise", cls.__name__, tuple(hist)), sample={"class": cls.__name__, "assigned": list(hist)} if n_cases % 40 == 1 else None)
                try:
                    got = np.array(sig.values, dtype=float)
                except Exception as e:
                    ctx.fail("noise-raise:%s:%s" % (cls.__name__, kind), "%s: values raised %s after %s" % (cls.__name__, type(e).__name__, hist),
                             {"kind": "noise", "class": cls.__name__, "assign": hist})
                    return n_cases
                ref = fresh_noise(cls, sig, times0)
                ref._t0s, ref._factors = list(sig._t0s), list(sig._factors)
                want = np.array(ref.values, dtype=float)
                tol = 1e-10 * max(1.0, float(np.max(np.abs(want))))
                bad = None
                if got.shape != want.shape or np.max(np.abs(got - want)) > tol:
                    bad = "differ from a freshly constructed %s with the same band, rms and basis (max deviation %.3g)" % (
                        cls.__name__, float(np.max(np.abs(got - want))) if got.shape == want.shape else float("nan"))
                elif full:
                    exp = cosine_sum(np.asarray(sig.times) - sig._t0s[0], sig.freqs, sig.amps, sig.phases, sig.rms) * sig._factors[0]
                    if np.max(np.abs(got - exp)) > 1e-9 * max(1.0, float(np.max(np.abs(exp)))):
                        bad = "differ from the cosine sum over the published basis (max deviation %.3g)" % float(np.max(np.abs(got - exp)))
                if bad:
                    ctx.fail("noise:%s:%s" % (cls.__name__, kind),
                             "%s: values read after assignments %s %s" % (cls.__name__, hist, bad),
                             {"kind": "noise", "class": cls.__name__, "assign": hist})
                    return n_cases
    return n_cases


# ------------------------------------------------------------------ table-driven probe of every static attribute
def signal_recipes():
    """for every function-backed signal class: how to construct an instance from a random context, and how to
    construct a FRESH instance with the same public defining attributes as a given (mutated) one"""
    from types import SimpleNamespace as NS
    from pyrex.signals import FunctionSignal, FullThermalNoise, FFTThermalNoise
    from pyrex import askaryan
    from pyrex.ice_model import ice as default_ice
    rec = {}

    def copy_components(new, obj, varied):
        # the generic component lists are defining attributes of every FunctionSignal
        if varied == "_functions":
            new._functions = list(obj._functions)
        new._t0s = list(obj._t0s)
        new._buffers = [list(b) for b in obj._buffers]
        new._factors = list(obj._factors)
        new._filters = [list(g) for g in obj._filters]
        return new

    def make_plain(rng):
        n, dt = rng.choice([8, 12, 16]), rng.choice([0.25, 0.5])
        times = rng.randint(-6, 6) * 0.5 + dt * np.arange(n)
        c = float(times[0]) + rng.randint(-4, n + 4) * dt
        sig = FunctionSignal(times, pulse_fn(rng.randrange(4), c, rng.choice([0.5, 1.0]), rng.choice([-2, 1, 3]), rng.randint(-1, 1)),
                             rng.choice([None, "voltage"]))
        if rng.random() < 0.6:
            sig.filter_frequencies(delay_filter(rng.choice([0.5, 1.0])))
        return sig, {}

    def rebuild_plain(obj, cx, varied):
        new = fresh_function_signal(obj)
        return new
    rec["FunctionSignal"] = (make_plain, rebuild_plain)

    def make_noise(cls):
        def make(rng):
            np.random.seed(rng.randrange(2 ** 31))
            n = rng.choice([16, 24, 32])
            times0 = np.arange(n) * 0.125
            return cls(times0, (rng.choice([0.5, 1.0]), rng.choice([2.5, 3.5])), rms_voltage=1.0), {"times0": times0}
        return make

    def rebuild_noise(cls):
        def rebuild(obj, cx, varied):
            return copy_components(fresh_noise(cls, obj, cx["times0"]), obj, varied)
        return rebuild
    rec["FullThermalNoise"] = (make_noise(FullThermalNoise), rebuild_noise(FullThermalNoise))
    rec["FFTThermalNoise"] = (make_noise(FFTThermalNoise), rebuild_noise(FFTThermalNoise))

    def make_ask(cls):
        def make(rng):
            z = -rng.choice([200.0, 1000.0, 2000.0])
            n_ice = default_ice.index(z)
            theta_c = float(np.arccos(1 / n_ice))
            angle = theta_c + np.radians(rng.choice([0.0, 0.0, 3.0, -4.0, 7.5, 1.0]))      # on-cone and off-cone
            had = rng.choice([0.2, 0.8, 0.5, 1.0, 0.0])
            part = NS(energy=10 ** rng.uniform(6, 10), vertex=np.array([0.0, 0.0, z]),
                      interaction=NS(em_frac=1.0 - had, had_frac=had))
            cx = {"angle": angle, "distance": rng.choice([1.0, 500.0, 2000.0]), "t0": rng.choice([0.0, 10e-9, 25e-9]), "z": z}
            times = np.linspace(-20e-9, 80e-9, rng.choice([128, 256]))
            return cls(times, part, cx["angle"], cx["distance"], ice_model=default_ice, t0=cx["t0"]), cx
        return make

    def rebuild_ask(cls):
        def rebuild(obj, cx, varied):
            if hasattr(obj, "energy"):
                part = NS(energy=obj.energy, vertex=np.array([0.0, 0.0, cx["z"]]), interaction=NS(em_frac=1.0, had_frac=0.0))
            else:
                part = NS(energy=1.0, vertex=np.array([0.0, 0.0, cx["z"]]), interaction=NS(em_frac=obj.em_energy, had_frac=obj.had_energy))
            new = cls(np.array(obj.times), part, cx["angle"], cx["distance"], ice_model=default_ice, t0=cx["t0"])
            return copy_components(new, obj, varied)
        return rebuild
    for name in ("ZHSAskaryanSignal", "AVZAskaryanSignal", "ARZAskaryanSignal", "ARVZAskaryanSignal"):
        cls = getattr(askaryan, name, None)
        if cls is not None:
            rec[name] = (make_ask(cls), rebuild_ask(cls))
    return rec


def vary(name, v, obj, rng):
    """a DIFFERENT value of the same kind, chosen by the type of the current value (so that attributes added
    to a static list later are covered without touching this file); returns (ok, new value)"""
    t = np.asarray(obj.times, dtype=float)
    dt = float(t[1] - t[0]) if len(t) > 1 else 1.0
    if isinstance(v, np.ndarray):
        if v.ndim == 1 and len(v) == len(t) and np.array_equal(v, t):
            return True, v + 2 * dt                                   # the time grid: two samples later
        return True, v * rng.choice([1.5, 0.5]) + (0.25 if v.dtype.kind == "f" and rng.random() < 0.3 else 0)
    if isinstance(v, (bool, str)) or v is None:
        return False, v
    if isinstance(v, (int, float, np.integer, np.floating)):
        return True, (float(v) * rng.choice([2.0, 10.0, 0.1, 0.5]) if v else 1.0)
    if isinstance(v, list):
        if all(callable(f) for f in v) and v:
            return True, [(lambda tt, f=f: 0.5 * np.asarray(f(tt))) for f in v]
        if all(isinstance(x, (int, float, np.integer, np.floating)) for x in v) and v:
            return True, [x * 2 + dt for x in v]
        if all(isinstance(g, list) for g in v) and v:
            if all(len(g) and all(isinstance(x, (int, float, np.integer, np.floating)) for x in g) for g in v):
                return True, [[x + (k + 2) * dt for k, x in enumerate(g)] for g in v]
            if all(all(isinstance(x, tuple) for x in g) for g in v):
                return True, [list(g) + [(delay_filter(2 * dt), False)] for g in v]
    return False, v


def values_or_exc(sig):
    try:
        return np.array(sig.values, dtype=float)
    except Exception as e:
        return "EXC:" + type(e).__name__


def static_attr_cases(ctx, rng, data):
    """for every function-backed signal class of the generated table and EVERY attribute in its static list: read,
    assign a different value, read again (also: assign before the first read, assign twice) and compare with a
    freshly constructed object of the same class holding the same defining attributes"""
    if not data:
        return 0
    recipes = signal_recipes()
    n_cases, missing, unvaried, n_unconstructible = 0, [], [], 0
    for cname in sorted(data["classes"]):
        c = data["classes"][cname]
        if "FunctionSignal" not in c["mro"]:
            continue
        if cname not in recipes:
            missing.append(cname)
            continue
        make, rebuild = recipes[cname]
        for attr in c["static"]:
            for trial in range(ctx.n(4, 25)):
                obj, cx = make(rng)
                plan = rng.choice(["read-assign", "read-assign", "assign-first", "assign-twice"])
                if plan != "assign-first":
                    values_or_exc(obj)
                ok, new = vary(attr, getattr(obj, attr, None), obj, rng)
                if not ok:
                    unvaried.append("%s.%s" % (cname, attr))
                    break
                setattr(obj, attr, new)
                if plan == "assign-twice":
                    values_or_exc(obj)
                    ok, new = vary(attr, getattr(obj, attr), obj, rng)
                    setattr(obj, attr, new)
                got = values_or_exc(obj)
                try:
                    ref = rebuild(obj, cx, attr)
                except Exception:
                    n_unconstructible += 1          # no object with these attributes can be constructed: nothing to compare
                    continue
                want = values_or_exc(ref)
                n_cases += 1
                ctx.case(key=("static", cname, attr, plan), sample={"class": cname, "attr": attr, "plan": plan} if n_cases % 60 == 1 else None)
                if isinstance(got, str) or isinstance(want, str):
                    same = isinstance(got, str) and isinstance(want, str) and got == want
                    dev = float("nan")
                else:
                    scale = max(float(np.max(np.abs(want))) if len(want) else 0.0, 1e-300)
                    dev = float(np.max(np.abs(got - want))) / scale if got.shape == want.shape and len(want) else (0.0 if got.shape == want.shape else float("inf"))
                    same = dev <= 1e-9
                if not same:
                    ctx.fail("static:%s:%s" % (cname, attr),
                             "%s: after assigning .%s (%s%s) the values differ from a freshly constructed %s with the same defining "
                             "attributes (relative deviation %.3g)" % (cname, attr, plan, ", context %s" % {k: v for k, v in cx.items() if k != "times0"} if cx else "", cname, dev),
                             {"kind": "static", "class": cname, "attr": attr, "plan": plan})
                    break
    ctx.extra["static_attr_probe"] = {"cases": n_cases, "unconstructible_skipped": n_unconstructible, "classes_without_recipe": missing, "attributes_not_varied": sorted(set(unvaried))}
    return n_cases


def fresh_path(p):
    """a newly constructed path object of the same class with the same defining attributes"""
    from types import SimpleNamespace
    d = p.__dict__
    parent = SimpleNamespace(from_point=d.get("from_point"), to_point=d.get("to_point"), ice=d.get("ice"), dz=d.get("dz"))
    name = type(p).__name__
    try:
        if name in ("BasicRayTracePath", "SpecializedRayTracePath"):
            return type(p)(parent, d["theta0"], d["direct"])
        if name == "UniformRayTracePath":
            return type(p)(parent, d["theta0"], d["_reflections"])
    except Exception:
        pass
    q = copy.copy(p)
    q.__dict__ = {k: v for k, v in d.items() if not k.startswith("_lazy_")}
    return q


def plain(v):
    """nested arrays / tuples -> nested tuples of Python scalars"""
    if isinstance(v, np.ndarray):
        return tuple(plain(x) for x in v.tolist()) if v.ndim else v.item()
    if isinstance(v, (list, tuple)):
        return tuple(plain(x) for x in v)
    if isinstance(v, np.generic):
        return v.item()
    return v


def q_same(a, b):
    """exact equality; NaN equals NaN"""
    if isinstance(a, (float, np.floating, complex)) and isinstance(b, (float, np.floating, complex)):
        return a == b or (a != a and b != b)
    if isinstance(a, (tuple, list)) and isinstance(b, (tuple, list)):
        return len(a) == len(b) and all(q_same(x, y) for x, y in zip(a, b))
    try:
        return bool(a == b)
    except Exception:
        return False


ARG_POOL = {"f": np.array([1.0e8, 3.0e8, 7.5e8]), "z": -150.0}


def method_accessors(obj):
    """every public method of the object's class whose required parameters can all be supplied from ARG_POOL:
    called with the SAME arguments before and after attribute assignments, it is a derived quantity like any other"""
    import inspect
    out = []
    for name in sorted(dir(type(obj))):
        if name.startswith("_"):
            continue
        fn = getattr(type(obj), name, None)
        if not inspect.isfunction(fn):
            continue
        try:
            req = [p.name for p in list(inspect.signature(fn).parameters.values())[1:]
                   if p.default is inspect.Parameter.empty and p.kind in (p.POSITIONAL_ONLY, p.POSITIONAL_OR_KEYWORD)]
        except (TypeError, ValueError):
            continue
        if req and all(r in ARG_POOL for r in req):
            out.append("call:%s:%s" % (name, ",".join(req)))
    return out


def q_read(obj, names):
    out = {}
    for nm in names:
        try:
            if nm.startswith("call:"):
                _, meth, req = nm.split(":")
                v = getattr(obj, meth)(*[ARG_POOL[r] for r in req.split(",")])
            else:
                v = getattr(obj, nm)
        except Exception as e:
            v = "EXC:" + type(e).__name__
        if nm == "solutions" and not isinstance(v, str):
            v = [(type(p).__name__, float(p.theta0), float(p.tof), float(p.path_length),
                  plain(np.asarray(p.emitted_direction, dtype=float)), plain(np.asarray(p.received_direction, dtype=float))) for p in v]
        else:
            v = plain(v)
        out[nm] = v
    return out


class SharedTracerHistory:
    """Several live ray tracers and ray paths built from SHARED caller arrays (the same endpoint ndarrays,
    the same ice object -- as EventKernel does with particle.vertex for every antenna), with public operations
    on any one of them (rebinding of from_point / to_point / ice / dz, augmented assignment `+=`, `-=`, `*=`)
    and in-place changes of the caller's own arrays (`+=`, element and slice assignment).  Each live object has
    a shadow definition changed only by operations on that object.  After every operation, for EVERY live
    object: its defining attributes still equal its shadow (no cross-object effect), and every derived quantity
    equals what a freshly constructed object with its current attributes / its shadow definition reports."""
    T_NAMES = {"SpecializedRayTracer": ["n0", "rho", "max_angle", "exists", "expected_solutions", "solutions"],
               "UniformRayTracer": ["n0", "rho", "phi", "exists", "solutions"],
               "BasicRayTracer": ["n0", "rho", "max_angle", "direct_r_max"]}
    P_NAMES = ["n0", "rho", "phi", "tof", "path_length", "emitted_direction", "received_direction"]

    def __init__(self, rng):
        from pyrex import ray_tracing as rtm
        from pyrex.ice_model import AntarcticIce, UniformIce
        self.rng, self.rtm = rng, rtm
        self.kind = rng.choice(["SpecializedRayTracer", "SpecializedRayTracer", "UniformRayTracer", "UniformRayTracer", "BasicRayTracer"])
        self.cls = getattr(rtm, self.kind)
        self.ices = [UniformIce(1.5), UniformIce(1.78)] if self.kind == "UniformRayTracer" else \
            [AntarcticIce(), AntarcticIce(n0=1.76, k=1.76 - 1.32, a=0.014)]
        self.pool = [self.point() for _ in range(rng.randint(2, 4))]      # the caller's arrays
        self.live = []                                                     # [object, shadow, kind(, parent tracer)]
        self.tainted = set()
        self.log = []
        for _ in range(rng.randint(2, 3)):
            self.new_tracer()

    def point(self):
        r = self.rng
        return np.array([r.randint(-300, 300), r.randint(-300, 300), -r.randint(20, 900)], dtype=float)

    def new_tracer(self):
        r = self.rng
        a, b = r.randrange(len(self.pool)), r.randrange(len(self.pool))
        ice = r.choice(self.ices)
        rt = self.cls(self.pool[a], self.pool[b], ice_model=ice)          # SHARED ndarray arguments
        sh = {"from_point": np.array(self.pool[a]), "to_point": np.array(self.pool[b]), "ice": ice}
        if hasattr(rt, "dz"):
            sh["dz"] = rt.dz
        self.live.append([rt, sh, "tracer"])
        self.log.append(["new_tracer", a, b, self.ices.index(ice)])

    def take_path(self, i):
        rt, sh = self.live[i][:2]
        try:
            sols = rt.solutions
        except Exception:
            return False
        if not sols:
            return False
        p = self.rng.choice(sols)
        if any(l[0] is p for l in self.live):
            return False                      # this very object is already live (one shadow per object)
        psh = {k: (np.array(v) if isinstance(v, np.ndarray) else v) for k, v in sh.items()}
        psh["theta0"] = p.theta0
        self.live.append([p, psh, "path", rt])
        self.log.append(["take_path", i])
        return True

    def step(self):
        r = self.rng
        if len(self.live) > 6:
            self.live.pop(r.randrange(len(self.live)))
        k = r.choice(["aug", "aug", "aug", "rebind", "rebind", "ice", "dz", "caller", "caller", "new_tracer", "take_path", "read"])
        i = r.randrange(len(self.live))
        obj, sh, kind = self.live[i][:3]
        if kind == "path" and k in ("aug", "rebind", "ice", "dz"):
            # the path object is the very element of its tracer's cached `solutions` list: changing it changes
            # what that list shows (object identity, not staleness) -- stop comparing that tracer's `solutions`
            self.tainted.add(id(self.live[i][3]))
        if k == "new_tracer":
            self.new_tracer()
        elif k == "take_path":
            tr = [j for j, l in enumerate(self.live) if l[2] == "tracer"]
            if not tr or self.kind == "BasicRayTracer" or not self.take_path(r.choice(tr)):
                return False
        elif k == "read":
            q_read(obj, r.sample(self.names(kind, obj), r.randint(1, 3)))
            self.log.append(["read", i])
        elif k == "aug":
            a = r.choice(["from_point", "to_point"])
            how = r.choice(["+=", "-=", "*="])
            off = np.array([r.randint(-30, 30), r.randint(-30, 30), -r.randint(0, 40)], dtype=float)
            if how == "+=":
                obj.__setattr__(a, getattr(obj, a).__iadd__(off))      # obj.a += off
                sh[a] = sh[a] + off
            elif how == "-=":
                obj.__setattr__(a, getattr(obj, a).__isub__(-off))     # obj.a -= (-off)
                sh[a] = sh[a] - (-off)
            else:
                f = r.choice([0.5, 1.25, 0.75])
                obj.__setattr__(a, getattr(obj, a).__imul__(f))        # obj.a *= f
                sh[a] = sh[a] * f
            self.log.append(["aug", i, a, how])
        elif k == "rebind":
            a = r.choice(["from_point", "to_point"])
            new = self.point() if r.random() < 0.5 else np.array(r.choice(self.pool))   # a fresh array: the caller keeps no reference
            setattr(obj, a, new)
            sh[a] = np.array(new)
            self.log.append(["rebind", i, a])
        elif k == "ice":
            new = self.ices[1] if sh["ice"] is self.ices[0] else self.ices[0]
            obj.ice = new
            sh["ice"] = new
            self.log.append(["ice", i])
        elif k == "dz":
            if "dz" not in sh:
                return False
            new = r.choice([d for d in (0.5, 1, 2) if d != sh["dz"]])
            obj.dz = new
            sh["dz"] = new
            self.log.append(["dz", i])
        elif k == "caller":
            # the caller goes on using ITS arrays: no live object may notice
            arr = r.choice(self.pool)
            how = r.choice(["+=", "elem", "slice"])
            if how == "+=":
                arr += np.array([r.randint(-20, 20), r.randint(-20, 20), -r.randint(0, 20)], dtype=float)
            elif how == "elem":
                arr[2] = -float(r.randint(20, 900))
            else:
                arr[:2] = [float(r.randint(-300, 300)), float(r.randint(-300, 300))]
            self.log.append(["caller", how])
        # fill caches of a random subset so that later staleness is observable
        for l in self.live:
            if r.random() < 0.6:
                q_read(l[0], self.names(l[2], l[0]))
        return True

    def names(self, kind, obj=None):
        base = self.P_NAMES if kind == "path" else self.T_NAMES[self.kind]
        if obj is not None and type(obj).__name__ != "BasicRayTracePath":
            return base + method_accessors(obj)      # methods with (repeated) arguments are accessors too
        return base

    def fresh(self, kind, d, obj):
        if kind == "tracer":
            new = self.cls(np.array(d["from_point"]), np.array(d["to_point"]), ice_model=d["ice"])
            if "dz" in d:
                new.dz = d["dz"]
            return new
        from types import SimpleNamespace
        parent = SimpleNamespace(from_point=np.array(d["from_point"]), to_point=np.array(d["to_point"]), ice=d["ice"], dz=d.get("dz"))
        if type(obj).__name__ == "UniformRayTracePath":
            return type(obj)(parent, d["theta0"], obj._reflections)
        return type(obj)(parent, d["theta0"], obj.direct)

    def check(self):
        for i, entry in enumerate(self.live):
            obj, sh, kind = entry[:3]
            names = [nm for nm in self.names(kind, obj) if not (nm == "solutions" and id(obj) in self.tainted)]
            cur = {k: getattr(obj, k) for k in sh}
            for k in sh:
                ok = np.array_equal(cur[k], sh[k]) if isinstance(sh[k], np.ndarray) else (cur[k] is sh[k] or cur[k] == sh[k])
                if not ok:
                    return "live %s %d (%s): its %s is now %s although only operations on OTHER objects / the caller's arrays happened since it was %s" % (
                        kind, i, type(obj).__name__, k, plain(cur[k]) if isinstance(cur[k], np.ndarray) else cur[k],
                        plain(sh[k]) if isinstance(sh[k], np.ndarray) else sh[k])
            got = q_read(obj, names)
            want = q_read(self.fresh(kind, cur, obj), names)
            diff = [nm for nm in names if not q_same(got[nm], want[nm])]
            if diff:
                return "live %s %d (%s): %s differ(s) from a freshly constructed object with its current attributes (%s vs %s)" % (
                    kind, i, type(obj).__name__, diff, str(got[diff[0]])[:100], str(want[diff[0]])[:100])
        return None


def shared_tracer_cases(ctx, rng):
    import random
    n_cases = 0
    for hn in range(ctx.n(45, 500)):
        seed = rng.randrange(2 ** 31)
        h = SharedTracerHistory(random.Random(seed))
        for stepn in range(h.rng.randint(4, 12) if h.kind != "BasicRayTracer" else 4):
            try:
                if not h.step():
                    continue
            except Exception as e:
                ctx.fail("shared-raise:%s" % type(e).__name__, "a public operation on a ray tracer / path raised %s: %s after %s" % (
                    type(e).__name__, e, h.log[-4:]), {"kind": "shared-tracers", "seed": seed, "ops": h.log})
                break
            n_cases += 1
            bad = h.check()
            if bad:
                if len(ctx.failures) < 6:
                    ctx.fail("shared:%s:%s" % (h.kind, ",".join(str(o[0]) for o in h.log[-3:])),
                             "%s history %s: %s" % (h.kind, h.log[-6:], bad), {"kind": "shared-tracers", "seed": seed, "ops": h.log})
                break
        ctx.case(key=("shared", h.kind, tuple(o[0] for o in h.log)), sample={"kind": h.kind, "ops": h.log[:8]} if hn % 25 == 0 else None)
    return n_cases


def replay_shared(obj):
    import random
    h = SharedTracerHistory(random.Random(obj["seed"]))
    n = h.rng.randint(4, 12) if h.kind != "BasicRayTracer" else 4
    bad = None
    for stepn in range(n):
        if not h.step():
            continue
        bad = h.check()
        print("  %s -> %s" % (h.log[-1], "ok" if not bad else "VIOLATED: " + bad))
        if bad:
            break
    return 1 if bad else 0


def tracer_cases(ctx, rng):
    """ray tracers / paths: attribute assignments, then every derived quantity against a fresh object"""
    from pyrex.ray_tracing import (SpecializedRayTracer, BasicRayTracer, UniformRayTracer)
    from pyrex.ice_model import AntarcticIce, UniformIce, ice as default_ice
    n_cases = 0

    def quantities(rt, names):
        out = {}
        for nm in names:
            try:
                v = getattr(rt, nm)
            except Exception as e:
                v = "EXC:" + type(e).__name__
            if nm == "solutions" and not isinstance(v, str):
                v = [(type(p).__name__, float(getattr(p, "theta0", float("nan"))), float(p.tof), float(p.path_length),
                      tuple(np.round(np.asarray(p.emitted_direction, dtype=float), 15)),
                      tuple(np.round(np.asarray(p.received_direction, dtype=float), 15))) for p in v]
            else:
                v = plain(v)
            out[nm] = v
        return out

    def same(a, b):
        """exact equality; NaN equals NaN (an unphysical endpoint gives NaN directions in both objects)"""
        if isinstance(a, (float, np.floating, complex)) and isinstance(b, (float, np.floating, complex)):
            return a == b or (a != a and b != b)
        if isinstance(a, (tuple, list)) and isinstance(b, (tuple, list)):
            return len(a) == len(b) and all(same(x, y) for x, y in zip(a, b))
        try:
            return bool(a == b)
        except Exception:
            return False

    specs = [
        (SpecializedRayTracer, lambda fp, tp, ice: SpecializedRayTracer(fp, tp, ice_model=ice),
         ["n0", "rho", "max_angle", "z_uniform", "direct_r_max", "exists", "expected_solutions", "solutions"],
         [AntarcticIce(), AntarcticIce(n0=1.76, k=1.76 - 1.32, a=0.014)]),
        (BasicRayTracer, lambda fp, tp, ice: BasicRayTracer(fp, tp, ice_model=ice),
         ["n0", "rho", "max_angle", "direct_r_max"],
         [AntarcticIce(), AntarcticIce(n0=1.76, k=1.76 - 1.32, a=0.014)]),
        (UniformRayTracer, lambda fp, tp, ice: UniformRayTracer(fp, tp, ice_model=ice),
         ["n0", "rho", "phi", "exists", "solutions"],
         [UniformIce(1.5), UniformIce(1.78)]),
    ]
    try:
        # the layered-ice tracer (pyrex.custom.layered_ice): every constructor-declared attribute is assigned
        from pyrex.custom.layered_ice import LayeredRayTracer, LayeredIce
        lay = [LayeredIce([UniformIce(1.35, valid_range=(-100, 0), index_above=1, index_below=1.6),
                           UniformIce(1.6, valid_range=(-1000, -100), index_above=1.35, index_below=None)]),
               LayeredIce([UniformIce(1.4, valid_range=(-150, 0), index_above=1, index_below=1.7),
                           UniformIce(1.7, valid_range=(-1000, -150), index_above=1.4, index_below=None)])]
        specs.append((LayeredRayTracer, lambda fp, tp, ice: LayeredRayTracer(fp, tp, ice),
                      ["n0", "rho", "phi", "valid_ice_model", "exists", "solutions"], lay))
    except Exception as e:
        ctx.extra["layered_tracer_probe"] = "not available: %s: %s" % (type(e).__name__, e)
    for cls, make, names, ices in specs:
        for trial in range(ctx.n(3, 25) if cls is SpecializedRayTracer else (ctx.n(2, 10) if cls is BasicRayTracer else ctx.n(8, 60))):
            pts = lambda: np.array([rng.randint(-300, 300), rng.randint(-300, 300), -rng.randint(20, 900)], dtype=float)
            state = {"from_point": pts(), "to_point": pts(), "ice": ices[0]}
            rt = make(state["from_point"], state["to_point"], state["ice"])
            hist = []
            for stepn in range(rng.randint(2, 5)):
                # reads (fill the cache): a random subset, or everything for the slow numerical tracer
                quantities(rt, names if cls is BasicRayTracer else rng.sample(names, rng.randint(1, len(names))))
                a = rng.choice(["from_point", "to_point", "ice", "dz"] if cls is SpecializedRayTracer else
                               (["dz", "dz", "to_point", "ice"] if cls is BasicRayTracer else ["from_point", "to_point", "ice"]))
                if a == "ice":
                    state["ice"] = ices[1] if state["ice"] is ices[0] else ices[0]
                    rt.ice = state["ice"]
                elif a == "dz":
                    rt.dz = rng.choice([d for d in (0.5, 1, 2) if d != rt.dz])
                    state["dz"] = rt.dz
                else:
                    state[a] = pts()
                    setattr(rt, a, state[a])
                hist.append(a)
                got = quantities(rt, names)
                ref = make(state["from_point"], state["to_point"], state["ice"])
                if "dz" in state:
                    ref.dz = state["dz"]
                want = quantities(ref, names)
                n_cases += 1
                ctx.case(key=("tracer", cls.__name__, tuple(hist)), sample={"class": cls.__name__, "assigned": list(hist)} if n_cases % 50 == 1 else None)
                diff = [nm for nm in names if not same(got[nm], want[nm])]
                if diff:
                    ctx.fail("tracer:%s:%s" % (cls.__name__, ",".join(diff)[:60]),
                             "%s: after assigning %s, %s differ(s) from a freshly constructed tracer (%r vs %r)" % (
                                 cls.__name__, hist, diff, got[diff[0]], want[diff[0]]),
                             {"kind": "tracer", "class": cls.__name__, "assign": hist})
                    return n_cases
            # paths of the last tracer: assign any public defining attribute between reads and compare with a
            # freshly CONSTRUCTED path (same class, same endpoints / ice / step / launch angle)
            try:
                sols = rt.solutions
            except Exception:
                sols = []
            for p in sols[:2]:
                pn = ["n0", "rho", "phi", "tof", "path_length", "emitted_direction", "received_direction", "coordinates"]
                for stepn in range(rng.randint(1, 3)):
                    quantities(p, pn)
                    cand = [a for a in ("to_point", "from_point", "dz", "theta0", "ice") if a in p.__dict__]
                    a = rng.choice(cand + (["dz"] if "dz" in cand else []))
                    if a in ("to_point", "from_point"):
                        setattr(p, a, np.asarray(getattr(p, a), dtype=float) + np.array([rng.randint(-20, 20), rng.randint(-20, 20), -rng.randint(0, 30)], dtype=float))
                    elif a == "dz":
                        p.dz = rng.choice([d for d in (0.25, 0.5, 1, 2) if d != p.dz])
                    elif a == "theta0":
                        p.theta0 = p.theta0 * (1 + rng.choice([-1, 1]) / 64)
                    else:
                        p.ice = ices[1] if p.ice is ices[0] else ices[0]
                    got = quantities(p, pn)
                    want = quantities(fresh_path(p), pn)
                    n_cases += 1
                    ctx.case(key=("path", type(p).__name__, a, n_cases % 5))
                    diff = [nm for nm in pn if not same(got[nm], want[nm])]
                    if diff:
                        ctx.fail("path:%s:%s:%s" % (type(p).__name__, a, ",".join(diff)[:60]),
                                 "%s: after assigning %s, %s differ(s) from a freshly constructed path with the same attributes (%s vs %s)" % (
                                     type(p).__name__, a, diff, str(got[diff[0]])[:120], str(want[diff[0]])[:120]),
                                 {"kind": "path", "class": type(p).__name__, "assign": a})
                        return n_cases
    return n_cases


def run(ctx):
    import random
    logging.disable(logging.CRITICAL)      # pyrex warns about discarded imaginary parts of filtered test signals
    ctx.rule = ("(a) random synthetic LazyMutableClass subclasses (random static sets, property read sets, method effect "
                "paths) under random set/call/read histories vs the Coq stamp model: exact stale pattern; "
                "(b) random histories (<= 22 ops) over up to 5 LIVE function-backed signals derived from one another "
                "(copy, with_times on sub-range / super-range / shifted windows, *, reflected *, /, + of a new or of a "
                "sibling FunctionSignal, + EmptySignal; sources: FunctionSignal, a subclass, FullThermalNoise; pulse / step / "
                "oscillating functions with content outside `times`, mostly filtered), in-place ops on any one of them "
                "(read, shift, *=, /=, filter_frequencies, set_buffers (+force), resample, times / value_type / _t0s / "
                "_factors / _buffers assignment); the harness keeps a shadow definition per object, changed only by ops on "
                "that object; after EVERY op EVERY live object's values vs a fresh signal with its current attributes "
                "(exact), vs a fresh signal holding its shadow definition and vs the independent eager evaluation of the "
                "shadow definition (1e-9 relative); noise subclasses: "
                "assignment of rms / amps / phases / freqs, of a basis with a DIFFERENT number of frequencies, of a new band "
                "(FFT variant) with matching arrays, shift, scaling between reads vs a freshly constructed noise object and "
                "(FullThermalNoise) the explicit cosine sum over the published basis; ray tracers: endpoint / ice / dz "
                "assignment between reads vs fresh tracer; their paths: to_point / from_point / dz / theta0 / ice assignment "
                "between reads of tof, path_length, directions, coordinates vs a freshly constructed path; several LIVE tracers and "
                "paths built from SHARED caller arrays / the same ice object (Specialized, Uniform, Basic), ops on any one of them "
                "(rebinding, +=, -=, *= of endpoints, ice, dz) and in-place changes of the caller's own arrays (+=, element and "
                "slice assignment), per-object shadow definitions: after every op every live object's defining attributes equal "
                "its shadow and its derived quantities equal a freshly constructed object's; table-driven: for "
                "every function-backed signal class of the generated table (FunctionSignal, both noise classes, ZHS / AVZ / "
                "ARZ / ARVZ Askaryan signals at on-cone and off-cone angles, hadronic fraction 0..1, 1e6..1e10 GeV) and EVERY "
                "attribute of its static list: read, assign a different value chosen by the value's type, read (also assign "
                "before the first read / twice) vs a freshly CONSTRUCTED object of the class with the same attributes; non-trivial = "
                "distinct op sequences")
    ctx.trusted += ["Coq 8.16.1 kernel, vm_compute (finite table check, stamp model runs)",
                    "tools/lazy_table.py: AST extraction of static attributes, property reads (transitive), method effect "
                    "paths (loops unrolled 0/1/2 times: entry flags of later iterations coincide with the second), alias "
                    "tracking for in-place mutation through loop variables",
                    "harness/props/c06.py: fresh-object constructors, independent eager evaluation (NumPy/SciPy FFT)"]
    ctx.assumptions += [
        "a lazy property's value depends only on the instance attributes the translator lists for the class "
        "(Section hypothesis compute_dep); reads through `self` passed to other code are approximated by all "
        "constructor-set attributes; class-level attributes (solution_class, max_reflections ...) are not assigned on instances",
        "in-place mutation of NumPy arrays / objects held in attributes from OUTSIDE the class (rt.from_point[2] = z, "
        "mutating an ice model object) is not a listed public operation",
        "private (underscore) attributes that are not static are written only by the class's own methods; those that "
        "are set only in __init__ (listed in coverage.private_nonstatic_reads) are constructor-time state: the proof "
        "treats them as part of the object's attributes, the comparison with freshly CONSTRUCTED objects (noise, paths) "
        "is what detects one that should have followed a re-assigned public attribute",
        "copies of noise / Askaryan signals keep the original object's closure as their function (copy() returns a "
        "FunctionSignal whose function still reads the original's parameters): not covered by the per-object model",
        "the filter is an abstract length-preserving function in values_eq_eager (its linear-algebra content is C05)"]
    # ---- gen
    data = None
    try:
        files, data = gen_files(ctx.scratch)
        for k, v in files.items():
            ctx.write_gen(k, v)
        ctx.oblige("gen:lazy_table", True)
    except Exception as e:
        ctx.oblige("gen:lazy_table", False, str(e)[-1200:])
    pin_changed = bool(data) and data["core_hash"] != CORE_PIN
    if data:
        memos = {c: v["memo_attrs"] for c, v in data["classes"].items() if v.get("memo_attrs")}
        ctx.extra["memo_attrs"] = memos
        ctx.oblige("gen:no-hidden-memo-attributes", not memos,
                   "methods store results in attributes that are neither static nor _lazy_* (never dropped by _clear_cache): %s" % memos)
        ctx.extra["private_nonstatic_reads"] = {c: v["private_nonstatic_reads"] for c, v in data["classes"].items()
                                                if v.get("private_nonstatic_reads")}
    ctx.extra["core_pin"] = {"expected": CORE_PIN, "found": data["core_hash"] if data else None, "changed": pin_changed}
    # ---- prove
    ok = ctx.coq_build("C06")
    rng = ctx.rng
    escalate = pin_changed or not ok
    # ---- (a) core correspondence
    n_core = ctx.n(400, 4000) if not escalate else 4000
    cases = [core_case(rng) for _ in range(n_core)]
    try:
        vals = ctx.coq_eval_exprs(IMPORTS, [c[3] for c in cases], chunk=max(50, n_core // 8 + 1))
        bad = 0
        for (tab, hist, pattern, expr), v in zip(cases, vals):
            want = common.norm_coq(common.coq_lit(pattern))
            ctx.case(key=tuple(hist), nontrivial=True)
            if common.norm_coq(v) != want:
                bad += 1
                if len(ctx.failures) >= 6:
                    continue
                ctx.fail("core:" + ";".join(hist)[:120], "LazyMutableClass behaves differently from Model/LazyModel.v on a synthetic class: "
                         "history %s implementation stale-pattern %s model %s" % (hist, pattern, v),
                         {"kind": "core", "table": tab, "history": hist, "implementation": pattern, "model": v}, witness=True)
        ctx.oblige("corr:core-model", bad == 0, "%d of %d synthetic-class histories differ" % (bad, n_core))
    except Exception as e:
        ctx.oblige("corr:core-model", False, str(e)[-1200:])
    # ---- (b) real objects
    n_hist = ctx.n(400, 4000)
    stale = 0
    ops_count = {}
    model_queries = []
    for hn in range(n_hist):
        seed = rng.randrange(2 ** 31)
        h = FunHistory(random.Random(seed))
        for stepn in range(h.rng.randint(6, 22)):
            try:
                op = h.step()
            except Exception as e:
                ctx.fail("fun-raise:%s" % type(e).__name__, "a public operation raised %s: %s after %s" % (type(e).__name__, e, h.log[-5:]),
                         {"kind": "fun", "seed": seed, "ops": h.log})
                break
            if op is None:
                continue
            ops_count[op] = ops_count.get(op, 0) + 1
            bad = h.check()
            if bad:
                stale += 1
                if len(ctx.failures) >= 6:
                    break
                ctx.fail("fun:" + ",".join(o[0] for o in h.log[-4:]), "FunctionSignal history %s: %s" % (
                    [o[:2] for o in h.log[-8:]], bad),
                         {"kind": "fun", "seed": seed, "ops": h.log}, witness=True)
                break
        ctx.case(key=tuple(o[0] for o in h.log), nontrivial=len(h.log) > 3,
                 sample={"ops": h.log[:10]} if hn % 60 == 0 else None)
        model_queries.append([o[0] for o in h.log])
    ctx.oblige("corr:function-signal-fresh", stale == 0, "%d of %d histories served a stale / wrong value" % (stale, n_hist))
    # the generated table's prediction for the same op kinds: with a safe table every read is fresh
    if data and ok:
        try:
            exprs = []
            for q in model_queries[:ctx.n(60, 400)]:
                hops = []
                for o in q:
                    if o == "read":
                        hops.append('HRead "values"')
                    elif o in FUN_TABLE_OP:
                        kind, nm = FUN_TABLE_OP[o]
                        if kind == "set":
                            hops.append('HSet "%s"' % nm)
                        else:
                            npaths = len(data["classes"]["FunctionSignal"]["methods"].get(nm, [[]]))
                            hops += ['HCall "%s" %d' % (nm, k) for k in range(npaths)][-1:]
                    hops.append('HRead "values"')
                exprs.append("existsb (fun r => match r with Some true => true | _ => false end) (hrun0 tbl_FunctionSignal [%s])" % "; ".join(hops))
            vals = ctx.coq_eval_exprs(IMPORTS, exprs, chunk=100)
            predicted_stale = sum(1 for v in vals if v.strip() == "true")
            ctx.oblige("corr:table-predicts-fresh", predicted_stale == 0,
                       "the stamp model of the generated FunctionSignal table predicts a stale read in %d histories" % predicted_stale)
        except Exception as e:
            ctx.oblige("corr:table-predicts-fresh", False, str(e)[-800:])
    try:
        n_static = static_attr_cases(ctx, rng, data)
    except Exception as e:
        n_static = 0
        ctx.oblige("corr:static-attribute-probe-ran", False, "%s: %s" % (type(e).__name__, e))
    n_noise = noise_cases(ctx, rng)
    try:
        n_tr = tracer_cases(ctx, rng)
    except Exception as e:
        n_tr = 0
        ctx.oblige("corr:tracers-ran", False, "%s: %s" % (type(e).__name__, e))
    try:
        n_shared = shared_tracer_cases(ctx, rng)
    except Exception as e:
        n_shared = 0
        ctx.oblige("corr:shared-tracers-ran", False, "%s: %s" % (type(e).__name__, e))
    ctx.extra["correspondence"] = {"shared_tracer_steps": n_shared, "core_histories": n_core, "function_signal_histories": n_hist, "function_signal_ops": ops_count,
                                   "noise_cases": n_noise, "static_attribute_cases": n_static, "tracer_cases": n_tr, "tolerance": "exact vs fresh object; 1e-9 relative vs eager oracle"}
    ctx.extra["search"] = {"ran": True, "oracle": "freshly constructed object with the same defining attributes; independent eager evaluation"}
    # when the proof is broken: name the offending table entries (the dynamic probes above look for the witness)
    if data and not ok:
        bad = []
        for cname, c in data["classes"].items():
            deps = set(a for p in c["props"].values() for a in p["attrs"])
            for a in sorted(deps):
                if a not in c["static"] and not a.startswith("_"):
                    bad.append("%s: lazy properties read public attribute %r which is not static" % (cname, a))
        ctx.extra["table_problems"] = bad[:40]


def replay(ctx, obj):
    kind = obj.get("kind")
    if kind == "fun":
        out = replay_fun(obj["ops"], obj["seed"])
        for op, bad in out:
            print("  %s -> %s" % (op, "ok" if not bad else "STALE/WRONG: " + bad))
        return 1 if any(b for _, b in out) else 0
    if kind == "shared-tracers":
        return replay_shared(obj)
    if kind == "core":
        print("synthetic class table:", json.dumps(obj["table"]))
        print("history:", obj["history"])
        print("implementation stale pattern:", obj["implementation"])
        print("model:", obj["model"])
        return 1
    print(json.dumps(obj)[:1500])
    return 1
