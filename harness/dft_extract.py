"""Extraction of the real-valued DFT / filter / noise models to OCaml floats and a line-based
driver protocol (shared by C05 and C17).

The directives are those of DESIGN.md section 3 plus, because these models index with nat/Z:
ExtrOcamlNatInt + ExtrOcamlZInt (nat, Z, positive -> OCaml int; all indices are < 2^20 and
products of two indices < 2^40, so no overflow), IZR/INR -> float_of_int,
Z.of_nat -> identity, Z.modulo -> floor-mod on int (a mod 0 = a, as in Coq 8.16).
They are part of the trusted base of the *correspondence* only (never of a proof)."""
import os
import subprocess
from concurrent.futures import ThreadPoolExecutor

from harness import common

REAL_EXTRACT_HEADER = r'''
From Coq Require Import Extraction ExtrOcamlBasic ExtrOcamlNatInt ExtrOcamlZInt Reals ZArith List.
From Coquelicot Require Import Coquelicot.
Extract Inlined Constant R => "float".
Extract Inlined Constant R0 => "0.0".
Extract Inlined Constant R1 => "1.0".
Extract Inlined Constant Rplus => "(+.)".
Extract Inlined Constant Rmult => "( *. )".
Extract Inlined Constant Ropp => "(~-.)".
Extract Inlined Constant Rminus => "(-.)".
Extract Inlined Constant Rinv => "(fun x -> 1.0 /. x)".
Extract Inlined Constant Rdiv => "(/.)".
Extract Inlined Constant exp => "exp".
Extract Inlined Constant ln => "log".
Extract Inlined Constant sqrt => "sqrt".
Extract Inlined Constant sin => "sin".
Extract Inlined Constant cos => "cos".
Extract Inlined Constant atan => "atan".
Extract Inlined Constant Rabs => "abs_float".
Extract Inlined Constant PI => "(4.0 *. atan 1.0)".
Extract Constant Rlt_dec => "(fun x y -> x < y)".
Extract Constant Rle_dec => "(fun x y -> x <= y)".
Extract Constant Rgt_dec => "(fun x y -> x > y)".
Extract Constant Rge_dec => "(fun x y -> x >= y)".
Extract Constant Req_EM_T => "(fun x y -> x = y)".
Extract Constant IZR => "float_of_int".
Extract Constant INR => "float_of_int".
Extract Constant Z.of_nat => "(fun x -> x)".
Extract Constant Z.modulo => "(fun a b -> if b = 0 then a else let r = a mod b in if r <> 0 && (r < 0) <> (b < 0) then r + b else r)".
Extract Constant ClassicalDedekindReals.sig_forall_dec => "(fun _ -> failwith ""classical"")".
'''

TRUSTED = ("extraction of the real-valued model to OCaml floats: ExtrOcamlBasic, ExtrOcamlNatInt, ExtrOcamlZInt, "
           "R->float directives of DESIGN section 3, IZR/INR->float_of_int, Z.of_nat->id, Z.modulo->floor-mod; "
           "OCaml libm; the line driver harness/ocaml/*.ml (used for the correspondence only)")


def build(ctx, name, requires, extract_cmd, ml_name, driver_file):
    """Extract (coqc on a scratch file) and compile with the driver.  Returns path of the
    executable or None (obligation extract:<name> records the failure)."""
    body = requires + "\n" + extract_cmd + "\n"
    rc, out = ctx.coq_eval("extract_" + name, body, REAL_EXTRACT_HEADER, timeout=300)
    ml = os.path.join(ctx.scratch, ml_name + ".ml")
    if rc or not os.path.exists(ml):
        ctx.oblige("extract:" + name, False, out[-1500:])
        return None
    mli = os.path.join(ctx.scratch, ml_name + ".mli")
    if os.path.exists(mli):
        os.remove(mli)
    drv_src = os.path.join(common.ROOT, "harness", "ocaml", driver_file)
    drv = os.path.join(ctx.scratch, driver_file)
    open(drv, "w").write(open(drv_src).read())
    exe = os.path.join(ctx.scratch, name + "_model")
    rc, out = common.sh("ocamlfind ocamlopt -w -a -O3 -inline 200 %s.ml %s -o %s" % (ml_name, driver_file, exe),
                        cwd=ctx.scratch, timeout=300)
    if rc or not os.path.exists(exe):
        ctx.oblige("extract:" + name, False, out[-1500:])
        return None
    ctx.checker_cmds.append("coqc <scratch>/extract_%s.v ; ocamlfind ocamlopt %s.ml %s" % (name, ml_name, driver_file))
    ctx.oblige("extract:" + name, True)
    return exe


def run_lines(exe, lines, workers=None, timeout=1500):
    """Feed lines to the model executable (split over several processes, order preserved).
    Returns list of output lines (strings)."""
    if not lines:
        return []
    workers = workers or min(common.NPROC, 16)
    # balance by line length (cost grows with input size)
    idx = sorted(range(len(lines)), key=lambda i: -len(lines[i]))
    buckets = [[] for _ in range(min(workers, len(lines)))]
    for j, i in enumerate(idx):
        buckets[j % len(buckets)].append(i)

    def one(b):
        p = subprocess.run([exe], input="\n".join(lines[i] for i in b) + "\n", capture_output=True,
                           text=True, timeout=timeout)
        outs = p.stdout.split("\n")
        if p.returncode or len([o for o in outs if o != ""]) < len(b):
            # keep blank lines (empty results) but detect a crash
            if p.returncode:
                raise RuntimeError("model driver failed: rc=%s %s" % (p.returncode, p.stderr[-500:]))
        return b, outs[:len(b)]
    res = [None] * len(lines)
    with ThreadPoolExecutor(max_workers=len(buckets)) as ex:
        for b, outs in ex.map(one, buckets):
            if len(outs) < len(b):
                raise RuntimeError("model driver returned %d lines for %d cases" % (len(outs), len(b)))
            for i, o in zip(b, outs):
                res[i] = o
    return res


def hexs(xs):
    return " ".join(float(x).hex() for x in xs)


def parse_floats(line):
    return [float.fromhex(t) for t in line.split()]


def ast_pins(repo, targets):
    """Hash of the normalised AST (no docstrings, no comments, no positions) of each hand-modelled
    function.  targets: list of (relative file, 'Class.method' or 'function')."""
    import ast
    import hashlib
    out = {}
    for rel, qual in targets:
        try:
            tree = ast.parse(open(os.path.join(repo, rel)).read())
        except (OSError, SyntaxError) as e:
            out["%s:%s" % (rel, qual)] = "unreadable: %s" % e
            continue
        node = tree
        for part in qual.split("."):
            node = next((n for n in getattr(node, "body", []) if isinstance(n, (ast.ClassDef, ast.FunctionDef)) and n.name == part), None)
            if node is None:
                break
        if node is None:
            out["%s:%s" % (rel, qual)] = "missing"
            continue
        for n in ast.walk(node):
            if isinstance(n, (ast.FunctionDef, ast.ClassDef)) and n.body and isinstance(n.body[0], ast.Expr) \
                    and isinstance(getattr(n.body[0], "value", None), ast.Constant) and isinstance(n.body[0].value.value, str):
                n.body = n.body[1:] or [ast.Pass()]
        out["%s:%s" % (rel, qual)] = hashlib.sha256(ast.dump(node, include_attributes=False).encode()).hexdigest()[:16]
    return out


def pins_changed(ctx, pid, targets):
    """Compare the AST pins of the hand-modelled functions with harness/pins/<pid>.json.  A changed pin
    is not a failure: the caller escalates the correspondence and runs the search (DESIGN 2.1), and the
    re-validation is recorded in the evidence."""
    import json
    now = ast_pins(common.REPO, targets)
    path = os.path.join(common.ROOT, "harness", "pins", pid + ".json")
    try:
        old = json.load(open(path))
    except (OSError, ValueError):
        old = {}
    changed = sorted(k for k in now if old.get(k) != now[k])
    ctx.extra["ast_pins"] = {"current": now, "changed_since_model_was_written": changed}
    return changed
