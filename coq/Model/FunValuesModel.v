(* C06 (second sentence): FunctionSignal.values / _full_times / _value_window as written.

     n_before = int(buffers[0]/dt) (+1 if buffers[0] % dt)        (same for n_after)
     full_times = concat(linspace(t0 - n_before*dt, t0, n_before, endpoint=False), times,
                         linspace(t_last, t_last + n_after*dt, n_after+1)[1:])
     values = zeros(len(times))
     for each component: func_vals = f(full_times - t0_i) * factor_i
                         full_vals = _apply_filters(func_vals, filters_i) if filters_i else func_vals
                         values += full_vals[n_before : n_before + len(times)]

   The filter (one FFT pass with the PRODUCT of the component's filter responses) is an abstract,
   length-preserving function of (filters, samples): apply_filters.  Domain: dt > 0, buffers >= 0. *)
From Coq Require Import List QArith Qround ZArith Bool Arith Lia.
From PyrexLib Require Import InterpQ.
From PyrexModel Require Import SignalModel.
Import ListNotations.
Open Scope Q_scope.

Section FunValues.
  Variable F : Type.                                       (* a (response, force_real) pair *)
  Variable apply_filters : list F -> list Q -> list Q.

  Record fcomp := { base : comp; filters : list F }.

  (* int(b/dt) + (1 if b % dt != 0), for b >= 0 and dt > 0 *)
  Definition n_points (b dt : Q) : nat :=
    let q := b / dt in
    let k := Qfloor q in
    (Z.to_nat k + (if Qeq_bool q (inject_Z k) then 0 else 1))%nat.

  Definition pre_times (t_first dt : Q) (n : nat) : list Q :=
    map (fun k => t_first - inject_Z (Z.of_nat n) * dt + inject_Z (Z.of_nat k) * dt) (seq 0 n).
  Definition post_times (t_last dt : Q) (n : nat) : list Q :=
    map (fun k => t_last + inject_Z (Z.of_nat (S k)) * dt) (seq 0 n).

  Definition dt_of (ts : list Q) : Q := nth 1 ts 0 - nth 0 ts 0.

  Definition full_times (ts : list Q) (c : fcomp) : list Q :=
    let dt := dt_of ts in
    pre_times (nth 0 ts 0) dt (n_points (c_lead (base c)) dt) ++ ts ++
    post_times (last ts 0) dt (n_points (c_trail (base c)) dt).

  (* slice(n_before, n_before + len(times)) *)
  Definition window (ts : list Q) (c : fcomp) (l : list Q) : list Q :=
    firstn (length ts) (skipn (n_points (c_lead (base c)) (dt_of ts)) l).

  Definition func_vals (ts : list Q) (c : fcomp) : list Q :=
    map (fun t => comp_val t (base c)) (full_times ts c).

  Definition full_vals (ts : list Q) (c : fcomp) : list Q :=
    match filters c with
    | [] => func_vals ts c
    | fs => apply_filters fs (func_vals ts c)
    end.

  (* contribution of one component, cropped to the signal's own times *)
  Definition contrib (ts : list Q) (c : fcomp) : list Q := window ts c (full_vals ts c).

  (* the accumulation loop *)
  Definition values_code (ts : list Q) (cs : list fcomp) : list Q :=
    fold_left (fun acc c => map2 qadd acc (contrib ts c)) cs (zeros (length ts)).
End FunValues.
