"""C01: every ray-trace solution is a true ray joining its two endpoints.

gen    : Gen_ice.v + Gen_ray.v regenerated from pyrex/ice_model.py, pyrex/ray_tracing.py (fail-closed)
prove  : coq/Props/C01.v (antiderivatives, definite integrals, uniform correction, Snell, turning,
         arrival under the brentq hypothesis, stable log_term_1, trapezoid / linspace lemmas)
corr   : the generated definitions run as OCaml floats against the Python static/class methods
         (formula level) and against RayTracer(...).solutions at the REPORTED launch angle
probe  : the property itself on the implementation: independent quadrature of the ray equation
         launched in the reported emitted direction (harness/props/c01_oracle.py)
"""
import importlib
import json
import math
import os
import sys
import time

import numpy as np

from harness import common, realextract as rx
from harness.common import REPO, ROOT
from harness.props import c01_oracle as O

sys.path.insert(0, os.path.join(ROOT, "tools"))

K_BETA_TOL = "specialized-near-vertical-beta-tolerance"
K_LINK = "specialized-indirect-link-range-interpolation"
K_LOG1 = "specialized-log1-cancellation"
K_CUT = "basic-indirect-endpoint-inside-turning-cut"
C = O.C_LIGHT


def gen_files(scratch):
    import gen_ice
    import gen_ray
    importlib.reload(gen_ice)
    importlib.reload(gen_ray)
    t1, h1 = gen_ice.generate(REPO)
    t2, h2 = gen_ray.generate(REPO)
    h = dict(h1)
    h.update(h2)
    return {"Gen_ice": t1, "Gen_ray": t2}, h


# ---------------------------------------------------------------------------- ice and OCaml literals
ICE_CLASSES = ["AntarcticIce", "ArasimIce", "GreenlandIce"]


def ice_params(rng, default_of=None):
    import pyrex.ice_model as im
    if default_of:
        o = getattr(im, default_of)()
        return dict(cls=default_of, n0=float(o.n0), k=float(o.k), a=float(o.a), lo=float(o.valid_range[0]),
                    hi=float(o.valid_range[1]), above=1.0, below=None)
    n0 = rng.uniform(1.6, 1.9)
    k = rng.uniform(0.2, min(0.6, n0 - 1.1))
    a = 10 ** rng.uniform(-2.3, -1.5)
    return dict(cls=rng.choice(ICE_CLASSES), n0=n0, k=k, a=a, lo=-rng.choice([800.0, 1500.0, 2850.0, 3000.0]),
                hi=rng.choice([0.0, 0.0, -10.0, -20.0, -35.0, -50.0]), above=rng.choice([1.0, None]), below=None)


def build_ice(p):
    import pyrex.ice_model as im
    return getattr(im, p["cls"])(n0=p["n0"], k=p["k"], a=p["a"], valid_range=(p["lo"], p["hi"]),
                                 index_above=p["above"], index_below=p["below"])


def pick_ice(rng):
    r = rng.random()
    if r < 0.45:
        return ice_params(rng, default_of=rng.choice(ICE_CLASSES))
    if r < 0.65:
        # the shipped parameters with a valid range that does not start at z = 0 (rays reflect at its top) and a
        # bottom above the default one
        p = ice_params(rng, default_of=rng.choice(ICE_CLASSES))
        p["hi"] = rng.choice([-10.0, -20.0, -35.0, -50.0])
        p["lo"] = rng.choice([p["lo"], -1200.0, -2000.0])
        p["above"] = rng.choice([1.0, None])
        return p
    return ice_params(rng)


def mk_ice(p):
    def opt(v):
        return "None" if v is None else "(Some %s)" % rx.ocf(v)
    return "{M.ice_n0=%s; M.ice_k=%s; M.ice_a=%s; M.ice_valid_range=(%s,%s); M.ice_index_above=%s; M.ice_index_below=%s}" % (
        rx.ocf(p["n0"]), rx.ocf(p["k"]), rx.ocf(p["a"]), rx.ocf(p["lo"]), rx.ocf(p["hi"]), opt(p["above"]), opt(p["below"]))


def mk_vec(v):
    return "((%s,%s),%s)" % (rx.ocf(v[0]), rx.ocf(v[1]), rx.ocf(v[2]))


def mk_path(fp, tp, theta0, icep, dz, direct):
    return "{M.path_from_point=%s; M.path_to_point=%s; M.path_theta0=%s; M.path_ice=%s; M.path_dz=%s; M.path_direct=%s}" % (
        mk_vec(fp), mk_vec(tp), rx.ocf(theta0), mk_ice(icep), rx.ocf(dz), "true" if direct else "false")


def mk_tracer(fp, tp, icep, dz):
    return "{M.tracer_from_point=%s; M.tracer_to_point=%s; M.tracer_ice=%s; M.tracer_dz=%s}" % (
        mk_vec(fp), mk_vec(tp), mk_ice(icep), rx.ocf(dz))


PRELUDE_EXTRA = r'''
let pr5 ((((a, b), c), d), e) = Printf.printf "%h %h %h %h %h\n" a b c d e
'''


def run_model(ctx, functions, cases, name):
    old = rx.OCAML_PRELUDE
    rx.OCAML_PRELUDE = old + PRELUDE_EXTRA
    try:
        return rx.run(ctx, "From PyrexGen Require Import Gen_ice Gen_ray.", functions, cases, name=name)
    finally:
        rx.OCAML_PRELUDE = old


def nprof(p, z):
    return p["n0"] - p["k"] * math.exp(p["a"] * z)


def z_uniform_of(p):
    return math.log(p["n0"] * (1 - 0.99999) / p["k"]) / p["a"]


def within(v, refs, rel, abs_):
    """v lies in the hull of refs widened by rel/abs (nan matches nan)."""
    if math.isinf(abs_):
        return True
    v = float(v)
    refs = [float(r) for r in refs]
    if math.isnan(v):
        return math.isnan(refs[0])
    if math.isnan(refs[0]):
        return False
    refs = [r for r in refs if not math.isnan(r)]   # neighbours (+-1 ulp of the angle) may leave the domain
    if math.isinf(v):
        return v in refs
    lo, hi = min(refs), max(refs)
    w = abs_ + rel * max(abs(lo), abs(hi), abs(v))
    return lo - w <= v <= hi + w



# ---------------------------------------------------------------------------- error model of the log_term_1 cancellation
def log1_delta(icep, beta, z):
    """Worst-case |error of ln(log_term_1)| at depth z from evaluating
        log_term_1 = (n0 n_z - beta^2) - sqrt(alpha gamma)
    in binary64.  Rounding: fl(n0 n_z) - fl(beta^2) carries <= 1 ulp(n0 n_z); alpha and gamma carry relative errors
    <= 3u n0^2/alpha and 3u n_z^2/gamma (u = 2^-53), their product and the square root add 1.5u, so sqrt(alpha gamma)
    (which is ~ n0 n_z) carries <= (1.5 + 1.5 (n0^2/alpha + n_z^2/gamma)) ulp(n0 n_z); the final subtraction is exact up to
    1/2 ulp of the small result.  Absolute error E <= (2.5 + 1.5 (n0^2/alpha + n_z^2/gamma)) ulp(n0 n_z)   [5.5 ulp for small beta].
    The exact value is computed without cancellation through theorem log1_stable:
        log_term_1 = beta^2 (k e^{a z})^2 / (n0 n_z - beta^2 + sqrt(alpha gamma)),
    so |delta ln| <= -ln(1 - E / log_term_1) (infinite when E >= log_term_1: every digit can be lost)."""
    n0, k, a = icep["n0"], icep["k"], icep["a"]
    n = nprof(icep, z)
    al = n0 * n0 - beta * beta
    g = n * n - beta * beta
    if beta <= 0 or al <= 0 or g <= 1e-9 * n * n:
        return 0.0          # at the turning depth sqrt(alpha gamma) vanishes: no cancellation there
    x = n0 * n - beta * beta
    log1 = (beta * k * math.exp(a * z)) ** 2 / (x + math.sqrt(al * g))
    err = math.ulp(n0 * n) * (2.5 + 1.5 * (n0 * n0 / al + n * n / g))
    r = err / log1 if log1 > 0 else float("inf")
    return float("inf") if r >= 1 else -math.log1p(-r)


def log1_bound(icep, beta, legs, zu):
    """Bound B = (radial distance, path length, tof) of the effect of the cancellation on one solution: the shallow closed
    forms are evaluated at every segment endpoint that lies at or above z_uniform, and at z_uniform itself when the
    segment crosses it; each evaluation contributes delta ln / a times the prefactor beta/sqrt(alpha), n0/sqrt(alpha),
    n0^2/(c sqrt(alpha))."""
    if beta <= 0.005 * (1 - 1e-6) or beta >= icep["n0"]:
        return np.zeros(3)       # |beta| <= beta_tolerance: the code does not evaluate the logarithms
    n0, a = icep["n0"], icep["a"]
    A = math.sqrt(n0 * n0 - beta * beta)
    tot = 0.0
    for (za, zb, cut) in legs:
        lo, hi = min(za, zb), max(za, zb)
        pts = [z for z in (za, zb) if z >= zu and not (cut and z == zb)]
        if lo < zu <= hi:
            pts.append(zu)
        for z in pts:
            tot += log1_delta(icep, beta, z)
    return tot / a * np.array([beta / A, n0 / A, n0 * n0 / (A * C)])

# ---------------------------------------------------------------------------- correspondence A: formulas
def corr_formulas(ctx, escalate=1):
    from pyrex.ray_tracing import SpecializedRayTracePath as SP
    rng = ctx.rng
    nice = ctx.n(4, 30) * escalate
    npts = ctx.n(14, 60)
    cases, expect, meta = [], [], []
    dist = {"beta_class": {}, "deep": 0, "shallow": 0, "correction_branch": {}}
    integrands = [("distance", SP._distance_integral, "M.sPath_distance_integral"),
                  ("pathlen", SP._pathlen_integral, "M.sPath_pathlen_integral"),
                  ("tof", SP._tof_integral, "M.sPath_tof_integral")]
    plist = [ice_params(rng, default_of=c) for c in ICE_CLASSES] + [ice_params(rng) for _ in range(nice)]
    for p in plist:
        ice = build_ice(p)
        mk = mk_ice(p)
        zu = z_uniform_of(p)
        for _ in range(npts):
            zc = rng.random()
            if zc < 0.55:
                z = rng.uniform(max(zu, p["lo"]), p["hi"] - 0.01)
            elif zc < 0.7:
                z = zu + rng.uniform(-2, 2)
            else:
                z = rng.uniform(p["lo"], p["hi"] - 0.01)
            nz = nprof(p, z)
            bc = rng.random()
            if bc < 0.6:
                beta, bcls = rng.uniform(0.006, nz * (1 - 1e-4)), "regular"
            elif bc < 0.75:
                beta, bcls = rng.choice([0.0, 0.005, float(np.nextafter(0.005, 1)), float(np.nextafter(0.005, 0)), rng.uniform(0, 0.005), 1e-9]), "near-vertical"
            elif bc < 0.9:
                beta, bcls = nz * (1 - 10 ** rng.uniform(-9, -4)), "near-turning"
            else:
                beta, bcls = rng.uniform(nz, p["n0"] * 1.01), "beyond-turning"
            dist["beta_class"][bcls] = dist["beta_class"].get(bcls, 0) + 1
            with np.errstate(all="ignore"):
                it = [float(v) for v in SP._int_terms(z, beta, ice)]
            cases.append("pr5 (M.sPath_int_terms %s %s %s)" % (rx.ocf(z), rx.ocf(beta), mk))
            expect.append(it)
            meta.append({"fn": "_int_terms", "ice": p, "z": z, "beta": beta, "beta_class": bcls})
            for deep in (False, True):
                dist["deep" if deep else "shallow"] += 1
                for nm, pyf, mf in integrands:
                    with np.errstate(all="ignore"):
                        v = float(pyf(z, beta, ice, deep=deep))
                    cases.append("pr (%s %s %s %s %s)" % (mf, rx.ocf(z), rx.ocf(beta), mk, "true" if deep else "false"))
                    expect.append([v])
                    meta.append({"fn": nm, "deep": deep, "ice": p, "z": z, "beta": beta, "beta_class": bcls})
            # the uniform correction with the three integrands: random endpoints on either side of z_uniform
            z0 = rng.choice([rng.uniform(p["lo"], zu), rng.uniform(zu, p["hi"] - 0.01), zu])
            z1 = rng.choice([rng.uniform(p["lo"], zu), rng.uniform(zu, p["hi"] - 0.01), zu])
            bmax = min(nprof(p, z0), nprof(p, z1))
            b2 = rng.uniform(0.006, bmax * (1 - 1e-4)) if rng.random() < 0.85 else rng.uniform(0, 0.005)
            br = "%s/%s" % ("below" if z0 < zu else "above", "below" if z1 < zu else "above")
            dist["correction_branch"][br] = dist["correction_branch"].get(br, 0) + 1
            for nm, pyf, mf in integrands:
                with np.errstate(all="ignore"):
                    v = float(SP._z_int_uniform_correction(z0, z1, zu, b2, ice, pyf))
                cases.append("pr (M.sPath_z_int_uniform_correction %s %s %s %s %s %s)" % (
                    rx.ocf(z0), rx.ocf(z1), rx.ocf(zu), rx.ocf(b2), mk, mf))
                expect.append([v])
                meta.append({"fn": "correction:" + nm, "ice": p, "z0": z0, "z1": z1, "zu": zu, "beta": b2, "branch": br})
    fns = ["SPath_int_terms", "SPath_distance_integral", "SPath_pathlen_integral", "SPath_tof_integral",
           "SPath_z_int_uniform_correction"]
    res = run_model(ctx, fns, cases, "rayf")
    bad = 0
    for r, e, m in zip(res, expect, meta):
        ctx.case(key=("formula", m["fn"], m.get("z", m.get("z0")), m["beta"], m.get("deep"), json.dumps(m["ice"], sort_keys=True)),
                 sample={"case": m, "model": r, "impl": e})
        ok = r != "EXC" and len(r) == len(e)
        if ok:
            p = m["ice"]
            for j, (x, y) in enumerate(zip(r, e)):
                # same operations in the same order: differences come from libm (exp, log, sin) only.
                # They are amplified (i) next to the turning depth through sqrt(gamma) and (ii) at depth
                # through 1/(k a exp(a z)) (the documented ill-conditioning the code avoids with z_uniform)
                tol_rel, tol_abs = 1e-10, 1e-13
                zz = m.get("z", None)
                if m["fn"] != "_int_terms" and not m.get("deep") and m["beta"] > 0:
                    zs = [zz] if zz is not None else [m["z0"], m["z1"], m["zu"]]
                    if m["beta"] > 0.005 * (1 + 1e-6) and m["beta"] < p["n0"]:
                        # a 1-ulp libm difference in exp() moves n_z by an ulp and log_term_1 by the cancellation noise
                        pref = {"distance": m["beta"], "pathlen": p["n0"], "tof": p["n0"] ** 2 / C}[m["fn"].split(":")[-1]]
                        dl = sum(log1_delta(p, m["beta"], zq) for zq in zs)
                        tol_abs += (pref / math.sqrt(p["n0"] ** 2 - m["beta"] ** 2) * dl / p["a"]) if math.isfinite(dl) else float("inf")
                    for zq in zs:
                        n = nprof(p, zq)
                        g = n * n - m["beta"] ** 2
                        if g > 0:
                            sens = max(1.0, n) ** 2 / math.sqrt(g) / (p["k"] * p["a"] * math.exp(p["a"] * zq))
                            tol_abs += 16 * math.ulp(p["n0"]) * sens / (C if "tof" in m["fn"] else 1.0)
                        else:
                            tol_rel = 1e-6
                if m["fn"] == "_int_terms" and j >= 2:
                    n = nprof(p, zz)
                    g = abs(n * n - m["beta"] ** 2)
                    tol_abs = 1e-13 + 16 * math.ulp(p["n0"] ** 2) * (1 + p["n0"] ** 2 / max(abs(p["n0"] ** 2 - m["beta"] ** 2), 1e-300) + n * n / max(g, 1e-300) if j == 3 else 1)
                    tol_rel = 1e-10 + 64 * math.ulp(1.0) * p["n0"] ** 2 / max(g, 1e-300)
                if not within(y, [x], tol_rel, tol_abs):
                    ok = False
        if not ok:
            bad += 1
            if bad <= 5:
                ctx.oblige("corr:formula:%s" % m["fn"], False,
                           "generated model and implementation disagree: model=%r impl=%r at %s" % (r, e, json.dumps(m, default=str)))
    ctx.oblige("corr:formulas(%d cases)" % len(cases), bad == 0, "%d disagreements" % bad)
    ctx.extra["corr_formula_distribution"] = dist
    ctx.extra["corr_formula_tolerance"] = ("rel 1e-10 + 16 ulp(n0) x conditioning (1/sqrt(gamma) and 1/(k a exp(a z))); "
                                           "same operation order, libm differences only")
    return bad == 0


# ---------------------------------------------------------------------------- geometries
def geometry(rng, p, kind, dz=1.0):
    lo = p["lo"]
    zu = max(z_uniform_of(p), lo + 20)
    top = p["hi"] - 1.0
    if kind == "near-surface":
        # one endpoint less than dz below the top of the ice (its leg to the reflection point is shorter than dz)
        za = p["hi"] - rng.uniform(0.05 * dz, 0.98 * dz)
        zb = p["hi"] - rng.choice([rng.uniform(0.05 * dz, 0.98 * dz), rng.uniform(15.0, 60.0), rng.uniform(60.0, 400.0), rng.uniform(60.0, 400.0)])
        if zb < max(lo + 5, -650.0) or abs(za - zb) < 1e-3:
            return None
        if rng.random() < 0.5:
            za, zb = zb, za
        rho = max(abs(za - zb), 5.0) * math.tan(math.radians(rng.uniform(5, 80)))
        return {"kind": kind, "z_from": za, "z_to": zb, "rho": rho, "phi": rng.uniform(0, 2 * math.pi),
                "x0": rng.uniform(-500, 500), "y0": rng.uniform(-500, 500)}
    if kind == "close-depths":
        # source and receiver closer in depth than (a few) dz, including exactly equal depths
        za = rng.uniform(max(zu, lo) + 5, top - 3 * dz - 1) if rng.random() < 0.8 else rng.uniform(lo + 5, top - 3 * dz - 1)
        delta = rng.choice([0.0, rng.uniform(0, 0.1 * dz), rng.uniform(0.1 * dz, dz), rng.uniform(0.1 * dz, dz), rng.uniform(dz, 3 * dz)])
        zb = za + rng.choice([-1, 1]) * delta
        rho = rng.choice([rng.uniform(1, 30), rng.uniform(30, 400)])
        return {"kind": kind, "z_from": za, "z_to": zb, "rho": rho, "phi": rng.uniform(0, 2 * math.pi),
                "x0": rng.uniform(-500, 500), "y0": rng.uniform(-500, 500)}
    if kind == "shallow":
        za, zb = rng.uniform(max(zu, lo) + 1, top), rng.uniform(max(zu, lo) + 1, top)
    elif kind == "deep":
        if zu - 5 <= lo + 10:
            return None
        za, zb = rng.uniform(lo + 5, zu - 5), rng.uniform(lo + 5, zu - 5)
    elif kind == "cross":
        if zu - 5 <= lo + 10:
            return None
        za, zb = rng.uniform(lo + 5, zu - 5), rng.uniform(zu + 5, top)
    elif kind in ("vertical", "exact-vertical"):
        za, zb = rng.uniform(lo + 5, top), rng.uniform(lo + 5, top)
        if kind == "exact-vertical" and rng.random() < 0.5 and zu - 5 > lo + 10:
            # make the three depth classes equally likely: shallow, deep, across z_uniform
            cls3 = rng.randrange(3)
            za = rng.uniform(lo + 5, zu - 5) if cls3 >= 1 else rng.uniform(max(zu, lo) + 1, top)
            zb = rng.uniform(lo + 5, zu - 5) if cls3 == 1 else rng.uniform(max(zu, lo) + 1, top)
    else:  # shadow: both endpoints in the firn, where the shadow zone is
        za, zb = rng.uniform(max(zu, lo) + 5, top), rng.uniform(max(zu, lo) + 5, top)
    if rng.random() < 0.5:
        za, zb = zb, za
    if abs(za - zb) < 12.0:
        return None
    if kind == "exact-vertical":
        rho = 0.0          # receiver exactly above / below the source: launch angles are exactly 0 and pi
    elif kind == "vertical":
        rho = rng.choice([rng.uniform(0.01, 3), rng.uniform(3, 40)])
    elif kind == "shadow":
        rho = None
    else:
        rho = abs(za - zb) * math.tan(math.radians(rng.uniform(1, 84)))
    phi = rng.uniform(0, 2 * math.pi)
    x0, y0 = rng.uniform(-500, 500), rng.uniform(-500, 500)
    return {"kind": kind, "z_from": za, "z_to": zb, "rho": rho, "phi": phi, "x0": x0, "y0": y0}


def endpoints(g):
    fp = (g["x0"], g["y0"], g["z_from"])
    tp = (g["x0"] + g["rho"] * math.cos(g["phi"]), g["y0"] + g["rho"] * math.sin(g["phi"]), g["z_to"])
    return fp, tp


def make_tracer(tracer, g, icep, dz):
    import pyrex.ray_tracing as rt
    ice = build_ice(icep)
    cls = getattr(rt, tracer)
    if g["rho"] is None:
        g0 = dict(g, rho=1.0)
        fp, tp = endpoints(g0)
        t0 = rt.SpecializedRayTracer(fp, tp, ice)
        with np.errstate(all="ignore"):
            dmax, imax = float(t0.direct_r_max), float(t0.indirect_r_max)
        sel = g.get("shadow_sel", 0)
        frac = g.get("shadow_frac", 1e-3)
        g["rho"] = [dmax * (1 - frac), dmax * (1 + frac), imax * (1 - frac)][sel]
        if not (math.isfinite(g["rho"]) and 0 < g["rho"] < 2e4):
            return None
    fp, tp = endpoints(g)
    return cls(fp, tp, ice, dz=dz) if tracer == "BasicRayTracer" else cls(fp, tp, ice)


def solve(tr):
    """(solutions, error string)"""
    try:
        with np.errstate(all="ignore"):
            return list(tr.solutions), None
    except Exception as e:  # noqa
        return None, "%s: %s" % (type(e).__name__, str(e)[:200])


# ---------------------------------------------------------------------------- the oracle judgement
def leg_list(icep, g, o):
    if o["kind"] == "direct":
        return [(min(g["z_from"], g["z_to"]), max(g["z_from"], g["z_to"]), False)]
    return [(g["z_from"], o["z_turn"], True), (g["z_to"], o["z_turn"], True)]


def fvals(icep, beta, z):
    n = nprof(icep, z)
    g = max(n * n - beta * beta, 1e-300)
    s = math.sqrt(g)
    return np.array([beta / s, n / s, n * n / (C * s)])


def darboux_allowance(icep, beta, legs, dz):
    """Upper bound of |trapezoid - integral| for the numeric tracer's grid on each monotone leg:
    sum_i h (M_i - m_i) <= h * TV(f) (C01.cell_error, summed), h < 2 dz (C01.linspace_grid_step);
    plus the part of the integral the grid does not cover: the dz/10 cut below the turning /
    reflection depth, or the whole leg when it starts within dz/10 of its turning depth (no intervals)."""
    tot = np.zeros(3)
    for (za, zb, cut) in legs:
        zb_eff = zb - dz / 10 if cut else zb
        length = abs(zb_eff - za)
        nseg = int(length / dz)
        if nseg == 0 and zb_eff > za:
            nseg = 1          # a non-empty leg shorter than dz is one trapezoid (pyrex _n_intervals; C01 numeric_direct_short)
        if nseg == 0 or zb_eff <= za:
            tot += O.segment(icep["n0"], icep["k"], icep["a"], beta, min(za, zb), max(za, zb), panels=6)
            continue
        h = length / nseg
        zs = np.linspace(za, zb_eff, 600)
        fv = np.array([fvals(icep, beta, z) for z in zs])
        tv = np.abs(np.diff(fv, axis=0)).sum(axis=0)
        tot += 1.05 * h * tv
        if cut:
            tot += O.segment(icep["n0"], icep["k"], icep["a"], beta, zb_eff, zb, panels=6)
    return tot


LAST_B = {}


def judge(ctx, tracer, dz, icep, g, paths, tr, stats):
    """Judge every returned path against the property.  Returns list of (key, what)."""
    out = []
    LAST_B.clear()
    fp, tp = endpoints(g)
    n0, k, a = icep["n0"], icep["k"], icep["a"]
    zu = z_uniform_of(icep)
    rho = g["rho"]
    tag = "%s dz=%s %s from=%r to=%r" % (tracer, dz, icep["cls"], fp, tp)
    if len(paths) == 2 and paths[1].direct:
        out.append(("second-direct", "second solution is flagged direct: " + tag))
    if len(paths) > 2:
        out.append(("count", "%d solutions returned: %s" % (len(paths), tag)))
    try:
        expected = [bool(x) for x in tr.expected_solutions]
    except Exception:  # noqa
        expected = None
    if expected is not None and sum(expected) != len(paths):
        out.append(("solution-count", "the tracer expects solutions %s (exists=%s) but returns %d path(s) with launch angles %s: %s" % (
            expected, any(expected), len(paths), [float(p.theta0) for p in paths], tag)))
    if rho == 0.0 and abs(g["z_from"] - g["z_to"]) >= max(12.0, 2 * dz):
        # exactly vertical pair inside the ice: the straight vertical ray and the ray reflected at the top both exist
        if not (len(paths) == 2 and paths[0].direct and not paths[1].direct):
            out.append(("vertical-pair", "source and receiver on one vertical: expected the direct and the surface-reflected solution, got %s: %s" % (
                [(bool(p.direct), float(p.theta0)) for p in paths], tag)))
    for i, p in enumerate(paths):
        e = np.asarray(p.emitted_direction, dtype=float)
        r = np.asarray(p.received_direction, dtype=float)
        if not (np.all(np.isfinite(e)) and np.all(np.isfinite(r))):
            out.append(("nonfinite-direction", "solution %d has non-finite directions %r %r: %s" % (i, e, r, tag)))
            continue
        if abs(np.linalg.norm(e) - 1) > 1e-9 or abs(np.linalg.norm(r) - 1) > 1e-9:
            out.append(("unit", "solution %d directions are not unit vectors: |e|=%r |r|=%r: %s" % (i, np.linalg.norm(e), np.linalg.norm(r), tag)))
        se, sr = math.hypot(e[0], e[1]), math.hypot(r[0], r[1])
        th = math.atan2(se, e[2])
        ux, uy = math.cos(g["phi"]), math.sin(g["phi"])
        if se > 1e-9 and rho > 1e-6 and (abs(e[0] / se - ux) > 1e-7 or abs(e[1] / se - uy) > 1e-7):
            out.append(("azimuth", "solution %d is not emitted towards the receiver's azimuth: %r vs (%r,%r): %s" % (i, e, ux, uy, tag)))
        if sr > 1e-9 and rho > 1e-6 and (abs(r[0] / sr - ux) > 1e-7 or abs(r[1] / sr - uy) > 1e-7):
            out.append(("azimuth-recv", "solution %d is not received along the azimuth of travel: %r: %s" % (i, r, tag)))
        # Snell invariant at both ends (n from the profile, angles from the reported unit vectors)
        nf, nt = nprof(icep, g["z_from"]), nprof(icep, g["z_to"])
        if abs(nf * se - nt * sr) > 1e-9 * max(nf, nt):
            out.append(("snell", "solution %d: n sin(theta) is %r at launch and %r at reception: %s" % (i, nf * se, nt * sr, tag)))
        # first kind never turns, second kind turns or reflects
        if p.direct and (e[2] > 0) != (r[2] > 0) and abs(e[2]) > 1e-9 and abs(r[2]) > 1e-9:
            out.append(("direct-turns", "solution %d flagged direct turns over (emitted z %r, received z %r): %s" % (i, e[2], r[2], tag)))
        if (not p.direct) and not (e[2] >= -1e-12 and r[2] <= 1e-12):
            out.append(("indirect-no-turn", "solution %d flagged indirect does not go up and come down (emitted z %r, received z %r): %s" % (i, e[2], r[2], tag)))
        beta = nf * se
        root_low = math.asin(min(1.0, beta / nprof(icep, min(g["z_from"], g["z_to"]))))
        max_angle = math.asin(min(1.0, nprof(icep, max(g["z_from"], g["z_to"])) / nprof(icep, min(g["z_from"], g["z_to"]))))
        try:
            o = O.trace(n0, k, a, g["z_from"], g["z_to"], th, bool(p.direct), icep["hi"])
        except ValueError as ex:
            nlow = nprof(icep, max(g["z_from"], g["z_to"]))
            if tracer == "SpecializedRayTracer" and max(g["z_from"], g["z_to"]) < zu and beta > nlow * (1 - 1e-9) and beta < n0:
                stats["outside_domain"] = stats.get("outside_domain", 0) + 1
                continue
            if tracer == "SpecializedRayTracer" and not p.direct and root_low > max_angle - 1.000001e-6:
                out.append((K_LINK, "solution %d: %s (launch angle within link_range of max_angle): %s" % (i, ex, tag)))
                continue
            out.append(("no-such-ray", "solution %d launched in the reported direction never reaches the receiver depth: %s: %s" % (i, ex, tag)))
            continue
        legs = leg_list(icep, g, o)
        R, L, T = o["vals"]
        scale = np.array([max(rho, abs(g["z_from"] - g["z_to"]), 1.0), L, T])
        tol = 1e-9 * scale + np.array([1e-7, 1e-7, 1e-7 / C])
        # conditioning: the reported direction is a rounded float vector (a few ulp in beta), and the reported
        # angle is brentq's root of the tracer's distance function (xtol = 1e-12 rad + 4 eps rtol).  The oracle's own
        # derivative d(R, L, T)/d beta (finite difference, step 1e-9 beta kept below the turning limit) sizes both.
        nlow = nprof(icep, min(g["z_from"], g["z_to"]))
        nhi = nprof(icep, max(g["z_from"], g["z_to"]))
        def at(b):
            if not (0 < b < n0):
                return None
            try:
                th2 = math.asin(min(1.0, b / nf))
                if e[2] <= 1e-9 and g["z_to"] < g["z_from"]:
                    th2 = math.pi - th2
                return O.trace(n0, k, a, g["z_from"], g["z_to"], th2, bool(p.direct), icep["hi"])["vals"]
            except ValueError:
                return None
        d_round = 16 * math.ulp(beta)
        d_brent = nlow * abs(math.cos(root_low)) * 2.6e-12 + nlow * 0.5 * 2.6e-12 ** 2 + d_round
        cap = nhi - 4 * math.ulp(nhi) if p.direct else n0
        got_any = False
        for d, idx in ((d_brent, [0]), (d_round, [1, 2])):
            for sgn in (1, -1):
                v2 = at(min(beta + sgn * d, cap))
                if v2 is not None:
                    got_any = True
                    for j in idx:
                        tol[j] += 1.5 * abs(v2[j] - o["vals"][j])
        if not got_any and beta <= 1e-12:
            got_any = True       # exactly vertical ray: nothing to perturb, every quantity is smooth at beta = 0
        if not got_any:
            stats["ill_conditioned_skipped"] = stats.get("ill_conditioned_skipped", 0) + 1
            continue
        if tracer == "SpecializedRayTracer":
            # documented model: uniform index n0 below z_uniform -- its deviation from the profile is allowed
            for (za, zb, _) in legs:
                tr_, mo_ = O.model_split(n0, k, a, beta, za, zb, zu)
                tol += np.abs(tr_ - mo_) * 1.01
            if beta <= 0.005 * (1 + 1e-6):
                # beta <= beta_tolerance: the code integrates ds = dz and dt = n dz / c (the beta = 0 forms); the
                # true integrands are larger by the factor sec-ratio n / sqrt(n^2 - beta^2) <= value at the top
                ntop = nprof(icep, icep["hi"])
                fac = ntop / math.sqrt(ntop * ntop - beta * beta) - 1.0
                tol[1] += 1.01 * fac * L
                tol[2] += 1.01 * fac * T
        else:
            tol += darboux_allowance(icep, beta, legs, dz)
        B = log1_bound(icep, beta, legs, zu) if tracer == "SpecializedRayTracer" else np.zeros(3)
        LAST_B[i] = [float(x) for x in B]
        got = np.array([rho, float(p.path_length), float(p.tof)])
        err = np.abs(np.array([R, L, T]) - got)
        stats.setdefault("max_excess", {})
        for j, nm in enumerate(("arrival", "path_length", "tof")):
            key = "%s:%s" % (tracer, nm)
            kf = tracer == "SpecializedRayTracer" and nm == "arrival" and (beta <= 0.005 * (1 + 1e-6) or (not p.direct and root_low > max_angle - 1.000001e-6))
            if not kf and not (B[j] > tol[j]):
                stats["max_excess"][key] = max(stats["max_excess"].get(key, 0.0), float(err[j] / tol[j]) if np.isfinite(err[j]) else float("inf"))
            if not (err[j] <= tol[j] + (B[j] if B[j] <= tol[j] else 0.0)):
                what = ("solution %d (%s): %s of the ray launched in the reported direction is %r but the tracer reports %r "
                        "(|difference| %.3g > tolerance %.3g); beta=%r: %s" % (
                            i, "direct" if p.direct else "indirect", nm, [R, L, T][j], got[j], err[j], tol[j], beta, tag))
                # numeric tracer, turning solution whose upper endpoint lies inside the dz/10 cut below the turning depth:
                # the leg to that endpoint is skipped altogether (no grid), the reported distance / length / time are
                # those of the other leg only -- open finding, guarded by exactly this geometric condition
                in_cut = (tracer == "BasicRayTracer" and not p.direct
                          and o["z_turn"] - dz / 10 < max(g["z_from"], g["z_to"]))
                if in_cut:
                    stats["endpoint_inside_turning_cut_cases"] = stats.get("endpoint_inside_turning_cut_cases", 0) + 1
                    out.append((K_CUT, what + " [upper endpoint %.6g lies within dz/10 = %.3g below the turning depth %.6g]" % (
                        max(g["z_from"], g["z_to"]), dz / 10, o["z_turn"])))
                elif B[j] > tol[j] and (err[j] <= tol[j] + B[j] or math.isinf(B[j])):
                    stats["log1_cancellation_cases"] = stats.get("log1_cancellation_cases", 0) + 1
                    out.append((K_LOG1, what + " [within the worst-case bound %.3g of the log_term_1 cancellation]" % B[j]))
                elif tracer == "SpecializedRayTracer" and beta <= 0.005 * (1 + 1e-6) and nm == "arrival":
                    out.append((K_BETA_TOL, what))
                elif tracer == "SpecializedRayTracer" and not p.direct and root_low > max_angle - 1.000001e-6 and nm == "arrival":
                    out.append((K_LINK, what))
                else:
                    out.append(("%s:%s" % (nm, "direct" if p.direct else "indirect"), what))
    return out


# ---------------------------------------------------------------------------- probes + end-to-end correspondence
KINDS = ["shallow", "deep", "cross", "vertical", "shadow", "exact-vertical", "close-depths"]


def probes_and_e2e(ctx, do_model=True, escalate=1):
    rng = ctx.rng
    n_spec = ctx.n(80, 500) * escalate
    n_basic = ctx.n(9, 36) * escalate
    stats = {"geometries": {}, "solutions": 0, "no_solution": 0, "tracer_exception": 0}
    e2e_cases, e2e_expect, e2e_meta = [], [], []
    plan = [("SpecializedRayTracer", 1.0, n_spec)] + [("BasicRayTracer", dz, n_basic) for dz in (0.1, 1.0, 2.0, 5.0)]
    t_start = time.time()
    for tracer, dz, count in plan:
        done = 0
        attempts = 0
        while done < count and attempts < 5 * count:
            attempts += 1
            icep = pick_ice(rng)
            kind = KINDS[(done + attempts) % len(KINDS)] if tracer != "BasicRayTracer" else rng.choice(["shallow", "cross", "shadow", "shallow", "exact-vertical", "close-depths", "close-depths", "near-surface", "near-surface"])
            g = geometry(rng, icep, kind, dz)
            if g is None:
                continue
            if tracer == "BasicRayTracer":
                # keep the numeric tracer affordable: limit the depth span
                if abs(g["z_from"] - g["z_to"]) / dz > 6000 or min(g["z_from"], g["z_to"]) < -900:
                    continue
            if kind == "shadow":
                g["shadow_sel"] = rng.randrange(3)
                g["shadow_frac"] = 10 ** rng.uniform(-7, -1.5)
            tr = make_tracer(tracer, g, icep, dz)
            if tr is None:
                continue
            done += 1
            paths, err = solve(tr)
            stats["geometries"][kind] = stats["geometries"].get(kind, 0) + 1
            rec = {"kind": "geometry", "tracer": tracer, "dz": dz, "ice": icep, "g": g}
            ctx.case(key=(tracer, dz, json.dumps(icep, sort_keys=True), json.dumps(g, sort_keys=True)),
                     sample={"tracer": tracer, "dz": dz, "ice": icep, "geometry": g,
                             "solutions": None if paths is None else [[bool(p.direct), float(p.theta0)] for p in paths]})
            if paths is None:
                # both endpoints lie inside the valid depth range: the tracer has to answer (no solution or two)
                stats["tracer_exception"] += 1
                stats.setdefault("exceptions", [])
                if len(stats["exceptions"]) < 5:
                    stats["exceptions"].append({"geometry": g, "ice": icep["cls"], "error": err})
                ctx.fail("tracer-raises:%s:%s:%r:%r:%r" % (tracer, icep["cls"], g["z_from"], g["z_to"], g["rho"]),
                         "%s(dz=%s).solutions raises %s for endpoints inside the ice (%s, depths %r -> %r, rho %r)" % (
                             tracer, dz, err, icep["cls"], g["z_from"], g["z_to"], g["rho"]), rec)
                continue
            if not paths:
                stats["no_solution"] += 1
            stats["solutions"] += len(paths)
            for key, what in judge(ctx, tracer, dz, icep, g, paths, tr, stats):
                full = key if key in (K_BETA_TOL, K_LINK, K_LOG1, K_CUT) else "%s:%s:%s:%r:%r:%r" % (key, tracer, icep["cls"], g["z_from"], g["z_to"], g["rho"])
                ctx.fail(full, what, rec)
            # ---- end-to-end correspondence: the model evaluated at the reported launch angle
            if do_model and len(e2e_cases) < ctx.n(6000, 24000):
                fp, tp = endpoints(g)
                pre = "sPath" if tracer == "SpecializedRayTracer" else "bPath"
                for ip, p in enumerate(paths):
                    Bp = LAST_B.get(ip, [0.0, 0.0, 0.0])
                    th0 = float(p.theta0)
                    variants = [th0, float(np.nextafter(th0, 10)), float(np.nextafter(th0, -10))]
                    vals = {"path_length": float(p.path_length), "tof": float(p.tof), "beta": float(p.beta),
                            "z_turn": float(p.z_turn)}
                    for q in ("path_length", "tof", "beta", "z_turn"):
                        for v in variants:
                            e2e_cases.append("pr (M.%s_%s %s)" % (pre, q, mk_path(fp, tp, v, icep, dz, bool(p.direct))))
                        e2e_expect.append((q, vals[q]))
                        e2e_meta.append({"tracer": tracer, "dz": dz, "ice": icep, "g": g, "direct": bool(p.direct), "theta0": th0, "q": q,
                                         "B": {"path_length": Bp[1], "tof": Bp[2]}.get(q, 0.0)})
                    for q, vec in (("emitted_direction", p.emitted_direction), ("received_direction", p.received_direction)):
                        for v in variants:
                            e2e_cases.append("pr3 (M.%s_%s %s)" % (pre, q, mk_path(fp, tp, v, icep, dz, bool(p.direct))))
                        e2e_expect.append((q, [float(x) for x in vec]))
                        e2e_meta.append({"tracer": tracer, "dz": dz, "ice": icep, "g": g, "direct": bool(p.direct), "theta0": th0, "q": q})
                    if tracer == "SpecializedRayTracer":
                        # brentq's guarantee (the Section hypothesis of direct_arrives / indirect_arrives)
                        nlow = nprof(icep, min(g["z_from"], g["z_to"]))
                        root = math.asin(min(1.0, float(p.beta) / nlow))
                        fn = "M.sTracer_direct_r %s %s %s None" if p.direct else "M.sTracer_indirect_r %s %s %s " + rx.ocf(1e-6)
                        # the root is reconstructed from the reported beta: asin is ill-conditioned next to pi/2
                        droot = 3e-12 + 8 * math.ulp(float(p.beta)) / (nlow * max(math.cos(root), 1e-300))
                        if droot > 1e-7:
                            stats["brentq_root_reconstruction_ill_conditioned"] = stats.get("brentq_root_reconstruction_ill_conditioned", 0) + 1
                            continue
                        for v in (root, root + droot, root - droot):
                            e2e_cases.append("pr (" + fn % (mk_tracer(fp, tp, icep, dz), rx.ocf(v), rx.ocf(0.0)) + ")")
                        e2e_expect.append(("root", g["rho"]))
                        e2e_meta.append({"tracer": tracer, "dz": dz, "ice": icep, "g": g, "direct": bool(p.direct), "theta0": th0, "q": "brentq_root", "root": root, "B": Bp[0],
                                         "link": root > math.asin(min(nprof(icep, max(g["z_from"], g["z_to"])) / nlow, 1 - 2.0 ** -53)) - 1.000001e-6})
        stats.setdefault("wall_s", {})["%s dz=%s" % (tracer, dz)] = round(time.time() - t_start, 1)
    ctx.extra["probe"] = stats
    ctx.extra["probe_tolerances"] = (
        "arrival / path length / tof vs Gauss-Legendre quadrature of the ray equation with u = sqrt(z_turn - z): "
        "1e-9 relative + 1e-7 m; + brentq xtol (1e-12 rad) x d rho / d theta (arrival only); analytic tracer: + the deviation of its "
        "documented uniform-ice model below z_uniform from the profile (computed by the oracle); numeric tracer: + the Darboux "
        "bound h x total variation per monotone leg (h < 2 dz) + the dz/10 cut at the turning depth")
    ok = True
    if do_model and e2e_cases:
        fns = ["SPath_path_length", "SPath_tof", "SPath_beta", "SPath_z_turn", "SPath_emitted_direction", "SPath_received_direction",
               "BPath_path_length", "BPath_tof", "BPath_beta", "BPath_z_turn", "BPath_emitted_direction", "BPath_received_direction",
               "STracer_direct_r", "STracer_indirect_r"]
        res = run_model(ctx, fns, e2e_cases, "raye")
        bad = 0
        for i, ((q, val), m) in enumerate(zip(e2e_expect, e2e_meta)):
            trip = res[3 * i:3 * i + 3]
            good = all(t != "EXC" for t in trip)
            if good:
                if m["q"] == "brentq_root":
                    vals = [t[0] for t in trip]
                    # rho lies between the model's distance just left and right of the reported root
                    good = within(val, vals, 1e-9, 1e-9 + 2 * m.get("B", 0.0)) or (m["direct"] is False and abs(vals[0] - val) <= 1e-6 * max(1.0, val))
                    if not good and m.get("link") and not m["direct"]:
                        good = None    # inside the link_range interpolation next to max_angle (open finding): informational
                elif q.endswith("direction"):
                    good = all(within(val[j], [t[j] for t in trip], 1e-9, 1e-12) for j in range(3))
                elif q == "tof":
                    good = within(val, [t[0] for t in trip], 1e-9, 1e-18 + 2 * m.get("B", 0.0))
                else:
                    good = within(val, [t[0] for t in trip], 1e-9, 1e-9 + 2 * m.get("B", 0.0))
            ctx.case(key=("e2e", q, m["tracer"], m["dz"], m["theta0"], json.dumps(m["g"], sort_keys=True)),
                     sample={"case": m, "model": trip, "impl": val})
            if good is None:
                stats["brentq_root_not_bracketed_indirect"] = stats.get("brentq_root_not_bracketed_indirect", 0) + 1
            elif not good:
                bad += 1
                if bad <= 5:
                    ctx.oblige("corr:e2e:%s" % q, False, "model at the reported launch angle %r and implementation disagree: model=%r impl=%r at %s" % (
                        m["theta0"], trip, val, json.dumps(m, default=str)))
        ctx.oblige("corr:end-to-end(%d comparisons)" % len(e2e_expect), bad == 0, "%d disagreements" % bad)
        ok = bad == 0
    return ok


def _geom_fixed(fp, tp):
    return {"kind": "fixed", "z_from": fp[2], "z_to": tp[2], "rho": math.hypot(tp[0] - fp[0], tp[1] - fp[1]),
            "phi": math.atan2(tp[1] - fp[1], tp[0] - fp[0]), "x0": fp[0], "y0": fp[1]}


def fixed_findings(ctx):
    """The documented open findings, probed at fixed inputs so they are evaluated on every run; plus surface-reflected
    solutions in ice whose valid range ends below z = 0 (reflection at the top of the range, beta between n(0) and n(top))."""
    icep = ice_params(ctx.rng, default_of="AntarcticIce")
    stats = {}
    # geometries on which the tracers used to raise 'ValueError: The function value at x=... is NaN' from brentq
    # (fixed in pyrex: _direct_r at max_angle; max_angle = pi/2 for endpoint pairs so deep that index(z) rounds to n0)
    green = ice_params(ctx.rng, default_of="GreenlandIce")
    for tracer, dz, ip, fp, tp in (
            ("BasicRayTracer", 1.0, icep, (56.9, 178.7, -36.3), (-30.0, 5.0, -300.0)),
            ("BasicRayTracer", 1.0, icep, (-45.5, -1200.25, -37.0), (271.1, -1425.6, -365.6)),
            ("SpecializedRayTracer", 1.0, green, (0.0, 0.0, -2081.9), (22.6, 0.0, -1802.66)),
            ("SpecializedRayTracer", 1.0, green, (10.0, 5.0, -1900.3), (40.0, 12.0, -2240.4)),
            ("BasicRayTracer", 5.0, green, (0.0, 0.0, -2081.9), (300.0, 0.0, -1802.66))):
        rho = math.hypot(tp[0] - fp[0], tp[1] - fp[1])
        g = {"kind": "fixed", "z_from": fp[2], "z_to": tp[2], "rho": rho, "phi": math.atan2(tp[1] - fp[1], tp[0] - fp[0]), "x0": fp[0], "y0": fp[1]}
        tr = make_tracer(tracer, g, ip, dz)
        paths, err = solve(tr)
        rec = {"kind": "geometry", "tracer": tracer, "dz": dz, "ice": ip, "g": g}
        ctx.case(key=("fixed-raise", tracer, fp, tp))
        if paths is None:
            ctx.fail("tracer-raises:%s:%s:%r:%r:%r" % (tracer, ip["cls"], g["z_from"], g["z_to"], g["rho"]),
                     "%s(dz=%s).solutions raises %s for endpoints inside the ice (%s, %r -> %r)" % (tracer, dz, err, ip["cls"], fp, tp), rec)
            continue
        for key, what in judge(ctx, tracer, dz, ip, g, paths, tr, stats):
            full = key if key in (K_BETA_TOL, K_LINK, K_LOG1, K_CUT) else "%s:%s:%s:%r:%r:%r" % (key, tracer, ip["cls"], g["z_from"], g["z_to"], g["rho"])
            ctx.fail(full, what, rec)
    # witness of the open finding K_CUT (numeric tracer, |z1 - z0| <= dz/10): always evaluated
    fpw, tpw = (162.28438479867862, 469.3380616410893, -711.5212175054803), (155.29041933117006, 475.0820062164846, -711.5873044052282)
    g = _geom_fixed(fpw, tpw)
    tr = make_tracer("BasicRayTracer", g, icep, 1.0)
    paths, err = solve(tr)
    ctx.case(key=("fixed-cut", fpw, tpw))
    for key, what in judge(ctx, "BasicRayTracer", 1.0, icep, g, paths or [], tr, stats):
        full = key if key in (K_BETA_TOL, K_LINK, K_LOG1, K_CUT) else "%s:%s:%s:%r:%r:%r" % (key, "BasicRayTracer", icep["cls"], g["z_from"], g["z_to"], g["rho"])
        ctx.fail(full, what, {"kind": "geometry", "tracer": "BasicRayTracer", "dz": 1.0, "ice": icep, "g": g})
    ice20 = dict(icep, hi=-20.0, above=None)
    # exactly vertical pairs (launch angles exactly 0 and pi): both solutions exist and are exact
    for tracer, dz, ip, zf, zt in (("SpecializedRayTracer", 1.0, icep, -300.0, -100.0), ("SpecializedRayTracer", 1.0, icep, -100.0, -2000.0),
                                   ("SpecializedRayTracer", 1.0, green, -2000.0, -1500.0), ("SpecializedRayTracer", 1.0, ice20, -900.0, -150.0),
                                   ("BasicRayTracer", 1.0, icep, -300.0, -100.0), ("BasicRayTracer", 5.0, green, -120.0, -640.0),
                                   ("BasicRayTracer", 0.1, ice20, -250.0, -60.0)):
        g = {"kind": "exact-vertical", "z_from": zf, "z_to": zt, "rho": 0.0, "phi": 0.0, "x0": 5.0, "y0": 7.0}
        tr = make_tracer(tracer, g, ip, dz)
        paths, err = solve(tr)
        rec = {"kind": "geometry", "tracer": tracer, "dz": dz, "ice": ip, "g": g}
        ctx.case(key=("fixed-vertical", tracer, dz, zf, zt))
        if paths is None:
            ctx.fail("tracer-raises:%s:%s:%r:%r:%r" % (tracer, ip["cls"], zf, zt, 0.0), "%s(dz=%s).solutions raises %s for a vertical pair %r -> %r" % (tracer, dz, err, zf, zt), rec)
            continue
        for key, what in judge(ctx, tracer, dz, ip, g, paths, tr, stats):
            full = key if key in (K_BETA_TOL, K_LINK, K_LOG1, K_CUT) else "%s:%s:%s:%r:%r:%r" % (key, tracer, ip["cls"], zf, zt, 0.0)
            ctx.fail(full, what, rec)
    for rho in (550.0, 600.0, 650.0, 700.0):
        g = {"kind": "shallow", "z_from": -300.0, "z_to": -150.0, "rho": rho, "phi": 0.0, "x0": 0.0, "y0": 0.0}
        tr = make_tracer("SpecializedRayTracer", g, ice20, 1.0)
        paths, err = solve(tr)
        ctx.case(key=("fixed-top20", rho))
        for key, what in judge(ctx, "SpecializedRayTracer", 1.0, ice20, g, paths or [], tr, stats):
            full = key if key in (K_BETA_TOL, K_LINK, K_LOG1, K_CUT) else "%s:%s:%s:%r:%r:%r" % (key, "SpecializedRayTracer", "AntarcticIce(top -20)", g["z_from"], g["z_to"], g["rho"])
            ctx.fail(full, what, {"kind": "geometry", "tracer": "SpecializedRayTracer", "dz": 1.0, "ice": ice20, "g": g})
    for g in ({"kind": "vertical", "z_from": -2000.0, "z_to": -100.0, "rho": 2.0, "phi": 0.3, "x0": 0.0, "y0": 0.0},
              {"kind": "vertical", "z_from": -300.0, "z_to": -100.0, "rho": 0.5, "phi": 1.0, "x0": 5.0, "y0": -5.0},
              # the witness of the open finding F10 (cancellation in log_term_1): always evaluated
              {"kind": "cross", "z_from": -2000.0, "z_to": -100.0, "rho": 10.0, "phi": 0.0, "x0": 0.0, "y0": 0.0},
              {"kind": "cross", "z_from": -100.0, "z_to": -1500.0, "rho": 25.0, "phi": 2.0, "x0": 0.0, "y0": 0.0}):
        tr = make_tracer("SpecializedRayTracer", g, icep, 1.0)
        paths, err = solve(tr)
        if not paths:
            continue
        rec = {"kind": "geometry", "tracer": "SpecializedRayTracer", "dz": 1.0, "ice": icep, "g": g}
        ctx.case(key=("fixed", json.dumps(g, sort_keys=True)))
        for key, what in judge(ctx, "SpecializedRayTracer", 1.0, icep, g, paths, tr, stats):
            full = key if key in (K_BETA_TOL, K_LINK, K_LOG1, K_CUT) else "%s:%s:%s:%r:%r:%r" % (key, "SpecializedRayTracer", icep["cls"], g["z_from"], g["z_to"], g["rho"])
            ctx.fail(full, what, rec)



# ---------------------------------------------------------------------------- history: the caller reuses its endpoint arrays
def reuse_history(ctx):
    """The caller passes ndarray endpoints, takes .solutions, then overwrites its own arrays in place (an event loop reusing a
    vertex buffer) and only then reads the lazily evaluated path quantities.  Every quantity must still describe the ray
    between the ORIGINAL endpoints (same oracle as the probes), and the tracer / paths must not share memory with the
    caller's arrays."""
    import pyrex.ray_tracing as rt
    rng = ctx.rng
    stats = {}
    n = ctx.n(14, 120)
    done = attempts = 0
    while done < n and attempts < 6 * n:
        attempts += 1
        icep = pick_ice(rng)
        tracer, dz = ("BasicRayTracer", rng.choice([1.0, 5.0])) if done % 4 == 3 else ("SpecializedRayTracer", 1.0)
        kind = rng.choice(["shallow", "cross", "deep", "shallow"]) if tracer != "BasicRayTracer" else "shallow"
        g = geometry(rng, icep, kind)
        if g is None or g["rho"] is None:
            continue
        if tracer == "BasicRayTracer" and min(g["z_from"], g["z_to"]) < -700:
            continue
        done += 1
        fp, tp = endpoints(g)
        fa, ta = np.array(fp, dtype=float), np.array(tp, dtype=float)
        ice = build_ice(icep)
        cls = getattr(rt, tracer)
        tr = cls(fa, ta, ice, dz=dz) if tracer == "BasicRayTracer" else cls(fa, ta, ice)
        paths, err = solve(tr)
        rec = {"kind": "reuse", "tracer": tracer, "dz": dz, "ice": icep, "g": g}
        ctx.case(key=("reuse", tracer, dz, json.dumps(g, sort_keys=True)))
        if not paths:
            continue
        shared = [nm for nm, arr in (("tracer.from_point", tr.from_point), ("tracer.to_point", tr.to_point),
                                     ("path.from_point", paths[0].from_point), ("path.to_point", paths[0].to_point))
                  if np.shares_memory(arr, fa) or np.shares_memory(arr, ta)]
        # the caller now reuses its buffers for the next event
        fa[:] = [fp[0] + rng.uniform(-300, 300), fp[1] + rng.uniform(-300, 300), rng.uniform(max(icep["lo"] + 5, -600.0), icep["hi"] - 1)]
        ta[:] = [tp[0] + rng.uniform(-300, 300), tp[1] + rng.uniform(-300, 300), rng.uniform(max(icep["lo"] + 5, -600.0), icep["hi"] - 1)]
        key_tail = "%s:%s:%r:%r:%r" % (tracer, icep["cls"], g["z_from"], g["z_to"], g["rho"])
        if shared:
            ctx.fail("shares-caller-array:" + key_tail, "%s keeps a view of the caller's endpoint array (%s): overwriting the caller's array changes the tracer "
                     "(from_point is now %r, constructed with %r)" % (tracer, ", ".join(shared), list(map(float, tr.from_point)), list(fp)), rec)
        if not (np.array_equal(np.asarray(tr.from_point, dtype=float), np.array(fp)) and np.array_equal(np.asarray(tr.to_point, dtype=float), np.array(tp))):
            ctx.fail("endpoints-changed:" + key_tail, "after the caller overwrote its own arrays tracer.from_point/to_point are %r / %r, constructed with %r / %r" % (
                list(map(float, tr.from_point)), list(map(float, tr.to_point)), list(fp), list(tp)), rec)
        for key, what in judge(ctx, tracer, dz, icep, g, paths, tr, stats):
            full = key if key in (K_BETA_TOL, K_LINK, K_LOG1, K_CUT) else "reuse:%s:%s" % (key, key_tail)
            ctx.fail(full, "[path quantities read after the caller overwrote its endpoint arrays] " + what, rec)
    ctx.extra["reuse_history"] = {"histories": done, "max_excess": stats.get("max_excess")}


# ---------------------------------------------------------------------------- op histories on ONE tracer object
def _geom_of(fp, tp):
    fp, tp = [float(x) for x in fp], [float(x) for x in tp]
    return {"kind": "history", "z_from": fp[2], "z_to": tp[2], "rho": math.hypot(tp[0] - fp[0], tp[1] - fp[1]),
            "phi": math.atan2(tp[1] - fp[1], tp[0] - fp[0]), "x0": fp[0], "y0": fp[1]}


def apply_op(tr, op):
    """One public mutation route of a live tracer.  Returns nothing; the tracer is changed."""
    k = op["op"]
    if k == "assign":
        setattr(tr, op["attr"], np.array(op["value"], dtype=float))
    elif k == "augassign":
        if op["attr"] == "to_point":
            tr.to_point += np.array(op["step"], dtype=float)
        else:
            tr.from_point += np.array(op["step"], dtype=float)
    elif k == "inplace-reassign":
        arr = getattr(tr, op["attr"])
        arr[:] = np.array(op["value"], dtype=float)      # edit the array the tracer holds ...
        setattr(tr, op["attr"], arr)                      # ... and assign the very same object again
    elif k == "ice":
        tr.ice = build_ice(op["ice"])
    elif k == "dz":
        tr.dz = op["dz"]
    else:
        raise ValueError(k)


def run_history(ctx, tracer, dz, icep, g0, ops, stats, collect):
    """Build one tracer, read .solutions, apply each op and read .solutions again; after every read each returned path is
    judged (ray oracle) against the tracer's CURRENT endpoints / ice / dz, and the launch angles are compared with a
    freshly built tracer.  collect(key, what, step) receives the failures."""
    import pyrex.ray_tracing as rt
    cls = getattr(rt, tracer)
    fp, tp = endpoints(g0)
    mk = (lambda f, t, ip, d: cls(np.array(f, dtype=float), np.array(t, dtype=float), build_ice(ip), dz=d)) if tracer == "BasicRayTracer" \
        else (lambda f, t, ip, d: cls(np.array(f, dtype=float), np.array(t, dtype=float), build_ice(ip)))
    tr = mk(fp, tp, icep, dz)
    cur = {"fp": list(fp), "tp": list(tp), "ice": icep, "dz": dz}
    for step in range(len(ops) + 1):
        if step > 0:
            op = ops[step - 1]
            apply_op(tr, op)
            if op["op"] in ("assign", "inplace-reassign"):
                cur["fp" if op["attr"] == "from_point" else "tp"] = list(op["value"])
            elif op["op"] == "augassign":
                key = "fp" if op["attr"] == "from_point" else "tp"
                cur[key] = [float(x) for x in (np.array(cur[key], dtype=float) + np.array(op["step"], dtype=float))]
            elif op["op"] == "ice":
                cur["ice"] = op["ice"]
            elif op["op"] == "dz":
                cur["dz"] = op["dz"]
        now_f, now_t = [float(x) for x in tr.from_point], [float(x) for x in tr.to_point]
        if now_f != cur["fp"] or now_t != cur["tp"]:
            collect("endpoints-not-updated", "after %s the tracer holds endpoints %r -> %r, the operations gave %r -> %r" % (
                ops[step - 1] if step else "construction", now_f, now_t, cur["fp"], cur["tp"]), step)
        g = _geom_of(now_f, now_t)
        paths, err = solve(tr)
        if paths is None:
            collect("tracer-raises", "solutions raises %s" % err, step)
            continue
        fresh, ferr = solve(mk(now_f, now_t, cur["ice"], cur["dz"]))
        if fresh is not None and [(bool(q.direct), float(q.theta0)) for q in fresh] != [(bool(q.direct), float(q.theta0)) for q in paths]:
            collect("differs-from-fresh-tracer", "after %d operation(s) the tracer returns launch angles %s, a tracer freshly built from its current "
                    "endpoints %r -> %r returns %s" % (step, [(bool(q.direct), float(q.theta0)) for q in paths], now_f, now_t,
                                                        [(bool(q.direct), float(q.theta0)) for q in fresh]), step)
        for key, what in judge(ctx, tracer, cur["dz"], cur["ice"], g, paths, tr, stats):
            collect(key, "[after %d operation(s) on one tracer object; judged against its current endpoints] %s" % (step, what), step)


def op_histories(ctx):
    rng = ctx.rng
    stats = {}
    n = ctx.n(10, 80)
    done = attempts = 0
    kinds = {}
    while done < n and attempts < 8 * n:
        attempts += 1
        icep = pick_ice(rng)
        tracer, dz = ("BasicRayTracer", rng.choice([1.0, 5.0])) if done % 3 == 2 else ("SpecializedRayTracer", 1.0)

        def new_geom():
            for _ in range(20):
                gg = geometry(rng, icep, rng.choice(["shallow", "shallow", "cross"]) if tracer != "BasicRayTracer" else "shallow", dz)
                if gg is not None and gg["rho"] is not None and not (tracer == "BasicRayTracer" and min(gg["z_from"], gg["z_to"]) < -600):
                    return gg
            return None
        g0 = new_geom()
        if g0 is None:
            continue
        fp, tp = endpoints(g0)
        cur_f, cur_t = list(fp), list(tp)
        ops = []
        for _ in range(rng.randint(2, 4)):
            kind = rng.choice(["assign", "augassign", "augassign", "inplace-reassign", "inplace-reassign", "ice", "dz"])
            if kind in ("assign", "augassign", "inplace-reassign"):
                g2 = new_geom()
                if g2 is None:
                    continue
                f2, t2 = endpoints(g2)
                attr = rng.choice(["from_point", "to_point"])
                # move one endpoint only: keep the other, take the new point's depth and a horizontal shift
                old = cur_f if attr == "from_point" else cur_t
                target = [old[0] + rng.uniform(-60, 60), old[1] + rng.uniform(-60, 60), (f2 if attr == "from_point" else t2)[2]]
                if abs(target[2] - (cur_t if attr == "from_point" else cur_f)[2]) < 12:
                    continue
                if kind == "augassign":
                    stepv = [target[i] - old[i] for i in range(3)]
                    ops.append({"op": kind, "attr": attr, "step": stepv})
                    target = [float(x) for x in (np.array(old, dtype=float) + np.array(stepv, dtype=float))]
                else:
                    ops.append({"op": kind, "attr": attr, "value": target})
                if attr == "from_point":
                    cur_f = target
                else:
                    cur_t = target
            elif kind == "ice":
                ip2 = dict(icep, n0=icep["n0"] * rng.uniform(0.98, 1.02), a=icep["a"] * rng.uniform(0.9, 1.1))
                ops.append({"op": "ice", "ice": ip2})
            else:
                ops.append({"op": "dz", "dz": rng.choice([0.5, 1.0, 2.0, 5.0])})
            kinds[kind] = kinds.get(kind, 0) + 1
        if not ops:
            continue
        done += 1
        rec = {"kind": "history", "tracer": tracer, "dz": dz, "ice": icep, "g": g0, "ops": ops}
        ctx.case(key=("history", tracer, dz, json.dumps(g0, sort_keys=True), json.dumps(ops, sort_keys=True)),
                 sample={"tracer": tracer, "geometry": g0, "ops": ops})

        def collect(key, what, step, rec=rec):
            full = key if key in (K_BETA_TOL, K_LINK, K_LOG1, K_CUT) else "history:%s:%s:%r:%r:step%d" % (key, tracer, g0["z_from"], g0["z_to"], step)
            ctx.fail(full, "%s %s" % (tracer, what), rec)
        run_history(ctx, tracer, dz, icep, g0, ops, stats, collect)
    ctx.extra["op_histories"] = {"histories": done, "ops": kinds}

# ---------------------------------------------------------------------------- entry points
def run(ctx):
    ctx.rule = ("formula correspondence: (ice parameters, depth, beta, deep flag) tuples incl. beta at / around beta_tolerance, next to and beyond the "
                "turning depth, depths around z_uniform, and (z0, z1) on either side of z_uniform; end-to-end: every solution of random geometries "
                "(shallow / deep below z_uniform / crossing / near-vertical / next to the direct and indirect shadow boundaries, source above or below) "
                "in Antarctic, AraSim, Greenland and random (n0,k,a) ice, analytic tracer and numeric tracer with dz in {0.1, 1, 5}; "
                "non-trivial = distinct tuples / geometries")
    ctx.trusted += ["Coq 8.16.1 kernel; Coquelicot (is_derive, is_RInt)",
                    "tools/py2coq.py + tools/gen_ice.py + tools/gen_ray.py (translator; scalar mode; elementwise NumPy expressions become List.map; "
                    "brentq's return value and peak_angle are parameters)",
                    "harness/realextract.py extraction directives (R -> OCaml float), correspondence only",
                    "harness/props/c01_oracle.py (Gauss-Legendre quadrature of the ray equation), probes only"]
    ctx.assumptions += [
        "theorems are over the real numbers; binary64 rounding is covered by the numeric correspondence and the probes only",
        "scipy.optimize.brentq: `if it returns root then |r(root) - rho| <= tol` is a hypothesis of direct_arrives / indirect_arrives "
        "(checked numerically on every reported solution: rho lies between the model's r just left and right of the root)",
        "root existence, the classification by direct_r_max / indirect_r_max and peak_angle are not proved (exercised by the probes)",
        "indirect paths that turn over below the surface: the integrands are unbounded at z_turn (not Riemann integrable on the closed leg); "
        "proved in limit form (turning_depth_limit): proper integrals on [z0, z'] converge to the code's value as z' -> z_turn from below",
        "the numeric tracer is covered by the Darboux bracket only (its tolerance in the probes is that bound)",
        "ice.index / depth_with_index are those of AntarcticIce (ArasimIce and GreenlandIce inherit them; confirmed by the correspondence)"]
    ctx.partial += ["numeric tracer: Darboux bracket only"]
    try:
        files, hashes = gen_files(ctx.scratch)
        for kf, v in files.items():
            ctx.write_gen(kf, v)
        ctx.oblige("gen:Gen_ray", True)
        ctx.extra["translated_functions"] = hashes
    except Exception as e:
        ctx.oblige("gen:Gen_ray", False, "translation failed (fail-closed): %s" % e)
        fixed_findings(ctx)
        reuse_history(ctx)
        op_histories(ctx)
        probes_and_e2e(ctx, do_model=False, escalate=2)
        return
    ok = ctx.coq_build("C01")
    try:
        ok &= corr_formulas(ctx)
    except Exception as e:
        ctx.oblige("corr:formulas", False, repr(e)[-1500:])
        ok = False
    fixed_findings(ctx)
    reuse_history(ctx)
    op_histories(ctx)
    try:
        probes_and_e2e(ctx, do_model=True, escalate=1 if ok else 2)
    except RuntimeError as e:
        ctx.oblige("corr:end-to-end", False, repr(e)[-1500:])
        probes_and_e2e(ctx, do_model=False, escalate=2)


def replay(ctx, obj):
    print(json.dumps(obj, indent=1, default=str))
    if obj.get("kind") == "history":
        fails = []

        def collect(key, what, step):
            if key in (K_BETA_TOL, K_LINK, K_LOG1, K_CUT):
                print(" (open known finding %s at step %d)" % (key, step))
                return
            fails.append((step, key, what))
            print(" FAIL step %d %s: %s" % (step, key, what))
        run_history(ctx, obj["tracer"], obj["dz"], obj["ice"], obj["g"], obj["ops"], {}, collect)
        print("history of %d operation(s) on one %s: %d failure(s)" % (len(obj["ops"]), obj["tracer"], len(fails)))
        return 1 if fails else 0
    if obj.get("kind") == "reuse":
        import pyrex.ray_tracing as rt
        icep, g = obj["ice"], obj["g"]
        fp, tp = endpoints(g)
        fa, ta = np.array(fp, dtype=float), np.array(tp, dtype=float)
        cls = getattr(rt, obj["tracer"])
        tr = cls(fa, ta, build_ice(icep), dz=obj["dz"]) if obj["tracer"] == "BasicRayTracer" else cls(fa, ta, build_ice(icep))
        paths, err = solve(tr)
        print("implementation: %s; shares memory with the caller's arrays: %s" % (
            "exception " + err if paths is None else "%d solutions" % len(paths), np.shares_memory(tr.from_point, fa) or np.shares_memory(tr.to_point, ta)))
        fa[:] = [fp[0] + 100.0, fp[1] - 50.0, min(fp[2] * 0.5, icep["hi"] - 1)]
        ta[:] = [tp[0] - 70.0, tp[1] + 30.0, min(tp[2] * 0.5, icep["hi"] - 1)]
        print("caller overwrote its arrays; tracer.from_point=%r to_point=%r (constructed with %r, %r)" % (list(map(float, tr.from_point)), list(map(float, tr.to_point)), fp, tp))
        stats = {}
        fails = judge(ctx, obj["tracer"], obj["dz"], icep, g, paths or [], tr, stats)
        for p in paths or []:
            print(" solution direct=%s theta0=%r path_length=%r tof=%r received=%r" % (p.direct, float(p.theta0), float(p.path_length), float(p.tof), list(map(float, p.received_direction))))
        for k, w in fails:
            print(" FAIL", k, w)
        return 1 if fails else 0
    if obj.get("kind") != "geometry":
        print("(no concrete geometry recorded: the replay file names the broken theorem / correspondence)")
        return 1
    icep, g = obj["ice"], obj["g"]
    tr = make_tracer(obj["tracer"], g, icep, obj["dz"])
    paths, err = solve(tr)
    print("implementation:", "exception " + err if paths is None else "%d solutions" % len(paths))
    stats = {}
    for p in paths or []:
        th = math.atan2(math.hypot(p.emitted_direction[0], p.emitted_direction[1]), p.emitted_direction[2])
        print(" solution direct=%s theta0=%r emitted=%r received=%r path_length=%r tof=%r beta=%r" % (
            p.direct, float(p.theta0), list(p.emitted_direction), list(p.received_direction), float(p.path_length), float(p.tof), float(p.beta)))
        try:
            o = O.trace(icep["n0"], icep["k"], icep["a"], g["z_from"], g["z_to"], th, bool(p.direct), icep["hi"])
            print("   oracle (true ray launched in that direction): horizontal travel=%r (receiver at %r) length=%r tof=%r" % (
                o["vals"][0], g["rho"], o["vals"][1], o["vals"][2]))
        except ValueError as e:
            print("   oracle: no such ray:", e)
    # the generated Coq model (run as floats) at the reported launch angles
    if paths:
        try:
            fp, tp = endpoints(g)
            pre = "sPath" if obj["tracer"] == "SpecializedRayTracer" else "bPath"
            cases = []
            for p in paths:
                mp = mk_path(fp, tp, float(p.theta0), icep, obj["dz"], bool(p.direct))
                cases += ["pr (M.%s_path_length %s)" % (pre, mp), "pr (M.%s_tof %s)" % (pre, mp), "pr (M.%s_beta %s)" % (pre, mp)]
            res = run_model(ctx, ["SPath_path_length", "SPath_tof", "SPath_beta", "BPath_path_length", "BPath_tof", "BPath_beta"], cases, "replay")
            for i, p in enumerate(paths):
                print(" model (Gen_ray.v as floats) solution %d at theta0=%r: path_length=%r tof=%r beta=%r" % (
                    i, float(p.theta0), res[3 * i][0], res[3 * i + 1][0], res[3 * i + 2][0]))
        except Exception as e:  # noqa
            print(" model: could not be run (%s)" % (repr(e)[:300],))
    fails = judge(ctx, obj["tracer"], obj["dz"], icep, g, paths or [], tr, stats)
    for k, w in fails:
        print(" FAIL", k, w)
    return 1 if fails else 0
