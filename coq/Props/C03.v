(* C03: ray propagation is passive, delays by the time of flight, polarization transverse.
   Statements only.  BasicRayTracePath_* / SpecializedRayTracePath_* / UniformRayTracePath_* /
   LayeredRayTracePath_* are regenerated from pyrex/ray_tracing.py and
   pyrex/custom/layered_ice/ray_tracing.py on every run (Gen/Gen_prop.v); the loops around them
   are the pinned hand model Model/PropagationModel.v; the ice formulas are Gen/Gen_ice.v. *)
From Coq Require Import Reals List Bool ZArith.
From PyrexLib Require Import RealPrims Vec3Facts CPair SignalAlg ListOps.
From PyrexGen Require Import Gen_ice Gen_prop.
From PyrexModel Require Import PropagationModel.
From PyrexProofs Require Import C03_fresnel C03_proofs C03_propagate FilterBridge C03_concrete.
Import ListNotations.
Open Scope R_scope.

(* --- 1. the attenuation factor lies in (0, 1] -------------------------------------------- *)
Theorem attenuation_in_unit_interval : forall I, 0 < exp (- Rabs I) <= 1.
Proof. exact exp_neg_abs_unit. Qed.
Print Assumptions attenuation_in_unit_interval.

Theorem attenuation_in_unit_interval_all_tracers :
  (forall p f, 0 < BasicRayTracePath_attenuation p f <= 1) /\
  (forall f beta ice segs, 0 < specialized_attenuation f beta ice segs <= 1) /\
  (forall self f dz points, 0 < uniform_attenuation self f dz points <= 1) /\
  (forall parts, (forall x, In x parts -> 0 < x <= 1) -> 0 < layered_attenuation parts <= 1).
Proof. exact attenuation_in_unit_interval_all_tracers_stmt. Qed.
Print Assumptions attenuation_in_unit_interval_all_tracers.

(* every interpolation step, every grid: linear interpolation cannot leave (0, 1] *)
Theorem interp_bounded : forall xs ys x,
  increasing xs -> length xs = length ys -> ys <> [] -> (forall y, In y ys -> 0 < y <= 1) ->
  0 < np_interp x xs ys <= 1.
Proof. exact np_interp_unit. Qed.
Print Assumptions interp_bounded.

(* --- 2. and does not grow with |f| --------------------------------------------------------- *)
Theorem atten_length_antitone_in_f :
  (forall s z f1 f2, temp_ok z -> 0 < f1 <= f2 ->
     AntarcticIce_attenuation_length s z f2 <= AntarcticIce_attenuation_length s z f1) /\
  (forall s z f1 f2, -100 <= UniformIce_temperature z - zero_Celsius <= 5 -> 0 < f1 <= f2 ->
     UniformIce_attenuation_length s z f2 <= UniformIce_attenuation_length s z f1) /\
  (forall s z f1 f2, f1 <= f2 -> GreenlandIce_attenuation_length s z f2 <= GreenlandIce_attenuation_length s z f1) /\
  (forall s z f1 f2, ArasimIce_attenuation_length s z f1 = ArasimIce_attenuation_length s z f2).
Proof. exact atten_length_antitone_in_f_stmt. Qed.
Print Assumptions atten_length_antitone_in_f.

Theorem attenuation_antitone_in_absf_basic : forall p f1 f2,
  0 < Rabs f1 <= Rabs f2 ->
  (forall z, In z (basic_nodes p) -> 0 < cos (BasicRayTracePath_theta p z) /\ temp_ok z) ->
  BasicRayTracePath_attenuation p f2 <= BasicRayTracePath_attenuation p f1.
Proof. exact basic_attenuation_antitone. Qed.
Print Assumptions attenuation_antitone_in_absf_basic.

Theorem attenuation_depends_on_absf : forall p f, BasicRayTracePath_attenuation p (- f) = BasicRayTracePath_attenuation p f.
Proof. exact basic_attenuation_even. Qed.
Print Assumptions attenuation_depends_on_absf.

Theorem attenuation_antitone_in_absf_uniform : forall self f1 f2 dz points,
  0 < Rabs f1 <= Rabs f2 -> (forall z, -100 <= UniformIce_temperature z - zero_Celsius <= 5) ->
  uniform_attenuation self f2 dz points <= uniform_attenuation self f1 dz points.
Proof. exact uniform_attenuation_antitone. Qed.
Print Assumptions attenuation_antitone_in_absf_uniform.

(* specialized path: the node sums are monotone when increments and weights agree in sign
   (partial: that sign condition for the code's depth grids is a hypothesis) *)
Theorem attenuation_antitone_in_absf_specialized_partial : forall l : list (R * R * R * R),
  same_sign_nodes (map (fun q => (fst (fst (fst q)), snd (fst (fst q)))) l) ->
  (forall q, In q l -> 0 <= snd (fst q) <= snd q) ->
  0 <= trapz_nodes (map (fun q => (fst (fst (fst q)), snd (fst (fst q)) * snd (fst q))) l)
    <= trapz_nodes (map (fun q => (fst (fst (fst q)), snd (fst (fst q)) * snd q)) l).
Proof. exact trapz_nodes_monotone. Qed.
Print Assumptions attenuation_antitone_in_absf_specialized_partial.

(* --- 3. Fresnel coefficients ------------------------------------------------------------------ *)
Theorem fresnel_reflection_le_1 : forall n_1 n_2 cos_1 sin_2,
  0 < n_1 -> 0 < n_2 -> 0 < cos_1 -> 0 <= sin_2 ->
  cabs2 (refl_s n_1 n_2 cos_1 (cos2_of sin_2)) <= 1 /\ cabs2 (refl_p n_1 n_2 cos_1 (cos2_of sin_2)) <= 1 /\
  (1 < sin_2 -> cabs2 (refl_s n_1 n_2 cos_1 (cos2_of sin_2)) = 1 /\ cabs2 (refl_p n_1 n_2 cos_1 (cos2_of sin_2)) = 1).
Proof. exact reflection_le_1. Qed.
Print Assumptions fresnel_reflection_le_1.

Theorem fresnel_basic : forall p,
  let top := snd (Ice_valid_range (Path_ice p)) in
  let n_1 := AntarcticIce_index (Path_ice p) top in
  let n_2 := AntarcticIce_index_above (Path_ice p) in
  let th := BasicRayTracePath_theta p top in
  (basic_reflects p = false -> BasicRayTracePath_fresnel p = (c_one, c_one)) /\
  (0 < n_1 -> 0 < n_2 -> 0 < cos th -> 0 <= sin th ->
   cabs2 (fst (BasicRayTracePath_fresnel p)) <= 1 /\ cabs2 (snd (BasicRayTracePath_fresnel p)) <= 1 /\
   (basic_reflects p = true -> 1 < n_1 / n_2 * sin th ->
      cabs2 (fst (BasicRayTracePath_fresnel p)) = 1 /\ cabs2 (snd (BasicRayTracePath_fresnel p)) = 1)).
Proof. exact fresnel_basic_stmt. Qed.
Print Assumptions fresnel_basic.

Theorem fresnel_uniform : forall self points r,
  0 < UPath_n0 self -> 0 < UniformIce_index_below (UPath_ice self) -> 0 < UniformIce_index_above (UPath_ice self) ->
  (forall p1 p2, In (p1, p2) (cons_pairs points) -> vz p1 <> vz p2) ->
  uniform_fresnel self points = Some r -> cabs2 (fst r) <= 1 /\ cabs2 (snd r) <= 1.
Proof. exact uniform_fresnel_le_1. Qed.
Print Assumptions fresnel_uniform.

Theorem fresnel_layered_reflection : forall n_1 n_2 rz1 f_s f_p, 0 < n_1 -> 0 < n_2 -> -1 <= rz1 <= 1 -> rz1 <> 0 ->
  cabs2 (fst (LayeredRayTracePath_fresnel_reflect n_1 n_2 rz1 f_s f_p)) <= cabs2 f_s /\
  cabs2 (snd (LayeredRayTracePath_fresnel_reflect n_1 n_2 rz1 f_s f_p)) <= cabs2 f_p.
Proof. exact layered_reflect_le. Qed.
Print Assumptions fresnel_layered_reflection.

(* transmission: amplitude at most 1 into an equal or higher index; the power fraction
   (with the factor n_2 cos_2 / (n_1 cos_1)) at most 1 always; the amplitude itself exceeds 1
   into a lower index (refutes the clause for the layered tracer: finding F12b) *)
Theorem fresnel_layered_transmission_partial : forall n_1 n_2 cos_1 sin_1,
  0 < n_1 -> n_1 <= n_2 -> 0 < cos_1 -> 0 <= sin_1 -> cos_1 * cos_1 + sin_1 * sin_1 = 1 ->
  cabs2 (trans_s n_1 n_2 cos_1 (cos2_of (n_1 / n_2 * sin_1))) <= 1 /\
  cabs2 (trans_p n_1 n_2 cos_1 (cos2_of (n_1 / n_2 * sin_1))) <= 1.
Proof. exact transmission_le_1. Qed.
Print Assumptions fresnel_layered_transmission_partial.

Theorem fresnel_transmitted_power_le_1 : forall n_1 n_2 cos_1 c2, 0 < n_1 -> 0 < n_2 -> 0 < cos_1 -> 0 < c2 ->
  (n_2 * c2) / (n_1 * cos_1) * cabs2 (trans_s n_1 n_2 cos_1 (cofR c2)) <= 1 /\
  (n_2 * c2) / (n_1 * cos_1) * cabs2 (trans_p n_1 n_2 cos_1 (cofR c2)) <= 1.
Proof. exact transmission_power_le_1. Qed.
Print Assumptions fresnel_transmitted_power_le_1.

Theorem fresnel_layered_transmission_le_1_refuted :
  exists n_1 n_2 rz1, 0 < n_2 /\ n_2 < n_1 /\ -1 <= rz1 <= 1 /\
  1 < cabs2 (fst (LayeredRayTracePath_fresnel_transmit n_1 n_2 rz1 c_one c_one)).
Proof. exact fresnel_layered_transmission_le_1_refuted_stmt. Qed.
Print Assumptions fresnel_layered_transmission_le_1_refuted.

(* --- 4. propagate: grid, linearity, passivity (C05's filter facts as hypotheses) ------------ *)
Theorem propagate_is_one_construction : forall filt,
  (forall self signal pol fres freqs atten_vals,
     BasicRayTracePath_propagate_both filt self signal pol fres freqs atten_vals
     = propagate_spec filt (Path_emitted_direction self) (Path_received_direction self) (Path_phi self) (Path_tof self) signal pol
         (fun f => cscale (np_interp f freqs atten_vals) (fst fres)) (fun f => cscale (np_interp f freqs atten_vals) (snd fres))) /\
  (forall self signal pol fres att,
     UniformRayTracePath_propagate_both filt self signal pol fres att
     = propagate_spec filt (UPath_emitted_direction self) (UPath_received_direction self) (UPath_phi self) (UPath_tof self) signal pol
         (fun f => cscale (att f) (fst fres)) (fun f => cscale (att f) (snd fres))) /\
  (forall self signal pol fres att,
     LayeredRayTracePath_propagate_both filt self signal pol fres att
     = propagate_spec filt (LPath_emitted_direction self) (LPath_received_direction self) (LPath_phi self) (LPath_tof self) signal pol
         (fun f => cscale (att f) (fst fres)) (fun f => cscale (att f) (snd fres))).
Proof. exact propagate_is_one_construction_stmt. Qed.
Print Assumptions propagate_is_one_construction.

Theorem propagate_grid :
  forall F : list R -> list R -> (R -> R * R) -> bool -> list R,
  (forall times xs g fr, (length times <= 2 * length xs)%nat -> length (F times xs g fr) = length times) ->
  forall e r phi tof Hs Hp signal pol, wf signal ->
  let '((os, op), _) := propagate_spec (sig_filter_F F) e r phi tof signal pol Hs Hp in
  sg_times os = map (fun t => t + tof) (sg_times signal) /\ sg_times op = map (fun t => t + tof) (sg_times signal) /\
  length (sg_values os) = length (sg_times signal) /\ length (sg_values op) = length (sg_times signal).
Proof. exact propagate_grid_stmt. Qed.
Print Assumptions propagate_grid.

Theorem propagate_linear :
  forall F : list R -> list R -> (R -> R * R) -> bool -> list R,
  (forall times xs g fr, (length times <= 2 * length xs)%nat -> length (F times xs g fr) = length times) ->
  (forall times xs ys a b g fr n, length xs = length ys -> length times = length xs -> (n < length times)%nat ->
     nth n (F times (lincomb a b xs ys) g fr) 0 = a * nth n (F times xs g fr) 0 + b * nth n (F times ys g fr) 0) ->
  forall e r phi tof Hs Hp,
  (forall a b x y pol, wf x -> sg_times y = sg_times x -> length (sg_values y) = length (sg_values x) ->
     let sxy := mkSig (sg_times x) (lincomb a b (sg_values x) (sg_values y)) (sg_type x) in
     let '((os, op), _) := propagate_spec (sig_filter_F F) e r phi tof sxy pol Hs Hp in
     let '((xs_, xp_), _) := propagate_spec (sig_filter_F F) e r phi tof x pol Hs Hp in
     let '((ys_, yp_), _) := propagate_spec (sig_filter_F F) e r phi tof y pol Hs Hp in
     sg_values os = lincomb a b (sg_values xs_) (sg_values ys_) /\ sg_values op = lincomb a b (sg_values xp_) (sg_values yp_)) /\
  (forall a b x p q, wf x ->
     let '((os, op), _) := propagate_spec (sig_filter_F F) e r phi tof x (vadd (vscale a p) (vscale b q)) Hs Hp in
     let '((ps_, pp_), _) := propagate_spec (sig_filter_F F) e r phi tof x p Hs Hp in
     let '((qs_, qp_), _) := propagate_spec (sig_filter_F F) e r phi tof x q Hs Hp in
     sg_values os = lincomb a b (sg_values ps_) (sg_values qs_) /\ sg_values op = lincomb a b (sg_values pp_) (sg_values qp_)).
Proof. exact propagate_linear_stmt. Qed.
Print Assumptions propagate_linear.

Theorem propagate_passive :
  forall F : list R -> list R -> (R -> R * R) -> bool -> list R,
  (forall times xs g fr, length times = length xs -> (forall u, cabs (g u) <= 1) -> energy (F times xs g fr) <= energy xs) ->
  forall e r phi tof Hs Hp signal pol, wf signal ->
  (forall u, cabs (Hs u) <= 1) -> (forall u, cabs (Hp u) <= 1) ->
  let '((os, op), _) := propagate_spec (sig_filter_F F) e r phi tof signal pol Hs Hp in
  energy (sg_values os) + energy (sg_values op) <= vdot pol pol * energy (sg_values signal).
Proof. exact propagate_passive_stmt. Qed.
Print Assumptions propagate_passive.

(* the responses the three classes build are within the unit disc when attenuation is in [0,1]
   and the Fresnel factors are *)
Theorem propagate_response_le_1 : forall a z, 0 <= a <= 1 -> cabs2 z <= 1 -> cabs (cscale a z) <= 1.
Proof. exact cabs_cscale_le. Qed.
Print Assumptions propagate_response_le_1.

(* the same without hypotheses: concrete_filter is C05's model of Signal.filter_frequencies (Model/FilterModel.v);
   its length / linearity / passivity are C05's theorems, carried over by Proofs/FilterBridge.v *)
Theorem propagate_grid_linear_passive_concrete : forall e r phi tof Hs Hp,
  (* grid *)
  (forall signal pol, wf signal ->
     let '((os, op), _) := propagate_spec (sig_filter_F concrete_filter) e r phi tof signal pol Hs Hp in
     sg_times os = map (fun t => t + tof) (sg_times signal) /\ sg_times op = map (fun t => t + tof) (sg_times signal) /\
     length (sg_values os) = length (sg_times signal) /\ length (sg_values op) = length (sg_times signal)) /\
  (* linear in the signal *)
  (forall a b x y pol, wf x -> sg_times y = sg_times x -> length (sg_values y) = length (sg_values x) ->
     let sxy := mkSig (sg_times x) (lincomb a b (sg_values x) (sg_values y)) (sg_type x) in
     let '((os, op), _) := propagate_spec (sig_filter_F concrete_filter) e r phi tof sxy pol Hs Hp in
     let '((xs_, xp_), _) := propagate_spec (sig_filter_F concrete_filter) e r phi tof x pol Hs Hp in
     let '((ys_, yp_), _) := propagate_spec (sig_filter_F concrete_filter) e r phi tof y pol Hs Hp in
     sg_values os = lincomb a b (sg_values xs_) (sg_values ys_) /\ sg_values op = lincomb a b (sg_values xp_) (sg_values yp_)) /\
  (* linear in the polarization *)
  (forall a b x p q, wf x ->
     let '((os, op), _) := propagate_spec (sig_filter_F concrete_filter) e r phi tof x (vadd (vscale a p) (vscale b q)) Hs Hp in
     let '((ps_, pp_), _) := propagate_spec (sig_filter_F concrete_filter) e r phi tof x p Hs Hp in
     let '((qs_, qp_), _) := propagate_spec (sig_filter_F concrete_filter) e r phi tof x q Hs Hp in
     sg_values os = lincomb a b (sg_values ps_) (sg_values qs_) /\ sg_values op = lincomb a b (sg_values pp_) (sg_values qp_)) /\
  (* passive *)
  (forall signal pol, wf signal -> (forall u, cabs (Hs u) <= 1) -> (forall u, cabs (Hp u) <= 1) ->
     let '((os, op), _) := propagate_spec (sig_filter_F concrete_filter) e r phi tof signal pol Hs Hp in
     energy (sg_values os) + energy (sg_values op) <= vdot pol pol * energy (sg_values signal)).
Proof. exact propagate_concrete_stmt. Qed.
Print Assumptions propagate_grid_linear_passive_concrete.

(* --- 5. polarization vectors -------------------------------------------------------------------- *)
(* us0 e phi is the s-direction as propagate() builds it: normalize(e x z), and for an exactly
   vertical ray (sin phi, -cos phi, 0) *)
Theorem pol_basis : forall e phi r, vnorm e <> 0 -> vdot r r = 1 -> vdot (us0 e phi) r = 0 ->
  let u_s0 := us0 e phi in
  let u_p0 := vnormalize (vcross u_s0 e) in
  let u_p1 := vnormalize (vcross u_s0 r) in
  vdot u_s0 u_s0 = 1 /\ vdot u_p1 u_p1 = 1 /\ vdot u_s0 u_p1 = 0 /\ vdot u_s0 r = 0 /\ vdot u_p1 r = 0 /\
  (vdot u_p0 u_p0 = 1 /\ vdot u_s0 u_p0 = 0 /\ vdot u_p0 e = 0 /\ vdot u_s0 e = 0).
Proof. exact pol_basis_lemma. Qed.
Print Assumptions pol_basis.

(* the received direction is in the plane of incidence when it has the ray's azimuth *)
Theorem pol_basis_plane_of_incidence : forall e phi r,
  (vnorm (vcross e zhat) <> 0 -> vdot (vcross e zhat) r = 0 -> vdot (us0 e phi) r = 0) /\
  (vnorm (vcross e zhat) = 0 -> vx r * sin phi - vy r * cos phi = 0 -> vdot (us0 e phi) r = 0) /\
  vdot (us0 e phi) (us0 e phi) = 1 /\ vdot (us0 e phi) e = 0.
Proof. exact pol_basis_plane_lemma. Qed.
Print Assumptions pol_basis_plane_of_incidence.

Theorem pol_amplitudes_le_norm : forall e phi p,
  let u_s0 := us0 e phi in
  let u_p0 := vnormalize (vcross u_s0 e) in
  vdot p u_s0 * vdot p u_s0 + vdot p u_p0 * vdot p u_p0 <= vdot p p.
Proof. exact pol_amplitudes_bounded. Qed.
Print Assumptions pol_amplitudes_le_norm.

(* without the vertical-ray case the construction returns zero vectors (design finding F12a,
   repaired in pyrex; the translator refuses a propagate() that lacks the case) *)
Theorem pol_basis_without_vertical_case_refuted : exists e r, vdot e e = 1 /\ vdot r r = 1 /\
  let u_s0 := vnormalize (vcross e zhat) in
  let u_p1 := vnormalize (vcross u_s0 r) in
  u_s0 = (0, 0, 0) /\ u_p1 = (0, 0, 0) /\ vdot u_s0 u_s0 <> 1.
Proof. exact pol_basis_without_vertical_case_refuted_stmt. Qed.
Print Assumptions pol_basis_without_vertical_case_refuted.
