(* The reference Earth density profiles, typed in independently of the pyrex source.

   PREM: A. Dziewonski & D. Anderson, "Preliminary reference Earth model", Phys. Earth
   Planet. Inter. 25 (1981) 297-356, Table I (density in g/cm^3 as a polynomial in the
   normalised radius x = r / 6371 km; radii in km):

      region                      radius (km)          rho
      inner core                  0      - 1221.5      13.0885 - 8.8381 x^2
      outer core                  1221.5 - 3480.0      12.5815 - 1.2638 x - 3.6426 x^2 - 5.5281 x^3
      lower mantle                3480.0 - 5701.0      7.9565 - 6.4761 x + 5.5283 x^2 - 3.0807 x^3
      transition zone             5701.0 - 5771.0      5.3197 - 1.4836 x
                                  5771.0 - 5971.0      11.2494 - 8.0298 x
                                  5971.0 - 6151.0      7.1089 - 3.8045 x
      LVZ + LID                   6151.0 - 6346.6      2.6910 + 0.6924 x
      crust                       6346.6 - 6356.0      2.900
                                  6356.0 - 6368.0      2.600
      ocean                       6368.0 - 6371.0      1.020

   Core-mantle-crust model of AraSim (Earth radius 6378.14 km): core radius sqrt(1.2e13) m
   with 14 g/cm^3, mantle 3.4 g/cm^3 up to 40 km below the surface, crust 2.9 g/cm^3. *)
From Coq Require Import Reals List.
Import ListNotations.
Open Scope R_scope.

(* a shell: lower radius (m, inclusive), upper radius (m, exclusive), cubic coefficients *)
Record shell := mkshell { s_lo : R; s_hi : R; s_c0 : R; s_c1 : R; s_c2 : R; s_c3 : R }.

Definition shell_value (s : shell) (x : R) : R :=
  s_c0 s + s_c1 s * x + s_c2 s * (x * x) + s_c3 s * (x * x * x).

Definition prem_radius : R := 6371 * 1000.

Definition prem_shells : list shell := [
  mkshell 0                (12215 * 100)  (130885 / 10000) 0                  (- 88381 / 10000) 0;
  mkshell (12215 * 100)    (3480 * 1000)  (125815 / 10000) (- 12638 / 10000) (- 36426 / 10000) (- 55281 / 10000);
  mkshell (3480 * 1000)    (5701 * 1000)  (79565 / 10000)  (- 64761 / 10000) (55283 / 10000)   (- 30807 / 10000);
  mkshell (5701 * 1000)    (5771 * 1000)  (53197 / 10000)  (- 14836 / 10000) 0 0;
  mkshell (5771 * 1000)    (5971 * 1000)  (112494 / 10000) (- 80298 / 10000) 0 0;
  mkshell (5971 * 1000)    (6151 * 1000)  (71089 / 10000)  (- 38045 / 10000) 0 0;
  mkshell (6151 * 1000)    (63466 * 100)  (26910 / 10000)  (6924 / 10000)    0 0;
  mkshell (63466 * 100)    (6356 * 1000)  (29 / 10)  0 0 0;
  mkshell (6356 * 1000)    (6368 * 1000)  (26 / 10)  0 0 0;
  mkshell (6368 * 1000)    (6371 * 1000)  (102 / 100) 0 0 0 ].

Definition cmc_radius : R := 6378140.

Definition cmc_shells : list shell := [
  mkshell 0                    (sqrt 12000000000000) 14 0 0 0;
  mkshell (sqrt 12000000000000) (6378140 - 40000)    (34 / 10) 0 0 0;
  mkshell (6378140 - 40000)    6378140               (29 / 10) 0 0 0 ].

(* "The density is the reference value at every radius": inside a shell [lo, hi) it is the
   shell's polynomial in r / earth_radius; below 0 and from the surface outwards it is 0. *)
Definition is_reference_density (radius : R) (shells : list shell) (density : R -> R) : Prop :=
  forall r : R,
    (r < 0 -> density r = 0) /\
    (radius <= r -> density r = 0) /\
    List.Forall (fun s => s_lo s <= r < s_hi s -> density r = shell_value s (r / radius)) shells.

(* the shells tile [0, radius): consecutive, non-empty, starting at 0 and ending at the surface
   (so the three clauses above determine the density at every real radius) *)
Fixpoint tiles (lo hi : R) (shells : list shell) : Prop :=
  match shells with
  | [] => lo = hi
  | s :: rest => s_lo s = lo /\ s_lo s < s_hi s /\ tiles (s_hi s) hi rest
  end.
