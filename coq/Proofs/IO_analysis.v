(* The analysis pass (create_analysis_dataset / add_analysis_indices in a mode='a' session) as
   operations of the state machine: it leaves the writer's tables and index rows alone, keeps the
   file readable, and its entries (any subset of the events, any order, rewritten or not) are what
   every access path returns for the analysis dataset. *)
From Coq Require Import List ZArith Bool Lia.
From PyrexLib Require Import IOLists.
From PyrexModel Require Import IOModel.
From PyrexProofs Require Import IO_writer IO_reader C11_proofs C12_proofs.
Import ListNotations.
Open Scope Z_scope.

(* each add_analysis_indices call names an existing event and rows inside the dataset *)
Fixpoint aops_ok (st : wstate) (xs : list aop) : Prop :=
  match xs with
  | [] => True
  | x :: rest =>
    match x with
    | ACreate _ => True
    | AIndex gi s l => 0 <= gi < n_events st /\ 0 <= s /\ 0 <= l /\
                       (a_ex (ana st) = true -> s + l <= zlen (a_rows (ana st)))
    end /\ aops_ok (ana_step st x) rest
  end.

Definition ana_wf (st : wstate) : Prop := ana_ok st /\ (a_ex (ana st) = false -> a_ent (ana st) = []).

Definition same_tables (st st' : wstate) : Prop :=
  rowsOf st' = rowsOf st /\ cntOf st' = cntOf st /\ exOf st' = exOf st /\ cols st' = cols st /\
  idx st' = idx st /\ nidx st' = nidx st /\ thrown st' = thrown st.

Lemma same_tables_refl : forall st, same_tables st st.
Proof. intro. repeat split. Qed.
Lemma same_tables_trans : forall a b c, same_tables a b -> same_tables b c -> same_tables a c.
Proof. intros a b c [A1 [A2 [A3 [A4 [A5 [A6 A7]]]]]] [B1 [B2 [B3 [B4 [B5 [B6 B7]]]]]]. repeat split; congruence. Qed.

Lemma inv_frame : forall st st', same_tables st st' -> inv st -> inv st'.
Proof.
  intros st st' [A1 [A2 [A3 [A4 [A5 [A6 A7]]]]]] I. destruct I.
  constructor; unfold rows, cnt, ex, hascol in *; rewrite ?A1, ?A2, ?A3, ?A4, ?A5, ?A6, ?A7; auto.
Qed.

Lemma ana_step_frame : forall st x,
  match x with AIndex gi _ _ => gi < n_events st | _ => True end -> same_tables st (ana_step st x).
Proof.
  intros st x H. destruct x as [r|gi s l]; simpl.
  - destruct (a_ex (ana st)); repeat split.
  - destruct (a_ex (ana st)); simpl; [| repeat split]. unfold n_events in H.
    destruct (zlen (idx st) <=? gi) eqn:E; [lia|]. repeat split.
Qed.

Lemma ana_step_wf : forall st x, ana_wf st ->
  match x with
  | AIndex gi s l => 0 <= s /\ 0 <= l /\ (a_ex (ana st) = true -> s + l <= zlen (a_rows (ana st)))
  | _ => True end -> ana_wf (ana_step st x).
Proof.
  intros st x [Hok Hnil] H. destruct x as [r|gi s l]; simpl.
  - destruct (a_ex (ana st)) eqn:E; [split; [auto | intro H0; rewrite E in H0; discriminate]|]. split; simpl.
    + unfold ana_ok. simpl. rewrite (Hnil eq_refl). intros e [].
    + discriminate.
  - destruct (a_ex (ana st)) eqn:E; simpl; [| split; auto].
    destruct H as [H1 [H2 H3]]. split; [| simpl; discriminate].
    unfold ana_ok. simpl. intros e [He|Hin]; [subst e; simpl; specialize (H3 eq_refl); lia | apply Hok; exact Hin].
Qed.

Lemma ana_apply_spec : forall xs st, ana_wf st -> aops_ok st xs ->
  same_tables st (ana_apply st xs) /\ ana_wf (ana_apply st xs).
Proof.
  induction xs as [|x r IH]; intros st Hwf Hok; simpl.
  - split; [apply same_tables_refl | exact Hwf].
  - destruct Hok as [Hx Hr].
    assert (Hf : same_tables st (ana_step st x)) by (apply ana_step_frame; destruct x; auto; lia).
    assert (Hw : ana_wf (ana_step st x)) by (apply ana_step_wf; auto; destruct x; auto; tauto).
    destruct (IH _ Hw Hr) as [A B]. split; [eapply same_tables_trans; eauto | exact B].
Qed.

Lemma read_obs_frame : forall st st' i, same_tables st st' -> read_obs st' i = read_obs st i.
Proof.
  intros st st' i [A1 [A2 [A3 [A4 [A5 [A6 A7]]]]]]. unfold read_obs. apply per_ext. intro t.
  rewrite !get_per_map. unfold avail, read_event. rewrite A1, A3, A5. reflexivity.
Qed.

(* an analysis pass on a readable file gives a readable file with the same events in the six
   writer tables; the analysis entries are in bounds, so every access-path theorem applies *)
Theorem analysis_pass_lemma : forall st xs, readable st -> ana_wf st -> aops_ok st xs ->
  readable (ana_apply st xs) /\ n_events (ana_apply st xs) = n_events st /\
  (forall i, read_obs (ana_apply st xs) i = read_obs st i).
Proof.
  intros st xs [I [_ [HP [HT Hn]]]] Hwf Hok.
  destruct (ana_apply_spec xs st Hwf Hok) as [Hf [Hok' _]].
  pose proof Hf as [A1 [A2 [A3 [A4 [A5 [A6 A7]]]]]].
  split; [| split].
  - split; [apply (inv_frame _ _ Hf I)|]. split; [exact Hok'|]. unfold ex, n_events. rewrite A3, A5, A7. auto.
  - unfold n_events. rewrite A5. reflexivity.
  - intro i. apply read_obs_frame. exact Hf.
Qed.

(* what an index entry does: event gi now owns rows [s, s+l) of the analysis dataset; every
   other event keeps what it had (the (0,0) cell if it never got an entry) *)
Theorem analysis_index_lemma : forall st gi s l i, a_ex (ana st) = true ->
  acell (ana_step st (AIndex gi s l)) i = (if i =? gi then (s, l) else acell st i) /\
  a_rows (ana (ana_step st (AIndex gi s l))) = a_rows (ana st) /\
  a_col (ana (ana_step st (AIndex gi s l))) = true.
Proof.
  intros st gi s l i He. unfold acell. simpl. rewrite He. simpl.
  rewrite (Z.eqb_sym gi i). destruct (i =? gi); auto.
Qed.

(* files produced by the writer have no analysis dataset yet: any well-formed pass applies *)
Lemma run_ana_wf : forall o d hd ops, records_particles o = true -> ana_wf (run o d hd ops).
Proof.
  intros o d hd ops Hrp. unfold run. fold (run_from o d hd init_state ops).
  unfold ana_wf, ana_ok. rewrite (ana_run_from o d hd ops init_state Hrp inv_init). simpl. split; [intros e [] | reflexivity].
Qed.

(* non-vacuity: entries for events 2 and 0 (in that order, blocks in reverse order), event 1 none *)
Definition exA_aops : list aop := [ACreate [[7; 0]; [1; 0]; [1; 1]; [3; 0]]; AIndex 2 3 1; AIndex 0 1 2].
Example exA_ok : aops_ok (run ex12_opts 2 true ex12_ops) exA_aops.
Proof. vm_compute. repeat split; discriminate || auto. Qed.
Example exA_read : map (read_ana (ana_apply (run ex12_opts 2 true ex12_ops) exA_aops)) [0; 1; 2; 3] =
  [Rows [[1; 0]; [1; 1]]; Rows []; Rows [[3; 0]]; Rows []].
Proof. vm_compute. reflexivity. Qed.
