(* Primitives used by Gen_particle.v (generated from pyrex/particle.py) and by the hand model
   of the secondary generation: the bounded retry loop and numpy.interp / numpy.linspace. *)
From Coq Require Import Reals List Bool ZArith Lra Lia Psatz.
From PyrexLib Require Import RealPrims.
Import ListNotations.
Open Scope R_scope.

(* loop_counter = 0
   while loop_counter<n: loop_counter += 1; <body: `return v` = Some v, falling through = None>
   (falling off the loop = None: the Python function then returns None) *)
Fixpoint retry_loop {A} (n : nat) (i : nat) (body : nat -> option A) : option A :=
  match n with
  | O => None
  | S n' => match body i with Some r => Some r | None => retry_loop n' (S i) body end
  end.

Lemma retry_loop_some {A} (P : A -> Prop) n i (body : nat -> option A) r :
  (forall j v, body j = Some v -> P v) -> retry_loop n i body = Some r -> P r.
Proof.
  intros H. revert i. induction n as [|n IH]; simpl; intros i E. { discriminate. }
  destruct (body i) eqn:B.
  - inversion E; subst. eapply H; eassumption.
  - eapply IH; eassumption.
Qed.

Lemma retry_loop_first {A} n (body : nat -> option A) v : body 0%nat = Some v -> retry_loop (S n) 0 body = Some v.
Proof. intros H. simpl. rewrite H. reflexivity. Qed.

(* random streams for functions with data-dependent loops: numpy.random.rand() takes the next
   element of `us`, numpy.random.poisson(lam) the next element of `ns` (0 when exhausted) *)
Definition draw (us : list R) : R * list R :=
  match us with u :: t => (u, t) | [] => (0, []) end.
Definition draw_poisson (lam : R) (ns : list Z) : Z * list Z :=
  match ns with n :: t => (n, t) | [] => (0%Z, []) end.

(* for _ in range(n): state = body(state) *)
Fixpoint for_range {St} (n : nat) (body : St -> St) (s : St) : St :=
  match n with O => s | S n' => for_range n' body (body s) end.

Lemma for_range_inv {St} (P : St -> Prop) n (body : St -> St) s :
  (forall x, P x -> P (body x)) -> P s -> P (for_range n body s).
Proof. intros H. revert s. induction n as [|n IH]; intros s Hs; simpl; auto. Qed.

(* numpy.interp(x, xp, fp) for non-decreasing xp, as numpy computes it: fp[0] left of the
   table, fp[-1] right of it, otherwise with j the LARGEST index such that xp[j] <= x:
   (fp[j+1]-fp[j])/(xp[j+1]-xp[j])*(x-xp[j]) + fp[j]   (at a repeated knot the last copy counts). *)
Fixpoint interp_scan (xs ys : list R) (x : R) : R :=
  match xs, ys with
  | x0 :: ((x1 :: _) as xs'), y0 :: ((y1 :: _) as ys') =>
      if Rleb x1 x then interp_scan xs' ys' x
      else (y1 - y0) / (x1 - x0) * (x - x0) + y0
  | _, y0 :: _ => y0
  | _, _ => 0
  end.

Definition np_interp_last (x : R) (xs ys : list R) : R :=
  match xs, ys with
  | x0 :: _, y0 :: _ => if Rltb x x0 then y0 else interp_scan xs ys x
  | _, _ => 0
  end.

(* numpy.linspace(0, 1, n) *)
Definition linspace01 (n : nat) : list R :=
  map (fun i => INR i / INR (n - 1)) (seq 0 n).

Lemma interp_scan_cons2 x0 x1 xs y0 y1 ys x :
  interp_scan (x0 :: x1 :: xs) (y0 :: y1 :: ys) x =
  if Rleb x1 x then interp_scan (x1 :: xs) (y1 :: ys) x else (y1 - y0) / (x1 - x0) * (x - x0) + y0.
Proof. reflexivity. Qed.

Definition in_unit (y : R) : Prop := 0 <= y <= 1.

Lemma interp_scan_unit xs : forall ys x,
  List.Forall in_unit ys -> (match xs with x0 :: _ => x0 <= x | [] => True end) ->
  in_unit (interp_scan xs ys x).
Proof.
  induction xs as [|x0 xs IH]; intros ys x Hy Hx.
  - destruct ys as [|y0 ys]; simpl; [unfold in_unit; lra|]. inversion Hy; assumption.
  - destruct ys as [|y0 ys]. { simpl. destruct xs; unfold in_unit; lra. }
    inversion Hy as [|? ? Hy0 Hys]; subst.
    destruct xs as [|x1 xs']. { simpl. assumption. }
    destruct ys as [|y1 ys']. { simpl. assumption. }
    rewrite interp_scan_cons2.
    destruct (Rleb x1 x) eqn:E.
    + apply Rleb_true in E. apply IH; assumption.
    + apply Rleb_false in E. inversion Hys as [|? ? Hy1 _]; subst.
      unfold in_unit in *. simpl in Hx.
      assert (Hd : 0 < x1 - x0) by lra.
      set (t := (x - x0) / (x1 - x0)).
      assert (Ht0 : 0 <= t). { unfold t. apply Rmult_le_pos; [lra|]. left. apply Rinv_0_lt_compat. assumption. }
      assert (Ht1 : t <= 1). { unfold t. apply (Rmult_le_reg_r (x1 - x0)); [assumption|]. unfold Rdiv. rewrite Rmult_assoc, Rinv_l by lra. lra. }
      replace ((y1 - y0) / (x1 - x0) * (x - x0) + y0) with (y0 + t * (y1 - y0)) by (unfold t; field; lra).
      split; nra.
Qed.

Lemma np_interp_last_unit x xs ys : List.Forall in_unit ys -> in_unit (np_interp_last x xs ys).
Proof.
  intros Hy. unfold np_interp_last. destruct xs as [|x0 xs]. { unfold in_unit; lra. }
  destruct ys as [|y0 ys]. { unfold in_unit; lra. }
  destruct (Rltb x x0) eqn:E.
  - inversion Hy; assumption.
  - apply Rltb_false in E. apply interp_scan_unit; assumption.
Qed.

Lemma linspace01_unit n : List.Forall in_unit (linspace01 n).
Proof.
  unfold linspace01. apply Forall_forall. intros y Hy. apply in_map_iff in Hy.
  destruct Hy as [i [E Hi]]. apply in_seq in Hi. subst y. unfold in_unit.
  destruct (Nat.eq_dec (n - 1) 0) as [Z|NZ].
  - assert (i = 0%nat) by lia. subst. simpl. unfold Rdiv. rewrite Rmult_0_l. lra.
  - assert (Hn : 0 < INR (n - 1)) by (apply lt_0_INR; lia).
    assert (Hi' : INR i <= INR (n - 1)) by (apply le_INR; lia).
    assert (0 <= INR i) by apply pos_INR.
    split.
    + apply Rmult_le_pos; [assumption|]. left. apply Rinv_0_lt_compat. assumption.
    + apply (Rmult_le_reg_r (INR (n - 1))); [assumption|]. unfold Rdiv. rewrite Rmult_assoc, Rinv_l by lra. lra.
Qed.
